// mutgen lists mechanical mutations of a Go source tree as JSON lines
// {"file":..., "start":..., "end":..., "repl":..., "op":..., "line":...}: operator swaps, literal changes,
// negated conditions, deleted statements. Used by tools/mutation_run.py to measure which mechanical changes that
// survive the project's own tests are detected by the checks.
package main

import (
	"encoding/json"
	"fmt"
	"go/ast"
	"go/parser"
	"go/scanner"
	"go/token"
	"os"
	"path/filepath"
	"strings"
)

type Mut struct {
	File  string `json:"file"`
	Start int    `json:"start"`
	End   int    `json:"end"`
	Repl  string `json:"repl"`
	Op    string `json:"op"`
	Line  int    `json:"line"`
}

var swaps = map[token.Token]string{
	token.EQL: "!=", token.NEQ: "==", token.LSS: "<=", token.LEQ: "<", token.GTR: ">=", token.GEQ: ">",
	token.LAND: "||", token.LOR: "&&", token.ADD: "-", token.SUB: "+", token.INC: "--", token.DEC: "++",
}

func main() {
	root := os.Args[1]
	enc := json.NewEncoder(os.Stdout)
	for _, rel := range os.Args[2:] {
		path := filepath.Join(root, rel)
		src, err := os.ReadFile(path)
		if err != nil {
			fmt.Fprintln(os.Stderr, err)
			continue
		}
		fset := token.NewFileSet()
		file := fset.AddFile(path, -1, len(src))
		var s scanner.Scanner
		s.Init(file, src, nil, 0)
		for {
			pos, tok, lit := s.Scan()
			if tok == token.EOF {
				break
			}
			off := file.Offset(pos)
			line := file.Line(pos)
			if r, ok := swaps[tok]; ok {
				enc.Encode(Mut{rel, off, off + len(tok.String()), r, "swap " + tok.String(), line})
			}
			if tok == token.NOT {
				enc.Encode(Mut{rel, off, off + 1, "", "drop !", line})
			}
			if tok == token.INT && (lit == "0" || lit == "1" || lit == "2" || lit == "4") {
				n := map[string]string{"0": "1", "1": "0", "2": "3", "4": "3"}[lit]
				enc.Encode(Mut{rel, off, off + len(lit), n, "int " + lit, line})
			}
			if tok == token.IDENT && (lit == "true" || lit == "false") {
				n := map[string]string{"true": "false", "false": "true"}[lit]
				enc.Encode(Mut{rel, off, off + len(lit), n, "bool " + lit, line})
			}
			if tok == token.BREAK {
				enc.Encode(Mut{rel, off, off + 5, "continue", "break->continue", line})
			}
		}
		f2 := token.NewFileSet()
		af, err := parser.ParseFile(f2, path, src, 0)
		if err != nil {
			continue
		}
		ast.Inspect(af, func(n ast.Node) bool {
			switch x := n.(type) {
			case *ast.IfStmt:
				a, b := f2.Position(x.Cond.Pos()).Offset, f2.Position(x.Cond.End()).Offset
				enc.Encode(Mut{rel, a, b, "!(" + string(src[a:b]) + ")", "negate if", f2.Position(x.Pos()).Line})
			case *ast.BlockStmt:
				for _, st := range x.List {
					switch st.(type) {
					case *ast.ExprStmt, *ast.IncDecStmt:
						a, b := f2.Position(st.Pos()).Offset, f2.Position(st.End()).Offset
						if !strings.Contains(string(src[a:b]), "\n") {
							enc.Encode(Mut{rel, a, b, "", "delete stmt", f2.Position(st.Pos()).Line})
						}
					case *ast.AssignStmt:
						as := st.(*ast.AssignStmt)
						if as.Tok != token.DEFINE {
							a, b := f2.Position(st.Pos()).Offset, f2.Position(st.End()).Offset
							if !strings.Contains(string(src[a:b]), "\n") {
								enc.Encode(Mut{rel, a, b, "", "delete assign", f2.Position(st.Pos()).Line})
							}
						}
					}
				}
			}
			return true
		})
	}
}
