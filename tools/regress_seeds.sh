#!/bin/bash
# tools/regress_seeds.sh [<verif-copy>] — re-validate that every stored seeded change is (still) detected.
# Works on a COPY of /verif (default: a fresh rsync to /root/work/seedverif) and a scratch worktree of /repo
# (TPL_REPO), so neither /verif's evidence nor /repo is touched. Prints one line per seed:
#   DETECTED <seed> <first VIOLATION line> | MISSED <seed> | NOAPPLY <seed> (the patch no longer applies to /repo HEAD)
set -u
V=${1:-/root/work/seedverif}
R=/tmp/seedrepo
export GOFLAGS=-mod=mod GOPROXY=off GOSUMDB=off GOTOOLCHAIN=local
if [ ! -d "$V" ]; then mkdir -p "$V"; rsync -a --exclude .git --exclude .work --exclude replay /verif/ "$V"/; fi
git -C /repo worktree prune; rm -rf $R; git -C /repo worktree add --detach $R HEAD -q || exit 2
trap 'git -C /repo worktree remove --force $R 2>/dev/null' EXIT
cd "$V"
for d in /verif/seeded/C*; do
  s=$(basename $d); pid=${s%%-*}
  git -C $R checkout -q -- . ; git -C $R clean -fdq
  if ! git -C $R apply $d/patch.diff 2>/dev/null; then echo "NOAPPLY $s"; continue; fi
  out=$(TPL_REPO=$R ./check $pid 2>/dev/null | grep -E "^VIOLATION" | head -1)
  if [ -n "$out" ]; then echo "DETECTED $s ${out:0:110}"; else echo "MISSED $s"; fi
done
git -C $R checkout -q -- .
