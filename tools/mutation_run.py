#!/usr/bin/env python3
"""Mechanical mutation campaign: which small mechanical changes of pub-go/tpl that survive the project's own tests are
detected by the checks?

usage: tools/mutation_run.py <verif-copy> <scratch-repo> <n> [seed]
  <verif-copy>    a copy of /verif with everything built (the campaign runs ITS ./check with TPL_REPO=<scratch-repo>,
                  so /verif itself and /repo are not touched)
  <scratch-repo>  a scratch git worktree of /repo (outside /repo and /verif)
  <n>             number of mutants to try (sampled deterministically from tools/mutgen's list)
Writes <verif-copy>/mutation_results.jsonl (one line per mutant) and prints a summary.
"""
import sys, os, json, subprocess, random, time

vcopy, repo, n = sys.argv[1], sys.argv[2], int(sys.argv[3])
seed = int(sys.argv[4]) if len(sys.argv) > 4 else 1
ENV = dict(os.environ, GOFLAGS="-mod=mod", GOPROXY="off", GOSUMDB="off", GOTOOLCHAIN="local", TPL_REPO=repo)

CHECKS = [
    ("html/scan_code.go", ["C17", "C10", "C14", "C08"]),
    ("html/scan_", ["C17", "C01", "C10", "C08"]),
    ("html/token.go", ["C17", "C01"]),
    ("html/parser.go", ["C01", "C03", "C05", "C04"]),
    ("html/node.go", ["C03", "C04", "C05", "C07"]),
    ("html/tag.go", ["C05", "C03", "C01", "C15"]),
    ("html/consts.go", ["C05", "C03"]),
    ("html/tag_attr.go", ["C02", "C06", "C12", "C16", "C14"]),
    ("html/template.go", ["C03", "C04", "C05", "C07", "C02", "C06", "C12", "C16", "C01", "C08"]),
    ("html/manager.go", ["C07", "C19", "C01", "C05", "C15"]),
    ("exp/", ["C09", "C11", "C13", "C12", "C14", "C10", "C06"]),
    ("render.go", ["C18"]),
    ("cmd/xtpl/", ["C20"]),
]


def checks_for(f):
    for pre, cs in CHECKS:
        if f.startswith(pre):
            return cs
    return []


def sh(cmd, cwd, timeout):
    try:
        p = subprocess.run(cmd, cwd=cwd, env=ENV, stdout=subprocess.PIPE, stderr=subprocess.STDOUT, text=True, errors="replace", timeout=timeout)
        return p.returncode, p.stdout
    except subprocess.TimeoutExpired:
        return 124, "timeout"


files = subprocess.run(["git", "-C", repo, "ls-files", "*.go"], stdout=subprocess.PIPE, text=True).stdout.split()
files = [f for f in files if not f.endswith("_test.go") and "verif_hooks" not in f and not f.startswith("exp/parser/") and not f.startswith("example")]
out = subprocess.run(["go", "run", ".", repo] + files, cwd=os.path.join(vcopy, "tools", "mutgen"), env=ENV, stdout=subprocess.PIPE, text=True).stdout
muts = [json.loads(l) for l in out.splitlines() if l.strip()]
random.Random(seed).shuffle(muts)
res_path = os.path.join(vcopy, "mutation_results.jsonl")
done = set()
if os.path.exists(res_path):
    for l in open(res_path):
        d = json.loads(l)
        done.add((d["file"], d["start"], d["op"]))
tried = 0
for m in muts:
    if tried >= n:
        break
    key = (m["file"], m["start"], m["op"])
    if key in done:
        continue
    tried += 1
    path = os.path.join(repo, m["file"])
    orig = open(path, "rb").read()
    open(path, "wb").write(orig[:m["start"]] + m["repl"].encode() + orig[m["end"]:])
    rec = dict(m, status="?", detected_by=None, t=time.strftime("%H:%M:%S"))
    try:
        if m["file"].startswith("cmd/xtpl/"):
            rc, o = sh(["go", "vet", "./..."], os.path.join(repo, "cmd", "xtpl"), 300)
            if rc == 0:
                rc, o = sh(["go", "build", "-o", "/dev/null", "."], os.path.join(repo, "cmd", "xtpl"), 300)
        else:
            rc, o = sh(["go", "build", "./..."], repo, 300)
        if rc != 0:
            rec["status"] = "stillborn"
        else:
            rc, o = sh(["go", "test", "-count=1", "-timeout", "120s", "./..."], repo, 200)
            if rc != 0:
                rec["status"] = "killed-by-existing-tests"
            else:
                rec["status"] = "survived"
                for c in checks_for(m["file"]):
                    rc, o = sh(["./check", c], vcopy, 1500)
                    if rc != 0 or "VIOLATION" in o:
                        rec["status"] = "detected"
                        rec["detected_by"] = c
                        vl = [l for l in o.splitlines() if l.startswith("VIOLATION")]
                        rec["how"] = (vl[0] if vl else o[-200:])[:200]
                        break
    finally:
        open(path, "wb").write(orig)
    with open(res_path, "a") as f:
        f.write(json.dumps(rec) + "\n")
    print(rec["status"], rec.get("detected_by") or "", m["file"], m["line"], m["op"], flush=True)
# summary
from collections import Counter
c = Counter()
for l in open(res_path):
    c[json.loads(l)["status"]] += 1
print("SUMMARY", dict(c))
