#!/bin/bash
# usage: tools/try_seed.sh <patch.diff> <PROP> [<PROP>...]  — apply a seeded change to /repo, run the checks, undo it.
set -u
patch=$1; shift
cd /verif
git -C /repo apply "$patch" || { echo "PATCH DOES NOT APPLY"; exit 2; }
trap 'git -C /repo checkout -- . ; git -C /repo clean -fdq -e cmd/xtpl/xtpl >/dev/null 2>&1' EXIT
for p in "$@"; do
  out=$(./check $p 2>/dev/null | grep -E "^(VIOLATION|OK|KNOWN)" | head -3)
  echo "$p: $out"
done
