#!/bin/bash
# usage: [MUT=/tmp/mut2] tools/confirm_seed.sh <ID>   — confirm a seeded change in a scratch worktree of /repo:
#   builds, existing tests pass WITH the change, the demonstration fails WITH and passes WITHOUT it.
set -u
id=$1
src=${MUT:-/tmp/mut}/$id.out
wt=/tmp/confirm/$id
mkdir -p /tmp/confirm
export GOFLAGS=-mod=mod GOPROXY=off GOSUMDB=off GOTOOLCHAIN=local
rm -rf $wt; git -C /repo worktree prune; git -C /repo worktree add --detach $wt HEAD -q || exit 2
cleanup() { git -C /repo worktree remove --force $wt 2>/dev/null; }
trap cleanup EXIT
cd $wt
git apply $src/patch.diff || { echo "RESULT $id: patch does not apply to HEAD"; exit 1; }
go build ./... >/dev/null 2>&1 || { echo "RESULT $id: does not build"; exit 1; }
if go test -count=1 ./... >/tmp/confirm/$id.tests.log 2>&1; then t1=pass; else t1=FAIL; fi
demo=$(ls $src/demo_test.go 2>/dev/null)
if [ -z "$demo" ]; then echo "RESULT $id: tests-with-change=$t1 (no demo_test.go: check manually)"; exit 0; fi
pkg=$(grep -m1 '^package ' $demo | awk '{print $2}')
case $pkg in html|html_test) dir=html;; exp|exp_test) dir=exp;; tpl|tpl_test) dir=.;; main|main_test) dir=cmd/xtpl;; *) dir=.;; esac
cp $demo $dir/zz_demo_test.go
if [ $dir = cmd/xtpl ]; then
  # cmd/xtpl is a module of its own: run the demo from inside it, with and without the change
  if (cd $dir && go test -count=1 -run . . >/tmp/confirm/$id.demo_with.log 2>&1); then d1=pass; else d1=fail; fi
  git apply -R $src/patch.diff
  if (cd $dir && go test -count=1 -run . . >/tmp/confirm/$id.demo_without.log 2>&1); then d2=pass; else d2=fail; fi
  echo "RESULT $id: existing-tests-with-change=$t1 demo-with-change=$d1 (race:-) demo-without-change=$d2 (race:-) [demo in $dir/]"
  exit 0
fi
if go test -count=1 -run . ./$dir >/tmp/confirm/$id.demo_with.log 2>&1; then d1=pass; else d1=fail; fi
if [ "$id" = "C15" ] || [ "$id" = "C18" ]; then if go test -race -count=1 ./$dir >/tmp/confirm/$id.demo_with_race.log 2>&1; then d1r=pass; else d1r=fail; fi; else d1r=-; fi
git apply -R $src/patch.diff
if go test -count=1 -run . ./$dir >/tmp/confirm/$id.demo_without.log 2>&1; then d2=pass; else d2=fail; fi
if [ "$id" = "C15" ] || [ "$id" = "C18" ]; then if go test -race -count=1 ./$dir >/tmp/confirm/$id.demo_without_race.log 2>&1; then d2r=pass; else d2r=fail; fi; else d2r=-; fi
echo "RESULT $id: existing-tests-with-change=$t1 demo-with-change=$d1 (race:$d1r) demo-without-change=$d2 (race:$d2r) [demo in $dir/]"
