#!/bin/bash
# usage: MUT=/tmp/mut2 SUF=-2 tools/seed_round.sh <ID> <PROP> [<PROP>...]
#   confirm a sub-agent's change in a scratch worktree, run the named checks against it (applied to /repo, then undone),
#   and store it under seeded/<ID><SUF>/ with the outcome in meta.json.
set -u
id=$1; shift
MUT=${MUT:-/tmp/mut2}; SUF=${SUF:--2}
cd /verif
conf=$(MUT=$MUT tools/confirm_seed.sh $id | tail -1)
echo "$conf"
res=$(tools/try_seed.sh $MUT/$id.out/patch.diff "$@")
echo "$res"
d=seeded/$id$SUF; mkdir -p $d
cp $MUT/$id.out/patch.diff $d/patch.diff
[ -f $MUT/$id.out/demo_test.go ] && cp $MUT/$id.out/demo_test.go $d/demo_test.go.txt
[ -f $MUT/$id.out/notes.md ] && cp $MUT/$id.out/notes.md $d/notes.md
python3 - "$id" "$conf" "$res" > $d/meta.json <<'PY'
import sys, json
id_, conf, res = sys.argv[1:4]
print(json.dumps({"property": id_, "round": 2, "confirmation": conf, "checks": res.splitlines()}, indent=1))
PY
