#!/bin/bash
# usage: tools/seed_prepare.sh <N> <ID>...   — scratch worktrees /tmp/mut<N>/<ID> of /repo HEAD and, per property, the files a
# seeding sub-agent gets: PROPERTY.txt (title, statement, quantifier), AVOID.txt (earlier seeded changes), PROMPT.txt
set -eu
n=$1; shift
mkdir -p /tmp/mut$n
for p in "$@"; do
  git -C /repo worktree add -q --detach /tmp/mut$n/$p HEAD; mkdir -p /tmp/mut$n/$p.out
  python3 - $p $n <<'PY'
import json,sys,glob,os
p,n=sys.argv[1],sys.argv[2]
props={json.loads(l)["id"]:json.loads(l) for l in open('/verif/properties.jsonl')}
pr=props[p]
out=f'/tmp/mut{n}/{p}.out'
open(out+'/PROPERTY.txt','w').write(f'{pr["title"]}\n\n{pr["statement"]}\n\nQuantified over: {pr["quantifier"]["text"]}\n')
av=[]
for d in sorted(glob.glob(f'/verif/seeded/{p}*')):
    try: m=json.load(open(d+'/meta.json'))
    except Exception: continue
    chg=m.get("change")
    if not chg and os.path.exists(d+'/notes.md'): chg=open(d+'/notes.md').read()[:500]
    diff=open(d+'/patch.diff').read()
    files=sorted({l.split()[-1][2:] for l in diff.splitlines() if l.startswith('+++ ')})
    av.append(f"An earlier seeded change for this property touched {', '.join(files)}: {chg}\n")
av.append("Choose a DIFFERENT clause of the property and a different mechanism (a different function, preferably a different file) from all of the above.\n")
open(out+'/AVOID.txt','w').write("\n".join(av))
t=open('/verif/tools/seed_prompt_template.txt').read().replace('/tmp/mut8/C01',f'/tmp/mut{n}/'+p).replace('mut8','mut'+n)
open(out+'/PROMPT.txt','w').write(t)
PY
done
