#!/usr/bin/env python3
"""Re-test the mutants recorded as 'survived' in <verif-copy>/mutation_results.jsonl against the CURRENT checks
(after generators/oracles were extended) and an extended file->check mapping.

usage: tools/mutation_retest.py <verif-copy> <scratch-repo> <base-commit>
  <base-commit>  the commit the recorded byte offsets refer to; a mutant is re-located in <scratch-repo> by line/column.
Rewrites the results file in place (status 'survived' -> 'detected-after-extension' where a check now alarms)."""
import sys, os, json, subprocess

vcopy, repo, base = sys.argv[1:4]
ENV = dict(os.environ, GOFLAGS="-mod=mod", GOPROXY="off", GOSUMDB="off", GOTOOLCHAIN="local", TPL_REPO=repo)
EXTRA = {"html/scan_html.go": ["C15", "C17", "C01", "C10", "C08"], "html/tag.go": ["C15"], "cmd/xtpl/": ["C20"],
         "exp/scope.go": ["C09", "C13", "C12"], "exp/parser.go": ["C10", "C09"], "html/template.go": ["C04", "C03", "C06", "C16", "C05", "C07"]}
sys.path.insert(0, os.path.dirname(os.path.abspath(__file__)))


def sh(cmd, cwd, timeout):
    try:
        p = subprocess.run(cmd, cwd=cwd, env=ENV, stdout=subprocess.PIPE, stderr=subprocess.STDOUT, text=True, errors="replace", timeout=timeout)
        return p.returncode, p.stdout
    except subprocess.TimeoutExpired:
        return 124, "timeout"


CHECKS = [("html/scan_code.go", ["C17", "C10", "C14", "C08"]), ("html/scan_", ["C17", "C01", "C10", "C08"]),
          ("html/token.go", ["C17", "C01"]), ("html/parser.go", ["C01", "C03", "C05", "C04"]),
          ("html/node.go", ["C03", "C04", "C05", "C07"]), ("html/tag.go", ["C05", "C03", "C01", "C15"]),
          ("html/consts.go", ["C05", "C03"]), ("html/tag_attr.go", ["C02", "C06", "C12", "C16", "C14"]),
          ("html/template.go", ["C03", "C04", "C05", "C07", "C02", "C06", "C12", "C16", "C01", "C08"]),
          ("html/manager.go", ["C07", "C19", "C01", "C05", "C15"]),
          ("exp/", ["C09", "C11", "C13", "C12", "C14", "C10", "C06"]), ("render.go", ["C18"]), ("cmd/xtpl/", ["C20"])]


def checks_for(f):
    cs = []
    for pre, c in EXTRA.items():
        if f.startswith(pre):
            cs += c
    for pre, c in CHECKS:
        if f.startswith(pre):
            cs += [x for x in c if x not in cs]
            break
    return cs


path = os.path.join(vcopy, "mutation_results.jsonl")
recs = [json.loads(l) for l in open(path)]
for rec in recs:
    if rec["status"] != "survived" or (rec.get("retested") and rec["retested"] != "not relocatable"):
        continue
    old = subprocess.run(["git", "-C", repo, "show", base + ":" + rec["file"]], stdout=subprocess.PIPE).stdout
    a, b = rec["start"], rec["end"]
    line = old.count(b"\n", 0, a)
    col = a - (old.rfind(b"\n", 0, a) + 1)
    fpath = os.path.join(repo, rec["file"])
    cur = open(fpath, "rb").read()
    lines = cur.split(b"\n")
    oldline = old.split(b"\n")[line]
    for sh_ in (0, 1, -1, 2, -2, 3, -3):  # the line may have moved by a few lines since <base-commit>
        if 0 <= line + sh_ < len(lines) and lines[line + sh_] == oldline:
            line += sh_
            break
    na = sum(len(x) + 1 for x in lines[:line]) + col
    nb = na + (b - a)
    if cur[na:nb] != old[a:b]:
        rec["retested"] = "not relocatable"
        print("SKIP", rec["file"], rec["line"], rec["op"], flush=True)
        continue
    open(fpath, "wb").write(cur[:na] + rec["repl"].encode() + cur[nb:])
    try:
        rc, o = sh(["go", "build", "./..."], os.path.join(repo, "cmd", "xtpl") if rec["file"].startswith("cmd/xtpl/") else repo, 300)
        rec["retested"] = "still survives"
        if rc == 0:
            for c in checks_for(rec["file"]):
                rc, o = sh(["./check", c], vcopy, 1500)
                if rc != 0 or "VIOLATION" in o:
                    rec["status"] = "detected-after-extension"
                    rec["detected_by"] = c
                    vl = [l for l in o.splitlines() if l.startswith("VIOLATION")]
                    rec["how"] = (vl[0] if vl else o[-200:])[:200]
                    rec["retested"] = "detected"
                    break
    finally:
        open(fpath, "wb").write(cur)
    print(rec["retested"], rec.get("detected_by") or "", rec["file"], rec["line"], rec["op"], flush=True)
    with open(path, "w") as f:
        for r in recs:
            f.write(json.dumps(r) + "\n")
