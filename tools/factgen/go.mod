module verif/factgen

go 1.18
