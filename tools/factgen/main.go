// factgen regenerates coq/Gen/Facts.v from the Go sources of pub-go/tpl: directive names, the
// attribute-ordering weight table of Tag.SortedAttr, default raw-text / void element lists, the
// remove-mode literals, the "true" constant, default prefixes, the built-in scope's names and the
// precedence constants of the generated expression parser. It fails loudly when the syntactic
// shape it expects is gone.
package main

import (
	"bytes"
	"fmt"
	"go/ast"
	"go/parser"
	"go/token"
	"os"
	"path/filepath"
	"regexp"
	"sort"
	"strconv"
	"strings"
)

func die(format string, a ...any) {
	fmt.Fprintf(os.Stderr, "factgen: "+format+"\n", a...)
	os.Exit(1)
}

func coqStr(s string) string {
	var parts []string
	for _, r := range s {
		parts = append(parts, strconv.Itoa(int(r)))
	}
	return "[" + strings.Join(parts, ";") + "]"
}

func parseFile(path string) *ast.File {
	fset := token.NewFileSet()
	f, err := parser.ParseFile(fset, path, nil, 0)
	if err != nil {
		die("cannot parse %s: %v", path, err)
	}
	return f
}

func stringConsts(f *ast.File) map[string]string {
	out := map[string]string{}
	for _, d := range f.Decls {
		gd, ok := d.(*ast.GenDecl)
		if !ok || gd.Tok != token.CONST {
			continue
		}
		for _, sp := range gd.Specs {
			vs := sp.(*ast.ValueSpec)
			for i, n := range vs.Names {
				if i < len(vs.Values) {
					if bl, ok := vs.Values[i].(*ast.BasicLit); ok && bl.Kind == token.STRING {
						v, err := strconv.Unquote(bl.Value)
						if err == nil {
							out[n.Name] = v
						}
					}
				}
			}
		}
	}
	return out
}

func funcDecl(f *ast.File, name string) *ast.FuncDecl {
	for _, d := range f.Decls {
		if fd, ok := d.(*ast.FuncDecl); ok && fd.Name.Name == name {
			return fd
		}
	}
	return nil
}

func stringSliceReturned(f *ast.File, fn string) []string {
	fd := funcDecl(f, fn)
	if fd == nil {
		die("function %s not found", fn)
	}
	var out []string
	found := false
	ast.Inspect(fd, func(n ast.Node) bool {
		if cl, ok := n.(*ast.CompositeLit); ok && !found {
			found = true
			for _, e := range cl.Elts {
				bl, ok := e.(*ast.BasicLit)
				if !ok {
					die("%s: non-literal element", fn)
				}
				v, _ := strconv.Unquote(bl.Value)
				out = append(out, v)
			}
		}
		return true
	})
	if !found {
		die("%s: no composite literal", fn)
	}
	return out
}

func main() {
	if len(os.Args) < 3 {
		die("usage: factgen <repo> <out.v>")
	}
	repo, outPath := os.Args[1], os.Args[2]
	consts := stringConsts(parseFile(filepath.Join(repo, "html", "consts.go")))
	need := []string{"DefaultTagPrefix", "DefaultAttrPrefix", "tagNameBlock", "attrWith", "attrIf", "attrElse_If", "attrElseIf", "attrElIf", "attrElse",
		"attrRemove", "attrRange", "attrText", "attrRaw", "attrDefine", "attrInsert", "attrReplace",
		"removeAll1", "removeAll2", "removeBody1", "removeBody2", "removeTag1", "removeTag2", "removeAllButFirst1", "removeAllButFirst2", "textTrue"}
	for _, n := range need {
		if _, ok := consts[n]; !ok {
			die("constant %s not found in html/consts.go", n)
		}
	}
	constsFile := parseFile(filepath.Join(repo, "html", "consts.go"))
	textTags := stringSliceReturned(constsFile, "GetDefaultTextTags")
	voids := stringSliceReturned(constsFile, "GetDefaultVoidElements")

	// weight map literal inside Tag.SortedAttr
	tagFile := parseFile(filepath.Join(repo, "html", "tag.go"))
	sa := funcDecl(tagFile, "SortedAttr")
	if sa == nil {
		die("Tag.SortedAttr not found")
	}
	type kv struct {
		k string
		v int
	}
	var weights []kv
	foundW := false
	ast.Inspect(sa, func(n ast.Node) bool {
		as, ok := n.(*ast.AssignStmt)
		if !ok || len(as.Lhs) != 1 || foundW {
			return true
		}
		if id, ok := as.Lhs[0].(*ast.Ident); !ok || id.Name != "weight" {
			return true
		}
		cl, ok := as.Rhs[0].(*ast.CompositeLit)
		if !ok {
			die("weight is not a map literal")
		}
		foundW = true
		for _, e := range cl.Elts {
			p := e.(*ast.KeyValueExpr)
			var key string
			switch k := p.Key.(type) {
			case *ast.Ident:
				v, ok := consts[k.Name]
				if !ok {
					die("weight key %s is not a known constant", k.Name)
				}
				key = v
			case *ast.BasicLit:
				key, _ = strconv.Unquote(k.Value)
			default:
				die("weight key of unexpected form")
			}
			val := 0
			switch v := p.Value.(type) {
			case *ast.UnaryExpr:
				bl := v.X.(*ast.BasicLit)
				x, _ := strconv.Atoi(bl.Value)
				if v.Op == token.SUB {
					val = -x
				} else {
					val = x
				}
			case *ast.BasicLit:
				val, _ = strconv.Atoi(v.Value)
			default:
				die("weight value of unexpected form")
			}
			weights = append(weights, kv{key, val})
		}
		return true
	})
	if !foundW {
		die("weight map not found in Tag.SortedAttr")
	}

	// built-in scope names
	scopeFile := parseFile(filepath.Join(repo, "exp", "scope.go"))
	var builtins []string
	for _, d := range scopeFile.Decls {
		gd, ok := d.(*ast.GenDecl)
		if !ok || gd.Tok != token.VAR {
			continue
		}
		for _, sp := range gd.Specs {
			vs := sp.(*ast.ValueSpec)
			if len(vs.Names) == 1 && vs.Names[0].Name == "defaultScope" {
				ast.Inspect(vs, func(n ast.Node) bool {
					if cl, ok := n.(*ast.CompositeLit); ok {
						for _, e := range cl.Elts {
							if p, ok := e.(*ast.KeyValueExpr); ok {
								if bl, ok := p.Key.(*ast.BasicLit); ok && bl.Kind == token.STRING {
									v, _ := strconv.Unquote(bl.Value)
									builtins = append(builtins, v)
								}
							}
						}
						return false
					}
					return true
				})
			}
		}
	}
	if len(builtins) == 0 {
		die("defaultScope literal not found in exp/scope.go")
	}
	sort.Strings(builtins)

	// precedence constants of the generated parser
	src, err := os.ReadFile(filepath.Join(repo, "exp", "parser", "goexpression_parser.go"))
	if err != nil {
		die("%v", err)
	}
	start := bytes.Index(src, []byte("func (p *GoExpression) expression(_p int)"))
	end := bytes.Index(src, []byte("func (p *GoExpression) PrimaryExpr()"))
	if start < 0 || end < start {
		die("expression(_p) not found in goexpression_parser.go")
	}
	body := string(src[start:end])
	re := regexp.MustCompile(`p\.Precpred\(p\.GetParserRuleContext\(\), (\d+)\)\)\s*\{|p\.expression\((\d+)\)`)
	var unaryPrec = -1
	type lvl struct {
		pred int
		ops  []int
	}
	var levels []lvl
	for _, m := range re.FindAllStringSubmatch(body, -1) {
		if m[1] != "" {
			n, _ := strconv.Atoi(m[1])
			levels = append(levels, lvl{pred: n})
		} else {
			n, _ := strconv.Atoi(m[2])
			if len(levels) == 0 {
				unaryPrec = n
			} else {
				levels[len(levels)-1].ops = append(levels[len(levels)-1].ops, n)
			}
		}
	}
	if unaryPrec < 0 || len(levels) == 0 {
		die("precedence structure not recognised")
	}

	var sb strings.Builder
	sb.WriteString("(* GENERATED by tools/factgen from the Go sources of pub-go/tpl — do not edit. *)\n")
	sb.WriteString("From Coq Require Import List NArith ZArith.\nImport ListNotations.\nOpen Scope N_scope.\n\n")
	names := make([]string, 0, len(need))
	names = append(names, need...)
	for _, n := range names {
		fmt.Fprintf(&sb, "Definition c_%s : list N := %s.   (* %q *)\n", n, coqStr(consts[n]), consts[n])
	}
	sb.WriteString("\nDefinition weights : list (list N * Z) :=\n  [")
	for i, w := range weights {
		if i > 0 {
			sb.WriteString(";\n   ")
		}
		fmt.Fprintf(&sb, "(%s, (%d)%%Z)", coqStr(w.k), w.v)
	}
	sb.WriteString("].\n\n")
	list := func(name string, xs []string) {
		fmt.Fprintf(&sb, "Definition %s : list (list N) :=\n  [", name)
		for i, x := range xs {
			if i > 0 {
				sb.WriteString("; ")
			}
			sb.WriteString(coqStr(x))
		}
		sb.WriteString("].\n")
	}
	list("default_text_tags", textTags)
	list("default_void_elements", voids)
	list("builtin_names", builtins)
	fmt.Fprintf(&sb, "\nDefinition unary_operand_prec : nat := %d.\n", unaryPrec)
	sb.WriteString("(* (Precpred level, precedences of the operands parsed after the operator) in source order *)\n")
	sb.WriteString("Definition loop_levels : list (nat * list nat) :=\n  [")
	for i, l := range levels {
		if i > 0 {
			sb.WriteString("; ")
		}
		var ops []string
		for _, o := range l.ops {
			ops = append(ops, strconv.Itoa(o))
		}
		fmt.Fprintf(&sb, "(%d, [%s])", l.pred, strings.Join(ops, "; "))
	}
	sb.WriteString("]%nat.\n")
	out := sb.String()
	old, err := os.ReadFile(outPath)
	if err == nil && string(old) == out {
		return // unchanged: keep the timestamp so that make does nothing
	}
	if err := os.WriteFile(outPath, []byte(out), 0o644); err != nil {
		die("%v", err)
	}
}
