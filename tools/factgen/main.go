// factgen regenerates coq/Gen/Facts.v from the Go sources of pub-go/tpl: directive names, the
// attribute-ordering weight table of Tag.SortedAttr, default raw-text / void element lists, the
// remove-mode literals, the "true" constant, default prefixes, the built-in scope's names and the
// precedence constants of the generated expression parser. It fails loudly when the syntactic
// shape it expects is gone.
package main

import (
	"bytes"
	"fmt"
	"go/ast"
	"go/parser"
	"go/token"
	"os"
	"path/filepath"
	"regexp"
	"sort"
	"strconv"
	"strings"
)

func die(format string, a ...any) {
	fmt.Fprintf(os.Stderr, "factgen: "+format+"\n", a...)
	os.Exit(1)
}

func coqStr(s string) string {
	var parts []string
	for _, r := range s {
		parts = append(parts, strconv.Itoa(int(r)))
	}
	return "[" + strings.Join(parts, ";") + "]"
}

func parseFile(path string) *ast.File {
	fset := token.NewFileSet()
	f, err := parser.ParseFile(fset, path, nil, 0)
	if err != nil {
		die("cannot parse %s: %v", path, err)
	}
	return f
}

func stringConsts(f *ast.File) map[string]string {
	out := map[string]string{}
	for _, d := range f.Decls {
		gd, ok := d.(*ast.GenDecl)
		if !ok || gd.Tok != token.CONST {
			continue
		}
		for _, sp := range gd.Specs {
			vs := sp.(*ast.ValueSpec)
			for i, n := range vs.Names {
				if i < len(vs.Values) {
					if bl, ok := vs.Values[i].(*ast.BasicLit); ok && bl.Kind == token.STRING {
						v, err := strconv.Unquote(bl.Value)
						if err == nil {
							out[n.Name] = v
						}
					}
				}
			}
		}
	}
	return out
}

func funcDecl(f *ast.File, name string) *ast.FuncDecl {
	for _, d := range f.Decls {
		if fd, ok := d.(*ast.FuncDecl); ok && fd.Name.Name == name {
			return fd
		}
	}
	return nil
}

func stringSliceReturned(f *ast.File, fn string) []string {
	fd := funcDecl(f, fn)
	if fd == nil {
		die("function %s not found", fn)
	}
	var out []string
	found := false
	ast.Inspect(fd, func(n ast.Node) bool {
		if cl, ok := n.(*ast.CompositeLit); ok && !found {
			found = true
			for _, e := range cl.Elts {
				bl, ok := e.(*ast.BasicLit)
				if !ok {
					die("%s: non-literal element", fn)
				}
				v, _ := strconv.Unquote(bl.Value)
				out = append(out, v)
			}
		}
		return true
	})
	if !found {
		die("%s: no composite literal", fn)
	}
	return out
}

func main() {
	if len(os.Args) < 3 {
		die("usage: factgen <repo> <out.v>")
	}
	repo, outPath := os.Args[1], os.Args[2]
	consts := stringConsts(parseFile(filepath.Join(repo, "html", "consts.go")))
	need := []string{"DefaultTagPrefix", "DefaultAttrPrefix", "tagNameBlock", "attrWith", "attrIf", "attrElse_If", "attrElseIf", "attrElIf", "attrElse",
		"attrRemove", "attrRange", "attrText", "attrRaw", "attrDefine", "attrInsert", "attrReplace",
		"removeAll1", "removeAll2", "removeBody1", "removeBody2", "removeTag1", "removeTag2", "removeAllButFirst1", "removeAllButFirst2", "textTrue"}
	for _, n := range need {
		if _, ok := consts[n]; !ok {
			die("constant %s not found in html/consts.go", n)
		}
	}
	constsFile := parseFile(filepath.Join(repo, "html", "consts.go"))
	textTags := stringSliceReturned(constsFile, "GetDefaultTextTags")
	voids := stringSliceReturned(constsFile, "GetDefaultVoidElements")

	// weight map literal inside Tag.SortedAttr
	tagFile := parseFile(filepath.Join(repo, "html", "tag.go"))
	sa := funcDecl(tagFile, "SortedAttr")
	if sa == nil {
		die("Tag.SortedAttr not found")
	}
	type kv struct {
		k string
		v int
	}
	var weights []kv
	foundW := false
	ast.Inspect(sa, func(n ast.Node) bool {
		as, ok := n.(*ast.AssignStmt)
		if !ok || len(as.Lhs) != 1 || foundW {
			return true
		}
		if id, ok := as.Lhs[0].(*ast.Ident); !ok || id.Name != "weight" {
			return true
		}
		cl, ok := as.Rhs[0].(*ast.CompositeLit)
		if !ok {
			die("weight is not a map literal")
		}
		foundW = true
		for _, e := range cl.Elts {
			p := e.(*ast.KeyValueExpr)
			var key string
			switch k := p.Key.(type) {
			case *ast.Ident:
				v, ok := consts[k.Name]
				if !ok {
					die("weight key %s is not a known constant", k.Name)
				}
				key = v
			case *ast.BasicLit:
				key, _ = strconv.Unquote(k.Value)
			default:
				die("weight key of unexpected form")
			}
			val := 0
			switch v := p.Value.(type) {
			case *ast.UnaryExpr:
				bl := v.X.(*ast.BasicLit)
				x, _ := strconv.Atoi(bl.Value)
				if v.Op == token.SUB {
					val = -x
				} else {
					val = x
				}
			case *ast.BasicLit:
				val, _ = strconv.Atoi(v.Value)
			default:
				die("weight value of unexpected form")
			}
			weights = append(weights, kv{key, val})
		}
		return true
	})
	if !foundW {
		die("weight map not found in Tag.SortedAttr")
	}

	// built-in scope names
	scopeFile := parseFile(filepath.Join(repo, "exp", "scope.go"))
	var builtins []string
	for _, d := range scopeFile.Decls {
		gd, ok := d.(*ast.GenDecl)
		if !ok || gd.Tok != token.VAR {
			continue
		}
		for _, sp := range gd.Specs {
			vs := sp.(*ast.ValueSpec)
			if len(vs.Names) == 1 && vs.Names[0].Name == "defaultScope" {
				ast.Inspect(vs, func(n ast.Node) bool {
					if cl, ok := n.(*ast.CompositeLit); ok {
						for _, e := range cl.Elts {
							if p, ok := e.(*ast.KeyValueExpr); ok {
								if bl, ok := p.Key.(*ast.BasicLit); ok && bl.Kind == token.STRING {
									v, _ := strconv.Unquote(bl.Value)
									builtins = append(builtins, v)
								}
							}
						}
						return false
					}
					return true
				})
			}
		}
	}
	if len(builtins) == 0 {
		die("defaultScope literal not found in exp/scope.go")
	}
	sort.Strings(builtins)

	// precedence constants of the generated parser
	src, err := os.ReadFile(filepath.Join(repo, "exp", "parser", "goexpression_parser.go"))
	if err != nil {
		die("%v", err)
	}
	start := bytes.Index(src, []byte("func (p *GoExpression) expression(_p int)"))
	end := bytes.Index(src, []byte("func (p *GoExpression) PrimaryExpr()"))
	if start < 0 || end < start {
		die("expression(_p) not found in goexpression_parser.go")
	}
	body := string(src[start:end])
	re := regexp.MustCompile(`p\.Precpred\(p\.GetParserRuleContext\(\), (\d+)\)\)\s*\{|p\.expression\((\d+)\)`)
	var unaryPrec = -1
	type lvl struct {
		pred int
		ops  []int
	}
	var levels []lvl
	for _, m := range re.FindAllStringSubmatch(body, -1) {
		if m[1] != "" {
			n, _ := strconv.Atoi(m[1])
			levels = append(levels, lvl{pred: n})
		} else {
			n, _ := strconv.Atoi(m[2])
			if len(levels) == 0 {
				unaryPrec = n
			} else {
				levels[len(levels)-1].ops = append(levels[len(levels)-1].ops, n)
			}
		}
	}
	if unaryPrec < 0 || len(levels) == 0 {
		die("precedence structure not recognised")
	}
	// the operator tokens accepted at each level, as their literal texts (LiteralNames), and the lexer's
	// punctuation literals in token order
	tokNum := map[string]int{}
	for _, m := range regexp.MustCompile(`(?m)^\tGoExpression([A-Za-z_0-9]+)\s+= (\d+)$`).FindAllStringSubmatch(string(src), -1) {
		n, _ := strconv.Atoi(m[2])
		tokNum[m[1]] = n
	}
	var literalNames []string
	if m := regexp.MustCompile(`(?s)staticData\.LiteralNames = (\[\]string\{.*?\n\t\})`).FindSubmatch(src); m != nil {
		if e, err := parser.ParseExpr(string(m[1])); err == nil {
			if cl, ok := e.(*ast.CompositeLit); ok {
				for _, el := range cl.Elts {
					if bl, ok := el.(*ast.BasicLit); ok {
						v, _ := strconv.Unquote(bl.Value)
						literalNames = append(literalNames, strings.Trim(v, "'"))
					}
				}
			}
		}
	}
	if len(tokNum) == 0 || len(literalNames) == 0 {
		die("token constants / LiteralNames of goexpression_parser.go not recognised")
	}
	lit := func(n int) string {
		if n < 0 || n >= len(literalNames) || literalNames[n] == "" {
			die("token %d has no literal name", n)
		}
		return literalNames[n]
	}
	opRe := regexp.MustCompile(`\(int64\(\(_la-(\d+)\)\) & \^0x3f\) == 0 && \(\(int64\(1\)<<\(_la-\d+\)\)&(-?\d+)\) != 0|\(int64\(_la\) & \^0x3f\) == 0 && \(\(int64\(1\)<<_la\)&(-?\d+)\) != 0|p\.Match\(GoExpression([A-Za-z_0-9]+)\)|_la == GoExpression([A-Za-z_0-9]+)((?: \|\| _la == GoExpression[A-Za-z_0-9]+)*)`)
	predRe := regexp.MustCompile(`p\.Precpred\(p\.GetParserRuleContext\(\), (\d+)\)\)\s*\{`)
	var levelOps [][]string
	for _, loc := range predRe.FindAllStringIndex(body, -1) {
		rest := body[loc[1]:]
		if i := strings.Index(rest, "p.expression("); i >= 0 {
			rest = rest[:i]
		}
		m := opRe.FindStringSubmatch(rest)
		if m == nil {
			die("operator test of a precedence level not recognised: %q", rest)
		}
		var ops []string
		mask := func(base int, bits string) {
			sv, _ := strconv.ParseInt(bits, 10, 64)
			v := uint64(sv)
			for i := 0; i < 64; i++ {
				if v&(1<<uint(i)) != 0 {
					ops = append(ops, lit(base+i))
				}
			}
		}
		switch {
		case m[2] != "":
			b, _ := strconv.Atoi(m[1])
			mask(b, m[2])
		case m[3] != "":
			mask(0, m[3])
		case m[4] != "":
			ops = append(ops, lit(tokNum[m[4]]))
		default:
			ops = append(ops, lit(tokNum[m[5]]))
			for _, x := range regexp.MustCompile(`GoExpression([A-Za-z_0-9]+)`).FindAllStringSubmatch(m[6], -1) {
				ops = append(ops, lit(tokNum[x[1]]))
			}
		}
		levelOps = append(levelOps, ops)
	}
	if len(levelOps) != len(levels) {
		die("operator sets and precedence levels do not line up")
	}
	// unary operators: the token-set test that follows "unary_op = _lt"
	var unaryOps []string
	if i := strings.Index(body, "unary_op = _lt"); i >= 0 {
		if m := opRe.FindStringSubmatch(body[i:]); m != nil && (m[2] != "" || m[3] != "") {
			base, bits := 0, m[3]
			if m[2] != "" {
				base, _ = strconv.Atoi(m[1])
				bits = m[2]
			}
			sv, _ := strconv.ParseInt(bits, 10, 64)
			for k := 0; k < 64; k++ {
				if uint64(sv)&(1<<uint(k)) != 0 {
					unaryOps = append(unaryOps, lit(base+k))
				}
			}
		}
	}
	if len(unaryOps) == 0 {
		die("unary operator case of expression(_p) not recognised")
	}
	// punctuation literals of the lexer in token order: from '(' to the last literal
	var punctLits []string
	if from, ok := tokNum["L_PAREN"]; ok {
		for n := from; n < len(literalNames); n++ {
			punctLits = append(punctLits, lit(n))
		}
	} else {
		die("token L_PAREN not found")
	}

	var sb strings.Builder
	sb.WriteString("(* GENERATED by tools/factgen from the Go sources of pub-go/tpl — do not edit. *)\n")
	sb.WriteString("From Coq Require Import List NArith ZArith.\nImport ListNotations.\nOpen Scope N_scope.\n\n")
	names := make([]string, 0, len(need))
	names = append(names, need...)
	for _, n := range names {
		fmt.Fprintf(&sb, "Definition c_%s : list N := %s.   (* %q *)\n", n, coqStr(consts[n]), consts[n])
	}
	sb.WriteString("\nDefinition weights : list (list N * Z) :=\n  [")
	for i, w := range weights {
		if i > 0 {
			sb.WriteString(";\n   ")
		}
		fmt.Fprintf(&sb, "(%s, (%d)%%Z)", coqStr(w.k), w.v)
	}
	sb.WriteString("].\n\n")
	list := func(name string, xs []string) {
		fmt.Fprintf(&sb, "Definition %s : list (list N) :=\n  [", name)
		for i, x := range xs {
			if i > 0 {
				sb.WriteString("; ")
			}
			sb.WriteString(coqStr(x))
		}
		sb.WriteString("].\n")
	}
	list("default_text_tags", textTags)
	list("default_void_elements", voids)
	list("builtin_names", builtins)
	fmt.Fprintf(&sb, "\nDefinition unary_operand_prec : nat := %d.\n", unaryPrec)
	sb.WriteString("(* (Precpred level, precedences of the operands parsed after the operator) in source order *)\n")
	sb.WriteString("Definition loop_levels : list (nat * list nat) :=\n  [")
	for i, l := range levels {
		if i > 0 {
			sb.WriteString("; ")
		}
		var ops []string
		for _, o := range l.ops {
			ops = append(ops, strconv.Itoa(o))
		}
		fmt.Fprintf(&sb, "(%d, [%s])", l.pred, strings.Join(ops, "; "))
	}
	sb.WriteString("]%nat.\n")
	sb.WriteString("(* the operator literals accepted at each of these levels (decoded from the token-set tests), the unary operators,\n   and the lexer's punctuation literals in token order (LiteralNames) *)\n")
	sb.WriteString("Definition level_ops : list (nat * list (list N)) :=\n  [")
	for i, l := range levels {
		if i > 0 {
			sb.WriteString(";\n   ")
		}
		var xs []string
		for _, o := range levelOps[i] {
			xs = append(xs, coqStr(o))
		}
		fmt.Fprintf(&sb, "(%d%%nat, [%s])", l.pred, strings.Join(xs, "; "))
	}
	sb.WriteString("].\n")
	list("unary_ops", unaryOps)
	list("punct_literals", punctLits)
	out := sb.String()
	old, err := os.ReadFile(outPath)
	if err == nil && string(old) == out {
		return // unchanged: keep the timestamp so that make does nothing
	}
	if err := os.WriteFile(outPath, []byte(out), 0o644); err != nil {
		die("%v", err)
	}
}
