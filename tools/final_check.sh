#!/bin/bash
# tools/final_check.sh — what is run before a state of /verif is called finished:
#   clean rebuild of the Coq development (full .vo), grep for forbidden constructs, coqchk of every Props module,
#   every quick check on the unchanged /repo (rewrites evidence/), MANIFEST regeneration, schema validation.
set -u
cd /verif
export GOFLAGS=-mod=mod GOPROXY=off GOSUMDB=off GOTOOLCHAIN=local
git -C /repo status --short | grep -v '^?? cmd/xtpl/xtpl$' && { echo "/repo is not clean"; exit 2; }
( cd coq && [ -f Makefile ] && make clean >/dev/null 2>&1; rm -f coq/*/*.vo coq/*/*.vos coq/*/*.vok coq/*/*.glob coq/*/.*.aux )
( cd coq && coq_makefile -f _CoqProject -o Makefile >/dev/null && /usr/bin/time -f "coq clean build: %es" timeout 3000 make -j16 >/tmp/final_make.log 2>&1 ) || { echo "COQ BUILD FAILED"; tail -20 /tmp/final_make.log; exit 1; }
grep -rnE '\b(Admitted|admit|Axiom|Parameter|Conjecture)\b|Unset Guard|bypass_check|Admit Obligations' coq --include=*.v | grep -v '(\*' && { echo "FORBIDDEN CONSTRUCTS"; exit 1; }
( cd coq && /usr/bin/time -f "coqchk: %es" timeout 3000 coqchk -silent -o -R . Tpl $(ls Props/*.v | sed 's#Props/\(.*\)\.v#Tpl.Props.\1#') > /tmp/final_coqchk.log 2>&1 ) || { echo "COQCHK FAILED"; tail -20 /tmp/final_coqchk.log; exit 1; }
grep -A8 "^\* Axioms" /tmp/final_coqchk.log
rc=0
for p in C01 C02 C03 C04 C05 C06 C07 C08 C09 C10 C11 C12 C13 C14 C15 C16 C17 C18 C19 C20; do
  out=$(./check $p 2>&1 | grep -E "^(VIOLATION|OK|KNOWN)")
  echo "$out" | cut -c1-160
  echo "$out" | grep -q "^VIOLATION" && rc=1
done
python3 tools_manifest.py
python3-vt - <<'PY'
import json, jsonschema, glob
jsonschema.validate(json.load(open('/verif/MANIFEST.json')), json.load(open('/root/.vp/MANIFEST.schema.json')))
es = json.load(open('/root/.vp/EVIDENCE.schema.json'))
for f in sorted(glob.glob('/verif/evidence/C*.json')):
    jsonschema.validate(json.load(open(f)), es)
ps = json.load(open('/root/.vp/PROPERTIES.schema.json'))
print("schemas ok:", len(glob.glob('/verif/evidence/C*.json')), "evidence files")
PY
exit $rc
