(* Extraction of the executable models. ExtrOcamlBasic only: bool, option, unit, list, prod,
   sumbool map to OCaml's own types; N / Z / positive / nat stay inductive. No Extract Constant. *)
From Coq Require Import Extraction ExtrOcamlBasic.
From Tpl Require Import Base.Runes Html.Scan Html.Code Html.Tree Html.Pipeline Exp.Lex Exp.Parse Exp.Eval Html.Exec Html.Manager Sys.Reload Sys.ReloadConc Sys.Xtpl Sys.XtplCat Sys.FsWalk.
Extraction Language OCaml.
Set Extraction KeepSingleton.
Extraction "model.ml" Runes.pos_after Pipeline.scan_html Pipeline.attr_ctoks Pipeline.load Code.cscan Tree.flatten Lex.lex Parse.parse_code Eval.eval_text Eval.sget Eval.get_value Exec.execute Exec.escape Manager.add_files Manager.run_history Manager.mk_mgr Reload.new_render Reload.write_content_type ReloadConc.crun ReloadConc.conc_init Xtpl.extract_node Xtpl.extract_expr XtplCat.catalogue FsWalk.parse_fs.
