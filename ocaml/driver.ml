(* Driver for the extracted models: reads one case per line, prints one canonical line per case.
   No external packages. Strings are comma-separated code points ("-" = empty); lists of strings
   are "|"-separated ("_" = empty list). *)
open Model

let rec pos_of_int (i : int) : positive =
  if i = 1 then XH else if i land 1 = 0 then XO (pos_of_int (i lsr 1)) else XI (pos_of_int (i lsr 1))
let n_of_int (i : int) : n = if i = 0 then N0 else Npos (pos_of_int i)
let rec int_of_pos = function XH -> 1 | XO p -> 2 * int_of_pos p | XI p -> 2 * int_of_pos p + 1
let int_of_n = function N0 -> 0 | Npos p -> int_of_pos p

let split c s = if s = "" then [] else String.split_on_char c s
let str_of_field (f : string) : n list =
  if f = "-" then [] else List.map (fun x -> n_of_int (int_of_string x)) (split ',' f)
let strs_of_field (f : string) : n list list =
  if f = "_" then [] else List.map str_of_field (split '|' f)

(* Unicode tables dumped from Go's unicode package by the harness *)
let space_tbl : (int, unit) Hashtbl.t = Hashtbl.create 64
let lower_tbl : (int, int) Hashtbl.t = Hashtbl.create 4096
let letter_tbl : (int, unit) Hashtbl.t = Hashtbl.create 200000
let digit_tbl : (int, unit) Hashtbl.t = Hashtbl.create 1024
let load_unicode path =
  let ic = open_in path in
  (try while true do
    let l = input_line ic in
    match split ' ' l with
    | "space" :: rest -> List.iter (fun x -> Hashtbl.replace space_tbl (int_of_string x) ()) rest
    | "lower" :: a :: b :: _ -> Hashtbl.replace lower_tbl (int_of_string a) (int_of_string b)
    | "letter" :: rest -> List.iter (fun x -> Hashtbl.replace letter_tbl (int_of_string x) ()) rest
    | "digit" :: rest -> List.iter (fun x -> Hashtbl.replace digit_tbl (int_of_string x) ()) rest
    | _ -> ()
  done with End_of_file -> ());
  close_in ic
let is_space (r : n) = Hashtbl.mem space_tbl (int_of_n r)
let is_letter (r : n) = Hashtbl.mem letter_tbl (int_of_n r)
let is_udigit (r : n) = Hashtbl.mem digit_tbl (int_of_n r)
let to_lower (r : n) = match Hashtbl.find_opt lower_tbl (int_of_n r) with Some x -> n_of_int x | None -> r

(* printers *)
let b = Buffer.create 65536
let p_str (s : n list) =
  Buffer.add_char b '[';
  List.iteri (fun i r -> if i > 0 then Buffer.add_char b ','; Buffer.add_string b (string_of_int (int_of_n r))) s;
  Buffer.add_char b ']'
let p_pos ((l, c) : n * n) = Buffer.add_string b (Printf.sprintf "%d:%d" (int_of_n l) (int_of_n c))
let kind_s = function KTag -> "Tag" | KText -> "Text" | KComment -> "Comment" | KCDATA -> "CDATA"
let ckind_s = function BegEnd -> "BegEnd" | Literal -> "Literal" | CodeStart -> "CodeStart" | CodeValue -> "CodeValue" | CodeEnd -> "CodeEnd"
let serr_s = function EUnexpectedEOF -> "eof" | EComment -> "comment" | EDupAttr -> "dup" | ECompile -> "compile"
let cerr_s = function CEQuote -> "quote" | CECompile -> "compile" | CEEof -> "eof"

let p_ctok (c : ctok) =
  Buffer.add_string b ("(" ^ ckind_s c.c_kind ^ " "); p_str c.c_value; Buffer.add_char b ' ';
  p_pos c.c_start; Buffer.add_char b '-'; p_pos c.c_end; Buffer.add_char b ')'

let p_attr ctoks (a : attr) =
  Buffer.add_string b "{"; p_str a.a_name; Buffer.add_char b ' '; p_pos a.a_nstart; Buffer.add_char b '-'; p_pos a.a_nend;
  (match a.a_value with
   | None -> Buffer.add_string b " N"
   | Some v -> Buffer.add_string b " V"; p_str v; Buffer.add_char b ' '; p_pos a.a_vstart; Buffer.add_char b '-'; p_pos a.a_vend);
  (match ctoks a with
   | Inl l -> List.iter p_ctok l
   | Inr _ -> Buffer.add_string b "!");
  Buffer.add_string b "}"

let p_tok ctoks (t : token) =
  Buffer.add_string b ("(" ^ kind_s t.t_kind ^ " "); p_str t.t_value; Buffer.add_char b ' ';
  p_pos t.t_start; Buffer.add_char b '-'; p_pos t.t_end;
  (match t.t_kind with
   | KTag -> Buffer.add_char b ' '; p_str t.t_name; List.iter (p_attr ctoks) t.t_attrs
   | _ -> ());
  Buffer.add_string b ")"

let parse_ok_all _ _ = true
let parse_ok _ (s : n list) = match parse_code is_letter is_udigit s with Some _ -> true | None -> false

let unop_s = function UPlus -> "+" | UMinus -> "-" | UNot -> "!" | UCaret -> "^" | UStar -> "*" | UAmp -> "&" | URecv -> "<-"
let binop_s = function
  | BMul -> "*" | BDiv -> "/" | BMod -> "%" | BShl -> "<<" | BShr -> ">>" | BAnd -> "&" | BAndNot -> "&^"
  | BAdd -> "+" | BSub -> "-" | BOr -> "|" | BXor -> "^"
  | BEq -> "==" | BNe -> "!=" | BLt -> "<" | BLe -> "<=" | BGt -> ">" | BGe -> ">=" | BLAnd -> "&&" | BLOr -> "||"
let lk_s = function LNil -> "nil" | LInt -> "int" | LFloat -> "float" | LImag -> "imag" | LStr -> "str"
let add = Buffer.add_string b
let rec p_expr (e : expr) =
  match e with
  | ELit (k, t, l, c) -> add ("(lit " ^ lk_s k ^ " "); p_str t; add (Printf.sprintf " %d %d)" (int_of_n l) (int_of_n c))
  | EName (s, l, c) -> add "(name "; p_str s; add (Printf.sprintf " %d %d)" (int_of_n l) (int_of_n c))
  | EParen e -> add "(paren "; p_expr e; add ")"
  | EUnary (op, e, _, _) -> add ("(un " ^ unop_s op ^ " "); p_expr e; add ")"
  | EBin (op, x, y, _, _) -> add ("(bin " ^ binop_s op ^ " "); p_expr x; add " "; p_expr y; add ")"
  | ECond (c, x, y) -> add "(cond "; p_expr c; add " "; p_expr x; add " "; p_expr y; add ")"
  | EField (e, safe, nm) -> add "(field "; p_expr e; add (if safe then " safe " else " dot "); p_str nm; add ")"
  | EIndex (e, i) -> add "(index "; p_expr e; add " "; p_expr i; add ")"
  | ESlice (e, lo, hi) -> add "(slice "; p_expr e; add " "; p_opt lo; add " "; p_opt hi; add ")"
  | ESlice3 (e, lo, hi, cp) -> add "(slice3 "; p_expr e; add " "; p_opt lo; add " "; p_expr hi; add " "; p_expr cp; add ")"
  | ECall (f, args, ell, cm) ->
    add "(call "; p_expr f; add " (";
    List.iteri (fun i a -> if i > 0 then add " "; p_expr a) args;
    add ")"; add (if ell then " ell" else " -"); add (if cm then " comma" else " -"); add ")"
and p_opt = function None -> add "_" | Some e -> p_expr e

let rec p_node ctoks (nd : node) =
  let Node (i, t, ch, e) = nd in
  Buffer.add_string b (Printf.sprintf "<%d " (int_of_n i));
  (match t with Some t -> p_tok ctoks t | None -> Buffer.add_string b "doc");
  List.iter (p_node ctoks) ch;
  (match e with Some t -> Buffer.add_string b " /"; p_tok ctoks t | None -> ());
  Buffer.add_string b ">"

(* ---------- values ---------- *)
let rec z_of_int (i : int) : z = if i = 0 then Z0 else if i > 0 then Zpos (pos_of_int i) else Zneg (pos_of_int (- i))
(* decimal string -> Z without overflow (uint64 / float bit patterns exceed OCaml's int) *)
let z_of_string (s : string) : z =
  let neg = String.length s > 0 && s.[0] = '-' in
  let ten = z_of_int 10 in
  let acc = ref Z0 in
  String.iteri (fun i c -> if not (i = 0 && neg) then acc := Z.add (Z.mul !acc ten) (z_of_int (Char.code c - 48))) s;
  if neg then Z.opp !acc else !acc
let rec string_of_pos (p : positive) : string =
  (* decimal via repeated division on Z *)
  let ten = z_of_int 10 in
  let rec go (z : z) (acc : string) =
    match z with
    | Z0 -> if acc = "" then "0" else acc
    | _ -> let q = Z.div z ten and r = Z.modulo z ten in
           let d = (match r with Z0 -> 0 | Zpos p -> int_of_pos p | Zneg _ -> 0) in
           go q (String.make 1 (Char.chr (48 + d)) ^ acc) in
  go (Zpos p) ""
let string_of_z = function Z0 -> "0" | Zpos p -> string_of_pos p | Zneg p -> "-" ^ string_of_pos p

let ikinds = [| KInt; KInt8; KInt16; KInt32; KInt64; KUint; KUint8; KUint16; KUint32; KUint64 |]
let ikind_idx k = let r = ref 0 in Array.iteri (fun i x -> if x = k then r := i) ikinds; !r

let runes_of_dots (s : string) : n list =
  if s = "" then [] else List.map (fun x -> n_of_int (int_of_string x)) (String.split_on_char '.' s)

(* recursive-descent parser for the value encoding of harness/values.go *)
let parse_value (s : string) : value =
  let pos = ref 0 in
  let len = String.length s in
  let peek () = if !pos < len then s.[!pos] else '\000' in
  let next () = let c = peek () in incr pos; c in
  let until (stops : char list) : string =
    let st = !pos in
    while !pos < len && not (List.mem s.[!pos] stops) do incr pos done;
    String.sub s st (!pos - st) in
  let expect c = if next () <> c then failwith ("value syntax at " ^ string_of_int !pos ^ " in " ^ s) in
  let rec value () : value =
    match next () with
    | 'n' -> VNil
    | 't' -> VBool true
    | 'f' -> VBool false
    | 'i' -> let k = int_of_string (until [':']) in expect ':';
             let d = until [';'; ')'; ']'; '='; ','] in VInt (ikinds.(k), z_of_string d)
    | 'd' -> let f32 = until [':'] = "1" in expect ':';
             let d = until [';'; ')'; ']'] in VFloat (f32, z_of_string d)
    | 's' -> VStr (runes_of_dots (until [';'; ')'; ']']))
    | 'L' -> let arr = next () = '1' in expect '(';
             let l = list ')' in expect '['; let ex = list ']' in VSeq (arr, l, ex)
    | 'M' -> expect '(';
             let rec ents acc =
               if peek () = ')' then (incr pos; List.rev acc)
               else begin
                 let k = runes_of_dots (until ['=']) in expect '=';
                 let v = value () in
                 if peek () = ';' then incr pos;
                 ents ((k, v) :: acc)
               end in
             VMap (ents [])
    | 'T' -> let ty = int_of_string (until ['(']) in expect '(';
             let rec flds acc =
               if peek () = ')' then (incr pos; List.rev acc)
               else begin
                 let k = runes_of_dots (until [',']) in expect ',';
                 let ex = next () = '1' in expect '=';
                 let v = value () in
                 if peek () = ';' then incr pos;
                 flds ((k, (ex, v)) :: acc)
               end in
             VStruct (n_of_int ty, flds [])
    | 'P' -> let addr = int_of_string (until [',']) in expect ',';
             let ty = int_of_string (until ['(']) in expect '(';
             if peek () = ')' then (incr pos; VPtr (n_of_int addr, n_of_int ty, None))
             else begin let v = value () in expect ')'; VPtr (n_of_int addr, n_of_int ty, Some v) end
    | 'F' -> let id = int_of_string (until ['(']) in expect '('; let b = list ')' in VFunc (n_of_int id, b)
    | 'O' -> let id = int_of_string (until [';'; ')'; ']']) in VOpaque (n_of_int id)
    | c -> failwith (Printf.sprintf "value syntax: %c at %d in %s" c !pos s)
  and list (close : char) : value list =
    let rec go acc =
      if peek () = close then (incr pos; List.rev acc)
      else begin
        let v = value () in
        if peek () = ';' then incr pos;
        go (v :: acc)
      end in
    go [] in
  value ()

let dots (s : n list) = String.concat "." (List.map (fun r -> string_of_int (int_of_n r)) s)
let nan_mask_exp = z_of_string "9218868437227405312"   (* 0x7FF0000000000000 *)
let canon_float (bits : z) : z =
  (* any NaN -> 0x7FF8000000000000 *)
  let sign_cleared = Z.modulo bits (z_of_string "9223372036854775808") in
  if Z.ltb nan_mask_exp sign_cleared then z_of_string "9221120237041090560" else bits
let rec enc_value (v : value) : string =
  match v with
  | VNil -> "n" | VBool true -> "t" | VBool false -> "f"
  | VInt (k, zz) -> Printf.sprintf "i%d:%s" (ikind_idx k) (string_of_z zz)
  | VFloat (f32, bits) -> Printf.sprintf "d%d:%s" (if f32 then 1 else 0) (string_of_z (canon_float bits))
  | VStr s -> "s" ^ dots s
  | VSeq (arr, l, ex) -> Printf.sprintf "L%d(%s)[%s]" (if arr then 1 else 0) (String.concat ";" (List.map enc_value l)) (String.concat ";" (List.map enc_value ex))
  | VMap m -> "M(" ^ String.concat ";" (List.map (fun (k, v) -> dots k ^ "=" ^ enc_value v) m) ^ ")"
  | VStruct (ty, fs) -> Printf.sprintf "T%d(%s)" (int_of_n ty) (String.concat ";" (List.map (fun (k, (ex, v)) -> Printf.sprintf "%s,%d=%s" (dots k) (if ex then 1 else 0) (if ex then enc_value v else "n")) fs))
  | VPtr (a, ty, None) -> Printf.sprintf "P0,%d()" (int_of_n ty)
  | VPtr (a, ty, Some v) -> Printf.sprintf "P%d,%d(%s)" (int_of_n a) (int_of_n ty) (enc_value v)
  | VFunc (_, _) -> "F"
  | VOpaque i -> Printf.sprintf "O%d" (int_of_n i)

(* method tables "ty,ptr:name=fid;...|..." *)
let parse_methods (s : string) : (int * bool, (n list * n) list) Hashtbl.t =
  let h = Hashtbl.create 8 in
  List.iter (fun ent ->
    match String.split_on_char ':' ent with
    | [hd; ms] ->
      (match String.split_on_char ',' hd with
       | [ty; p] ->
         let l = List.filter_map (fun m -> match String.split_on_char '=' m with
             | [nm; fid] -> Some (runes_of_dots nm, n_of_int (int_of_string fid)) | _ -> None) (split ';' ms) in
         Hashtbl.replace h (int_of_string ty, p = "1") l
       | _ -> ())
    | _ -> ()) (split '|' s);
  h

(* the fixed user-function table of harness/values.go *)
let str_of_ascii (s : string) : n list = List.init (String.length s) (fun i -> n_of_int (Char.code s.[i]))
let field_of (v : value) (name : string) : value option =
  let target = match v with VPtr (_, _, Some t) -> Some t | VPtr (_, _, None) -> None | x -> Some x in
  match target with
  | Some (VStruct (_, fs)) -> (match List.assoc_opt (str_of_ascii name) fs with Some (_, x) -> Some x | None -> None)
  | _ -> None
let is_i64 = function VInt (KInt64, _) -> true | _ -> false
let call_fn (id : n) (args : value list) : fres =
  match int_of_n id, args with
  | 1, [] -> FOk (VInt (KInt64, z_of_int 1))
  | 2, [a] -> FOk a
  | 3, [] -> FErrS (n_of_int 1)
  | 4, [] -> FPanic
  | 5, [VInt (KInt64, a); VInt (KInt64, b)] -> FOk (VInt (KInt64, wrap64 (Z.add a b)))
  | 6, xs when List.for_all (function VStr _ -> true | _ -> false) xs ->
    FOk (VStr (List.concat (List.map (function VStr s -> s | _ -> []) xs)))
  | 7, [VInt (KInt64, k)] -> FOk (VInt (KInt64, k))
  | 8, [VInt (KInt64, _); VBool bb] -> FOk (VBool bb)
  | 9, [VInt (KInt64, _); VStr s] -> FOk (VStr s)
  | 10, [] -> FBadSecond
  | 11, [] -> FBadCount
  | 12, [VBool bb] -> if bb then FErrS (n_of_int 2) else FOk (VStr (str_of_ascii "ok"))
  | 13, [VStruct (_, _) as recv] -> (match field_of recv "Name" with Some x -> FOk x | None -> FBadArgs)
  | 20, [recv] -> (match field_of recv "X" with Some x -> FOk x | None -> FPanic)
  | (21 | 23 | 26), VPtr (_, _, None) :: _ -> FPanic   (* a value-receiver method called through a nil pointer panics in Go *)
  | 21, [_] -> FOk (VStr (str_of_ascii "hello"))
  | 22, [_] -> FOk (VStr (str_of_ascii "ptrm"))
  | 23, [_; VStr s] -> FOk (VStr (s @ s))
  | 24, [recv] -> (match field_of recv "N" with Some (VInt (_, k)) -> FOk (VInt (KInt64, wrap64 (Z.add k (z_of_int 1)))) | _ -> FPanic)
  | 25, [recv] -> (match field_of recv "N" with Some (VInt (_, k)) -> FOk (VInt (KInt64, k)) | _ -> FPanic)
  | 26, [_] -> FErrS (n_of_int 3)    (* T1.Load: (value, error) with a non-nil error *)
  | 27, [recv] -> (match field_of recv "N" with
                   | Some (VInt (_, k)) -> if Z.ltb k (z_of_int 10) then FOk (VInt (KInt64, k)) else FErrS (n_of_int 2)
                   | _ -> FPanic)
  | _, _ -> FBadArgs    (* reflect: wrong argument count or type *)

let cause_s = function CNoSuchValue -> "nosuch" | CUser k -> "user" ^ string_of_int (int_of_n k) | COther -> "err"
let log_s (lg : (n * value list) list) : string =
  String.concat "," (List.filter_map (fun (id, args) ->
    let i = int_of_n id in
    if i >= 7 && i <= 9 then
      (match args with VInt (_, k) :: _ -> Some (Printf.sprintf "%d:%s" i (string_of_z k)) | _ -> Some (Printf.sprintf "%d:?" i))
    else None) (List.rev lg))

let rec nat_of_int (i : int) : nat = if i <= 0 then O else S (nat_of_int (i - 1))
let rcause_s = function
  | RC c -> cause_s c | RNotFound -> "notfound" | RNoValue -> "novalue" | RWriter -> "writer" | RFuel -> "toodeep" | RSyntax -> "err"
let lerr_s = function LDup -> "dup" | LScan e -> "scan-" ^ serr_s e | LEval -> "eval"
let render_fuel = nat_of_int 400

let run_case (line : string) =
  Buffer.clear b;
  (match split ' ' line with
   | ["scan"; prefix; tags; src] ->
     let prefix = str_of_field prefix and tags = strs_of_field tags and src = str_of_field src in
     let ctoks = attr_ctoks prefix parse_ok in
     (match scan_html is_space to_lower tags prefix parse_ok src with
      | Inl toks -> Buffer.add_string b "OK "; List.iter (p_tok ctoks) toks
      | Inr e -> Buffer.add_string b ("ERR " ^ serr_s e))
   | ["code"; l; c; src] ->
     (match cscan parse_ok (n_of_int (int_of_string l), n_of_int (int_of_string c)) (str_of_field src) with
      | Inl toks -> Buffer.add_string b "OK "; List.iter p_ctok toks
      | Inr e -> Buffer.add_string b ("ERR " ^ cerr_s e))
   | ["tree"; prefix; tags; voids; src] ->
     let prefix = str_of_field prefix and tags = strs_of_field tags and voids = strs_of_field voids and src = str_of_field src in
     let ctoks = attr_ctoks prefix parse_ok in
     (match load is_space to_lower tags voids prefix parse_ok src with
      | Inl nd -> Buffer.add_string b "OK "; p_node ctoks nd
      | Inr e -> Buffer.add_string b ("ERR " ^ serr_s e))
   | ["eval"; meth; env; src] ->
     let mt = parse_methods meth in
     let methods (ty : n) (ptr : bool) = match Hashtbl.find_opt mt (int_of_n ty, ptr) with Some l -> l | None -> [] in
     let sc = SData (parse_value env) in
     (match parse_code is_letter is_udigit (str_of_field src) with
      | None -> add "ERR parse"
      | Some _ ->
        let (r, lg) = eval_text is_letter is_udigit methods call_fn sc (str_of_field src) [] in
        (match r with
         | Ok v -> add ("OK " ^ enc_value v ^ " LOG " ^ log_s lg)
         | Err c -> add ("ERR " ^ cause_s c ^ " LOG " ^ log_s lg)
         | Unmodelled -> add "UNMODELLED"))
   | ["evalc"; meth; e1; e2; e3; src] ->
     (* a chain of three scopes: Combine(Combine(inner, middle), outer) *)
     let mt = parse_methods meth in
     let methods (ty : n) (ptr : bool) = match Hashtbl.find_opt mt (int_of_n ty, ptr) with Some l -> l | None -> [] in
     let sc = SCombine (SCombine (SData (parse_value e1), SData (parse_value e2)), SData (parse_value e3)) in
     (match parse_code is_letter is_udigit (str_of_field src) with
      | None -> add "ERR parse"
      | Some _ ->
        let (r, lg) = eval_text is_letter is_udigit methods call_fn sc (str_of_field src) [] in
        (match r with
         | Ok v -> add ("OK " ^ enc_value v ^ " LOG " ^ log_s lg)
         | Err c -> add ("ERR " ^ cause_s c ^ " LOG " ^ log_s lg)
         | Unmodelled -> add "UNMODELLED"))
   | ["render"; aprefix; tprefix; tags; voids; files; tname; meth; glob; runs] ->
     let mt = parse_methods meth in
     let methods (ty : n) (ptr : bool) = match Hashtbl.find_opt mt (int_of_n ty, ptr) with Some l -> l | None -> [] in
     let aprefix = str_of_field aprefix and tprefix = str_of_field tprefix in
     let tags = strs_of_field tags and voids = strs_of_field voids in
     let files = List.map (fun f -> match String.split_on_char '~' f with
         | [nm; src] -> (str_of_field nm, str_of_field src) | _ -> failwith "file") (split '|' files) in
     let global = match parse_value glob with VNil -> SData (VMap []) | v -> SData v in
     let runs = List.map (fun r -> match String.split_on_char '@' r with
         | [d; b] -> let b = int_of_string b in (parse_value d, if b < 0 then None else Some (nat_of_int b))
         | _ -> failwith "run") (split '!' runs) in
     let (tps, err) = add_files is_space to_lower is_letter is_udigit methods call_fn tags voids tprefix aprefix global [] files in
     (match err with
      | Some e -> add ("LOADERR " ^ lerr_s e)
      | None ->
        (match List.find_opt (fun (k, _) -> k = str_of_field tname) tps with
         | None -> add "GETERR notfound"
         | Some (_, tp) ->
           let m = mk_mgr tprefix aprefix global tps in
           let results = run_history is_space to_lower is_letter is_udigit methods call_fn render_fuel m tp runs [] in
           if List.exists (fun ((_, r), _) -> r = RUnmodelled) results then add "UNMODELLED"
           else
             List.iteri (fun i ((o, r), lg) ->
               if i > 0 then add " ## ";
               (match r with
                | ROk -> add "OK "
                | RErr c -> add ("ERR " ^ rcause_s c ^ " ")
                | RUnmodelled -> add "UNM ");
               p_str o; add (" LOG " ^ (if r = RErr RFuel then "" else log_s lg))) results))
   | ["reload"; hot; first; ops] ->
     let hot = hot = "1" and healthy = ref (first = "1") and calls = ref 0 in
     let build () = incr calls; if !healthy then BOk (nat_of_int !calls) else BFail in
     let first_b = build () in
     let ops = if ops = "." then "" else ops in
     let mops = List.init (String.length ops) (fun i ->
       match ops.[i] with
       | '+' -> healthy := true; Reload (build ())
       | '-' -> healthy := false; Reload (build ())
       | c ->
         let b = if hot then build () else BFail in
         (match c with 'X' -> Render (true, b) | 'M' -> Render (false, b) | _ -> Get (true, b))) in
     let rec int_of_nat = function O -> 0 | S k -> 1 + int_of_nat k in
     let ans = new_render hot first_b mops in
     add (String.concat " " (List.map (function
       | AReloadOk -> "rok" | AReloadErr -> "rerr"
       | AServed v -> "served" ^ string_of_int (int_of_nat v)
       | ANotFound v -> "notfound" ^ string_of_int (int_of_nat v)
       | ABuildErr -> "builderr" | ANoSet -> "noset") ans))
   | ["reloadconc"; first; threads; sched] ->
     (* threads: one character per thread (+ Reload ok, - Reload failing, X/M/G requests); sched: thread numbers (one
        character each, 0-9a-z).  A Reload's first occurrence = it enters the builder (its build gets the next call
        number) and is no model step; its second = the build returns and the store follows: two model steps.  A
        request's occurrence = load + look-up: two model steps. *)
     let rec int_of_nat = function O -> 0 | S k -> 1 + int_of_nat k in
     let n = String.length threads in
     let idx c = if c >= '0' && c <= '9' then Char.code c - 48 else Char.code c - 87 in
     let sched = if sched = "." then [] else List.init (String.length sched) (fun i -> idx sched.[i]) in
     let calls = ref 1 in
     let ver = Array.make n 0 and seen = Array.make n 0 in
     let msched = List.concat_map (fun i ->
       seen.(i) <- seen.(i) + 1;
       match threads.[i] with
       | '+' | '-' -> if seen.(i) = 1 then (incr calls; ver.(i) <- !calls; []) else if seen.(i) = 2 then [i; i] else []
       | _ -> if seen.(i) = 1 then [i; i] else []) sched in
     let ths = List.init n (fun i -> match threads.[i] with
       | '+' -> TReload (BOk (nat_of_int ver.(i))) | '-' -> TReload BFail
       | 'M' -> TReq false | _ -> TReq true) in
     let c0 = if first = "1" then Some (nat_of_int 1) else None in
     let s = crun (conc_init c0 ths) (List.map nat_of_int msched) in
     let ans_s = function
       | AReloadOk -> "rok" | AReloadErr -> "rerr"
       | AServed v -> "served" ^ string_of_int (int_of_nat v)
       | ANotFound v -> "notfound" ^ string_of_int (int_of_nat v)
       | ABuildErr -> "builderr" | ANoSet -> "noset" in
     add (String.concat " " (List.map (function TDone a -> ans_s a | _ -> "-") s.c_threads));
     add (" cur=" ^ (match s.c_cur with Some v -> string_of_int (int_of_nat v) | None -> "none"))
   | ["xtpl"; ap; kws; files] ->
     let ap = str_of_field ap in
     let kws = List.map (fun k -> match String.split_on_char ':' k with
         | [nm; c; i; i2] -> { kw_name = str_of_field nm; kw_ctxt = nat_of_int (int_of_string c); kw_id = nat_of_int (int_of_string i); kw_id2 = nat_of_int (int_of_string i2) }
         | _ -> failwith "kw") (split '|' kws) in
     let files = List.map (fun f -> match String.split_on_char '~' f with
         | [nm; src] -> (nm, str_of_field nm, str_of_field src) | _ -> failwith "file") (split '|' files) in
     let dflt_tags = List.map str_of_ascii ["script"; "style"; "textarea"; "title"] in
     let dflt_voids = List.map str_of_ascii ["!doctype"; "area"; "base"; "br"; "col"; "embed"; "hr"; "img"; "input"; "link"; "meta"; "source"; "track"; "wbr"] in
     (* the whole catalogue is computed by the Coq model (Sys/XtplCat.v: catalogue = the merge done by Save) *)
     let failed = ref false in
     let roots = List.concat_map (fun (_, nm, src) ->
       match load is_space to_lower dflt_tags dflt_voids ap parse_ok src with
       | Inr _ -> failed := true; []
       | Inl root -> [(nm, root)]) files in
     if !failed then add "ERR xtpl failed"
     else begin
       let cat = catalogue is_letter is_udigit ap (nat_of_int 300) kws roots in
       let enc s = if s = [] then "-" else String.concat "," (List.map (fun c -> string_of_int (int_of_n c)) s) in
       let fname nm = String.concat "" (List.map (fun c -> String.make 1 (Char.chr (int_of_n c))) nm) in
       let hdr = if List.exists (fun ce -> ce.ce_hdr) cat then "header" else "noheader" in
       let lines = List.filter_map (fun ce ->
         if ce.ce_hdr then None else
         let refs = List.map (fun ((f, l), c) -> Printf.sprintf "%s:%d:%d" (fname f) (int_of_n l) (int_of_n c)) ce.ce_refs in
         Some (Printf.sprintf "(%s|%s|%s|%s)" (enc ce.ce_ctxt) (enc ce.ce_id) (enc ce.ce_id2) (String.concat "," (List.sort compare refs)))) cat in
       add ("OK " ^ hdr ^ " " ^ String.concat "" (List.sort compare lines))
     end
   | ["fs"; sub; files] ->
     let split_path (s : n list) : n list list =
       (* split on '/' *)
       let rec go cur acc = function
         | [] -> List.rev (List.rev cur :: acc)
         | c :: r -> if int_of_n c = 47 then go [] (List.rev cur :: acc) r else go (c :: cur) acc r in
       if s = [] then [] else go [] [] s in
     let files = List.map (fun f -> match String.split_on_char '~' f with
         | [p; c; flt; mt] ->
           { ff_path = split_path (str_of_field p); ff_content = str_of_field c;
             ff_fault = (match flt with "1" -> Some FltOpen | "2" -> Some FltRead | _ -> None); ff_match = (mt = "1") }
         | _ -> failwith "fsfile") (split '|' files) in
     let dflt_tags = List.map str_of_ascii ["script"; "style"; "textarea"; "title"] in
     let dflt_voids = List.map str_of_ascii ["!doctype"; "area"; "base"; "br"; "col"; "embed"; "hr"; "img"; "input"; "link"; "meta"; "source"; "track"; "wbr"] in
     let methods _ _ = [] in
     let ((tps, err), evs) = parse_fs is_space to_lower is_letter is_udigit methods call_fn dflt_tags dflt_voids
         (str_of_ascii "t:") (str_of_ascii ":") (SData (VMap [])) (split_path (str_of_field sub)) files in
     let enc s = if s = [] then "-" else String.concat "," (List.map (fun c -> string_of_int (int_of_n c)) s) in
     (match err with
      | None -> add ("OK " ^ String.concat " " (List.sort compare (List.map (fun (k, _) -> enc k) tps)))
      | Some WFs -> add "ERR fs"
      | Some (WLoad LDup) -> add "ERR dup"
      | Some (WLoad _) -> add "ERR load");
     add (" EV " ^ String.concat " " (List.map (function
       | EvOpen p -> "open:" ^ enc p | EvOpenFail p -> "openfail:" ^ enc p | EvClose p -> "close:" ^ enc p) evs))
   | ["parse"; src] ->
     (match parse_code is_letter is_udigit (str_of_field src) with
      | Some e -> add "OK "; p_expr e
      | None -> add "ERR")
   | "fuzz" :: _ -> Buffer.add_string b "UNMODELLED"
   | _ -> Buffer.add_string b "BADCASE");
  print_string (Buffer.contents b); print_newline ()

let () =
  load_unicode Sys.argv.(1);
  let ic = if Array.length Sys.argv > 2 then open_in Sys.argv.(2) else stdin in
  (try while true do run_case (input_line ic) done with End_of_file -> ())
