(* Driver for the extracted models: reads one case per line, prints one canonical line per case.
   No external packages. Strings are comma-separated code points ("-" = empty); lists of strings
   are "|"-separated ("_" = empty list). *)
open Model

let rec pos_of_int (i : int) : positive =
  if i = 1 then XH else if i land 1 = 0 then XO (pos_of_int (i lsr 1)) else XI (pos_of_int (i lsr 1))
let n_of_int (i : int) : n = if i = 0 then N0 else Npos (pos_of_int i)
let rec int_of_pos = function XH -> 1 | XO p -> 2 * int_of_pos p | XI p -> 2 * int_of_pos p + 1
let int_of_n = function N0 -> 0 | Npos p -> int_of_pos p

let split c s = if s = "" then [] else String.split_on_char c s
let str_of_field (f : string) : n list =
  if f = "-" then [] else List.map (fun x -> n_of_int (int_of_string x)) (split ',' f)
let strs_of_field (f : string) : n list list =
  if f = "_" then [] else List.map str_of_field (split '|' f)

(* Unicode tables dumped from Go's unicode package by the harness *)
let space_tbl : (int, unit) Hashtbl.t = Hashtbl.create 64
let lower_tbl : (int, int) Hashtbl.t = Hashtbl.create 4096
let letter_tbl : (int, unit) Hashtbl.t = Hashtbl.create 200000
let digit_tbl : (int, unit) Hashtbl.t = Hashtbl.create 1024
let load_unicode path =
  let ic = open_in path in
  (try while true do
    let l = input_line ic in
    match split ' ' l with
    | "space" :: rest -> List.iter (fun x -> Hashtbl.replace space_tbl (int_of_string x) ()) rest
    | "lower" :: a :: b :: _ -> Hashtbl.replace lower_tbl (int_of_string a) (int_of_string b)
    | "letter" :: rest -> List.iter (fun x -> Hashtbl.replace letter_tbl (int_of_string x) ()) rest
    | "digit" :: rest -> List.iter (fun x -> Hashtbl.replace digit_tbl (int_of_string x) ()) rest
    | _ -> ()
  done with End_of_file -> ());
  close_in ic
let is_space (r : n) = Hashtbl.mem space_tbl (int_of_n r)
let is_letter (r : n) = Hashtbl.mem letter_tbl (int_of_n r)
let is_udigit (r : n) = Hashtbl.mem digit_tbl (int_of_n r)
let to_lower (r : n) = match Hashtbl.find_opt lower_tbl (int_of_n r) with Some x -> n_of_int x | None -> r

(* printers *)
let b = Buffer.create 65536
let p_str (s : n list) =
  Buffer.add_char b '[';
  List.iteri (fun i r -> if i > 0 then Buffer.add_char b ','; Buffer.add_string b (string_of_int (int_of_n r))) s;
  Buffer.add_char b ']'
let p_pos ((l, c) : n * n) = Buffer.add_string b (Printf.sprintf "%d:%d" (int_of_n l) (int_of_n c))
let kind_s = function KTag -> "Tag" | KText -> "Text" | KComment -> "Comment" | KCDATA -> "CDATA"
let ckind_s = function BegEnd -> "BegEnd" | Literal -> "Literal" | CodeStart -> "CodeStart" | CodeValue -> "CodeValue" | CodeEnd -> "CodeEnd"
let serr_s = function EUnexpectedEOF -> "eof" | EComment -> "comment" | EDupAttr -> "dup" | ECompile -> "compile"
let cerr_s = function CEQuote -> "quote" | CECompile -> "compile" | CEEof -> "eof"

let p_ctok (c : ctok) =
  Buffer.add_string b ("(" ^ ckind_s c.c_kind ^ " "); p_str c.c_value; Buffer.add_char b ' ';
  p_pos c.c_start; Buffer.add_char b '-'; p_pos c.c_end; Buffer.add_char b ')'

let p_attr ctoks (a : attr) =
  Buffer.add_string b "{"; p_str a.a_name; Buffer.add_char b ' '; p_pos a.a_nstart; Buffer.add_char b '-'; p_pos a.a_nend;
  (match a.a_value with
   | None -> Buffer.add_string b " N"
   | Some v -> Buffer.add_string b " V"; p_str v; Buffer.add_char b ' '; p_pos a.a_vstart; Buffer.add_char b '-'; p_pos a.a_vend);
  (match ctoks a with
   | Inl l -> List.iter p_ctok l
   | Inr _ -> Buffer.add_string b "!");
  Buffer.add_string b "}"

let p_tok ctoks (t : token) =
  Buffer.add_string b ("(" ^ kind_s t.t_kind ^ " "); p_str t.t_value; Buffer.add_char b ' ';
  p_pos t.t_start; Buffer.add_char b '-'; p_pos t.t_end;
  (match t.t_kind with
   | KTag -> Buffer.add_char b ' '; p_str t.t_name; List.iter (p_attr ctoks) t.t_attrs
   | _ -> ());
  Buffer.add_string b ")"

let parse_ok_all _ _ = true
let parse_ok _ (s : n list) = match parse_code is_letter is_udigit s with Some _ -> true | None -> false

let unop_s = function UPlus -> "+" | UMinus -> "-" | UNot -> "!" | UCaret -> "^" | UStar -> "*" | UAmp -> "&" | URecv -> "<-"
let binop_s = function
  | BMul -> "*" | BDiv -> "/" | BMod -> "%" | BShl -> "<<" | BShr -> ">>" | BAnd -> "&" | BAndNot -> "&^"
  | BAdd -> "+" | BSub -> "-" | BOr -> "|" | BXor -> "^"
  | BEq -> "==" | BNe -> "!=" | BLt -> "<" | BLe -> "<=" | BGt -> ">" | BGe -> ">=" | BLAnd -> "&&" | BLOr -> "||"
let lk_s = function LNil -> "nil" | LInt -> "int" | LFloat -> "float" | LImag -> "imag" | LStr -> "str"
let add = Buffer.add_string b
let rec p_expr (e : expr) =
  match e with
  | ELit (k, t, l, c) -> add ("(lit " ^ lk_s k ^ " "); p_str t; add (Printf.sprintf " %d %d)" (int_of_n l) (int_of_n c))
  | EName (s, l, c) -> add "(name "; p_str s; add (Printf.sprintf " %d %d)" (int_of_n l) (int_of_n c))
  | EParen e -> add "(paren "; p_expr e; add ")"
  | EUnary (op, e, _, _) -> add ("(un " ^ unop_s op ^ " "); p_expr e; add ")"
  | EBin (op, x, y, _, _) -> add ("(bin " ^ binop_s op ^ " "); p_expr x; add " "; p_expr y; add ")"
  | ECond (c, x, y) -> add "(cond "; p_expr c; add " "; p_expr x; add " "; p_expr y; add ")"
  | EField (e, safe, nm) -> add "(field "; p_expr e; add (if safe then " safe " else " dot "); p_str nm; add ")"
  | EIndex (e, i) -> add "(index "; p_expr e; add " "; p_expr i; add ")"
  | ESlice (e, lo, hi) -> add "(slice "; p_expr e; add " "; p_opt lo; add " "; p_opt hi; add ")"
  | ESlice3 (e, lo, hi, cp) -> add "(slice3 "; p_expr e; add " "; p_opt lo; add " "; p_expr hi; add " "; p_expr cp; add ")"
  | ECall (f, args, ell, cm) ->
    add "(call "; p_expr f; add " (";
    List.iteri (fun i a -> if i > 0 then add " "; p_expr a) args;
    add ")"; add (if ell then " ell" else " -"); add (if cm then " comma" else " -"); add ")"
and p_opt = function None -> add "_" | Some e -> p_expr e

let rec p_node ctoks (nd : node) =
  let Node (i, t, ch, e) = nd in
  Buffer.add_string b (Printf.sprintf "<%d " (int_of_n i));
  (match t with Some t -> p_tok ctoks t | None -> Buffer.add_string b "doc");
  List.iter (p_node ctoks) ch;
  (match e with Some t -> Buffer.add_string b " /"; p_tok ctoks t | None -> ());
  Buffer.add_string b ">"

let run_case (line : string) =
  Buffer.clear b;
  (match split ' ' line with
   | ["scan"; prefix; tags; src] ->
     let prefix = str_of_field prefix and tags = strs_of_field tags and src = str_of_field src in
     let ctoks = attr_ctoks prefix parse_ok in
     (match scan_html is_space to_lower tags prefix parse_ok src with
      | Inl toks -> Buffer.add_string b "OK "; List.iter (p_tok ctoks) toks
      | Inr e -> Buffer.add_string b ("ERR " ^ serr_s e))
   | ["code"; l; c; src] ->
     (match cscan parse_ok (n_of_int (int_of_string l), n_of_int (int_of_string c)) (str_of_field src) with
      | Inl toks -> Buffer.add_string b "OK "; List.iter p_ctok toks
      | Inr e -> Buffer.add_string b ("ERR " ^ cerr_s e))
   | ["tree"; prefix; tags; voids; src] ->
     let prefix = str_of_field prefix and tags = strs_of_field tags and voids = strs_of_field voids and src = str_of_field src in
     let ctoks = attr_ctoks prefix parse_ok in
     (match load is_space to_lower tags voids prefix parse_ok src with
      | Inl nd -> Buffer.add_string b "OK "; p_node ctoks nd
      | Inr e -> Buffer.add_string b ("ERR " ^ serr_s e))
   | ["parse"; src] ->
     (match parse_code is_letter is_udigit (str_of_field src) with
      | Some e -> add "OK "; p_expr e
      | None -> add "ERR")
   | _ -> Buffer.add_string b "BADCASE");
  print_string (Buffer.contents b); print_newline ()

let () =
  load_unicode Sys.argv.(1);
  let ic = if Array.length Sys.argv > 2 then open_in Sys.argv.(2) else stdin in
  (try while true do run_case (input_line ic) done with End_of_file -> ())
