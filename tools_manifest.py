#!/usr/bin/env python3
"""Regenerates MANIFEST.json from checks/propdefs.py (run by hand after editing propdefs)."""
import json, sys, os
ROOT = os.path.dirname(os.path.abspath(__file__))
sys.path.insert(0, os.path.join(ROOT, "checks"))
from propdefs import PROPS, NOT_YET
props = [json.loads(l) for l in open(os.path.join(ROOT, "properties.jsonl"))]
checks = []
na = []
for p in props:
    pid = p["id"]
    if pid in PROPS:
        P = PROPS[pid]
        checks.append({
            "property_id": pid,
            "quick_cmd": "./check %s --tier quick" % pid,
            "thorough_cmd": "./check %s --tier thorough" % pid,
            "evidence_file": "evidence/%s.json" % pid,
            "replay_cmd_template": "./check %s --replay {path}" % pid,
            "engine": "coq-model+correspondence",
            "level_claimed": {"category": P.get("level", "proof"), "text": P["level_text"], "design_ref": P.get("design_ref", "DESIGN.md §4 " + pid)},
            "level_note": P["level_note"],
            "technique": P.get("technique", "machine-checked proof in Coq 8.16 over an executable Gallina model, tied to the code by a differential correspondence check"),
        })
    else:
        na.append({"property_id": pid, "reason": NOT_YET.get(pid, "check not built yet in this round; see DESIGN.md")})
m = {
    "version": 1,
    "setup_cmd": "./setup.sh",
    "hooks": {
        "guard": "verif",
        "enable": "go build -tags verif (the harness in /verif/harness is built with -tags verif against /repo via a replace directive)",
        "baseline_off_cmd": "cd /repo && GOFLAGS=-mod=mod GOPROXY=off GOSUMDB=off go test -vet=off -count=1 ./... && cd cmd/xtpl && GOFLAGS=-mod=mod GOPROXY=off GOSUMDB=off go test -vet=off -count=1 ./...",
        "source_commits": ["a4af134"],
        "add_only": True,
    },
    "engines": [{"name": "coq-model+correspondence", "path": "check", "serves_properties": [c["property_id"] for c in checks],
                 "kind_free_text": "Coq 8.16.1 theorems over hand-written executable Gallina models (coq/), extracted to OCaml (ocaml/) and compared with the Go implementation on generated inputs by a Go harness (harness/); fact translator tools/factgen regenerates coq/Gen/Facts.v from /repo"}],
    "checks": checks,
    "not_applicable": na,
    "notes": "All checks rebuild the Go harness from /repo's working tree on every run. KNOWN_FINDINGS.json lists recorded findings and fixed defects.",
}
json.dump(m, open(os.path.join(ROOT, "MANIFEST.json"), "w"), indent=1)
print("MANIFEST.json:", len(checks), "checks,", len(na), "not_applicable")
