"""Per-property configuration of the checks (streams, trusted base, notes)."""

TB_SCAN = ["Go's unicode.IsSpace / unicode.ToLower tables (dumped from the Go runtime each run; Section variables in the theorems)",
           "bufio/utf8 decoding of valid UTF-8 (the model sees scalar values)"]

PROPS = {
    "C17": dict(
        level="proof",
        rule="documents from the token grammar of harness/gen_doc.go (tags with 0-5 attributes in all value forms, comments, CDATA, doctype, raw-text elements with '<' inside, spaced/partial close tags, any-plane text, 7 prefix/raw-text configurations) plus a 20% malformed stream; a case is non-trivial when it is rejected or yields at least one tag token; distinct = distinct case lines",
        streams=[dict(name="scan", family="scan", quick=3000, thorough=200000, nontrivial=r"^ERR|\(Tag "),
                 dict(name="tokseq", family="tokseq", quick=3000, thorough=200000, nontrivial=r"\(Tag "),
                 dict(name="code", family="code", quick=2000, thorough=100000, nontrivial=r"^ERR|CodeValue")],
        trusted_base=TB_SCAN,
        modelled=["html/scan_base.go", "html/scan_html.go", "html/scan_code.go (expression acceptance = exp model)"],
        assumptions=["input is valid UTF-8", "io.Reader delivers the bytes without error"],
        level_text="Theorems over the one-rune step-function model of HtmlScanner/CodeScanner: token values concatenate to the source, every token starts where the previous ended and ends at pos_after(start, value) (tab = 4 columns), for every source, raw-text list, prefix and Unicode table; the model is tied to the code by running both on generated documents/values and diffing full token lists with positions, plus direct position/span oracles on the implementation.",
        level_note="Trusted: Coq kernel, extraction, Go harness/generators; Go's unicode tables and UTF-8 decoding are oracles; the print->scan round trip is checked by the generator's intended token list (exploration), not yet by a theorem.",
    ),
}

# axioms of Coq's standard library that Flocq's binary64 development relies on (named in the trusted base)
FLOCQ_AXIOMS = ["ClassicalDedekindReals.sig_not_dec", "ClassicalDedekindReals.sig_forall_dec",
                "FunctionalExtensionality.functional_extensionality_dep", "Classical_Prop.classic"]
TB_AXIOMS = "standard-library axioms reached through Flocq's binary64 (the evaluator's float operations): " + ", ".join(FLOCQ_AXIOMS)
TB_EXP = ["Go's unicode letter/digit tables (dumped each run; Section variables)",
          "Flocq 4 binary64 (theorems about float operations depend on the standard library's real-number axioms, classic and functional extensionality, as Print Assumptions reports)",
          TB_AXIOMS,
          "user functions, methods and writers are oracles (Section variables); the harness instantiates them with a fixed table implemented identically in Go and in ocaml/driver.ml"]
MOD_EXP = ["exp/parser (ANTLR lexer/parser: accept/reject + accepted tree; error recovery not modelled)", "exp/visitor.go", "exp/reflects.go", "exp/scope.go",
           "strconv.ParseInt/ParseFloat/Unquote, fmt %v for nil/bool/int/string/slices (floats, maps, structs in text: UNMODELLED -> case skipped and counted)"]
EVAL_RULE = "expressions from the typed generator of harness/gen_expr.go (all operators, literals in every Go form, variables of every integer/float kind, minimal and random parenthesisation, depth <= 6), instrumented expressions with recording/failing/panicking calls at the leaves, and access paths over a data graph of maps/structs/pointers/slices/arrays; non-trivial = the case is not a bare literal/name (it contains an operator, call or access step); distinct = distinct case lines"

PROPS["C09"] = dict(
    level="proof", allowed_axioms=FLOCQ_AXIOMS, rule=EVAL_RULE,
    streams=[dict(name="eval", family="eval", quick=4000, thorough=300000, nontrivial=r"."),
             dict(name="parse", family="parse", quick=4000, thorough=300000, nontrivial=r"."),
             dict(name="fmtfloat", family="fmtfloat", quick=500, thorough=40000, nontrivial=r".", shard=125)],
    trusted_base=TB_EXP, modelled=MOD_EXP,
    assumptions=["operands representable in int64/float64", "float32 values concatenated to strings are UNMODELLED (float64: modelled by Exp/FloatFmt.v, validated by the fmtfloat stream over arbitrary bit patterns)"],
    level_text="Float64 + - * / and comparisons are IEEE-754 round-to-nearest-even against the real numbers (Flocq: float_add_is_ieee ...), float64(i) is correct rounding, decimal literals are correctly rounded. Theorems over the lexer / precedence-climbing parser / evaluator models: the parser groups exactly as the generated ANTLR parser does (print/parse round trip over the whole AST with the levels of goexpression_parser.go), integer operators are the two's-complement int64 operations, mixed operands promote to float64 (Flocq), wrong kinds and division by zero / negative shifts are errors; tied to the code by diffing parse trees and typed results on generated expressions, plus an independent Go reference evaluation as the direct oracle.",
    level_note="The conditional operator is left-associative in the generated parser: ternary_right_assoc_refuted + KNOWN_FINDINGS (needs ANTLR regeneration). Float text formatting and complex numbers are unmodelled.",
)
PROPS["C10"] = dict(
    level="proof", rule="expression texts: well-formed (minimal/random parentheses, insignificant blanks/comments/newlines after operators), padded, with 27 kinds of trailing suffix, prefix truncations, random mutations and a hostile pool of 190 hand-written texts; directive values with ${} blocks, strings, braces, mutations; non-trivial = every case (all exercise accept/reject); distinct = distinct case lines",
    streams=[dict(name="parse", family="parse", quick=5000, thorough=300000, nontrivial=r"."),
             dict(name="code", family="code", quick=3000, thorough=200000, nontrivial=r"."),
             dict(name="scan", family="scan", quick=2000, thorough=100000, nontrivial=r"^ERR|\(Tag ")],
    trusted_base=TB_EXP + TB_SCAN, modelled=MOD_EXP + ["html/scan_code.go"],
    assumptions=["valid UTF-8"],
    level_text="Theorems: the parser consumes exactly the tokens of the tree it returns and parse_code accepts only when nothing but newline/comment EOS tokens remain; the code scanner accepts end of input only after the closing quote (unterminated ${, strings and quotes are errors); tied to the code by accept/reject + tree diffs on well-formed, suffixed, truncated and mutated inputs.",
    level_note="ANTLR error recovery is not modelled (any syntax error = rejection); lexer model covers GoLexer.g4 token classes incl. NLSEMI mode.",
)
PROPS["C11"] = dict(
    level="proof", allowed_axioms=FLOCQ_AXIOMS, rule=EVAL_RULE,
    streams=[dict(name="eval", family="eval", quick=4000, thorough=300000, nontrivial=r"."),
             dict(name="rel", family="rel", quick=3000, thorough=200000, nontrivial=r".")],
    trusted_base=TB_EXP, modelled=MOD_EXP, assumptions=["non-NaN operands for trichotomy; uint64 values above MaxInt64 excluded (they wrap in IsInt)"],
    level_text="Theorems on rel_op of the evaluator model: != is the negation of == for all values, exactly one of < == > holds for non-NaN numbers of any integer/float kind, <= and >= are the unions, equality of integers does not depend on the kind; tied to the code by evaluating all six operators on ordered pairs over every kind at boundary and random values.",
    level_note="Equality of slices/maps/structs/functions (Go's == panics or compares identity) is UNMODELLED and skipped.",
)
PROPS["C12"] = dict(
    level="proof", allowed_axioms=FLOCQ_AXIOMS, rule=EVAL_RULE,
    streams=[dict(name="eval", family="eval", quick=5000, thorough=300000, nontrivial=r"LOG .|ERR"),
             dict(name="tmpl", family="tmpl", quick=1500, thorough=60000, nontrivial=r"^(OK|ERR)", shard=250)],
    trusted_base=TB_EXP, modelled=MOD_EXP, assumptions=[],
    level_text="Theorems on the evaluator model: an error in any evaluated operand is the result of the whole expression (first error wins, cause preserved), nothing is evaluated after it (the call log stops), && || ?: do not evaluate the unselected operand; tied to the code by comparing error class (errors.Is against the injected sentinels / ErrNoSuchValue) and the recorded call log on instrumented expressions.",
    level_note="Render-level clauses: theorem writer_failure_prefix (Proofs/WriterPrefix.v) on the renderer model, tied to the code by the tmpl stream, where the writer fails at EVERY write index of the render in three ways (persistent, one-shot, accept-and-fail).",
)
PROPS["C13"] = dict(
    level="proof", rule=EVAL_RULE, allowed_axioms=FLOCQ_AXIOMS,
    streams=[dict(name="eval", family="eval", quick=5000, thorough=300000, nontrivial=r".")],
    trusted_base=TB_EXP + ["reflect (method sets, FieldByName through embedded structs, unexported fields) is modelled, validated by the correspondence run, not verified"],
    modelled=MOD_EXP, assumptions=["string-keyed maps; struct types from the harness' fixed family"],
    level_text="Theorems: get_value agrees with the specification functions for fields, map keys, indexes (negative from the end) and slices on the value model, errors for absent/out-of-range/nil/unexported, never a zero value; tied to the code by a native Go walk over generated data graphs and access paths in all five syntaxes.",
    level_note="a[i:j] on an array held in an interface is an error in the code (unaddressable) and in the model.",
)
PROPS["C14"] = dict(
    level="proof", allowed_axioms=FLOCQ_AXIOMS, rule="string literals: every string over the escape alphabet (quotes, backslash, braces, '$', newline, tab, control, non-ASCII) up to length 3 exhaustively in the thorough tier, random beyond, in each quoting style, evaluated directly and embedded in :text / dynamic attributes with either delimiter; non-trivial = the string contains at least one rune that needs escaping or is non-ASCII; distinct = distinct case lines",
    streams=[dict(name="strlit", family="strlit", quick=9000, thorough=150000, nontrivial=r"."),
             dict(name="strtmpl", family="strtmpl", quick=9000, thorough=150000, nontrivial=r".")],
    trusted_base=TB_EXP, modelled=MOD_EXP + ["strconv.Unquote"], assumptions=["valid UTF-8, NUL-free"],
    level_text="Theorems: for every string s, lexing quote_dq s / quote_sq s / quote_raw s yields one string token and unquote returns s (raw: s without backquote and CR); END TO END (Proofs/EndToEnd.v): for every s without the attribute's delimiter the source <p :text=D${LIT}D>x</p> loads and renders to <p>escape(s)</p> through the composed models of HTML scanner, code scanner, lexer, parser, literal decoder, tree builder, evaluator and renderer (these statements mention the evaluator, hence the standard-library axioms Flocq brings); tied to the code by evaluating the three literal forms of generated strings directly and inside ${} blocks in attributes with either delimiter.",
    level_note="Byte escapes >= 0x80 (\\xff) produce invalid UTF-8 and are UNMODELLED.",
)

TB_RENDER = TB_SCAN + TB_EXP + ["Go map iteration order (range over maps is exercised with at most one entry)", "html.EscapeString is modelled as the five-entity map"]
MOD_RENDER = ["html/template.go (execute / processTagStart / processIfElse / processRange / processRemoveAttr)", "html/tag.go (SortedAttr, IsClose, IsSelfClose)",
              "html/tag_attr.go (Evaluate, WithAssign)", "html/manager.go (Add, addDefinedTpl, GetTemplate)", "html/node.go", "html/parser.go"] + MOD_EXP
SOUP_RULE = ("template sets from harness/gen_tmpl.go: 1-3 files in random load order, 0-3 fragments defined before/after use or in other files, elements carrying random subsets of "
             "{with, if/else-if/elseif/elif/else chains, range (16 header forms), remove modes, text/raw/insert/replace, dynamic and static attributes} in random written order, on ordinary, void, "
             "self-closing, block and raw-text elements, nesting <= 4; 1-3 data valuations executed on ONE template object, 15% with a writer failing at a random write index; "
             "non-trivial = the template loaded and at least one directive was processed (every generated set contains directives); distinct = distinct case lines")
def render_prop(level_text, level_note, extra_streams=(), quick=2500, thorough=150000):
    return dict(level="proof", allowed_axioms=FLOCQ_AXIOMS, rule=SOUP_RULE,
                streams=[dict(name="tmpl", family="tmpl", quick=quick, thorough=thorough, nontrivial=r"^(OK|ERR)", shard=250)] + list(extra_streams),
                trusted_base=TB_RENDER, modelled=MOD_RENDER, assumptions=["valid UTF-8 templates", "acyclic fragment inclusion (cyclic inclusion: see C08)"],
                level_text=level_text, level_note=level_note)

REF_STREAM = dict(name="ref", family="ref", quick=4000, thorough=200000, nontrivial=r"^(OK|ERR|REF)", shard=2000)
PROPS["C01"] = dict(level="proof", allowed_axioms=FLOCQ_AXIOMS,
    rule="documents without directives from the token grammar of harness/gen_doc.go (nesting, unbalanced/unclosed/stray close tags, void and self-closing elements, raw-text elements with '<' inside, entities, multi-line attribute values, any Unicode plane; 7 prefix / raw-text / void configurations; 10% malformed); non-trivial = loads and contains at least one tag; distinct = distinct case lines",
    streams=[dict(name="plain", family="plain", quick=3000, thorough=200000, nontrivial=r"^OK .*60,"),
             dict(name="scan", family="scan", quick=2000, thorough=100000, nontrivial=r"\(Tag ")],
    trusted_base=TB_RENDER, modelled=MOD_RENDER, assumptions=["valid UTF-8", "no attribute with the attribute prefix, no block element, no <!-- /* */ --> comment"],
    level_text="Theorems: token values concatenate to the source (scan_concat), the tree builder keeps every token in order (build_flatten), and rendering a tree without directives prints every text/comment/CDATA/close tag byte for byte and every open tag as <name attr[=raw]...> (render_plain, for every loader-built tree: build_shaped); the printed form equals the source up to white space (render_differs_only_by_space) and is a fixed point of scan-and-print (render_idempotent); tied to the code by diffing rendered output on generated documents, plus the direct oracles (output = source parts, re-scan gives the same parts, second render is identical).",
    level_note="Theorems tag_print_nonspace / tag_source_shape_open / render_differs_only_by_space (Proofs/TagPrint*.v) state the in-tag white-space clause; the direct oracle 'output = source after deleting all white space' checks the same on the implementation.")
PROPS["C02"] = render_prop(
    "Theorems: unescape(escape s) = s, escape s contains none of < > \" ' and every & starts one of the five entities, :text emits escape(value), a dynamic attribute emits name=\"escape(value)\", :raw emits the value verbatim; tied to the code by diffing rendered output for hostile strings at every insertion point; the structure clause is theorem structure_invariant (text_hole_invariant / attr_hole_invariant: Proofs/Hole*.v) about the scanner model as the consumer, and is checked on the implementation by re-scanning outputs for pairs of inserted strings.",
    "The structure theorem speaks about the scanner model as the HTML consumer, not about a browser's parser.")
PROPS["C03"] = render_prop(
    "Theorems over the renderer model for ANY behaviour of nested renders and ANY initial condition table: a chain renders exactly the first element whose condition is \"true\", nothing of an unselected element is evaluated after the selected one, an else without a preceding chain element is an error; tied to the code by diffing output, error class and the log of recording condition functions on generated chains (1-4 elements, all placements, other directives mixed in, histories on one object).",
    "The chain theorem is stated for elements whose only directive is the condition; mixed-directive chains are covered by the correspondence stream.")
PROPS["C04"] = render_prop(
    "Theorems: the per-item loop re-executes the element once per item in order with index and item bound innermost, joins the outputs with the blank text that follows the element (between items only), renders nothing for an empty collection, stops at the first failing item, rejects non-collections; tied to the code by diffing generated ranges over slices/arrays/strings/maps/struct fields with every header form, plus a reference stream ('ref') whose expected output is computed natively from the generated description: slices, []int, arrays, strings (bytes), string- and int-keyed maps with 0-3 entries (any entry order accepted), nested collections, struct items, non-collections; variables used in dynamic attributes, content and descendants; every kind of node after the element.",
    "Go iterates maps in random order: in the model correspondence maps in range position have at most one entry; maps with several entries are checked by the native reference oracle up to the order of entries. Range over a non-ASCII string iterates bytes (modelled).",
    extra_streams=[REF_STREAM])
PROPS["C05"] = render_prop(
    "Theorems: Tag.SortedAttr is a permutation, sorted by the documented key (with < conditionals < range < remove < rest) and stable, with the weights taken from html/tag.go on every run; the owner of if/else/range stops after its directive (model); tied to the code by diffing every directive subset in random written order, plus the direct oracle that re-renders with permuted control attributes. Theorems sorted_order_irrelevant / render_order_irrelevant / execute_order_irrelevant: rewriting the attributes of any number of elements in another order (attributes of equal sort key keeping their relative order) changes neither output, result, name table nor call log of the model render, for every fuel, scope, writer and nesting position. Theorem each_effect_once (Proofs/Compose.v): with + if + range + text + dynamic attributes on one element, in any written order, render exactly as the specification function spec_once (each evaluation once, in the documented order and scope). The remove modes are additionally checked against natively computed expectations ('ref' stream).",
    "'each effect exactly once' is checked through the call log of recording functions in the correspondence stream.",
    extra_streams=[REF_STREAM])
PROPS["C06"] = render_prop(
    "Theorems: Combine falls through only on Absent (not on present-nil, not on failure), a chain of scopes resolves to the first non-absent entry, the render scope is data then global (built-ins last), with/range bindings shadow and resolve everything else outside, siblings are rendered in the list's scope (bindings never flow to a sibling or back to the parent); tied to the code by diffing nested with/range shadowing of data/global/built-in names.",
    "reflect-level lookup (getValue) is modelled, validated by the eval stream.",
    extra_streams=[dict(name="eval", family="eval", quick=2000, thorough=100000, nontrivial=r"."), REF_STREAM])
PROPS["C07"] = render_prop(
    "Theorems: define is never rendered in place, insert appends the fragment's output inside the host tag and replace writes it instead of the host, both discard the host's children and evaluate the fragment in the call-site scope on a fresh object, unknown names are template-not-found, only a first/last blank text child is trimmed, and the name table does not depend on load order (for permuted file lists); tied to the code by diffing 1-3 files in random load order with fragments before/after use, nested, computed names; the 'ref' stream adds acyclic templates that include a fragment 129-300 times (under a range, as siblings, by repeated execution of one object): the number of inclusions is not bounded, only their nesting; the 'fs' stream loads directory trees through Parse: a file is resolved by its relative path.",
    "",
    extra_streams=[REF_STREAM, dict(name="fs", family="fs", quick=1500, thorough=50000, nontrivial=r"EV .")])
PROPS["C16"] = render_prop(
    "Theorem: for loader-built trees, executing a template from two arbitrary well-formed condition tables gives the same output, result and call log, hence the i-th execution of any history on one template object equals a fresh execution (history_pure); tied to the code by histories of 1-3 valuations (including failing renders and failing writers) on one object, plus the direct oracle comparing every run with a fresh object (output, error class and error text); the 'ref' stream executes one object 130 times.",
    "",
    extra_streams=[REF_STREAM])

PROPS["C15"] = dict(level="proof", allowed_axioms=FLOCQ_AXIOMS,
    rule=SOUP_RULE + "; every case also snapshots the whole shared parsed tree (verif hook html.VerifSnapshot: Tag caches, attribute order, pointers) before and after all executions; plus runs under the Go race detector: 2..64 goroutines executing the same/different templates of one manager, racing first executions, with and without a reused template object per goroutine, results compared with serial execution",
    streams=[dict(name="tmpl", family="tmpl", quick=2000, thorough=100000, nontrivial=r"^(OK|ERR)", shard=250)],
    race=dict(quick=25, thorough=600),
    trusted_base=TB_RENDER + ["the Go race detector (go build -race) and the Go scheduler: data-race freedom of the real runtime rests on these runs"],
    modelled=MOD_RENDER + ["html/tag.go Tag.AttrMap / Tag.SortedAttr caches (Sys/Conc.v)"],
    assumptions=["each goroutine uses its own template object, data and writer"],
    level_text="PARTIAL. Theorems: tags published by the scanner are cache-complete so Execute's accessors never write the shared tree, and executions that only read shared state get, under every interleaving, the result they get alone; the renderer model takes the tree as an immutable argument. Tie: the snapshot oracle checks on every generated case that no cell of the shared tree changes during Execute, and the race-detector runs check data-race freedom and concurrent = serial on the real runtime.",
    level_note="The Go memory model / scheduler cannot be exhibited by an executable Gallina model: absence of data races in the real runtime is exploration (race detector), not proof.",
    technique="Coq theorems on the cache / schedule logic + snapshot correspondence + Go race detector runs")
PROPS["C18"] = dict(level="proof",
    rule="ALL histories of length 0..7 over {Reload succeeding, Reload failing, Instance+Render of an existing name, of a missing name, GetTemplate} x 2 hot-reload modes x 2 outcomes of the first build (390 624 histories, exhaustive in both tiers) against a fake template manager; non-trivial = the history contains at least one operation; plus deterministic SCHEDULES of 1-7 concurrent Reload / request threads in which a Reload is held inside its builder while other threads run (requests and other Reloads' stores fall inside a build; stores in the opposite order to builds; Reloads never started or never finished) against the atomic-step model; plus concurrent Reload / Instance+Render under the Go race detector with a real-time freshness oracle",
    streams=[dict(name="reload", family="reload", quick=390624, thorough=390624, nontrivial=r" ", exhaustive_always=True),
             dict(name="reloadconc", family="reloadconc", quick=4000, thorough=200000, nontrivial=r"rok|served|notfound")],
    race=dict(quick=40, thorough=1000),
    trusted_base=["the Go race detector for the concurrency clause", "the builder (types.Factory) is an oracle"],
    modelled=["render.go (NewHTMLRender, Reload, Instance, GetTemplate, Render, WriteContentType)"],
    assumptions=[],
    level_text="Theorems by induction over operation histories of the renderer state machine: without hot reload every request is answered from the last successful build of the history so far (a failed Reload keeps the previous set, none yet = ErrNoTemplateSet), with hot reload every request is answered from its own build or surfaces its own build error with nothing written, Reload answers its own outcome, the content type is set only on an empty header; tied to the code by running ALL histories up to length 7 in both modes.  Concurrency: Reload and a request are split into their atomic steps (build, store under the lock / load under the read lock, look-up) and EVERY schedule of any number of threads is proved linearizable with respect to the sequential model, in real-time order (a request that starts after a successful Reload returned is served from that build or a later one; the field always holds the last successful build of the linearized history); tied to the code by deterministic schedules that hold Reloads inside their builder, and by runs under the race detector.",
    level_note="That the store and the load are atomic with respect to each other (sync.RWMutex, the Go memory model) is exploration (race detector) — that part of the schedule clause is partial; the schedules the harness can force are those with the build as the only preemption point.",
    technique="Coq induction over histories and over schedules of atomic steps (linearizability) + exhaustive history correspondence + forced-schedule correspondence + Go race detector runs")

PROPS["C20"] = dict(level="proof", allowed_axioms=FLOCQ_AXIOMS, xtpl=True,
    rule="template sets of 1-3 files (one in a sub-directory, plus a non-matching file) whose directive values contain 1-3 ${} blocks with keyword calls: plain name, receiver.field, parenthesised callee, wrapped in other calls; literals in all three quoting styles with escapes and either attribute delimiter; repeated and distinct occurrences; too few arguments, non-literal, parenthesised and empty msgids; default and custom -keywords, default and custom -attr_prefix; single-line blocks without tabs; non-trivial = at least one keyword call; distinct = distinct case lines",
    streams=[dict(name="xtpl", family="xtpl", quick=400, thorough=20000, nontrivial=r"\(")],
    trusted_base=TB_EXP + ["github.com/youthlin/t POT writer (its output is parsed back by the harness)", "os.DirFS / regexp (file selection)"],
    modelled=["cmd/xtpl/main.go (extract, EnterPrimaryExpr, getFnName, doExtract, isStringLiteral, unquote)", "cmd/xtpl/models.go (keywords)"] + MOD_EXP,
    assumptions=["single-line ${} blocks without tabs (column claim)", "each (context, msgid) is used with one plural form (the surviving plural otherwise depends on Go's map iteration order)"],
    level_text="Theorems over the extractor model: an entry is produced exactly for keyword calls (by name, receiver.field or parenthesised callee) with enough arguments and a non-empty string-literal msgid, its text is the decoded literal - the value the evaluator passes at run time - referenced at the literal's position; too few arguments / non-literal msgids add nothing and the header entry is never overwritten; tied to the code by running the xtpl binary built from the working tree on generated template sets and diffing the parsed catalogue with the model and with the expectation known by construction.",
    level_note="The POT writer and the merge of repeated keys (map iteration order) are outside the model.")

PROPS["C19"] = dict(level="proof", allowed_axioms=FLOCQ_AXIOMS,
    rule="directory trees of 1-9 files in 0-3 levels (matching and non-matching names, unparsable files, fragments whose names collide with file paths), three matcher kinds (suffix, regexp, predicate), with and without a sub-directory, 35% with an Open or Read fault injected at a random file, on an instrumented fs.FS recording opens and closes; non-trivial = at least one file matches; distinct = distinct case lines",
    streams=[dict(name="fs", family="fs", quick=3000, thorough=100000, nontrivial=r"EV .")],
    trusted_base=TB_RENDER + ["io/fs (fs.Sub, fs.WalkDir: lexical order) and testing/fstest.MapFS", "the matcher is an oracle (a flag per file)"],
    modelled=["html/manager.go (Parse, ParseWithSuffix, ParseWithRegexp, Add, addDefinedTpl, GetTemplate)"] + MOD_RENDER,
    assumptions=["the sub-directory exists"],
    level_text="Theorems over the walk model: every opened file is closed on every path, files that do not match are never opened, on success every matching file is registered under its relative slash path, earlier registrations are never lost (one namespace), a registered name is rejected with the duplicate error, a fault on a matching file makes Parse fail, the walk is a sorted permutation of the files and the sub-directory selects exactly the files below it; tied to the code by diffing registered names, error class and the open/close trace on generated trees with injected faults.",
    level_note="An exact characterisation of the fragment names added by a file is left to the correspondence run.")
PROPS["C08"] = dict(level="proof", allowed_axioms=FLOCQ_AXIOMS,
    rule="fuzz stream: random byte strings (<= 256 bytes, 30% arbitrary bytes incl. invalid UTF-8) given to tplManager.Add + Execute, HtmlScanner, CodeScanner, exp.ParseCode + Evaluate; 90 hostile expressions and generated expressions against hostile data (nil, typed nil pointers, NaN, uncomparable structs, non-string-keyed maps, functions of every signature incl. panicking / failing / variadic / no-result, a Stringer that panics); generated and mutated template sets (incl. 200-1000 nested elements, self-including fragments, failing writers) executed with hostile data; every call under recover(), process death detected through the exit status; plus the PANIC verdicts of every other stream (scan, code, parse, eval, tmpl, plain, fs, reload); non-trivial = every case; distinct = distinct case lines",
    streams=[dict(name="fuzz", family="fuzz", quick=4000, thorough=300000, nontrivial=r"."),
             dict(name="scan", family="scan", quick=1500, thorough=50000, nontrivial=r"."),
             dict(name="parse", family="parse", quick=1500, thorough=50000, nontrivial=r"."),
             dict(name="eval", family="eval", quick=1500, thorough=50000, nontrivial=r"."),
             dict(name="tmpl", family="tmpl", quick=800, thorough=30000, nontrivial=r".", shard=250)],
    trusted_base=TB_RENDER + ["recover() in the harness; a fatal runtime error (stack exhaustion) is seen as a dead child process"],
    modelled=MOD_RENDER, assumptions=["inputs up to a few KB: nesting deep enough to exhaust the 1 GB goroutine stack is out of scope", "no channels in data"],
    level_text="PARTIAL. Theorems: every partial operation of the Go code (integer division, shifts, indexing, slicing, nil dereference, calls into panicking / mis-typed user functions, non-boolean conditions, end of input inside a tag, stray close tags) is a guarded total operation of the model whose failure is an error value, and the models are total functions; that the implementation itself never panics is established by the correspondence streams (a PANIC outcome never matches the model) and by fuzzing every entry point with random bytes and hostile data.",
    level_note="No theorem speaks about the Go runtime: implementation-level panic freedom is exploration (differential + fuzz), incl. invalid UTF-8 which is outside the model's input type.",
    technique="Coq theorems on the model's guards + differential correspondence + in-process fuzzing under recover")

# Properties whose statement fixes the compared observable (output / result / error class): when the
# implementation disagrees with the model - which provably satisfies the property - on a generated
# input, that input is a concrete input on which the behaviour the property describes has changed, and
# it is reported as the replay (the brief: "the disagreeing case if the disagreement is on an observable
# the property fixes").  For the others a bare disagreement is reported with no-failing-input-found.
PROPS["C12"]["trusted_base"] = TB_RENDER
PROPS["C12"]["modelled"] = MOD_RENDER
PROPS["C12"]["rule"] = EVAL_RULE + " || tmpl stream: " + SOUP_RULE + "; in addition the first valuation of every case is re-rendered with the writer failing at every write index (three failure modes)"
for _pid in ["C01", "C03", "C04", "C05", "C06", "C07", "C09", "C10", "C11", "C12", "C13", "C14", "C16", "C17", "C18", "C19", "C20", "C02"]:
    PROPS[_pid]["functional"] = True

NOT_YET = {}
