"""Per-property configuration of the checks (streams, trusted base, notes)."""

TB_SCAN = ["Go's unicode.IsSpace / unicode.ToLower tables (dumped from the Go runtime each run; Section variables in the theorems)",
           "bufio/utf8 decoding of valid UTF-8 (the model sees scalar values)"]

PROPS = {
    "C17": dict(
        level="proof",
        rule="documents from the token grammar of harness/gen_doc.go (tags with 0-5 attributes in all value forms, comments, CDATA, doctype, raw-text elements with '<' inside, spaced/partial close tags, any-plane text, 7 prefix/raw-text configurations) plus a 20% malformed stream; a case is non-trivial when it is rejected or yields at least one tag token; distinct = distinct case lines",
        streams=[dict(name="scan", family="scan", quick=3000, thorough=200000, nontrivial=r"^ERR|\(Tag "),
                 dict(name="code", family="code", quick=2000, thorough=100000, nontrivial=r"^ERR|CodeValue")],
        trusted_base=TB_SCAN,
        modelled=["html/scan_base.go", "html/scan_html.go", "html/scan_code.go (expression acceptance = exp model)"],
        assumptions=["input is valid UTF-8", "io.Reader delivers the bytes without error"],
        level_text="Theorems over the one-rune step-function model of HtmlScanner/CodeScanner: token values concatenate to the source, every token starts where the previous ended and ends at pos_after(start, value) (tab = 4 columns), for every source, raw-text list, prefix and Unicode table; the model is tied to the code by running both on generated documents/values and diffing full token lists with positions, plus direct position/span oracles on the implementation.",
        level_note="Trusted: Coq kernel, extraction, Go harness/generators; Go's unicode tables and UTF-8 decoding are oracles; the print->scan round trip is checked by the generator's intended token list (exploration), not yet by a theorem.",
    ),
}

NOT_YET = {}
