"""Per-property configuration of the checks (streams, trusted base, notes)."""

TB_SCAN = ["Go's unicode.IsSpace / unicode.ToLower tables (dumped from the Go runtime each run; Section variables in the theorems)",
           "bufio/utf8 decoding of valid UTF-8 (the model sees scalar values)"]

PROPS = {
    "C17": dict(
        level="proof",
        rule="documents from the token grammar of harness/gen_doc.go (tags with 0-5 attributes in all value forms, comments, CDATA, doctype, raw-text elements with '<' inside, spaced/partial close tags, any-plane text, 7 prefix/raw-text configurations) plus a 20% malformed stream; a case is non-trivial when it is rejected or yields at least one tag token; distinct = distinct case lines",
        streams=[dict(name="scan", family="scan", quick=3000, thorough=200000, nontrivial=r"^ERR|\(Tag "),
                 dict(name="code", family="code", quick=2000, thorough=100000, nontrivial=r"^ERR|CodeValue")],
        trusted_base=TB_SCAN,
        modelled=["html/scan_base.go", "html/scan_html.go", "html/scan_code.go (expression acceptance = exp model)"],
        assumptions=["input is valid UTF-8", "io.Reader delivers the bytes without error"],
        level_text="Theorems over the one-rune step-function model of HtmlScanner/CodeScanner: token values concatenate to the source, every token starts where the previous ended and ends at pos_after(start, value) (tab = 4 columns), for every source, raw-text list, prefix and Unicode table; the model is tied to the code by running both on generated documents/values and diffing full token lists with positions, plus direct position/span oracles on the implementation.",
        level_note="Trusted: Coq kernel, extraction, Go harness/generators; Go's unicode tables and UTF-8 decoding are oracles; the print->scan round trip is checked by the generator's intended token list (exploration), not yet by a theorem.",
    ),
}

TB_EXP = ["Go's unicode letter/digit tables (dumped each run; Section variables)",
          "Flocq 4 binary64 (theorems about float operations depend on the standard library's real-number axioms, classic and functional extensionality, as Print Assumptions reports)",
          "user functions, methods and writers are oracles (Section variables); the harness instantiates them with a fixed table implemented identically in Go and in ocaml/driver.ml"]
MOD_EXP = ["exp/parser (ANTLR lexer/parser: accept/reject + accepted tree; error recovery not modelled)", "exp/visitor.go", "exp/reflects.go", "exp/scope.go",
           "strconv.ParseInt/ParseFloat/Unquote, fmt %v for nil/bool/int/string/slices (floats, maps, structs in text: UNMODELLED -> case skipped and counted)"]
EVAL_RULE = "expressions from the typed generator of harness/gen_expr.go (all operators, literals in every Go form, variables of every integer/float kind, minimal and random parenthesisation, depth <= 6), instrumented expressions with recording/failing/panicking calls at the leaves, and access paths over a data graph of maps/structs/pointers/slices/arrays; non-trivial = the case is not a bare literal/name (it contains an operator, call or access step); distinct = distinct case lines"

PROPS["C09"] = dict(
    level="proof", rule=EVAL_RULE,
    streams=[dict(name="eval", family="eval", quick=4000, thorough=300000, nontrivial=r"."),
             dict(name="parse", family="parse", quick=4000, thorough=300000, nontrivial=r".")],
    trusted_base=TB_EXP, modelled=MOD_EXP,
    assumptions=["operands representable in int64/float64", "generated expressions avoid formatting floats into strings"],
    level_text="Theorems over the lexer / precedence-climbing parser / evaluator models: the parser groups exactly as the generated ANTLR parser does (print/parse round trip over the whole AST with the levels of goexpression_parser.go), integer operators are the two's-complement int64 operations, mixed operands promote to float64 (Flocq), wrong kinds and division by zero / negative shifts are errors; tied to the code by diffing parse trees and typed results on generated expressions, plus an independent Go reference evaluation as the direct oracle.",
    level_note="The conditional operator is left-associative in the generated parser: ternary_right_assoc_refuted + KNOWN_FINDINGS (needs ANTLR regeneration). Float text formatting and complex numbers are unmodelled.",
)
PROPS["C10"] = dict(
    level="proof", rule="expression texts: well-formed (minimal/random parentheses, insignificant blanks/comments/newlines after operators), padded, with 27 kinds of trailing suffix, prefix truncations, random mutations and a hostile pool of 190 hand-written texts; directive values with ${} blocks, strings, braces, mutations; non-trivial = every case (all exercise accept/reject); distinct = distinct case lines",
    streams=[dict(name="parse", family="parse", quick=5000, thorough=300000, nontrivial=r"."),
             dict(name="code", family="code", quick=3000, thorough=200000, nontrivial=r"."),
             dict(name="scan", family="scan", quick=2000, thorough=100000, nontrivial=r"^ERR|\(Tag ")],
    trusted_base=TB_EXP + TB_SCAN, modelled=MOD_EXP + ["html/scan_code.go"],
    assumptions=["valid UTF-8"],
    level_text="Theorems: the parser consumes exactly the tokens of the tree it returns and parse_code accepts only when nothing but newline/comment EOS tokens remain; the code scanner accepts end of input only after the closing quote (unterminated ${, strings and quotes are errors); tied to the code by accept/reject + tree diffs on well-formed, suffixed, truncated and mutated inputs.",
    level_note="ANTLR error recovery is not modelled (any syntax error = rejection); lexer model covers GoLexer.g4 token classes incl. NLSEMI mode.",
)
PROPS["C11"] = dict(
    level="proof", rule=EVAL_RULE,
    streams=[dict(name="eval", family="eval", quick=4000, thorough=300000, nontrivial=r"."),
             dict(name="rel", family="rel", quick=3000, thorough=200000, nontrivial=r".")],
    trusted_base=TB_EXP, modelled=MOD_EXP, assumptions=["non-NaN operands for trichotomy; uint64 values above MaxInt64 excluded (they wrap in IsInt)"],
    level_text="Theorems on rel_op of the evaluator model: != is the negation of == for all values, exactly one of < == > holds for non-NaN numbers of any integer/float kind, <= and >= are the unions, equality of integers does not depend on the kind; tied to the code by evaluating all six operators on ordered pairs over every kind at boundary and random values.",
    level_note="Equality of slices/maps/structs/functions (Go's == panics or compares identity) is UNMODELLED and skipped.",
)
PROPS["C12"] = dict(
    level="proof", rule=EVAL_RULE,
    streams=[dict(name="eval", family="eval", quick=5000, thorough=300000, nontrivial=r"LOG .|ERR")],
    trusted_base=TB_EXP, modelled=MOD_EXP, assumptions=[],
    level_text="Theorems on the evaluator model: an error in any evaluated operand is the result of the whole expression (first error wins, cause preserved), nothing is evaluated after it (the call log stops), && || ?: do not evaluate the unselected operand; tied to the code by comparing error class (errors.Is against the injected sentinels / ErrNoSuchValue) and the recorded call log on instrumented expressions.",
    level_note="Render-level clauses (writer failures, prefix property) are covered by the renderer model streams.",
)
PROPS["C13"] = dict(
    level="proof", rule=EVAL_RULE,
    streams=[dict(name="eval", family="eval", quick=5000, thorough=300000, nontrivial=r".")],
    trusted_base=TB_EXP + ["reflect (method sets, FieldByName through embedded structs, unexported fields) is modelled, validated by the correspondence run, not verified"],
    modelled=MOD_EXP, assumptions=["string-keyed maps; struct types from the harness' fixed family"],
    level_text="Theorems: get_value agrees with the specification functions for fields, map keys, indexes (negative from the end) and slices on the value model, errors for absent/out-of-range/nil/unexported, never a zero value; tied to the code by a native Go walk over generated data graphs and access paths in all five syntaxes.",
    level_note="a[i:j] on an array held in an interface is an error in the code (unaddressable) and in the model.",
)
PROPS["C14"] = dict(
    level="proof", rule="string literals: every string over the escape alphabet (quotes, backslash, braces, '$', newline, tab, control, non-ASCII) up to length 3 exhaustively in the thorough tier, random beyond, in each quoting style, evaluated directly and embedded in :text / dynamic attributes with either delimiter; non-trivial = the string contains at least one rune that needs escaping or is non-ASCII; distinct = distinct case lines",
    streams=[dict(name="strlit", family="strlit", quick=4000, thorough=150000, nontrivial=r".")],
    trusted_base=TB_EXP, modelled=MOD_EXP + ["strconv.Unquote"], assumptions=["valid UTF-8, NUL-free"],
    level_text="Theorems: for every string s, lexing quote_dq s / quote_sq s / quote_raw s yields one string token and unquote returns s (raw: s without backquote and CR); tied to the code by evaluating the three literal forms of generated strings directly and inside ${} blocks in attributes with either delimiter.",
    level_note="Byte escapes >= 0x80 (\\xff) produce invalid UTF-8 and are UNMODELLED.",
)

NOT_YET = {}
