"""Correspondence streams: run the Go harness (implementation + direct oracles) and the extracted
model on the same generated cases and compare the canonical lines."""
import os, subprocess, json, collections, concurrent.futures, re

SHARD = 20000


def _run_shard(root, fam, seed, n, outdir, extra):
    os.makedirs(outdir, exist_ok=True)
    h = os.path.join(root, "harness", "bin", "harness")
    for stale in ("hang.txt", "current.txt", "progress.txt"):
        try:
            os.remove(os.path.join(outdir, stale))
        except OSError:
            pass
    try:
        p = subprocess.run([h, fam, str(seed), str(n), outdir] + extra, stdout=subprocess.PIPE, stderr=subprocess.STDOUT,
                           text=True, errors="replace", timeout=7200)
        rc, tail = p.returncode, p.stdout
    except subprocess.TimeoutExpired as e:
        rc, tail = -1, "shard timed out after 7200 s\n" + str(e.stdout or "")[-1500:]
    if rc != 0:
        # the harness process died (fatal runtime error, stack exhaustion) or its watchdog stopped a case that did not
        # terminate: report the case it was running (index from progress.txt, input from current.txt when the family records it)
        def rd(f):
            try:
                return open(os.path.join(outdir, f), errors="replace").read()
            except OSError:
                return ""
        hang, cur, prog = rd("hang.txt"), rd("current.txt"), rd("progress.txt").strip()
        idx = int(prog) if prog.isdigit() else -1
        if hang:
            what = "implementation did not terminate: case %d still running after %s s" % (idx, (re.search(r"seconds=(\d+)", hang) or [0, "?"])[1])
            detail = hang[:3000]
        else:
            what = "harness process died (exit %s) while running case %d" % (rc, idx)
            m = re.search(r"(fatal error:[^\n]*|panic:[^\n]*|runtime: goroutine stack exceeds[^\n]*)", tail)
            if m:
                what += " [" + m.group(1).strip() + "]"
            detail = tail[:1200] + ("\n...\n" + tail[-1200:] if len(tail) > 2400 else tail[1200:])
        return ({"what": what, "index": idx, "case": cur, "detail": detail}, None)
    uni = os.path.join(outdir, "unicode.txt")
    if not os.path.exists(uni):
        subprocess.run([h, "unicode", uni], check=True)
    with open(os.path.join(outdir, "model.txt"), "w") as mo:
        q = subprocess.run(["bash", "-c", "ulimit -v 12000000; exec \"$0\" \"$1\" \"$2\"", os.path.join(root, "ocaml", "driver"), uni,
                            os.path.join(outdir, "cases.txt")], stdout=mo, stderr=subprocess.PIPE, text=True, timeout=7200)
    if q.returncode != 0:
        return ("model driver failed: " + q.stderr[-2000:], None)
    return (None, outdir)


def classify(line):
    w = line.split(" ", 2)
    if not w:
        return "empty"
    if w[0] in ("ERR", "PANIC") and len(w) > 1:
        return w[0] + " " + w[1].split(":")[0]
    return w[0]


def run_streams(pid, P, tier, seed, wdir, root, replay, built, log):
    res = dict(evaluations=0, distinct_nontrivial=0, rule=P.get("rule", ""), samples=[], mismatches=[],
               oracle_failures=[], distribution={}, streams=[])
    if not built:
        res["rule"] += " [model or harness did not build: no correspondence run]"
        return res
    only = None
    if replay and os.path.exists(replay):
        txt = open(replay).read()
        m = re.search(r"stream=(\S+) seed=(\d+) index=(\d+)", txt) or re.search(r"stream '(\S+)' .*seed=(\d+) index=(\d+)", txt)
        if m:
            only = (m.group(1), int(m.group(2)), int(m.group(3)))
    distinct = set()
    for st in P.get("streams", []):
        name, fam = st["name"], st["family"]
        n = st["thorough"] if tier == "thorough" else st["quick"]
        sseed = seed
        if only:
            if only[0] != name:
                continue
            sseed, n = only[1], only[2] + 1
        extra = st.get("args", [])
        shards = []
        k = 0
        left = n
        while left > 0:
            cnt = min(st.get("shard", SHARD), left)
            shards.append((sseed if k == 0 else sseed * 1000003 + k, cnt, os.path.join(wdir, "%s-%d" % (name, k))))
            left -= cnt
            k += 1
        dist = collections.Counter()
        sizes = collections.Counter()
        nmis = 0
        with concurrent.futures.ThreadPoolExecutor(max_workers=14) as ex:
            futs = [ex.submit(_run_shard, root, fam, s, c, d, extra) for (s, c, d) in shards]
            outs = [f.result() for f in futs]
        for (sh, (err, d)) in zip(shards, outs):
            if err:
                if isinstance(err, dict):   # process death / non-termination with a known case
                    res["oracle_failures"].append((name, max(err["index"], 0), "seed=%d %s" % (sh[0], err["case"] or "-"),
                                                   err["what"] + "\n" + err["detail"]))
                else:
                    res["mismatches"].append((name, 0, "-", err, ""))
                continue
            cases = open(os.path.join(d, "cases.txt")).read().split("\n")
            impl = open(os.path.join(d, "impl.txt")).read().split("\n")
            model = open(os.path.join(d, "model.txt")).read().split("\n")
            orc = []
            op = os.path.join(d, "oracle.txt")
            if os.path.exists(op):
                orc = open(op).read().split("\n")
            ncase = len(cases) - 1 if cases and cases[-1] == "" else len(cases)
            for i in range(ncase):
                if only and i != only[2]:
                    continue
                res["evaluations"] += 1
                c = cases[i]
                im = impl[i] if i < len(impl) else "<missing>"
                mo = model[i] if i < len(model) else "<missing>"
                cl = classify(im)
                dist[cl] += 1
                sizes[min(len(c) // 200, 20) * 200] += 1
                if st.get("nontrivial", "any") == "any" or re.search(st["nontrivial"], im):
                    distinct.add(hash(c))
                if mo.startswith("UNMODELLED"):
                    dist["model:unmodelled (skipped)"] += 1
                elif im != mo:
                    nmis += 1
                    if len(res["mismatches"]) < 20:
                        res["mismatches"].append((name, i, "seed=%d %s" % (sh[0], c), im, mo))
                if i < len(orc) and orc[i]:
                    for ent in orc[i].split(";;"):
                        if ent.startswith(pid + "="):
                            if len(res["oracle_failures"]) < 50:
                                res["oracle_failures"].append((name, i, "seed=%d %s" % (sh[0], c), ent[len(pid) + 1:]))
                if len(res["samples"]) < 6 and i % max(1, ncase // 3) == 1:
                    res["samples"].append({"stream": name, "index": i, "case": c[:300], "impl": im[:300]})
            sp = os.path.join(d, "stats.txt")
            if os.path.exists(sp):
                for l in open(sp):
                    kv = l.split()
                    if len(kv) == 2:
                        dist["gen:" + kv[0]] += int(kv[1])
        res["streams"].append({"name": name, "family": fam, "cases": n, "disagreements": nmis, "shards": len(shards)})
        res["distribution"][name] = {"outcomes": dict(dist.most_common(40)), "case_len_hist": {str(k): v for k, v in sorted(sizes.items())}}
        if (st.get("exhaustive") and tier == "thorough") or st.get("exhaustive_always"):
            res["exhaustive"] = True
    res["distinct_nontrivial"] = len(distinct)
    return res
