(* C11 — Comparison operators are mutually consistent across numeric kinds. Theorems only. *)
From Tpl Require Import Exp.Eval Proofs.RelProps.
Open Scope N_scope.

(* != is the negation of ==, for ALL values (errors and unmodelled cases coincide) *)
Theorem ne_negates_eq : forall a b,
  rel_op BNe a b = match rel_op BEq a b with Ok (VBool x) => Ok (VBool (negb x)) | r => r end.
Proof. exact RelProps.ne_negates_eq. Qed.
Print Assumptions ne_negates_eq.

(* ordered numbers: exactly one of <, ==, > *)
Theorem trichotomy : forall a b c, num_compare a b = Some (Some c) ->
  exists lt eq gt, rel_op BLt a b = Ok (VBool lt) /\ rel_op BEq a b = Ok (VBool eq) /\ rel_op BGt a b = Ok (VBool gt) /\
    ((lt = true /\ eq = false /\ gt = false) \/ (lt = false /\ eq = true /\ gt = false) \/ (lt = false /\ eq = false /\ gt = true)).
Proof. exact RelProps.trichotomy. Qed.
Print Assumptions trichotomy.

(* <= and >= are the unions *)
Theorem le_ge_unions : forall a b c, num_compare a b = Some c ->
  exists lt eq gt, rel_op BLt a b = Ok (VBool lt) /\ rel_op BEq a b = Ok (VBool eq) /\ rel_op BGt a b = Ok (VBool gt) /\
    rel_op BLe a b = Ok (VBool (lt || eq)) /\ rel_op BGe a b = Ok (VBool (gt || eq)).
Proof. exact RelProps.le_ge_unions. Qed.
Print Assumptions le_ge_unions.

(* two numbers of any integer or float kind that are not NaN are always ordered *)
Theorem numbers_ordered : forall a b,
  (is_int a <> None \/ (exists f, is_float a = Some f /\ f_is_nan f = false)) ->
  (is_int b <> None \/ (exists g, is_float b = Some g /\ f_is_nan g = false)) ->
  exists c, num_compare a b = Some (Some c).
Proof. exact RelProps.numbers_ordered. Qed.
Print Assumptions numbers_ordered.

(* whether two integers are equal / ordered never depends on the Go kind that carries them *)
Theorem int_compare_kind_independent : forall k1 k2 k1' k2' z1 z2 op,
  (- two63 <= z1 < two63)%Z -> (- two63 <= z2 < two63)%Z ->
  rel_op op (VInt k1 z1) (VInt k2 z2) = rel_op op (VInt k1' z1) (VInt k2' z2).
Proof. exact RelProps.int_compare_kind_independent. Qed.
Print Assumptions int_compare_kind_independent.
Theorem float_compare_kind_independent : forall f1 f2 f1' f2' b1 b2 op,
  rel_op op (VFloat f1 b1) (VFloat f2 b2) = rel_op op (VFloat f1' b1) (VFloat f2' b2).
Proof. exact RelProps.float_compare_kind_independent. Qed.
Theorem mixed_compare_kind_independent : forall k k' f f' z b op,
  rel_op op (VInt k z) (VFloat f b) = rel_op op (VInt k' z) (VFloat f' b) /\
  rel_op op (VFloat f b) (VInt k z) = rel_op op (VFloat f' b) (VInt k' z).
Proof. exact RelProps.mixed_compare_kind_independent. Qed.
Print Assumptions float_compare_kind_independent.
Print Assumptions mixed_compare_kind_independent.
Theorem int_eq_iff : forall k1 k2 z1 z2, (- two63 <= z1 < two63)%Z -> (- two63 <= z2 < two63)%Z ->
  rel_op BEq (VInt k1 z1) (VInt k2 z2) = Ok (VBool (Z.eqb z1 z2)).
Proof. exact RelProps.int_eq_iff. Qed.
Print Assumptions int_eq_iff.
Theorem int_lt_iff : forall k1 k2 z1 z2, (- two63 <= z1 < two63)%Z -> (- two63 <= z2 < two63)%Z ->
  rel_op BLt (VInt k1 z1) (VInt k2 z2) = Ok (VBool (Z.ltb z1 z2)).
Proof. exact RelProps.int_lt_iff. Qed.
Print Assumptions int_lt_iff.

(* Non-vacuity: len()-like Go int 3 against the int64 literal 3 and the float 3.0 *)
Example eq_example :
  rel_op BEq (VInt KInt 3) (VInt KInt64 3) = Ok (VBool true) /\
  rel_op BEq (VInt KUint8 3) (VFloat false (f_of_Z 3)) = Ok (VBool true) /\
  rel_op BLt (VInt KInt8 (-1)) (VFloat true (f_of_Z 0)) = Ok (VBool true).
Proof. vm_compute. repeat split; reflexivity. Qed.
