(* C07 — Fragments: define is invisible, insert wraps, replace substitutes. Theorems only. *)
From Tpl Require Import Html.Exec Html.Manager Proofs.ExecSpec Proofs.FragmentProps Proofs.DefsRegistered Proofs.DefsFile.
From Coq Require Import Permutation.
Open Scope N_scope.

Section C07.
Variable is_space : rune -> bool.
Variable to_lower : rune -> rune.
Variable is_letter : rune -> bool.
Variable is_udigit : rune -> bool.
Variable methods : N -> bool -> list (str * N).
Variable call_fn : N -> list value -> fres.
Variable mgr : manager.
Variable exec : N -> list node -> node -> scope -> bool -> tbl -> rst -> R.
Notation attr_ev := (attr_evaluate is_letter is_udigit methods call_fn mgr).
Notation step := (attr_step is_space is_letter is_udigit methods call_fn mgr exec).

(* insert: the fragment's output becomes the content of the host tag *)
Theorem insert_step : forall mask ctx n attrs a ls t st name lg tp o st2,
  a_name a = prefix mgr ++ d_insert -> l_replace ls = false ->
  attr_ev a (l_sc ls) (r_log st) = (AOk name, lg) -> assoc name (m_templates mgr) = Some tp ->
  run_template exec tp (l_sc ls) (set_log st lg) = (o, ROk, st2) ->
  step mask ctx n attrs a ls t st
  = (inl (mkL (l_sc ls) (l_np ls) (l_child ls) (l_tagbuf ls) (l_content ls ++ o) (l_direct ls) (l_replace ls)), t, st2).
Proof. intros; eapply FragmentProps.insert_step; eassumption. Qed.
(* replace: the fragment's output is written instead of the host element *)
Theorem replace_step : forall mask ctx n attrs a ls t st name lg tp o st2,
  a_name a = prefix mgr ++ d_replace ->
  attr_ev a (l_sc ls) (r_log st) = (AOk name, lg) -> assoc name (m_templates mgr) = Some tp ->
  run_template exec tp (l_sc ls) (set_log st lg) = (o, ROk, st2) ->
  step mask ctx n attrs a ls t st
  = (inl (mkL (l_sc ls) (l_np ls) (l_child ls) (l_tagbuf ls) (l_content ls) (l_direct ls ++ o) true), t, st2).
Proof. intros; eapply FragmentProps.replace_step; eassumption. Qed.
(* an unknown name is the template-not-found error *)
Theorem unknown_template : forall mask ctx n attrs a ls t st name lg,
  a_name a = prefix mgr ++ d_insert \/ a_name a = prefix mgr ++ d_replace ->
  attr_ev a (l_sc ls) (r_log st) = (AOk name, lg) -> assoc name (m_templates mgr) = None ->
  step mask ctx n attrs a ls t st = (inr (RErr RNotFound), t, set_log st lg).
Proof. intros; eapply FragmentProps.unknown_template; eassumption. Qed.
(* the fragment is evaluated in the scope of the call site, on a fresh template object *)
Theorem fragment_scope_is_call_site : forall tp sc st, run_template exec tp sc st
  = let '(o, r, _, st') := exec_list exec (tp_ctx tp) (tp_children tp) sc false [] st in (o, r, st').
Proof. intros; apply FragmentProps.fragment_scope_is_call_site. Qed.
(* define is never rendered where it is written; insert and replace discard the host's own children *)
Theorem define_invisible : forall mask tok sc, has_dir mgr (t_attrs tok) d_define = true ->
  l_np (init_lstate to_lower mgr mask tok sc) = true /\ l_child (init_lstate to_lower mgr mask tok sc) = CNop.
Proof. intros; apply FragmentProps.define_invisible; assumption. Qed.
Theorem replace_discards_host : forall mask tok sc, has_dir mgr (t_attrs tok) d_replace = true ->
  l_np (init_lstate to_lower mgr mask tok sc) = true /\ l_child (init_lstate to_lower mgr mask tok sc) = CNop.
Proof. intros; apply FragmentProps.replace_discards_host; assumption. Qed.
Theorem insert_discards_children : forall mask tok sc, has_dir mgr (t_attrs tok) d_insert = true ->
  l_child (init_lstate to_lower mgr mask tok sc) = CNop.
Proof. intros; apply FragmentProps.insert_discards_children; assumption. Qed.
(* whitespace-only text at the start and at the end of a definition is trimmed; nothing else *)
Theorem trim_inner_untouched : forall a mid z, trim_blank_ends is_space (a :: mid ++ [z])
  = (if is_blank_text is_space a then [] else [a]) ++ mid ++ (if is_blank_text is_space z then [] else [z]).
Proof. intros; apply FragmentProps.trim_inner_untouched. Qed.
End C07.

(* fragments and files are resolved by name regardless of load order *)
Theorem load_order_irrelevant : forall is_space to_lower is_letter is_udigit methods call_fn text_tags void_elements tag_prefix attr_prefix global
    files1 files2 T1 T2,
  Permutation files1 files2 ->
  add_files is_space to_lower is_letter is_udigit methods call_fn text_tags void_elements tag_prefix attr_prefix global [] files1 = (T1, None) ->
  add_files is_space to_lower is_letter is_udigit methods call_fn text_tags void_elements tag_prefix attr_prefix global [] files2 = (T2, None) ->
  forall name, assoc name T1 = assoc name T2.
Proof. intros; eapply FragmentProps.add_files_templates_perm_empty; eassumption. Qed.

(* "Fragments and files are resolved by name across the whole manager": loading a file registers the file and EVERY
   element carrying define in its tree - at any depth, also inside other definitions and inside ordinary elements - under
   the evaluated name with the element's children (blank ends trimmed) as body; nothing else is added, nothing
   registered before is changed; the model's fuel is never the reason of a failure (DefsFuel.load_height). *)
Theorem every_definition_registered : forall is_space to_lower is_letter is_udigit methods call_fn text_tags void_elements tag_prefix attr_prefix global tps name src tps',
  add_file is_space to_lower is_letter is_udigit methods call_fn text_tags void_elements tag_prefix attr_prefix global tps name src = (tps', None) ->
  exists root, load is_space to_lower text_tags void_elements attr_prefix (pok is_letter is_udigit) src = inl root /\
    assoc name tps = None /\
    tps' = tps ++ (name, file_tp root) :: defs_of is_space is_letter is_udigit methods call_fn tag_prefix attr_prefix global (PureRenderTree.nodes root) /\
    assoc name tps' = Some (file_tp root) /\
    (forall d nm, desc root d -> def_name_of is_letter is_udigit methods call_fn tag_prefix attr_prefix global d = Some nm ->
       assoc nm tps' = Some (mkT (trim_blank_ends is_space (n_children d)) (n_children d))) /\
    NoDup (name :: keys (defs_of is_space is_letter is_udigit methods call_fn tag_prefix attr_prefix global (PureRenderTree.nodes root))) /\
    (forall k, In k (keys (defs_of is_space is_letter is_udigit methods call_fn tag_prefix attr_prefix global (PureRenderTree.nodes root))) -> assoc k tps = None) /\
    (forall d, desc root d -> def_kind is_letter is_udigit methods call_fn tag_prefix attr_prefix global d <> DErr).
Proof. exact DefsFile.add_file_registers_all. Qed.
(* "regardless of load order": a set of files that loads in one order loads in every order *)
Theorem load_succeeds_in_any_order : forall is_space to_lower is_letter is_udigit methods call_fn text_tags void_elements tag_prefix attr_prefix global files1 files2 tps tps1,
  Permutation files1 files2 ->
  add_files is_space to_lower is_letter is_udigit methods call_fn text_tags void_elements tag_prefix attr_prefix global tps files1 = (tps1, None) ->
  exists tps2, add_files is_space to_lower is_letter is_udigit methods call_fn text_tags void_elements tag_prefix attr_prefix global tps files2 = (tps2, None).
Proof. exact DefsFile.add_files_order_irrelevant_success. Qed.
Print Assumptions every_definition_registered.
Print Assumptions load_succeeds_in_any_order.
Print Assumptions insert_step.
Print Assumptions replace_step.
Print Assumptions unknown_template.
Print Assumptions define_invisible.
Print Assumptions trim_inner_untouched.
Print Assumptions load_order_irrelevant.

(* ---- END TO END (Proofs/EndToEndDirectives.v, session 3): one file with a definition, an insert host and a replace host:
   for EVERY string bound to t the output is <main><span><b>escape(t)</b></span><b>escape(t)</b></main> — the definition
   is invisible where written, insert wraps the fragment in the host tag, replace substitutes it, the hosts' own children
   are discarded, the blanks at the edges of the definition are trimmed; the same with the definition in another file, in
   either load order; the file that only holds the definition renders to nothing. *)
From Coq Require Import List NArith ZArith Bool Lia Arith String Ascii.
From Tpl Require Import Html.Exec Html.Manager Gen.Facts Proofs.ExecSpec Proofs.RenderPlain Proofs.RangeProps Proofs.FuelMono
  Proofs.ReadbackExample Proofs.EndToEnd.
Import ListNotations.
Open Scope N_scope.
From Tpl Require Import Proofs.EndToEndDirectives.
Theorem e2e_fragment_source_to_output : exists tps tp,
  bx_add_files [] [(s2l "page", src_frag)] = (tps, None) /\ assoc (s2l "page") tps = Some tp /\
  forall (u : str) (t : tbl) (st : rst) (fuel : nat), r_budget st = None -> (4 <= fuel)%nat ->
  bx_execute (bx_mk tps) fuel tp (VMap [(s2l "t", VStr u)]) t st =
  (s2l "<main><span><b>" ++ escape u ++ s2l "</b></span><b>" ++ escape u ++ s2l "</b></main>", ROk, t, st).
Proof. exact EndToEndDirectives.fragment_source_to_output. Qed.
Theorem e2e_fragment_two_files : forall (u : str) (t : tbl) (st : rst) (fuel : nat), r_budget st = None -> (4 <= fuel)%nat ->
  bx_execute (bx_mk tps_two) fuel tp_page2 (VMap [(s_t, VStr u)]) t st = (frag_out u, ROk, t, st) /\
  bx_execute (bx_mk tps_two') fuel tp_page2 (VMap [(s_t, VStr u)]) t st = (frag_out u, ROk, t, st).
Proof. exact EndToEndDirectives.fragment_two_files. Qed.
Theorem e2e_definition_file_invisible : forall (data : value) (t : tbl) (st : rst) (fuel : nat), r_budget st = None -> (2 <= fuel)%nat ->
  bx_execute (bx_mk tps_two) fuel (tp_named s_lib tps_two) data t st = ([], ROk, t, st).
Proof. exact EndToEndDirectives.definition_file_invisible. Qed.
Print Assumptions e2e_fragment_source_to_output.
