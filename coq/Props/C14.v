(* C14 — String literals round-trip in all three quoting styles. Theorems only. *)
From Tpl Require Import Proofs.LitSpec Proofs.LitRoundtrip.

(* every string, written as a double-quoted / single-quoted / raw literal, decodes to itself *)
Theorem dq_roundtrip : forall s : str, unquote_lit (quote_with cDQ s) = Ok s.
Proof. exact LitRoundtrip.dq_roundtrip. Qed.
Print Assumptions dq_roundtrip.
Theorem sq_roundtrip : forall s : str, unquote_lit (quote_with cSQ s) = Ok s.
Proof. exact LitRoundtrip.sq_roundtrip. Qed.
Print Assumptions sq_roundtrip.
Theorem raw_roundtrip : forall s : str, ~ In cBQ s -> ~ In cCR s -> unquote_lit (quote_raw s) = Ok s.
Proof. exact LitRoundtrip.raw_roundtrip. Qed.
Print Assumptions raw_roundtrip.

(* the lexer takes the whole literal as one string token *)
Theorem dq_one_token : forall s : str, m_string (quote_with cDQ s) = length (quote_with cDQ s).
Proof. exact LitRoundtrip.dq_one_token. Qed.
Print Assumptions dq_one_token.
Theorem sq_one_token : forall s : str, m_string (quote_with cSQ s) = length (quote_with cSQ s).
Proof. exact LitRoundtrip.sq_one_token. Qed.
Print Assumptions sq_one_token.
Theorem raw_one_token : forall s : str, ~ In cBQ s -> m_string (quote_raw s) = length (quote_raw s).
Proof. exact LitRoundtrip.raw_one_token. Qed.
Print Assumptions raw_one_token.

(* inside a ${...} block of a directive value delimited by d, a string literal with any content
   (braces, '$', '{', the other quote, even d itself) does not end the block early *)
Theorem literal_inside_block : forall (compile : pos -> str -> bool) (start : pos) (d q : rune) (s : str),
  isq d = true -> (q = cDQ \/ q = cSQ) ->
  let lit := quote_with q s in
  compile (adv (adv (adv start d) cDOLLAR) cLB) lit = true ->
  exists toks, cscan compile start (d :: cDOLLAR :: cLB :: lit ++ [cRB; d]) = inl toks /\
               map c_kind toks = [BegEnd; CodeStart; CodeValue; CodeEnd; BegEnd] /\
               map c_value toks = [[d]; [cDOLLAR; cLB]; lit; [cRB]; [d]].
Proof. exact LitRoundtrip.literal_inside_block. Qed.
Print Assumptions literal_inside_block.
Theorem raw_literal_inside_block : forall (compile : pos -> str -> bool) (start : pos) (d : rune) (s : str),
  isq d = true -> ~ In cBQ s ->
  let lit := quote_raw s in
  compile (adv (adv (adv start d) cDOLLAR) cLB) lit = true ->
  exists toks, cscan compile start (d :: cDOLLAR :: cLB :: lit ++ [cRB; d]) = inl toks /\
               map c_value toks = [[d]; [cDOLLAR; cLB]; lit; [cRB]; [d]].
Proof. exact LitRoundtrip.raw_literal_inside_block. Qed.
Print Assumptions raw_literal_inside_block.

(* Non-vacuity: a string with both quotes, a backslash, a newline, braces and a non-ASCII rune *)
Example roundtrip_example :
  unquote_lit (quote_with cSQ [34; 39; 92; 10; 123; 125; 36; 20013]) = Ok [34; 39; 92; 10; 123; 125; 36; 20013].
Proof. vm_compute. reflexivity. Qed.

(* ---- END TO END, from source text to output text (Proofs/EndToEnd.v, session 3): the whole pipeline composed —
   HTML scanner, directive-value scanner, lexer, parser, literal decoding, tree builder, evaluator, renderer, escaping.
   For EVERY string s (any runes) not containing the attribute's own delimiter, the one-element template
       <p :text=D${LIT}D>x</p>          LIT = s written as a literal in the given quoting style
   LOADS (the literal's braces, its "${", its quotes other than D do not end the block or the attribute early) and
   renders, for every data value, every condition table and every fuel >= 2, to exactly  <p> escape(s) </p>  with the
   table and the call log unchanged.  e2e_env = six explicit facts about the configuration and the Unicode tables (prefix
   ":", p is neither raw-text nor void, blank is white space, the letters of the source are not); the hypothesis
   ~ In D s is necessary: a literal containing the attribute's own delimiter never loads (the property's exception). *)
From Tpl Require Import Html.Exec Proofs.EndToEnd.
Theorem literal_text_end_to_end : forall is_space to_lower is_letter is_udigit methods call_fn text_tags void_elements mgr,
  e2e_env is_space to_lower text_tags void_elements mgr -> is_space cDQ = false -> is_letter cSQ = false ->
  forall s : str, ~ In cDQ s ->
  renders_to is_space to_lower is_letter is_udigit methods call_fn text_tags void_elements mgr
    (pre_src ++ [cDQ; cDOLLAR; cLB] ++ quote_with cSQ s ++ [cRB; cDQ] ++ post_src)
    (s_open_p ++ escape s ++ s_close_p).
Proof. exact EndToEnd.literal_text_end_to_end. Qed.
Theorem dq_literal_text_end_to_end : forall is_space to_lower is_letter is_udigit methods call_fn text_tags void_elements mgr,
  e2e_env is_space to_lower text_tags void_elements mgr -> is_space cSQ = false -> is_letter cDQ = false ->
  forall s : str, ~ In cSQ s ->
  renders_to is_space to_lower is_letter is_udigit methods call_fn text_tags void_elements mgr
    (pre_src ++ [cSQ; cDOLLAR; cLB] ++ quote_with cDQ s ++ [cRB; cSQ] ++ post_src)
    (s_open_p ++ escape s ++ s_close_p).
Proof. exact EndToEnd.dq_literal_text_end_to_end. Qed.
Theorem raw_literal_text_end_to_end : forall is_space to_lower is_letter is_udigit methods call_fn text_tags void_elements mgr,
  e2e_env is_space to_lower text_tags void_elements mgr ->
  forall d : rune, PrintScanDefs.is_quote d = true -> is_space d = false -> is_letter cBQ = false ->
  forall s : str, ~ In d s -> ~ In cBQ s -> ~ In cCR s ->
  renders_to is_space to_lower is_letter is_udigit methods call_fn text_tags void_elements mgr
    (pre_src ++ [d; cDOLLAR; cLB] ++ quote_raw s ++ [cRB; d] ++ post_src)
    (s_open_p ++ escape s ++ s_close_p).
Proof. exact EndToEnd.raw_literal_text_end_to_end. Qed.
(* non-vacuity with concrete ASCII tables, the default raw-text / void lists read from the Go source, and the string
   a}b${c{'`<&  *)
Example hostile_end_to_end :
  pre_src ++ [cDQ; cDOLLAR; cLB] ++ quote_with cSQ hostile ++ [cRB; cDQ] ++ post_src = hostile_src /\
  s_open_p ++ escape hostile ++ s_close_p = hostile_out /\
  renders_to ReadbackExample.bx_space ReadbackExample.bx_lower ReadbackExample.bx_letter ReadbackExample.bx_digit
             ReadbackExample.bx_methods ReadbackExample.bx_call Gen.Facts.default_text_tags Gen.Facts.default_void_elements
             ReadbackExample.bx_mgr hostile_src hostile_out.
Proof. exact EndToEnd.hostile_end_to_end. Qed.
Print Assumptions literal_text_end_to_end.
Print Assumptions dq_literal_text_end_to_end.
Print Assumptions raw_literal_text_end_to_end.
