(* C14 — String literals round-trip in all three quoting styles. Theorems only. *)
From Tpl Require Import Proofs.LitSpec Proofs.LitRoundtrip.

(* every string, written as a double-quoted / single-quoted / raw literal, decodes to itself *)
Theorem dq_roundtrip : forall s : str, unquote_lit (quote_with cDQ s) = Ok s.
Proof. exact LitRoundtrip.dq_roundtrip. Qed.
Print Assumptions dq_roundtrip.
Theorem sq_roundtrip : forall s : str, unquote_lit (quote_with cSQ s) = Ok s.
Proof. exact LitRoundtrip.sq_roundtrip. Qed.
Print Assumptions sq_roundtrip.
Theorem raw_roundtrip : forall s : str, ~ In cBQ s -> ~ In cCR s -> unquote_lit (quote_raw s) = Ok s.
Proof. exact LitRoundtrip.raw_roundtrip. Qed.
Print Assumptions raw_roundtrip.

(* the lexer takes the whole literal as one string token *)
Theorem dq_one_token : forall s : str, m_string (quote_with cDQ s) = length (quote_with cDQ s).
Proof. exact LitRoundtrip.dq_one_token. Qed.
Print Assumptions dq_one_token.
Theorem sq_one_token : forall s : str, m_string (quote_with cSQ s) = length (quote_with cSQ s).
Proof. exact LitRoundtrip.sq_one_token. Qed.
Print Assumptions sq_one_token.
Theorem raw_one_token : forall s : str, ~ In cBQ s -> m_string (quote_raw s) = length (quote_raw s).
Proof. exact LitRoundtrip.raw_one_token. Qed.
Print Assumptions raw_one_token.

(* inside a ${...} block of a directive value delimited by d, a string literal with any content
   (braces, '$', '{', the other quote, even d itself) does not end the block early *)
Theorem literal_inside_block : forall (compile : pos -> str -> bool) (start : pos) (d q : rune) (s : str),
  isq d = true -> (q = cDQ \/ q = cSQ) ->
  let lit := quote_with q s in
  compile (adv (adv (adv start d) cDOLLAR) cLB) lit = true ->
  exists toks, cscan compile start (d :: cDOLLAR :: cLB :: lit ++ [cRB; d]) = inl toks /\
               map c_kind toks = [BegEnd; CodeStart; CodeValue; CodeEnd; BegEnd] /\
               map c_value toks = [[d]; [cDOLLAR; cLB]; lit; [cRB]; [d]].
Proof. exact LitRoundtrip.literal_inside_block. Qed.
Print Assumptions literal_inside_block.
Theorem raw_literal_inside_block : forall (compile : pos -> str -> bool) (start : pos) (d : rune) (s : str),
  isq d = true -> ~ In cBQ s ->
  let lit := quote_raw s in
  compile (adv (adv (adv start d) cDOLLAR) cLB) lit = true ->
  exists toks, cscan compile start (d :: cDOLLAR :: cLB :: lit ++ [cRB; d]) = inl toks /\
               map c_value toks = [[d]; [cDOLLAR; cLB]; lit; [cRB]; [d]].
Proof. exact LitRoundtrip.raw_literal_inside_block. Qed.
Print Assumptions raw_literal_inside_block.

(* Non-vacuity: a string with both quotes, a backslash, a newline, braces and a non-ASCII rune *)
Example roundtrip_example :
  unquote_lit (quote_with cSQ [34; 39; 92; 10; 123; 125; 36; 20013]) = Ok [34; 39; 92; 10; 123; 125; 36; 20013].
Proof. vm_compute. reflexivity. Qed.
