(* C20 — xtpl extracts every translatable literal the templates pass at run time. Theorems only. *)
From Tpl Require Import Sys.Xtpl Sys.XtplCat Exp.Eval Proofs.XtplProps Proofs.XtplCatProps.
From Coq Require Import Permutation.
Open Scope N_scope.

(* an extracted entry comes from a keyword call with enough arguments whose msgid argument is a
   non-empty string literal; msgid = the decoded literal, reference = the literal's position *)
Theorem entry_sound : forall kw name args en, In en (do_extract kw name args) -> kw_id kw <> O ->
  kw_name kw = name /\ (max_index kw <= length args)%nat /\
  exists a t l c, nth_error args (kw_id kw - 1) = Some a /\ a = ELit LStr t l c /\
                  en_id en <> [] /\ unquote_lit t = Ok (en_id en) /\ en_line en = l /\ en_col en = c.
Proof. exact XtplProps.entry_sound. Qed.
(* every such call site yields the entry *)
Theorem entry_complete : forall kw args t l c s,
  (max_index kw <= length args)%nat -> kw_id kw <> O ->
  nth_error args (kw_id kw - 1) = Some (ELit LStr t l c) -> unquote_lit t = Ok s -> s <> [] ->
  exists en, do_extract kw (kw_name kw) args = [en] /\ en_id en = s /\ en_line en = l /\ en_col en = c.
Proof. exact XtplProps.entry_complete. Qed.
(* too few arguments / a msgid that is not a literal add nothing; the header entry (msgid "") is never overwritten *)
Theorem too_few_args_nothing : forall kw name args, (length args < max_index kw)%nat -> do_extract kw name args = [].
Proof. exact XtplProps.too_few_args_nothing. Qed.
Theorem non_literal_msgid_nothing : forall kw name args a, kw_id kw <> O ->
  nth_error args (kw_id kw - 1) = Some a -> (forall t l c, a <> ELit LStr t l c) -> do_extract kw name args = [].
Proof. exact XtplProps.non_literal_msgid_nothing. Qed.
Theorem header_kept : forall kw name args en, kw_id kw <> O -> In en (do_extract kw name args) -> en_id en <> [].
Proof. exact XtplProps.header_kept. Qed.
(* the extracted string is the value the evaluator passes to the function at run time *)
Theorem extracted_is_runtime_value : forall methods call_fn sc t l c lg,
  eval methods call_fn sc (ELit LStr t l c) lg = (match unquote_lit t with Ok s => Ok (VStr s) | Err e => Err e | Unmodelled => Unmodelled end, lg).
Proof. exact XtplProps.extracted_is_runtime_value. Qed.
Theorem pos_add_spec : forall p line col, pos_add p line col = (fst p + line - 1, snd p + col).
Proof. exact XtplProps.pos_add_spec. Qed.
Print Assumptions entry_sound.
Print Assumptions entry_complete.
Print Assumptions header_kept.
Print Assumptions extracted_is_runtime_value.

(* ---- the catalogue of a SET of templates (Sys/XtplCat.v: the merge done by Save, for every order of the files) ---- *)
(* the fold that mirrors Save equals the closed specification: the header, then one entry per key in order of first
   appearance, whose references are ALL occurrences of that key in order *)
Theorem cat_is_spec : forall es, XtplCatProps.ids_nonempty es -> cat_of es = cat_spec es.
Proof. exact XtplCatProps.cat_is_spec. Qed.
Theorem cat_refs_exact : forall es ce, XtplCatProps.ids_nonempty es -> In ce (cat_of es) -> ce_hdr ce = false ->
  ce_refs ce = map (fun fe => en_ref (fst fe) (snd fe)) (filter (has_key (ce_key ce)) es) /\ ce_refs ce <> [] /\
  exists f en, In (f, en) es /\ en_key en = ce_key ce /\ ce_ctxt ce = en_ctxt en /\ ce_id ce = en_id en /\ ce_id2 ce = en_id2 en.
Proof. exact XtplCatProps.cat_refs_exact. Qed.
(* one entry per distinct (context, msgid); its references are exactly the occurrences of that pair.  The key is
   context ++ EOT ++ msgid (gettext's convention): a context containing U+0004 can collide (eot_collision) *)
Theorem cat_one_entry_per_pair : forall es, XtplCatProps.ids_nonempty es ->
  (forall fe, In fe es -> ~ In cEOT (en_ctxt (snd fe))) ->
  NoDup (map (fun ce => (ce_ctxt ce, ce_id ce)) (cat_of es)) /\
  forall f en, In (f, en) es ->
    exists ce, In ce (cat_of es) /\ ce_hdr ce = false /\ ce_ctxt ce = en_ctxt en /\ ce_id ce = en_id en /\
               ce_refs ce = map (fun fe => en_ref (fst fe) (snd fe))
                                (filter (fun fe => str_eqb (en_ctxt (snd fe)) (en_ctxt en) && str_eqb (en_id (snd fe)) (en_id en)) es).
Proof. exact XtplCatProps.cat_one_entry_per_pair. Qed.
Example eot_collision : exists es, XtplCatProps.ids_nonempty es /\ length es = 2%nat /\ length (cat_of es) = 2%nat.
Proof. exact XtplCatProps.eot_collision. Qed.
Example empty_id_loses_header : exists es, ~ In cat_header (cat_of es).
Proof. exact XtplCatProps.empty_id_loses_header. Qed.
(* Go ranges over a map of files: whatever the order, the same keys with the same references up to order *)
Theorem cat_order_irrelevant : forall es es', XtplCatProps.ids_nonempty es -> Permutation es es' ->
  forall ce, In ce (cat_of es) -> exists ce', In ce' (cat_of es') /\ ce_key ce' = ce_key ce /\ ce_hdr ce' = ce_hdr ce /\
                                          Permutation (ce_refs ce) (ce_refs ce').
Proof. exact XtplCatProps.cat_order_irrelevant. Qed.

Section C20Set.
Variable is_letter : rune -> bool.
Variable is_udigit : rune -> bool.
Variable attr_prefix : str.
(* every keyword has a msgid position (xtpl's keyword parser guarantees it) => the header entry is kept, first *)
Theorem catalogue_header_kept : forall fuel kws files, XtplCatProps.kws_have_id kws ->
  exists rest, catalogue is_letter is_udigit attr_prefix fuel kws files = cat_header :: rest /\
               forall ce, In ce rest -> ce_hdr ce = false.
Proof. exact (XtplCatProps.catalogue_header_kept is_letter is_udigit attr_prefix). Qed.
(* every occurrence in every file is referenced ... *)
Theorem catalogue_complete : forall fuel kws files f root en, XtplCatProps.kws_have_id kws -> In (f, root) files ->
  In en (extract_node is_letter is_udigit attr_prefix fuel kws root) ->
  exists ce, In ce (catalogue is_letter is_udigit attr_prefix fuel kws files) /\ ce_hdr ce = false /\
             ce_key ce = en_key en /\ In (en_ref f en) (ce_refs ce).
Proof. exact (XtplCatProps.catalogue_complete is_letter is_udigit attr_prefix). Qed.
(* ... and nothing else is *)
Theorem catalogue_sound : forall fuel kws files ce r, XtplCatProps.kws_have_id kws ->
  In ce (catalogue is_letter is_udigit attr_prefix fuel kws files) -> ce_hdr ce = false -> In r (ce_refs ce) ->
  exists f root en, In (f, root) files /\ In en (extract_node is_letter is_udigit attr_prefix fuel kws root) /\
                    en_key en = ce_key ce /\ r = en_ref f en.
Proof. exact (XtplCatProps.catalogue_sound is_letter is_udigit attr_prefix). Qed.
Theorem catalogue_keys_nodup : forall fuel kws files, XtplCatProps.kws_have_id kws ->
  NoDup (map ce_key (catalogue is_letter is_udigit attr_prefix fuel kws files)).
Proof. exact (XtplCatProps.catalogue_keys_nodup is_letter is_udigit attr_prefix). Qed.
End C20Set.
Print Assumptions cat_is_spec.
Print Assumptions cat_one_entry_per_pair.
Print Assumptions cat_order_irrelevant.
Print Assumptions catalogue_complete.
Print Assumptions catalogue_sound.

(* Non-vacuity:  _x('ctx', "it's")  with keyword _x:1c,2, and  __(name)  *)
Example extract_example :
  let kx := mkKw [95;120] 1 2 0 in let k1 := mkKw [95;95] 0 1 0 in
  extract_expr [k1; kx] (ECall (EName [95;120] 1 0) [ELit LStr [39;99;116;120;39] 1 3; ELit LStr [34;105;116;39;115;34] 1 10] false false)
    = [mkEn [99;116;120] [105;116;39;115] [] 1 10] /\
  extract_expr [k1; kx] (ECall (EName [95;95] 1 0) [EName [110] 1 3] false false) = [].
Proof. vm_compute. split; reflexivity. Qed.

(* ---- END TO END, from SOURCE TEXT to CATALOGUE (Proofs/XtplEndToEnd.v, session 3): ASCII tables, default lists, keyword
   __ with the msgid at position 1.  For EVERY non-empty string s without the double quote, the source
   <p :text=Q${__(LIT)}Q>x</p>  (LIT = s as a single-quoted literal) loads and its catalogue is exactly the header and ONE
   entry whose msgid is s itself — the string the evaluator passes at run time, not its spelling — referenced at
   file:1:16, the 1-based column of the literal's opening quote; two files with that source give one entry with both
   references; a msgid argument that is a variable, or a call with too few arguments, adds nothing. *)
From Coq Require Import List NArith ZArith Bool Lia Arith String Ascii.
From Tpl Require Import Html.Exec Sys.Xtpl Sys.XtplCat Gen.Facts Proofs.LitSpec Proofs.LitRoundtrip
  Proofs.PrintScanDefs Proofs.PrintScanSteps Proofs.ReadbackExample Proofs.EndToEnd Proofs.XtplProps.
Import ListNotations.
Open Scope N_scope.
From Tpl Require Import Proofs.XtplEndToEnd.
Theorem e2e_xtpl_literal_end_to_end : forall s : str, s <> [] -> ~ In cDQ s ->
  exists root, x_load (x_src s) = inl root /\
    forall (fuel : nat) (fname : str), (2 <= fuel)%nat ->
      x_cat fuel [kw_us] [(fname, root)] = [cat_header; mkCe false [] s [] [(fname, 1, 16)]].
Proof. exact XtplEndToEnd.xtpl_literal_end_to_end. Qed.
Theorem e2e_xtpl_two_files_end_to_end : forall s : str, s <> [] -> ~ In cDQ s ->
  exists root, x_load (x_src s) = inl root /\
    forall (fuel : nat), (2 <= fuel)%nat ->
      x_cat fuel [kw_us] [(s2l "a.html", root); (s2l "b.html", root)] =
      [cat_header; mkCe false [] s [] [(s2l "a.html", 1, 16); (s2l "b.html", 1, 16)]].
Proof. exact XtplEndToEnd.xtpl_two_files_end_to_end. Qed.
Theorem e2e_xtpl_non_literal_adds_nothing : exists root,
  x_load (s2l "<p :text=""${__(name)}"">x</p>") = inl root /\
  forall (fuel : nat) (fname : str), x_cat fuel [kw_us] [(fname, root)] = [cat_header].
Proof. exact XtplEndToEnd.xtpl_non_literal_adds_nothing. Qed.
Theorem e2e_xtpl_too_few_args : exists root,
  x_load (s2l "<p :text=""${_x('ctx')}"">x</p>") = inl root /\
  forall (fuel : nat) (fname : str), x_cat fuel [kw_x] [(fname, root)] = [cat_header].
Proof. exact XtplEndToEnd.xtpl_too_few_args. Qed.
Print Assumptions e2e_xtpl_literal_end_to_end.
Print Assumptions e2e_xtpl_two_files_end_to_end.
