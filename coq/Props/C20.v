(* C20 — xtpl extracts every translatable literal the templates pass at run time. Theorems only. *)
From Tpl Require Import Sys.Xtpl Exp.Eval Proofs.XtplProps.
Open Scope N_scope.

(* an extracted entry comes from a keyword call with enough arguments whose msgid argument is a
   non-empty string literal; msgid = the decoded literal, reference = the literal's position *)
Theorem entry_sound : forall kw name args en, In en (do_extract kw name args) -> kw_id kw <> O ->
  kw_name kw = name /\ (max_index kw <= length args)%nat /\
  exists a t l c, nth_error args (kw_id kw - 1) = Some a /\ a = ELit LStr t l c /\
                  en_id en <> [] /\ unquote_lit t = Ok (en_id en) /\ en_line en = l /\ en_col en = c.
Proof. exact XtplProps.entry_sound. Qed.
(* every such call site yields the entry *)
Theorem entry_complete : forall kw args t l c s,
  (max_index kw <= length args)%nat -> kw_id kw <> O ->
  nth_error args (kw_id kw - 1) = Some (ELit LStr t l c) -> unquote_lit t = Ok s -> s <> [] ->
  exists en, do_extract kw (kw_name kw) args = [en] /\ en_id en = s /\ en_line en = l /\ en_col en = c.
Proof. exact XtplProps.entry_complete. Qed.
(* too few arguments / a msgid that is not a literal add nothing; the header entry (msgid "") is never overwritten *)
Theorem too_few_args_nothing : forall kw name args, (length args < max_index kw)%nat -> do_extract kw name args = [].
Proof. exact XtplProps.too_few_args_nothing. Qed.
Theorem non_literal_msgid_nothing : forall kw name args a, kw_id kw <> O ->
  nth_error args (kw_id kw - 1) = Some a -> (forall t l c, a <> ELit LStr t l c) -> do_extract kw name args = [].
Proof. exact XtplProps.non_literal_msgid_nothing. Qed.
Theorem header_kept : forall kw name args en, kw_id kw <> O -> In en (do_extract kw name args) -> en_id en <> [].
Proof. exact XtplProps.header_kept. Qed.
(* the extracted string is the value the evaluator passes to the function at run time *)
Theorem extracted_is_runtime_value : forall methods call_fn sc t l c lg,
  eval methods call_fn sc (ELit LStr t l c) lg = (match unquote_lit t with Ok s => Ok (VStr s) | Err e => Err e | Unmodelled => Unmodelled end, lg).
Proof. exact XtplProps.extracted_is_runtime_value. Qed.
Theorem pos_add_spec : forall p line col, pos_add p line col = (fst p + line - 1, snd p + col).
Proof. exact XtplProps.pos_add_spec. Qed.
Print Assumptions entry_sound.
Print Assumptions entry_complete.
Print Assumptions header_kept.
Print Assumptions extracted_is_runtime_value.

(* Non-vacuity:  _x('ctx', "it's")  with keyword _x:1c,2, and  __(name)  *)
Example extract_example :
  let kx := mkKw [95;120] 1 2 0 in let k1 := mkKw [95;95] 0 1 0 in
  extract_expr [k1; kx] (ECall (EName [95;120] 1 0) [ELit LStr [39;99;116;120;39] 1 3; ELit LStr [34;105;116;39;115;34] 1 10] false false)
    = [mkEn [99;116;120] [105;116;39;115] [] 1 10] /\
  extract_expr [k1; kx] (ECall (EName [95;95] 1 0) [EName [110] 1 3] false false) = [].
Proof. vm_compute. split; reflexivity. Qed.
