(* C10 — Expressions and ${} blocks are consumed whole or rejected at load. Theorems only. *)
From Tpl Require Import Exp.Parse Html.Code Proofs.ParseSpec Proofs.ParseYield Proofs.LexCover Proofs.CodeGrammar Proofs.CodeConcat.
Open Scope N_scope.

(* the lexer drops nothing but blanks and comments: its chunks tile the source *)
Theorem lex_is_filter : forall is_letter is_udigit s ts, lex is_letter is_udigit s = Some ts ->
  exists cs, lex_chunks is_letter is_udigit (2 * length s + 2) false s [] = Some cs /\
             map (fun t => (e_kind t, e_text t)) ts =
               flat_map (fun c => match fst c with Some k => [(k, snd c)] | None => [] end) cs /\
             concat (map snd cs) = s.
Proof. exact LexCover.lex_is_filter. Qed.
Print Assumptions lex_is_filter.
Theorem hidden_chunks_are_blank : forall is_letter is_udigit f nl s acc cs,
  (forall c, In c acc -> fst c = None -> hidden_ok (snd c)) ->
  lex_chunks is_letter is_udigit f nl s acc = Some cs ->
  forall c, In c cs -> fst c = None -> hidden_ok (snd c).
Proof. exact LexCover.hidden_chunks_are_blank. Qed.
Print Assumptions hidden_chunks_are_blank.

(* the parser accounts for every token it consumes, and ParseCode accepts only when nothing but
   newline / multi-line-comment EOS tokens remain: trailing text is never dropped *)
Theorem parse_yield : forall f p ts e rest,
  parse_expr f p ts = Some (e, rest) -> map ParseYield.shape ts = map ParseYield.shape (print e ++ rest).
Proof. exact ParseYield.parse_yield. Qed.
Print Assumptions parse_yield.
Theorem parse_code_whole : forall is_letter is_udigit s e, parse_code is_letter is_udigit s = Some e ->
  exists ts rest, lex is_letter is_udigit s = Some ts /\ map ParseYield.shape ts = map ParseYield.shape (print e ++ rest) /\ only_blank_eos rest = true.
Proof. exact ParseYield.parse_code_whole. Qed.
Print Assumptions parse_code_whole.
(* an unterminated block comment: the lexer has no token for it and falls back to the operators '/' and '*';
   a '/' immediately followed by '*' therefore never reaches the parser's result ("a /* x" is not "a / *x") *)
Theorem open_comment_rejected : forall is_letter is_udigit s ts, lex is_letter is_udigit s = Some ts ->
  open_comment ts = true -> parse_code is_letter is_udigit s = None.
Proof. exact ParseYield.open_comment_rejected. Qed.
Print Assumptions open_comment_rejected.
Example open_comment_example :
  let letter := fun r => (N.leb 97 r && N.leb r 122)%bool in
  parse_code letter (fun _ => false) [97;32;47;42;32;120] = None /\            (* a /* x *)
  parse_code letter (fun _ => false) [97;32;47;32;42;120] <> None /\           (* a / *x *)
  parse_code letter (fun _ => false) [97;32;47;42;32;120;32;42;47] <> None.    (* a /* x */ *)
Proof. vm_compute. repeat split; discriminate. Qed.

(* directive values: accepted values are  quote (literal | ${ code })* quote , every ${ has its },
   every code block was accepted by the expression parser; an open block / string / quote is rejected *)
Theorem cscan_wellformed : forall compile start src toks, cscan compile start src = inl toks ->
  exists o mid c, toks = o :: mid ++ [c] /\ c_kind o = BegEnd /\ c_kind c = BegEnd /\
     (body mid \/ exists mid' c', mid = mid' ++ [c'] /\ body mid' /\ c_kind c' = BegEnd).
Proof. exact CodeGrammar.cscan_wellformed. Qed.
Print Assumptions cscan_wellformed.
Theorem cscan_code_compiled : forall compile start src toks t, cscan compile start src = inl toks ->
  In t toks -> c_kind t = CodeValue -> compile (c_start t) (c_value t) = true.
Proof. exact CodeGrammar.cscan_code_compiled. Qed.
Print Assumptions cscan_code_compiled.
Theorem cscan_rejects_open : forall compile start src,
  (exists m, k_mode (fold_left (cstep compile) src (cinit start)) = m /\ m <> CClosed /\ m <> CDone) ->
  exists e, cscan compile start src = inr e.
Proof. exact CodeGrammar.cscan_rejects_open. Qed.
Print Assumptions cscan_rejects_open.
(* and nothing of an accepted value is skipped: the code tokens concatenate to it *)
Theorem cscan_concat_closed : forall (compile : pos -> str -> bool) (start : pos) (src : str) (toks : list ctok),
  cscan compile start src = inl toks ->
  k_mode (fold_left (cstep compile) src (cinit start)) = CClosed ->
  concat (map c_value toks) = src.
Proof. exact CodeConcat.cscan_concat_closed. Qed.
Print Assumptions cscan_concat_closed.

(* Non-vacuity: "1;2", "1\n2" and an unterminated ${ are rejected; "1 // c\n" is accepted *)
Example reject_examples :
  let il := fun r => (97 <=? r) && (r <=? 122) in let id := fun r => (48 <=? r) && (r <=? 57) in
  parse_code il id [49; 59; 50] = None /\ parse_code il id [49; 10; 50] = None /\
  parse_code il id [49; 32; 47; 47; 32; 99; 10] <> None /\
  (exists e, cscan (fun _ _ => true) (1,1) [34; 36; 123; 97; 34] = inr e).
Proof. vm_compute. repeat split; try discriminate. eexists; reflexivity. Qed.

(* ---- lifted to WHOLE DOCUMENTS (Proofs/LoadCompiled.v, session 3): in every template that LOADS, every directive
   attribute (name with the attribute prefix, with a value) of every tag at any depth has a value that is closed by its
   own quote, splits into literal / code tokens that concatenate back to the value, and every ${} block of it is an
   expression that was parsed WHOLE (the lexer's tokens are exactly the printed expression followed by blank end-of-
   statement tokens).  Contrapositive: no loaded template contains a directive value for which the splitter fails or a
   block the parser rejects.  No attribute position escapes the check (the value-less '=' before '>', the last attribute
   before '/>', attributes after a bare else, ...): the invariant is proved over every step of the scanner.
   Observation recorded while proving: the OBJECT of a range header and the names of a with list are literal text of the
   value, checked when the element is RENDERED (always an error then, never ignored): the LoadCompiled.range_object examples. *)
From Tpl Require Import Html.Pipeline Html.Manager Proofs.LoadCompiled.
Theorem load_all_compiled : forall is_space to_lower text_tags void_elements attr_prefix is_letter is_udigit src root,
  load is_space to_lower text_tags void_elements attr_prefix (Manager.pok is_letter is_udigit) src = inl root ->
  forall n t a v, In n (PureRenderTree.nodes root) -> n_tok n = Some t \/ n_end n = Some t ->
  In a (t_attrs t) -> prefixb attr_prefix (a_name a) = true -> a_value a = Some v ->
  exists cts, attr_ctoks attr_prefix (Manager.pok is_letter is_udigit) a = inl cts /\
    concat (map c_value cts) = v /\
    (exists q b, v = q :: b ++ [q] /\ isq q = true /\ ~ In q b) /\
    (forall c, In c cts -> c_kind c = CodeValue -> parsed_whole is_letter is_udigit (c_value c)).
Proof. exact LoadCompiled.load_all_compiled. Qed.
Theorem bad_value_never_loads : forall is_space to_lower text_tags void_elements attr_prefix is_letter is_udigit src root,
  load is_space to_lower text_tags void_elements attr_prefix (Manager.pok is_letter is_udigit) src = inl root ->
  forall n t a v, In n (PureRenderTree.nodes root) -> n_tok n = Some t \/ n_end n = Some t ->
  In a (t_attrs t) -> prefixb attr_prefix (a_name a) = true -> a_value a = Some v ->
  (forall e, cscan no_compile (a_vstart a) v <> inr e) /\
  (forall e, cscan (Manager.pok is_letter is_udigit) (a_vstart a) v <> inr e) /\
  (forall cts c, cscan no_compile (a_vstart a) v = inl cts -> In c cts -> c_kind c = CodeValue ->
     parse_code is_letter is_udigit (c_value c) <> None).
Proof. exact LoadCompiled.bad_value_never_loads_tree. Qed.
Print Assumptions load_all_compiled.
Print Assumptions bad_value_never_loads.
