(* C17 — Scanning recovers the written tokens with exact source positions. *)
From Tpl Require Import Html.Scan Proofs.ScanSpec.
