(* C17 — Scanning recovers the written tokens with exact source positions.
   Theorems only: each is closed by [exact] of a lemma proved under Proofs/. *)
From Tpl Require Import Html.Scan Html.Code Proofs.ScanSpec Proofs.ScanConcat Proofs.ScanPos Proofs.ScanAttrPos Proofs.CodeConcat Proofs.PrintScanDefs Proofs.PrintScan.

(* Every token starts where the previous one ended (the first at 1:1) and ends at
   pos_after(start, value), tab = 4 columns: for every source, raw-text list, prefix, Unicode table. *)
Theorem positions_exact : forall (is_space : rune -> bool) (to_lower : rune -> rune) (text_tags : list str)
    (attr_prefix : str) (compile : attr -> bool) (src : str) (toks : list token),
  scan is_space to_lower text_tags attr_prefix compile src = inl toks ->
  chain (1,1) toks.
Proof. exact ScanPos.positions_exact. Qed.
Print Assumptions positions_exact.

(* The token values concatenate back to the source (so no character is lost or moved). *)
Theorem scan_concat : forall (is_space : rune -> bool) (to_lower : rune -> rune) (text_tags : list str)
    (attr_prefix : str) (compile : attr -> bool) (src : str) (toks : list token),
  scan is_space to_lower text_tags attr_prefix compile src = inl toks ->
  concat (map t_value toks) = src.
Proof. exact ScanConcat.scan_concat. Qed.
Print Assumptions scan_concat.

(* Every (non-empty) attribute name is reported with the positions at which it lies in the tag. *)
Theorem attr_name_span : forall is_space to_lower text_tags attr_prefix compile, is_space cSP = true ->
  forall src toks, scan is_space to_lower text_tags attr_prefix compile src = inl toks ->
  forall t a, In t toks -> In a (t_attrs t) -> a_name a <> [] ->
  span_in (t_start t) (t_value t) (a_name a) (a_nstart a) (a_nend a).
Proof. exact ScanAttrPos.attr_name_span. Qed.
Print Assumptions attr_name_span.

(* Directive values: code segments abut, start at the value's start position, end at
   pos_after(start, value); their values concatenate to the consumed part of the attribute value. *)
Theorem code_positions : forall compile start src toks, cscan compile start src = inl toks -> cchain start toks.
Proof. exact CodeConcat.cscan_positions. Qed.
Print Assumptions code_positions.

Theorem code_concat : forall (compile : pos -> str -> bool) (start : pos) (src : str) (toks : list ctok),
  cscan compile start src = inl toks ->
  exists rest, concat (map c_value toks) ++ rest = src /\
               cscan compile start (concat (map c_value toks)) = inl toks /\
               (k_mode (fold_left (cstep compile) src (cinit start)) <> CDone -> rest = []).
Proof. exact CodeConcat.cscan_concat_strong. Qed.
Print Assumptions code_concat.

(* "Scanning the printed form of any sequence of markup tokens recovers that sequence": for every sequence of written
   tokens (text, comment, CDATA, tags with value-less / quoted / unquoted attributes; [wf_wtoks] states what can be
   written at all: e.g. a text contains no '<', a quoted value does not contain its quote, a comment body no '-->'),
   scanning its print succeeds and yields exactly these kinds, names / contents, attribute names and raw values, in order.
   Raw-text elements (script, style, ...) are outside this theorem (their content is covered by scan_concat and by the
   token-sequence stream of the correspondence check). *)
Theorem print_scan : forall (is_space : rune -> bool) (to_lower : rune -> rune) (text_tags : list str) (attr_prefix : str) (compile : attr -> bool),
  oracle_ok is_space ->
  forall ws, wf_wtoks is_space to_lower text_tags attr_prefix compile ws ->
  exists toks, scan is_space to_lower text_tags attr_prefix compile (print_wtoks ws) = inl toks /\
               map shape_of toks = map shape_of_w ws.
Proof. exact PrintScan.print_scan. Qed.
Print Assumptions print_scan.
(* non-vacuity of print_scan: a seven-token sequence with every form satisfies wf_wtoks (PrintScan.ex_wf) *)
Theorem print_scan_nonvacuous : exists is_space to_lower text_tags attr_prefix compile ws,
  oracle_ok is_space /\ wf_wtoks is_space to_lower text_tags attr_prefix compile ws /\ length ws = 7%nat.
Proof. exact PrintScan.print_scan_nonvacuous. Qed.

(* Non-vacuity: a concrete multi-line document with a raw-text element scans successfully. *)
Example scan_example :
  exists toks, scan (fun r => N.eqb r 32 || N.eqb r 10 || N.eqb r 9) (fun r => r) [[115;99;114;105;112;116]] [58] (fun _ => true)
    [60;112;32;97;61;39;120;39;62;10;9;60;115;99;114;105;112;116;62;97;60;98;60;47;115;99;114;105;112;116;62] = inl toks
    /\ length toks = 5%nat.
Proof. eexists; split; [vm_compute; reflexivity | reflexivity]. Qed.

(* ---- print_scan extended to RAW-TEXT elements (Proofs/PrintScanRaw.v, session 3): a written sequence may contain
   elements  <name attrs> content </close_name>  whose name is in the raw-text list; wf_wtoksR asks of such an element
   exactly that close_name lower-cases to the name, contains no blank, '<' or '>', and that the content contains no
   complete close-tag candidate (raw_content_okb: the candidate automaton of the scanner — '<' restarts, blanks are
   skipped, the blank-free lower-cased text must stay a prefix of </name> — never completes).  Then scanning the print
   recovers: the open tag, ONE text token holding exactly the content (none when it is empty), the close tag as written —
   interleaved with the plain tokens as in print_scan (which is the special case plain_embed).  raw_oracle_ok: '<' and '/'
   are not white space and to_lower fixes '<' '/' '>' — each fact shown necessary by a counterexample (the need_ examples). *)
From Tpl Require Import Proofs.PrintScanRaw.
Theorem print_scan_raw : forall (is_space : rune -> bool) (to_lower : rune -> rune) (text_tags : list str) (attr_prefix : str) (compile : attr -> bool),
  oracle_ok is_space -> raw_oracle_ok is_space to_lower ->
  forall ws, wf_wtoksR is_space to_lower text_tags attr_prefix compile ws ->
  exists toks, scan is_space to_lower text_tags attr_prefix compile (print_wtoksR ws) = inl toks /\
               map shape_of toks = concat (map shapes_of_wR ws).
Proof. exact PrintScanRaw.print_scan_raw. Qed.
Theorem print_scan_is_a_special_case : forall is_space to_lower text_tags attr_prefix compile ws,
  wf_wtoks is_space to_lower text_tags attr_prefix compile ws ->
  wf_wtoksR is_space to_lower text_tags attr_prefix compile (map WPlain ws) /\
  print_wtoksR (map WPlain ws) = print_wtoks ws /\
  concat (map shapes_of_wR (map WPlain ws)) = map shape_of_w ws.
Proof. exact PrintScanRaw.plain_embed. Qed.
Theorem print_scan_raw_nonvacuous : exists toks, rx_scan (print_wtoksR rx_ws) = inl toks /\ map shape_of toks = concat (map shapes_of_wR rx_ws).
Proof. exact PrintScanRaw.print_scan_raw_example_thm. Qed.
Print Assumptions print_scan_raw.
