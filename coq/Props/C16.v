(* C16 — Rendering is a pure function of template and data. Theorems only. *)
From Tpl Require Import Html.Exec Html.Manager Proofs.ExecSpec Proofs.PureRenderBase Proofs.PureRender Proofs.PureRenderTree Proofs.PureRenderExample Proofs.FuelMono.
Open Scope N_scope.

Section C16.
Variable is_space : rune -> bool.
Variable to_lower : rune -> rune.
Variable is_letter : rune -> bool.
Variable is_udigit : rune -> bool.
Variable methods : N -> bool -> list (str * N).
Variable call_fn : N -> list value -> fres.
Variable mgr : manager.
Notation EXECUTE := (execute is_space to_lower is_letter is_udigit methods call_fn mgr).

(* Executing a template from two arbitrary well-formed condition tables (tables that only hold entries
   of condition-carrying nodes: the invariant of every table produced by earlier executions, successful
   or not) gives the same output, the same result and the same call log. *)
Theorem execute_state_independent : forall cid fuel tp d t1 t2 st,
  tree_ok mgr cid (tp_ctx tp) -> closed mgr (tp_ctx tp) (tp_children tp) -> wf cid t1 -> wf cid t2 ->
  forall o1 r1 t1' s1 o2 r2 t2' s2,
  EXECUTE fuel tp d t1 st = (o1, r1, t1', s1) -> EXECUTE fuel tp d t2 st = (o2, r2, t2', s2) ->
  o1 = o2 /\ r1 = r2 /\ s1 = s2 /\ wf cid t1' /\ wf cid t2'.
Proof. exact (PureRender.execute_state_independent is_space to_lower is_letter is_udigit methods call_fn mgr). Qed.

(* A history of executions on ONE template object: the i-th result is what a fresh object gives for
   the i-th data (first and every later execution, after successful and failed renders alike). *)
Theorem history_pure : forall cid fuel tp runs i d b,
  tree_ok mgr cid (tp_ctx tp) -> closed mgr (tp_ctx tp) (tp_children tp) ->
  nth_error runs i = Some (d, b) ->
  nth_error (run_history is_space to_lower is_letter is_udigit methods call_fn fuel mgr tp runs []) i =
    Some (let '(o, r, _, st) := EXECUTE fuel tp d [] (mkR [] b) in (o, r, r_log st)).
Proof. exact (PureRender.history_pure is_space to_lower is_letter is_udigit methods call_fn mgr). Qed.
End C16.

(* the hypotheses are satisfiable by every forest with tokens everywhere and distinct ids (what the
   loader builds), for whole files and for trimmed fragments *)
Theorem tree_ok_exists : forall mgr ctx, NoDup (map n_id (flat_map nodes ctx)) -> (forall q, In q (flat_map nodes ctx) -> n_tok q <> None) ->
  tree_ok mgr (cid_of mgr ctx) ctx.
Proof. intros; eapply PureRenderTree.tree_ok_exists; eassumption. Qed.
Theorem closed_file : forall mgr ctx, NoDup (map n_id ctx) -> closed mgr ctx ctx.
Proof. intros; eapply PureRenderBase.closed_self; eassumption. Qed.
Theorem closed_fragment : forall is_space mgr ch, NoDup (map n_id ch) -> closed mgr ch (trim_blank_ends is_space ch).
Proof. intros; eapply PureRenderBase.closed_trim; eassumption. Qed.


(* The model's recursion fuel is not an observable: a render that did not run out of fuel gives exactly the same
   output, result, table and log with any larger fuel (so the results above do not depend on the fuel the
   correspondence driver happens to use, and "the" render of a template is well defined). *)
Theorem fuel_irrelevant : forall is_space to_lower is_letter is_udigit methods call_fn mgr f f' tp data t st, (f <= f')%nat ->
  no_fuel_err (execute is_space to_lower is_letter is_udigit methods call_fn mgr f tp data t st) ->
  execute is_space to_lower is_letter is_udigit methods call_fn mgr f' tp data t st =
  execute is_space to_lower is_letter is_udigit methods call_fn mgr f tp data t st.
Proof. exact FuelMono.execute_fuel_mono_le. Qed.
Theorem fuel_irrelevant_node : forall is_space to_lower is_letter is_udigit methods call_fn mgr f f', (f <= f')%nat ->
  forall m c n s tp t st,
  no_fuel_err (exec_node is_space to_lower is_letter is_udigit methods call_fn mgr f m c n s tp t st) ->
  exec_node is_space to_lower is_letter is_udigit methods call_fn mgr f' m c n s tp t st =
  exec_node is_space to_lower is_letter is_udigit methods call_fn mgr f m c n s tp t st.
Proof. exact FuelMono.exec_fuel_mono_le. Qed.

Print Assumptions execute_state_independent.
Print Assumptions fuel_irrelevant.
Print Assumptions fuel_irrelevant_node.
Print Assumptions history_pure.
Print Assumptions tree_ok_exists.
(* Non-vacuity: Proofs/PureRenderExample.v (x_tree_ok, x_closed, x_same_true, x_same_false, wf_needed) *)
(* see PureRenderExample.x_by_theorem *)
