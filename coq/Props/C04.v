(* C04 — Range renders the element once per item with index and item bound. Theorems only. *)
From Tpl Require Import Html.Exec Proofs.ExecSpec Proofs.RangeProps.
Open Scope N_scope.

Section C04.
Variable is_space : rune -> bool.
Variable to_lower : rune -> rune.
Variable is_letter : rune -> bool.
Variable is_udigit : rune -> bool.
Variable methods : N -> bool -> list (str * N).
Variable call_fn : N -> list value -> fres.
Variable mgr : manager.
Variable exec : N -> list node -> node -> scope -> bool -> tbl -> rst -> R.   (* ANY behaviour of the nested renders *)

(* the per-item loop: the element is re-executed once per item, in order, each time in a scope that binds
   index and item; the outputs are joined by the blank text following the element, between items only *)
Theorem range_iter_ok : forall mask ctx n idx item scope0 sep items t st outs t' st',
  iter_runs exec mask ctx n idx item scope0 items t st outs t' st' ->
  range_iter exec mask ctx n idx item scope0 sep items true [] t st = (inl (range_spec (sep_text_of sep) outs), t', st').
Proof. intros; eapply RangeProps.range_iter_ok; eassumption. Qed.
Theorem one_render_per_item : forall mask ctx n idx item scope0 items t st outs t' st',
  iter_runs exec mask ctx n idx item scope0 items t st outs t' st' -> length outs = length items.
Proof. intros; eapply RangeProps.iter_runs_length; eassumption. Qed.
(* an empty collection renders nothing *)
Theorem range_iter_empty : forall mask ctx n idx item scope0 sep first acc t st,
  range_iter exec mask ctx n idx item scope0 sep [] first acc t st = (inl acc, t, st).
Proof. intros; apply RangeProps.range_iter_empty. Qed.
(* a failing item stops the loop: later items are not rendered *)
Theorem range_iter_stops_at_failure : forall mask ctx n idx item scope0 sep done k v later t st outs t1 st1 o r t' st' first acc,
  iter_runs exec mask ctx n idx item scope0 done t st outs t1 st1 ->
  exec (N.lor mask 2) ctx n (range_scope idx item k v scope0) false t1 st1 = (o, r, t', st') -> r <> ROk ->
  range_iter exec mask ctx n idx item scope0 sep (done ++ (k, v) :: later) first acc t st = (inr r, t', st').
Proof. intros; eapply RangeProps.range_iter_stops_at_failure; eassumption. Qed.
(* the whole directive, from the header text *)
Theorem range_owner_ok : forall mask ctx n av ls t st idx item obj e v lg items outs t' st',
  extract_range is_space (strip_quotes av) = (idx, item, obj) ->
  parse_code is_letter is_udigit obj = Some e ->
  eval_text is_letter is_udigit methods call_fn (with_default (l_sc ls)) obj (r_log st) = (Ok v, lg) ->
  range_items v = Some items ->
  iter_runs exec mask ctx n idx item (with_default (l_sc ls)) items t (set_log st lg) outs t' st' ->
  range_owner is_space is_letter is_udigit methods call_fn exec mask ctx n av ls t st
  = (inl (add_direct ls (range_spec (sep_text_of (match next_sibling ctx (n_id n) with
        | Some x => if is_blank_text is_space x then Some x else None | None => None end)) outs)), t', st').
Proof. intros; eapply RangeProps.range_owner_ok; eassumption. Qed.

(* both variables are visible, innermost-first, to everything rendered for the item *)
Theorem range_scope_item : forall idx item k v sc, sget methods (range_scope idx item k v sc) item = Found v.
Proof. intros; apply RangeProps.range_scope_item. Qed.
Theorem range_scope_index : forall idx item k v sc, str_eqb idx item = false ->
  sget methods (range_scope idx item k v sc) idx = Found k.
Proof. intros; apply RangeProps.range_scope_index; assumption. Qed.
Theorem range_scope_other : forall idx item k v sc name, str_eqb name idx = false -> str_eqb name item = false ->
  sget methods (range_scope idx item k v sc) name = sget methods sc name.
Proof. intros; apply RangeProps.range_scope_other; assumption. Qed.
End C04.

(* what is iterated: 1-based position and item of a slice/array in order, key and value of a map,
   1-based position and byte of a string; anything else is not a collection *)
Theorem range_items_slice : forall arr l ex,
  range_items (VSeq arr l ex) = Some (map (fun p => (VInt KInt (fst p), snd p)) (enumerate1 1%Z l)).
Proof. exact RangeProps.range_items_slice. Qed.
Theorem range_items_map : forall m, range_items (VMap m) = Some (map (fun kv => (VStr (fst kv), snd kv)) m).
Proof. exact RangeProps.range_items_map. Qed.
Theorem range_items_length : forall v items, range_items v = Some items ->
  (length items = match v with VSeq _ l _ => length l | VStr s => length (utf8_bytes s) | VMap m => length m | _ => 0 end)%nat.
Proof. exact RangeProps.range_items_length. Qed.
Theorem range_non_collection : forall v,
  (match v with VSeq _ _ _ | VStr _ | VMap _ => False | _ => True end) -> range_items v = None.
Proof. exact RangeProps.range_non_collection. Qed.

Print Assumptions range_iter_ok.
Print Assumptions range_iter_stops_at_failure.
Print Assumptions range_owner_ok.
Print Assumptions range_scope_other.
Print Assumptions range_items_slice.

(* the header forms of the property text *)
Example header_forms :
  let sp := fun r => N.eqb r 32 in
  extract_range sp [120;115] = ([], [], [120;115]) /\
  extract_range sp [105;32;58;32;120;115] = ([105], [], [120;115]) /\
  extract_range sp [105;44;32;120;32;58;32;120;115] = ([105], [120], [120;115]) /\
  extract_range sp [44;32;120;32;58;32;120;115] = ([], [120], [120;115]) /\
  extract_range sp [95;44;32;120;32;58;32;120;115] = ([95], [120], [120;115]).
Proof. vm_compute. repeat split; reflexivity. Qed.

(* ---- END TO END, from SOURCE TEXT to OUTPUT TEXT (Proofs/EndToEndDirectives.v, session 3): the source and the Unicode
   tables are concrete (the ASCII tables bx_ of ReadbackExample, the default lists read from the Go source), the DATA is
   universally quantified.  The source  <ul><li :range=Q i, x : xs Q :text=Q${x}Q>y</li> </ul>  loads, and for EVERY list of
   strings bound to xs it renders one <li> per item, in order, each holding the escaped item, joined by the blank that
   follows the element (that blank is also an ordinary text node of the parent and is printed once after the last item:
   with no items the output is <ul> </ul>); the index variable counts from 1; a value that is not a collection is an error,
   never ROk. *)
From Coq Require Import List NArith ZArith Bool Lia Arith String Ascii.
From Tpl Require Import Html.Exec Html.Manager Gen.Facts Proofs.ExecSpec Proofs.RenderPlain Proofs.RangeProps Proofs.FuelMono
  Proofs.ReadbackExample Proofs.EndToEnd.
Import ListNotations.
Open Scope N_scope.
From Tpl Require Import Proofs.EndToEndDirectives.
Theorem e2e_range_source_to_output : loads_and src_range (fun tp =>
  forall (ss : list str) (t : tbl) (st : rst) (fuel : nat), r_budget st = None -> (4 <= fuel)%nat ->
  bx_execute bx_mgr fuel tp (VMap [(s2l "xs", VSeq false (map VStr ss) [])]) t st =
  (s2l "<ul>" ++ join (s2l " ") (map (fun s => s2l "<li>" ++ escape s ++ s2l "</li>") ss) ++ s2l " </ul>", ROk, t, st)).
Proof. exact EndToEndDirectives.range_source_to_output. Qed.
Theorem e2e_index_source_to_output : loads_and src_index (fun tp =>
  forall (l : list value) (t : tbl) (st : rst) (fuel : nat), r_budget st = None -> (4 <= fuel)%nat ->
  bx_execute bx_mgr fuel tp (VMap [(s2l "xs", VSeq false l [])]) t st =
  (s2l "<ul>" ++ join (s2l " ") (map (fun k => s2l "<li>" ++ str_of_Z (Z.of_nat k) ++ s2l "</li>") (seq 1 (length l)))
     ++ s2l " </ul>", ROk, t, st)).
Proof. exact EndToEndDirectives.index_source_to_output. Qed.
Theorem e2e_range_non_collection_never_ok : forall v t st fuel out r t' st',
  non_collection v -> r_budget st = None -> (3 <= fuel)%nat ->
  bx_execute bx_mgr fuel (tp_of root_range) (VMap [(s_xs, v)]) t st = (out, r, t', st') -> r <> ROk /\ out = ul_open.
Proof. exact EndToEndDirectives.range_non_collection_never_ok. Qed.
Print Assumptions e2e_range_source_to_output.
