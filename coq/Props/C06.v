(* C06 — Names resolve innermost-first and bindings never leak. Theorems only. *)
From Tpl Require Import Html.Exec Proofs.ExecSpec Proofs.AccessSpec Proofs.FragmentProps Proofs.RangeProps.
Open Scope N_scope.

Section C06.
Variable is_space : rune -> bool.
Variable to_lower : rune -> rune.
Variable is_letter : rune -> bool.
Variable is_udigit : rune -> bool.
Variable methods : N -> bool -> list (str * N).
Variable call_fn : N -> list value -> fres.
Variable exec : N -> list node -> node -> scope -> bool -> tbl -> rst -> R.

(* lookup falls through to the parent only when the name is ABSENT — not when it is present with a
   nil value (Found VNil) and not when the lookup failed for another reason (Failed) *)
Theorem combine_get : forall s p n,
  sget methods (SCombine s p) n = match sget methods s n with Absent => sget methods p n | r => r end.
Proof. exact (AccessSpec.combine_get methods). Qed.
Theorem sget_chain : forall l last name, sget methods (chain l last) name
  = first_present (map (fun s => sget methods s name) l) (sget methods last name).
Proof. intros; apply FragmentProps.sget_chain. Qed.
Theorem present_nil_is_found : forall m name, assoc name m = Some VNil -> get_value methods name (VMap m) = Found VNil.
Proof. exact (AccessSpec.get_map_present_nil methods). Qed.
(* the scope of a render: this call's data, then the manager's global scope (built-ins are appended
   by every evaluation) — nothing from earlier renders *)
Theorem render_scope_lookup : forall mgr data name, sget methods (render_scope mgr data) name
  = match get_value methods name (match data with VNil => VMap [] | d => d end) with Absent => sget methods (m_global mgr) name | r => r end.
Proof. intros; apply FragmentProps.render_scope_lookup. Qed.
Theorem execute_scope : forall mgr fuel tp data t st, execute is_space to_lower is_letter is_udigit methods call_fn mgr fuel tp data t st
  = exec_node is_space to_lower is_letter is_udigit methods call_fn mgr fuel 0 (tp_ctx tp) (Node 0 None (tp_children tp) None) (render_scope mgr data) true t st.
Proof. intros; apply FragmentProps.execute_scope. Qed.
(* with-bindings shadow outer names and resolve everything else outside *)
Theorem with_scope_lookup : forall mgr a sc lg sc' lg',
  with_assign is_space is_letter is_udigit methods call_fn mgr a sc lg = (inl sc', lg') ->
  exists m, sc' = SCombine (SData (VMap m)) sc /\
    forall name, sget methods sc' name = match assoc name m with Some v => Found v | None => sget methods sc name end.
Proof. intros; eapply FragmentProps.with_scope_lookup; eassumption. Qed.
(* range bindings likewise *)
Theorem range_scope_other : forall idx item k v sc name, str_eqb name idx = false -> str_eqb name item = false ->
  sget methods (range_scope idx item k v sc) name = sget methods sc name.
Proof. intros; apply RangeProps.range_scope_other; assumption. Qed.
(* every sibling is rendered in the scope of the list: a binding made on one element is never passed
   to the next sibling nor back to the parent (scopes are arguments, never results) *)
Theorem exec_list_same_scope : forall ctx c r sc top t st,
  exec_list exec ctx (c :: r) sc top t st = seq2 (exec 0 ctx c sc top t st) (exec_list exec ctx r sc top).
Proof. intros; apply FragmentProps.exec_list_same_scope. Qed.
End C06.
Print Assumptions combine_get.
Print Assumptions sget_chain.
Print Assumptions render_scope_lookup.
Print Assumptions with_scope_lookup.
Print Assumptions exec_list_same_scope.

Example shadow_example :
  let inner := SData (VMap [([120], VStr [49])]) in let data := SData (VMap [([120], VStr [50]); ([121], VNil)]) in
  let glob := SData (VMap [([121], VStr [51]); ([122], VStr [52])]) in
  sget (fun _ _ => []) (SCombine inner (SCombine data glob)) [120] = Found (VStr [49]) /\
  sget (fun _ _ => []) (SCombine inner (SCombine data glob)) [121] = Found VNil /\
  sget (fun _ _ => []) (SCombine inner (SCombine data glob)) [122] = Found (VStr [52]) /\
  sget (fun _ _ => []) (SCombine inner (SCombine data glob)) [119] = Absent.
Proof. vm_compute. repeat split; reflexivity. Qed.

(* ---- END TO END (Proofs/EndToEndDirectives.v, session 3): the source
   <p :with=Q v := ${s} Q><b :text=Q${v}Q>1</b></p><i :text=Q${v}Q>2</i>  loads and, for EVERY string s: when the data does not bind v
   the descendant <b> sees the binding and the SIBLING <i> does not (the render fails there with the no-such-value cause after
   writing exactly <p><b>escape(s)</b></p><i>); when the data binds v to u, the inner binding shadows it inside the element
   and the outer one is back for the sibling. *)
From Coq Require Import List NArith ZArith Bool Lia Arith String Ascii.
From Tpl Require Import Html.Exec Html.Manager Gen.Facts Proofs.ExecSpec Proofs.RenderPlain Proofs.RangeProps Proofs.FuelMono
  Proofs.ReadbackExample Proofs.EndToEnd.
Import ListNotations.
Open Scope N_scope.
From Tpl Require Import Proofs.EndToEndDirectives.
Theorem e2e_with_source_to_output : loads_and src_with (fun tp =>
  forall (s : str) (t : tbl) (st : rst) (fuel : nat), r_budget st = None -> (3 <= fuel)%nat ->
  bx_execute bx_mgr fuel tp (VMap [(s2l "s", VStr s)]) t st =
    (s2l "<p><b>" ++ escape s ++ s2l "</b></p><i>", RErr (RC CNoSuchValue), t, st) /\
  forall u : str,
  bx_execute bx_mgr fuel tp (VMap [(s2l "s", VStr s); (s2l "v", VStr u)]) t st =
    (s2l "<p><b>" ++ escape s ++ s2l "</b></p><i>" ++ escape u ++ s2l "</i>", ROk, t, st)).
Proof. exact EndToEndDirectives.with_source_to_output. Qed.
Print Assumptions e2e_with_source_to_output.
