(* C15 — Concurrent rendering from one manager is race-free and equals serial. Theorems only.
   PARTIAL by nature: the Go memory model and scheduler cannot be exhibited by an executable Gallina
   model. Proved here: (1) tags published by the scanner are cache-complete, so the accessors used by
   Execute never write to the shared tree; (2) executions that only read shared state are independent
   of the schedule. The renderer model (Html/Exec.v) takes the parsed tree as an immutable argument;
   that the real Execute leaves every cell of the shared tree untouched is checked on every run by the
   snapshot oracle (verif hook), and data-race freedom by runs under the Go race detector. *)
From Coq Require Import Arith.
From Tpl Require Import Sys.Conc Proofs.ConcProps.

Theorem published_never_written : forall attrs, NoDup (map a_name attrs) ->
  snd (attr_map (published attrs)) = false /\ snd (sorted_attr (published attrs)) = false /\
  fst (attr_map (published attrs)) = published attrs.
Proof. exact ConcProps.published_never_written. Qed.
Theorem interleaving_equals_serial : forall (Sh Pv : Type) (step : Sh -> Pv -> Pv) sh sched threads i p,
  nth_error threads i = Some p ->
  nth_error (run_sched Sh Pv step sh threads sched) i = Some (iter Pv (count_occ Nat.eq_dec sched i) (step sh) p).
Proof. exact ConcProps.interleaving_equals_serial. Qed.
Print Assumptions published_never_written.
Print Assumptions interleaving_equals_serial.

Example sched_example :
  run_sched nat nat (fun s p => (s + p)%nat) 3%nat [0; 10]%nat [0; 1; 1; 0; 1]%nat = [6; 19]%nat.
Proof. reflexivity. Qed.
