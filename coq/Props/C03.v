(* C03 — Conditional chains render exactly the first true branch. Theorems only.
   Stated for ANY behaviour [exec] of the nested renders that leaves the entry of the element it
   renders untouched (keeps_own: proved for the renderer itself, chain_exec_node), for ANY scope and
   ANY initial condition table. Chain elements carry the condition as their only directive (plus any
   plain attributes, any children); text / comments / CDATA between them are the gaps. *)
From Tpl Require Import Html.Exec Proofs.ExecSpec Proofs.ChainProps Proofs.ChainWith.
Open Scope N_scope.

Section C03.
Variable is_space : rune -> bool.
Variable to_lower : rune -> rune.
Variable is_letter : rune -> bool.
Variable is_udigit : rune -> bool.
Variable methods : N -> bool -> list (str * N).
Variable call_fn : N -> list value -> fres.
Variable mgr : manager.
Variable exec : N -> list node -> node -> scope -> bool -> tbl -> rst -> R.
Notation aeval := (attr_evaluate is_letter is_udigit methods call_fn mgr).
Notation ebody := (exec_body is_space to_lower is_letter is_udigit methods call_fn mgr exec).
Notation chain_in := (ChainProps.chain_in to_lower mgr exec).
Notation gaps_text := (ChainProps.gaps_text is_space).
Notation inert := (ChainProps.inert is_space).
Notation conds_false := (ChainProps.conds_false is_letter is_udigit methods call_fn mgr).
Notation item_ok := (ChainProps.item_ok to_lower mgr).
Notation else_ok := (ChainProps.else_ok to_lower mgr).

(* exactly the first element whose condition is "true" is rendered: output = gap texts + the nested
   render of that element at its position; conditions before it were evaluated (log lg2), none after it *)
Theorem chain_first_true : forall ctx pre e1 rest post sc t st front ek back lg1 s lg2 o t2 st2,
  chain_in ctx pre e1 rest post ->
  IElem e1 :: rest = front ++ IElem ek :: back ->
  conds_false front sc (r_log st) = Some lg1 ->
  aeval (ce_attr ek) sc lg1 = (AOk s, lg2) -> str_eqb s s_true = true ->
  exec (N.lor 0 1) ctx (ce_node ek) sc false (tbl_set (set_elems false front t) (ce_id ek) true) (set_log st lg2)
    = (o, ROk, t2, st2) ->
  exec_list ebody ctx (ce_node e1 :: map item_node rest) sc false t st
    = (gaps_text front ++ o ++ gaps_text back, ROk, set_elems true back t2, st2).
Proof. intros; eapply ChainProps.chain_at_most_one_rendered; eassumption. Qed.

(* no condition is "true" (and there is no else): only the gaps are printed, nothing is rendered *)
Theorem chain_none_rendered : forall ctx pre e1 rest post sc t st lg,
  chain_in ctx pre e1 rest post ->
  conds_false (IElem e1 :: rest) sc (r_log st) = Some lg ->
  exec_list ebody ctx (ce_node e1 :: map item_node rest) sc false t st
    = (gaps_text rest, ROk, set_elems false (IElem e1 :: rest) t, set_log st lg).
Proof. intros; eapply ChainProps.chain_none_rendered; eassumption. Qed.

(* once an earlier element was selected, the rest of the chain is inert: no condition, no other
   expression of those elements is evaluated and nothing is rendered (any writer, ANY exec) *)
Theorem chain_no_eval_after_selected : forall ctx sc top items pre prev gs post t st,
  ctx = pre ++ prev :: gs ++ map item_node items ++ post ->
  NoDup (map n_id ctx) -> is_tag_node prev = true -> Forall is_gap gs -> Forall item_ok items ->
  tbl_get t (n_id prev) = Some true ->
  exec_list ebody ctx (map item_node items) sc top t st = inert items top t st /\
  (forall o r t' st', inert items top t st = (o, r, t', st') -> r_log st' = r_log st).
Proof. intros; eapply ChainProps.chain_no_eval_after_selected; eassumption. Qed.

(* a failing condition stops the chain with that error; later elements are not touched *)
Theorem chain_eval_fails : forall ctx pre e1 rest post sc t st front ek back lg1 c lg2,
  chain_in ctx pre e1 rest post ->
  IElem e1 :: rest = front ++ IElem ek :: back ->
  conds_false front sc (r_log st) = Some lg1 ->
  aeval (ce_attr ek) sc lg1 = (AErr c, lg2) ->
  exec_list ebody ctx (ce_node e1 :: map item_node rest) sc false t st
    = (gaps_text front, RErr c, set_elems false front t, set_log st lg2).
Proof. intros; eapply ChainProps.chain_eval_fails; eassumption. Qed.

(* a non-chain element breaks the chain; an else-if/else without a preceding chain element is an error *)
Theorem chain_broken_by_tag : forall ctx pre p gs e post more sc top t st,
  ctx = pre ++ p :: gs ++ ce_node e :: post -> NoDup (map n_id ctx) ->
  is_tag_node p = true -> Forall is_gap gs -> else_ok e -> tbl_get t (n_id p) = None ->
  ebody 0 ctx (ce_node e) sc top t st = ([], RErr RSyntax, t, st) /\
  exec_list ebody ctx (ce_node e :: more) sc top t st = ([], RErr RSyntax, t, st).
Proof. intros; eapply ChainProps.chain_broken_by_tag; eassumption. Qed.
Theorem else_without_chain : forall ctx gs e post more sc top t st,
  ctx = gs ++ ce_node e :: post -> NoDup (map n_id ctx) -> Forall is_gap gs -> else_ok e ->
  ebody 0 ctx (ce_node e) sc top t st = ([], RErr RSyntax, t, st) /\
  exec_list ebody ctx (ce_node e :: more) sc top t st = ([], RErr RSyntax, t, st).
Proof. intros; eapply ChainProps.else_without_chain; eassumption. Qed.
End C03.

(* ---- chain elements that also carry a with directive ("apart from its with bindings, which precede the condition").
   [celemw] = a chain element with an optional with attribute, written before or after the condition; the bindings are
   evaluated first, the condition in the scope they extend, and every element starts again from the chain's scope.
   Selected element ek: rendered by the nested call in ITS extended scope; the with-bindings (only) of the LATER elements are
   still evaluated (withs_ok), their conditions and everything else are not. *)
Theorem chainw_first_true : forall is_space to_lower is_letter is_udigit methods call_fn mgr
    (exec : N -> list node -> node -> scope -> bool -> tbl -> rst -> R)
    ctx pre e1 rest post sc t st front ek back lg1 sck lgw s lg2 o t2 st2 lg3,
  chain_inw to_lower mgr exec ctx pre e1 rest post ->
  WElem e1 :: rest = front ++ WElem ek :: back ->
  conds_falsew is_space is_letter is_udigit methods call_fn mgr front sc (r_log st) = Some lg1 ->
  pre_with is_space is_letter is_udigit methods call_fn mgr (cw_with ek) sc lg1 = (inl sck, lgw) ->
  attr_evaluate is_letter is_udigit methods call_fn mgr (cw_attr ek) sck lgw = (AOk s, lg2) ->
  str_eqb s s_true = true ->
  exec (N.lor 0 1) ctx (cw_node ek) sck false (tbl_set (set_elemsw false front t) (cw_id ek) true) (set_log st lg2) = (o, ROk, t2, st2) ->
  withs_ok is_space is_letter is_udigit methods call_fn mgr back sc (r_log st2) = Some lg3 ->
  exec_list (exec_body is_space to_lower is_letter is_udigit methods call_fn mgr exec) ctx (cw_node e1 :: map itemw_node rest) sc false t st
    = (gaps_textw is_space front ++ o ++ gaps_textw is_space back, ROk, set_elemsw true back t2, set_log st2 lg3).
Proof. exact ChainWith.chainw_first_true. Qed.
(* a failing with-binding stops the chain with that error before the element's condition is evaluated *)
Theorem chainw_with_fails : forall is_space to_lower is_letter is_udigit methods call_fn mgr
    (exec : N -> list node -> node -> scope -> bool -> tbl -> rst -> R)
    ctx pre e1 rest post sc t st front ek back lg1 x lg2,
  chain_inw to_lower mgr exec ctx pre e1 rest post ->
  WElem e1 :: rest = front ++ WElem ek :: back ->
  conds_falsew is_space is_letter is_udigit methods call_fn mgr front sc (r_log st) = Some lg1 ->
  pre_with is_space is_letter is_udigit methods call_fn mgr (cw_with ek) sc lg1 = (inr x, lg2) ->
  exec_list (exec_body is_space to_lower is_letter is_udigit methods call_fn mgr exec) ctx (cw_node e1 :: map itemw_node rest) sc false t st
    = (gaps_textw is_space front, x, set_elemsw false front t, set_log st lg2).
Proof. exact ChainWith.chainw_with_fails. Qed.
(* after the selected element the rest of the chain evaluates with-bindings only: the log grows exactly by them *)
Theorem chainw_after_selected : forall is_space to_lower is_letter is_udigit methods call_fn mgr
    (exec : N -> list node -> node -> scope -> bool -> tbl -> rst -> R) ctx sc top items pre prev gs post t st,
  ctx = pre ++ prev :: gs ++ map itemw_node items ++ post ->
  NoDup (map n_id ctx) -> is_tag_node prev = true -> Forall is_gap gs -> Forall (item_okw to_lower mgr) items ->
  tbl_get t (n_id prev) = Some true ->
  exec_list (exec_body is_space to_lower is_letter is_udigit methods call_fn mgr exec) ctx (map itemw_node items) sc top t st
    = inertw is_space is_letter is_udigit methods call_fn mgr items sc top t st /\
  (forall o r t' st', inertw is_space is_letter is_udigit methods call_fn mgr items sc top t st = (o, r, t', st') ->
     exists front back, items = front ++ back /\
       r_log st' = withs_log is_space is_letter is_udigit methods call_fn mgr front sc (r_log st)).
Proof. exact ChainWith.chainw_after_selected. Qed.
Print Assumptions chainw_first_true.
Print Assumptions chainw_with_fails.
Print Assumptions chainw_after_selected.
(* non-vacuity: ChainWithExp.v (v_by_theorem: a 3-element chain with recording functions; exp_* : the five experiments) *)


(* the renderer itself satisfies the assumption on nested renders: the chain theorem at every fuel *)
Theorem chain_exec_node : forall is_space to_lower is_letter is_udigit methods call_fn mgr f ctx pre e1 rest post sc top t st,
  ctx = pre ++ ce_node e1 :: map item_node rest ++ post -> NoDup (map n_id ctx) ->
  ce_ok to_lower mgr e1 -> ce_cmd e1 = d_if -> Forall (ChainProps.item_ok to_lower mgr) rest ->
  (forall e, In (IElem e) (IElem e1 :: rest) -> ~ In (ce_id e) (sub_ids (ce_node e))) ->
  exec_list (exec_node is_space to_lower is_letter is_udigit methods call_fn mgr (S f)) ctx
            (ce_node e1 :: map item_node rest) sc top t st
  = chain_spec is_space is_letter is_udigit methods call_fn mgr
      (exec_node is_space to_lower is_letter is_udigit methods call_fn mgr f) ctx false (IElem e1 :: rest) sc top t st.
Proof. intros; eapply ChainProps.chain_exec_node; eassumption. Qed.

Print Assumptions chain_first_true.
Print Assumptions chain_none_rendered.
Print Assumptions chain_no_eval_after_selected.
Print Assumptions chain_broken_by_tag.
Print Assumptions chain_exec_node.
(* Non-vacuity: Proofs/ChainProps.v, ex_chain_in / ex_chain_exec_node instantiate every hypothesis on a
   concrete if / text / else-if / else chain. *)
(* see ChainProps.ex_chain_exec_node *)

(* ---- END TO END (Proofs/EndToEndDirectives.v, session 3): the source
   <p :if=Q${a}Q>A</p> <!-- c --> <p :elif=Q${b}Q>B</p><p :else>C</p>  loads and renders exactly the first true branch for
   all boolean a, b (the text and comment between the elements do not break the chain and are printed as they are); a
   string-valued condition selects its branch iff the string is exactly true. *)
From Coq Require Import List NArith ZArith Bool Lia Arith String Ascii.
From Tpl Require Import Html.Exec Html.Manager Gen.Facts Proofs.ExecSpec Proofs.RenderPlain Proofs.RangeProps Proofs.FuelMono
  Proofs.ReadbackExample Proofs.EndToEnd.
Import ListNotations.
Open Scope N_scope.
From Tpl Require Import Proofs.EndToEndDirectives.
Theorem e2e_chain_source_to_output : loads_and src_chain (fun tp =>
  forall (b : bool) (t : tbl) (st : rst) (fuel : nat), r_budget st = None -> (4 <= fuel)%nat ->
  (forall a : bool,
     bx_execute bx_mgr fuel tp (VMap [(s2l "a", VBool a); (s2l "b", VBool b)]) t st = (chain_out a b, ROk, chain_tbl t a b, st)) /\
  (forall s : str,
     bx_execute bx_mgr fuel tp (VMap [(s2l "a", VStr s); (s2l "b", VBool b)]) t st =
     (chain_out (str_eqb s (s2l "true")) b, ROk, chain_tbl t (str_eqb s (s2l "true")) b, st)) /\
  (forall k z,
     bx_execute bx_mgr fuel tp (VMap [(s2l "a", VInt k z); (s2l "b", VBool b)]) t st = (chain_out false b, ROk, chain_tbl t false b, st))).
Proof. exact EndToEndDirectives.chain_source_to_output. Qed.
Theorem e2e_chain_string_selected_iff : forall (s : str) (b : bool) (t : tbl) (st : rst) (fuel : nat),
  r_budget st = None -> (4 <= fuel)%nat ->
  (s = s_true ->
   bx_execute bx_mgr fuel (tp_of root_chain) (VMap [(s_a, VStr s); (s_b, VBool b)]) t st
   = (s2l "<p>A</p> <!-- c --> ", ROk, chain_tbl t true b, st)) /\
  (s <> s_true ->
   bx_execute bx_mgr fuel (tp_of root_chain) (VMap [(s_a, VStr s); (s_b, VBool b)]) t st
   = (gap_chain ++ (if b then s2l "<p>B</p>" else s2l "<p>C</p>"), ROk, chain_tbl t false b, st)).
Proof. exact EndToEndDirectives.chain_string_selected_iff. Qed.
Print Assumptions e2e_chain_source_to_output.
