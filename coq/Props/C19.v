(* C19 — The manager registers exactly the matching files under unique names. Theorems only. *)
From Coq Require Import Sorting.Sorted Permutation.
From Tpl Require Import Sys.FsWalk Proofs.FsProps Html.Manager Proofs.DefsRegistered Proofs.DefsFile.
Open Scope N_scope.

Section C19.
Variable is_space : rune -> bool.
Variable to_lower : rune -> rune.
Variable is_letter : rune -> bool.
Variable is_udigit : rune -> bool.
Variable methods : N -> bool -> list (str * N).
Variable call_fn : N -> list value -> fres.
Variable text_tags : list str.
Variable void_elements : list str.
Variable tag_prefix : str.
Variable attr_prefix : str.
Variable global : scope.
Notation addfile := (add_file is_space to_lower is_letter is_udigit methods call_fn text_tags void_elements tag_prefix attr_prefix global).
Notation walk := (walk is_space to_lower is_letter is_udigit methods call_fn text_tags void_elements tag_prefix attr_prefix global).
Notation parse_fs := (parse_fs is_space to_lower is_letter is_udigit methods call_fn text_tags void_elements tag_prefix attr_prefix global).

(* every file that was opened is closed, in the same order — on success and on every error path *)
Theorem every_open_closed : forall sub files tps' r evs',
  parse_fs sub files = (tps', r, evs') -> opens evs' = closes evs'.
Proof. intros; eapply FsProps.parse_fs_every_open_closed; eassumption. Qed.
(* files that do not match are never opened or read *)
Theorem unmatched_never_opened : forall files tps tps' r evs', walk files tps [] = (tps', r, evs') ->
  forall e, In e evs' -> exists f, In f files /\ ff_match f = true /\ ev_path e = join_path (ff_path f).
Proof. intros files tps tps' r evs' H. eapply FsProps.unmatched_never_opened; eassumption. Qed.
(* on success every matching file is registered under its slash-separated relative path *)
Theorem matching_files_registered : forall files tps tps' evs', walk files tps [] = (tps', None, evs') ->
  forall f, In f files -> ff_match f = true -> assoc (join_path (ff_path f)) tps' <> None.
Proof. intros files tps tps' evs' H. eapply FsProps.matching_files_registered; eassumption. Qed.
(* one namespace: nothing registered earlier is lost or replaced *)
Theorem walk_extends : forall files tps tps' r evs evs', walk files tps evs = (tps', r, evs') ->
  forall name tp, assoc name tps = Some tp -> assoc name tps' = Some tp.
Proof. intros files tps tps' r evs evs' H. eapply FsProps.walk_extends; eassumption. Qed.
(* a second registration of a name fails with the duplicate-name error (file vs file, file vs fragment) *)
Theorem add_file_duplicate : forall tps name src, assoc name tps <> None -> addfile tps name src = (tps, Some LDup).
Proof. intros; eapply FsProps.add_file_duplicate; eassumption. Qed.
Theorem duplicate_rejected : forall f r tps evs, ff_match f = true -> ff_fault f <> Some FltOpen ->
  assoc (join_path (ff_path f)) tps <> None ->
  exists evs', walk (f :: r) tps evs = (tps, Some (WLoad LDup), evs').
Proof. intros; eapply FsProps.duplicate_rejected; eassumption. Qed.
(* file-system errors are returned *)
Theorem fs_error_returned : forall pre f post tps tps1 evs1,
  walk pre tps [] = (tps1, None, evs1) -> ff_match f = true -> ff_fault f <> None ->
  assoc (join_path (ff_path f)) tps1 = None ->
  exists tps' evs', walk (pre ++ f :: post) tps [] = (tps', Some WFs, evs').
Proof. intros; eapply FsProps.fs_error_returned; eassumption. Qed.
End C19.

(* the walk visits every file once, in lexical order of path segments; the sub-directory selects
   exactly the files below it, with the prefix stripped *)
Theorem walk_order_perm : forall l, Permutation (walk_order l) l.
Proof. exact FsProps.walk_order_perm. Qed.
Theorem walk_order_sorted : forall l,
  StronglySorted (fun a b => seg_compare (ff_path a) (ff_path b) <> Gt) (walk_order l).
Proof. exact FsProps.walk_order_sorted. Qed.
Theorem sub_fs_spec : forall sub l g,
  In g (sub_fs sub l) <->
  exists f, In f l /\ exists rest, rest <> [] /\ strip_prefix sub (ff_path f) = Some rest /\
            g = mkFF rest (ff_content f) (ff_fault f) (ff_match f).
Proof. exact FsProps.sub_fs_spec. Qed.

(* "... plus every fragment they define, in one namespace. A second registration of a name fails with the duplicate-name
   error": a definition whose name is the file's own name, is already registered, or repeats an earlier definition of
   the same file makes the load fail - with the duplicate-name error when everything visited before it evaluates *)
Theorem file_and_fragments_registered : forall is_space to_lower is_letter is_udigit methods call_fn text_tags void_elements tag_prefix attr_prefix global tps name src tps',
  add_file is_space to_lower is_letter is_udigit methods call_fn text_tags void_elements tag_prefix attr_prefix global tps name src = (tps', None) ->
  exists root, load is_space to_lower text_tags void_elements attr_prefix (pok is_letter is_udigit) src = inl root /\
    assoc name tps = None /\
    tps' = tps ++ (name, file_tp root) :: defs_of is_space is_letter is_udigit methods call_fn tag_prefix attr_prefix global (PureRenderTree.nodes root) /\
    assoc name tps' = Some (file_tp root) /\
    (forall d nm, desc root d -> def_name_of is_letter is_udigit methods call_fn tag_prefix attr_prefix global d = Some nm ->
       assoc nm tps' = Some (mkT (trim_blank_ends is_space (n_children d)) (n_children d))) /\
    NoDup (name :: keys (defs_of is_space is_letter is_udigit methods call_fn tag_prefix attr_prefix global (PureRenderTree.nodes root))) /\
    (forall k, In k (keys (defs_of is_space is_letter is_udigit methods call_fn tag_prefix attr_prefix global (PureRenderTree.nodes root))) -> assoc k tps = None) /\
    (forall d, desc root d -> def_kind is_letter is_udigit methods call_fn tag_prefix attr_prefix global d <> DErr).
Proof. exact DefsFile.add_file_registers_all. Qed.
Theorem definition_name_clash_rejected : forall is_space to_lower is_letter is_udigit methods call_fn text_tags void_elements tag_prefix attr_prefix global tps name src root pre d post nm,
  assoc name tps = None ->
  load is_space to_lower text_tags void_elements attr_prefix (pok is_letter is_udigit) src = inl root ->
  PureRenderTree.nodes root = pre ++ d :: post ->
  def_name_of is_letter is_udigit methods call_fn tag_prefix attr_prefix global d = Some nm ->
  nm = name \/ assoc nm tps <> None \/ (exists d1, In d1 pre /\ def_name_of is_letter is_udigit methods call_fn tag_prefix attr_prefix global d1 = Some nm) ->
  snd (add_file is_space to_lower is_letter is_udigit methods call_fn text_tags void_elements tag_prefix attr_prefix global tps name src) <> None /\
  ((forall p, In p pre -> def_kind is_letter is_udigit methods call_fn tag_prefix attr_prefix global p <> DErr) ->
   snd (add_file is_space to_lower is_letter is_udigit methods call_fn text_tags void_elements tag_prefix attr_prefix global tps name src) = Some LDup).
Proof. exact DefsFile.add_file_definition_duplicate. Qed.
Print Assumptions file_and_fragments_registered.
Print Assumptions definition_name_clash_rejected.
Print Assumptions every_open_closed.
Print Assumptions unmatched_never_opened.
Print Assumptions matching_files_registered.
Print Assumptions fs_error_returned.
Print Assumptions duplicate_rejected.
Print Assumptions walk_order_sorted.
Print Assumptions sub_fs_spec.

Example fs_example :
  let sp := fun r => N.eqb r 32 in let id := fun r : rune => r in
  let f p c flt m := mkFF p c flt m in
  match parse_fs sp id (fun _ => false) (fun _ => false) (fun _ _ => []) (fun _ _ => FPanic) [] [] [116;58] [58] (SData (VMap []))
          [[118]] [f [[118];[98]] [60;112;62] None true; f [[118];[97]] [120] None true; f [[119]] [60;112] None false; f [[118];[99]] [60] (Some FltOpen) false] with
  | (tps, None, evs) => map fst tps = [[97]; [98]] /\ evs = [EvOpen [97]; EvClose [97]; EvOpen [98]; EvClose [98]]
  | _ => False
  end.
Proof. vm_compute. split; reflexivity. Qed.
