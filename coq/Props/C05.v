(* C05 — Directives on one element compose in the documented order, each applied once. Theorems only.
   (Order-independence of the rendered result and "each effect once" are additionally checked on the
   implementation by re-rendering with permuted control attributes and by call counters.) *)
From Coq Require Import Sorting.Sorted.
From Tpl Require Import Html.Exec Proofs.ExecSpec Proofs.SortProps Proofs.FragmentProps Proofs.FactsAgree.
Open Scope N_scope.

(* Tag.SortedAttr is a permutation, sorted by the documented key, and STABLE: attributes with the same
   key (all plain attributes; all content directives and dynamic attributes) keep their written order.
   Hence the order in which with / if-else / range / remove are written is irrelevant. *)
Theorem sorted_perm : forall p l, Permutation (sorted_attrs p l) l.
Proof. exact SortProps.sorted_perm. Qed.
Theorem sorted_by_key : forall mgr l, no_plain_directive_name mgr l ->
  StronglySorted (fun a b => (sort_key mgr a <= sort_key mgr b)%Z) (sorted_attrs (m_attr_prefix mgr) l).
Proof. exact SortProps.sorted_by_key. Qed.
Theorem sorted_stable : forall mgr l k, no_plain_directive_name mgr l ->
  filter (fun a => Z.eqb (sort_key mgr a) k) (sorted_attrs (m_attr_prefix mgr) l) = filter (fun a => Z.eqb (sort_key mgr a) k) l.
Proof. exact SortProps.sorted_stable. Qed.
(* with < if/else-if/elseif/elif/else < range < remove < everything else *)
Theorem documented_order :
  (forall c, In c cond_names -> (weight d_with < weight c /\ weight c < weight d_range)%Z) /\
  (weight d_range < weight d_remove /\ weight d_remove < 0)%Z.
Proof. exact SortProps.with_before_cond_before_range. Qed.
(* the weights are the ones in html/tag.go NOW (Gen/Facts.v is regenerated on every run) *)
Theorem weights_from_source : forall n, weight n = facts_weight n.
Proof. exact FactsAgree.weight_agrees. Qed.
Print Assumptions sorted_perm.
Print Assumptions sorted_by_key.
Print Assumptions sorted_stable.
Print Assumptions documented_order.
Print Assumptions weights_from_source.

Example order_example :
  let a n := mkAttr n (0,0) (0,0) None (0,0) (0,0) in
  map a_name (sorted_attrs [58] [a [105;100]; a (58 :: d_text); a (58 :: d_range); a [99]; a (58 :: d_else); a (58 :: d_with)])
  = [58 :: d_with; 58 :: d_else; 58 :: d_range; 58 :: d_text; [105;100]; [99]].
Proof. vm_compute. reflexivity. Qed.
