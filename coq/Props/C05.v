(* C05 — Directives on one element compose in the documented order, each applied once. Theorems only.
   (Order-independence of the rendered result and "each effect once" are additionally checked on the
   implementation by re-rendering with permuted control attributes and by call counters.) *)
From Coq Require Import Sorting.Sorted.
From Tpl Require Import Html.Exec Proofs.ExecSpec Proofs.SortProps Proofs.FragmentProps Proofs.FactsAgree Proofs.OrderIrrelevant Proofs.Compose Proofs.RemoveModes Proofs.RenderPlain Proofs.NoDirectiveOut Proofs.NoDirectiveTree.
Open Scope N_scope.

(* Tag.SortedAttr is a permutation, sorted by the documented key, and STABLE: attributes with the same
   key (all plain attributes; all content directives and dynamic attributes) keep their written order.
   Hence the order in which with / if-else / range / remove are written is irrelevant. *)
Theorem sorted_perm : forall p l, Permutation (sorted_attrs p l) l.
Proof. exact SortProps.sorted_perm. Qed.
Theorem sorted_by_key : forall mgr l, no_plain_directive_name mgr l ->
  StronglySorted (fun a b => (sort_key mgr a <= sort_key mgr b)%Z) (sorted_attrs (m_attr_prefix mgr) l).
Proof. exact SortProps.sorted_by_key. Qed.
Theorem sorted_stable : forall mgr l k, no_plain_directive_name mgr l ->
  filter (fun a => Z.eqb (sort_key mgr a) k) (sorted_attrs (m_attr_prefix mgr) l) = filter (fun a => Z.eqb (sort_key mgr a) k) l.
Proof. exact SortProps.sorted_stable. Qed.
(* with < if/else-if/elseif/elif/else < range < remove < everything else *)
Theorem documented_order :
  (forall c, In c cond_names -> (weight d_with < weight c /\ weight c < weight d_range)%Z) /\
  (weight d_range < weight d_remove /\ weight d_remove < 0)%Z.
Proof. exact SortProps.with_before_cond_before_range. Qed.
(* the weights are the ones in html/tag.go NOW (Gen/Facts.v is regenerated on every run) *)
Theorem weights_from_source : forall n, weight n = facts_weight n.
Proof. exact FactsAgree.weight_agrees. Qed.

(* "independent of the order in which the attributes are written": two written orders of the same attributes in which
   attributes of equal sort key (plain attributes among themselves; content directives and dynamic attributes among
   themselves) keep their relative order are sorted to the SAME list ... *)
Theorem sorted_order_irrelevant : forall mgr l l',
  no_plain_directive_name mgr l -> Permutation l l' ->
  (forall k, filter (fun a => Z.eqb (sort_key mgr a) k) l = filter (fun a => Z.eqb (sort_key mgr a) k) l') ->
  sorted_attrs (m_attr_prefix mgr) l = sorted_attrs (m_attr_prefix mgr) l'.
Proof. exact OrderIrrelevant.sorted_attrs_order_irrelevant. Qed.
(* ... and the render of a tree does not change when any number of its elements (and of their siblings, which
   else-chains and range separators inspect) are rewritten that way: output, result, name table and call log are equal,
   for every fuel, mask, scope, writer budget and nesting position. *)
Theorem render_order_irrelevant : forall is_space to_lower is_letter is_udigit methods call_fn mgr
    fuel mask ctx ctx' n n' sc top t st,
  Forall2 (reorder_eq mgr) ctx ctx' -> reorder_eq mgr n n' ->
  exec_node is_space to_lower is_letter is_udigit methods call_fn mgr fuel mask ctx n sc top t st =
  exec_node is_space to_lower is_letter is_udigit methods call_fn mgr fuel mask ctx' n' sc top t st.
Proof. exact OrderIrrelevant.exec_node_order_irrelevant. Qed.
Theorem execute_order_irrelevant : forall is_space to_lower is_letter is_udigit methods call_fn mgr fuel tp tp' data t st,
  Forall2 (reorder_eq mgr) (tp_children tp) (tp_children tp') -> Forall2 (reorder_eq mgr) (tp_ctx tp) (tp_ctx tp') ->
  execute is_space to_lower is_letter is_udigit methods call_fn mgr fuel tp data t st =
  execute is_space to_lower is_letter is_udigit methods call_fn mgr fuel tp' data t st.
Proof. exact OrderIrrelevant.execute_order_irrelevant. Qed.

(* "their effects combine in the documented order ... and each effect is applied exactly once per rendered instance":
   ONE element carrying with + if + range + text and any number of dynamic and plain attributes, written in ANY order
   ([composed]: the directive attributes are a permutation of w, c, r, x and the dynamic ones), rendered by the real
   renderer with any fuel >= 3, in any sibling context, scope, table, writer: the result IS [spec_once] - a plain
   function that evaluates the with-binding once in the outer scope, then the condition once in the extended scope,
   then (only if it is "true") the range object once, then per item, in the item's scope, the dynamic attributes once
   each and then the text once, joining the instances by the blank separator; every failure point returns that
   failure with the log as it is there. (Compose.v; experiments with recording functions: ComposeExp.v.) *)
Theorem each_effect_once : forall is_space to_lower is_letter is_udigit methods call_fn mgr ctx n tok w c r x av das,
  composed to_lower mgr n tok w c r x av das ->
  forall fuel sc top t st, (3 <= fuel)%nat ->
  exec_node is_space to_lower is_letter is_udigit methods call_fn mgr fuel 0 ctx n sc top t st =
  spec_once is_space is_letter is_udigit methods call_fn mgr ctx n tok w c x av sc top t st.
Proof. exact Compose.compose_exec_node_fuel. Qed.
(* the same with exactly one dynamic attribute and no plain ones, where the specification calls the evaluator literally
   once per point: <name ta="escape(a_k)">escape(t_k)</name> per item *)
Theorem each_effect_once_one_title : forall is_space to_lower is_letter is_udigit methods call_fn mgr ctx n tok w c r x av a ta,
  composed to_lower mgr n tok w c r x av [a] ->
  a_name a = m_attr_prefix mgr ++ ta ->
  (forall b, In b (t_attrs tok) -> prefixb (m_attr_prefix mgr) (a_name b) = true) ->
  forall f sc top t st,
  exec_node is_space to_lower is_letter is_udigit methods call_fn mgr (S (S (S f))) 0 ctx n sc top t st =
  spec_one is_space is_letter is_udigit methods call_fn mgr ctx n tok w c x av a ta sc top t st.
Proof. exact Compose.compose_one_title. Qed.

(* "The remove modes (all, body, tag, all-but-first) ... drop exactly the parts they name ... and no directive attribute
   ever appears in the output": an element whose only directive is remove="MODE" / 'MODE' (any plain attributes, any
   directive-free children), rendered by the real renderer at any mask, in any context:
     all            nothing;
     body           the open tag without the directive, the end tag, no child rendered;
     tag            the children only;
     all-but-first  open tag, then [abf_spec]: the first child if it is blank text and a tag child exists, the first tag
                    child, the last child if it is blank text; end tag;
     anything else  as if the attribute were absent.
   [open_tag] = print_tag of the token without prefixed attributes (open_tag_no_directive). *)
Theorem remove_all : forall is_space to_lower is_letter is_udigit methods call_fn mgr fuel mask ctx n tok r sc top t st,
  remove_only to_lower mgr n tok r -> is_mode r s_all -> RenderPlain.wok top st ->
  exec_node is_space to_lower is_letter is_udigit methods call_fn mgr (S fuel) mask ctx n sc top t st = ([], ROk, t, st).
Proof. exact RemoveModes.remove_all_plain. Qed.
Theorem remove_body : forall is_space to_lower is_letter is_udigit methods call_fn mgr fuel mask ctx n tok r sc top t st,
  remove_only to_lower mgr n tok r -> is_mode r s_body -> RenderPlain.wok top st ->
  exec_node is_space to_lower is_letter is_udigit methods call_fn mgr (S fuel) mask ctx n sc top t st
    = (open_tag mgr d_remove tok ++ end_text n, ROk, t, st).
Proof. exact RemoveModes.remove_body_plain. Qed.
Theorem remove_tag : forall is_space to_lower is_letter is_udigit methods call_fn mgr fuel mask ctx n tok r sc top t st,
  remove_only to_lower mgr n tok r -> is_mode r s_tag -> RenderPlain.wok top st ->
  RemoveModes.plain_children is_space to_lower mgr n fuel ->
  exec_node is_space to_lower is_letter is_udigit methods call_fn mgr (S fuel) mask ctx n sc top t st
    = (flat_map print_plain (n_children n), ROk, t, st).
Proof. exact RemoveModes.remove_tag_plain. Qed.
Theorem remove_all_but_first : forall is_space to_lower is_letter is_udigit methods call_fn mgr fuel mask ctx n tok r sc top t st,
  remove_only to_lower mgr n tok r -> is_mode r s_abf -> RenderPlain.wok top st ->
  RemoveModes.plain_children is_space to_lower mgr n fuel ->
  exec_node is_space to_lower is_letter is_udigit methods call_fn mgr (S fuel) mask ctx n sc top t st
    = (open_tag mgr d_remove tok ++ flat_map print_plain (abf_spec is_space (n_children n)) ++ end_text n, ROk, t, st).
Proof. exact RemoveModes.remove_abf_plain. Qed.
Theorem remove_other_value_as_absent : forall is_space to_lower is_letter is_udigit methods call_fn mgr fuel mask ctx n tok r sc top t st,
  remove_only to_lower mgr n tok r -> other_mode r -> RenderPlain.wok top st ->
  RemoveModes.plain_children is_space to_lower mgr n fuel ->
  exec_node is_space to_lower is_letter is_udigit methods call_fn mgr (S fuel) mask ctx n sc top t st
    = (print_plain (Node (n_id n) (Some (stripped mgr d_remove tok)) (n_children n) (n_end n)), ROk, t, st).
Proof. exact RemoveModes.remove_other_as_absent. Qed.
Theorem printed_open_tag_has_no_directive : forall mgr d tok,
  open_tag mgr d tok = print_tag (stripped mgr d tok) /\
  (forall a, In a (t_attrs (stripped mgr d tok)) -> prefixb (m_attr_prefix mgr) (a_name a) = false) /\
  (forall a, In a (t_attrs (stripped mgr d tok)) -> In a (t_attrs tok)).
Proof. exact RemoveModes.open_tag_no_directive. Qed.

(* "... and no directive attribute, block tag or hidden comment ever appears in the output" - for ANY attributes on the
   element, any scope, any nested-render behaviour: the open tag an element prints is  <name  followed by parts that are
   either the print of a PLAIN attribute of the token or  cmd="escape v"  for a dynamic attribute prefix++cmd (tag_shape);
   no printed attribute name starts with the prefix unless the source doubles it (::x); a block tag (also <t:block/>)
   and a hidden comment print nothing of themselves; and the whole output of Execute, also of a failing one, is built from
   source text/comment/CDATA tokens, such open tags, end tags of non-block elements, escaped :text values and :raw values. *)
Theorem printed_open_tag_shape : forall is_space to_lower is_letter is_udigit methods call_fn mgr
    (exec : N -> list node -> node -> scope -> bool -> tbl -> rst -> R) mask ctx n tok l sc t st ls t' st',
  incl l (t_attrs tok) ->
  run_attrs is_space is_letter is_udigit methods call_fn mgr exec mask ctx n (t_attrs tok) l (init_lstate to_lower mgr mask tok sc) t st
    = (inl ls, t', st') ->
  tag_shape mgr tok (l_tagbuf ls).
Proof. exact NoDirectiveOut.run_attrs_tag_shape. Qed.
Theorem no_prefixed_attribute_printed : forall mgr tok buf,
  (forall a, In a (t_attrs tok) -> prefixb (m_attr_prefix mgr ++ m_attr_prefix mgr) (a_name a) = false) ->
  tag_shape mgr tok buf ->
  exists parts, buf = cLT :: t_name tok ++ flat_map part_print parts /\ Forall (name_ok mgr tok) parts /\
                Forall (fun p => prefixb (m_attr_prefix mgr) (part_name p) = false) parts.
Proof. exact NoDirectiveOut.no_prefixed_name_printed. Qed.
Theorem hidden_comment_prints_nothing : forall is_space to_lower is_letter is_udigit methods call_fn mgr
    (exec : N -> list node -> node -> scope -> bool -> tbl -> rst -> R) mask ctx n tok sc top t st,
  n_tok n = Some tok -> t_kind tok = KComment -> is_hidden_comment is_space (t_value tok) = true ->
  exec_body is_space to_lower is_letter is_udigit methods call_fn mgr exec mask ctx n sc top t st = wr top [] t st.
Proof. exact NoDirectiveOut.hidden_comment_prints_nothing. Qed.
Theorem output_is_built_from_permitted_pieces : forall is_space to_lower is_letter is_udigit methods call_fn mgr fuel tp data t st o r t' st',
  execute is_space to_lower is_letter is_udigit methods call_fn mgr fuel tp data t st = (o, r, t', st') ->
  emitted is_space to_lower is_letter is_udigit methods call_fn mgr (reach mgr (tp_children tp ++ tp_ctx tp)) o.
Proof. exact NoDirectiveTree.execute_output. Qed.
Print Assumptions sorted_perm.
Print Assumptions printed_open_tag_shape.
Print Assumptions no_prefixed_attribute_printed.
Print Assumptions hidden_comment_prints_nothing.
Print Assumptions output_is_built_from_permitted_pieces.
Print Assumptions remove_all.
Print Assumptions remove_body.
Print Assumptions remove_tag.
Print Assumptions remove_all_but_first.
Print Assumptions remove_other_value_as_absent.
Print Assumptions printed_open_tag_has_no_directive.
Print Assumptions each_effect_once.
Print Assumptions each_effect_once_one_title.
Print Assumptions sorted_order_irrelevant.
Print Assumptions render_order_irrelevant.
Print Assumptions execute_order_irrelevant.
Print Assumptions sorted_by_key.
Print Assumptions sorted_stable.
Print Assumptions documented_order.
Print Assumptions weights_from_source.

Example order_example :
  let a n := mkAttr n (0,0) (0,0) None (0,0) (0,0) in
  map a_name (sorted_attrs [58] [a [105;100]; a (58 :: d_text); a (58 :: d_range); a [99]; a (58 :: d_else); a (58 :: d_with)])
  = [58 :: d_with; 58 :: d_else; 58 :: d_range; 58 :: d_text; [105;100]; [99]].
Proof. vm_compute. reflexivity. Qed.

(* ---- "a dynamic attribute replaces the static attribute of the same name" (Proofs/DynReplaces.v) ----
   For ANY element whose prefixed attributes are all dynamic attributes (dyn_elem: not a block tag, no directive), any
   plain attributes, any written order: the rendered element is the specification spec_open_tag — '<' name, then every
   dynamic attribute  n="escape v"  once in written order, then the plain attributes that are NOT named like a dynamic
   attribute, verbatim, once, in written order, '>' — followed by the children and the end tag; a dynamic attribute that
   fails prints nothing and fails the render with its cause.  Names are compared byte for byte, like everywhere in the
   library: a twin written in another letter case survives (DynReplaces.other_case_static_survives_observed; the
   implementation agrees, recorded as an observation). *)
From Tpl Require Import Proofs.DynReplaces.
Theorem dynamic_replaces_static : forall is_space to_lower is_letter is_udigit methods call_fn mgr exec mask ctx n tok sc top t st,
  dyn_elem to_lower mgr n tok -> no_plain_directive_name mgr (t_attrs tok) ->
  exec_body is_space to_lower is_letter is_udigit methods call_fn mgr exec mask ctx n sc top t st =
  (let (s, lg) := eval_dyns is_letter is_udigit methods call_fn mgr (dyns_of mgr (t_attrs tok)) sc (r_log st) in
   match s with
   | inl values => spec_elem exec (spec_open_tag mgr (t_name tok) (statics_of mgr (t_attrs tok)) (dyns_of mgr (t_attrs tok)) values)
                             n sc top t (set_log st lg)
   | inr e => (nil, e, t, set_log st lg)
   end).
Proof. exact DynReplaces.dynamic_replaces_static. Qed.
Theorem dynamic_replaces_static_node : forall is_space to_lower is_letter is_udigit methods call_fn mgr fuel mask ctx n tok sc top t st values lg co t2 st2,
  dyn_elem to_lower mgr n tok -> no_plain_directive_name mgr (t_attrs tok) ->
  eval_dyns is_letter is_udigit methods call_fn mgr (dyns_of mgr (t_attrs tok)) sc (r_log st) = (inl values, lg) ->
  exec_list (exec_node is_space to_lower is_letter is_udigit methods call_fn mgr fuel) (n_children n) (n_children n) sc top t (set_log st lg)
    = (co, ROk, t2, st2) ->
  RenderPlain.wok top st -> RenderPlain.wok top st2 ->
  exec_node is_space to_lower is_letter is_udigit methods call_fn mgr (S fuel) mask ctx n sc top t st =
  (spec_open_tag mgr (t_name tok) (statics_of mgr (t_attrs tok)) (dyns_of mgr (t_attrs tok)) values ++ co ++ DynReplaces.end_text n, ROk, t2, st2).
Proof. exact DynReplaces.dynamic_replaces_static_node. Qed.
Theorem dynamic_attribute_fails : forall is_space to_lower is_letter is_udigit methods call_fn mgr exec mask ctx n tok sc top t st e lg,
  dyn_elem to_lower mgr n tok ->
  eval_dyns is_letter is_udigit methods call_fn mgr (dyns_of mgr (t_attrs tok)) sc (r_log st) = (inr e, lg) ->
  exec_body is_space to_lower is_letter is_udigit methods call_fn mgr exec mask ctx n sc top t st = (nil, e, t, set_log st lg).
Proof. exact DynReplaces.dynamic_attribute_fails. Qed.
(* exactly one attribute of each name is printed *)
Theorem printed_names_distinct : forall mgr attrs, NoDup (map a_name attrs) ->
  NoDup (printed_names mgr (statics_of mgr attrs) (dyns_of mgr attrs)).
Proof. exact DynReplaces.printed_names_distinct. Qed.
Print Assumptions dynamic_replaces_static.
Print Assumptions dynamic_replaces_static_node.
Print Assumptions printed_names_distinct.

(* ---- SOURCE LEVEL (Proofs/EndToEndMore.v, Proofs/PosIrrelevant.v, session 3): two SOURCE TEXTS that differ only in the
   written order of the directive attributes of one element (with, if, range, a dynamic attribute, text) load, and for EVERY
   data value, fuel, table, state and manager with these prefixes their executions are equal.  The two loaded trees are NOT
   reorder_eq — the scanner records positions and the raw tag text — so PosIrrelevant.v first proves that the renderer
   reads none of them (execute_pos_irrelevant).  The four remove modes, a block element and a hidden comment, from source
   text, for all data. *)
From Coq Require Import List NArith ZArith Bool Lia Arith String Ascii Permutation.
From Tpl Require Import Html.Exec Html.Manager Gen.Facts Proofs.ExecSpec Proofs.SortProps Proofs.FuelMono
  Proofs.ReadbackExample Proofs.EndToEnd Proofs.EndToEndDirectives Proofs.OrderIrrelevant Proofs.PosIrrelevant.
Import ListNotations.
Open Scope N_scope.
From Tpl Require Import Proofs.EndToEndMore.
Theorem e2e_written_order_irrelevant_thm :
  exists root1 root2,
    bx_load (s2l "<ul><li :with=""w := ${p}"" :if=""${c}"" :range=""i, x : xs"" :title=""${w}"" :text=""${x}"">y</li></ul>") = inl root1 /\
    bx_load (s2l "<ul><li :range=""i, x : xs"" :title=""${w}"" :if=""${c}"" :text=""${x}"" :with=""w := ${p}"">y</li></ul>") = inl root2 /\
    forall (tps : list (str * template)) (gl : scope) (fuel : nat) (data : value) (t : tbl) (st : rst),
      bx_execute (mkM (s2l "t:") (s2l ":") tps gl) fuel (tp_of root1) data t st =
      bx_execute (mkM (s2l "t:") (s2l ":") tps gl) fuel (tp_of root2) data t st.
Proof. exact EndToEndMore.e2e_written_order_irrelevant. Qed.
Theorem e2e_remove_modes_thm :
  loads_and (s2l "<div :remove=""all""> <b>1</b> <i>2</i> </div>!") (fun tp =>
    forall data t st fuel, r_budget st = None -> (4 <= fuel)%nat ->
    bx_execute bx_mgr fuel tp data t st = (s2l "!", ROk, t, st)) /\
  loads_and (s2l "<div :remove=""body""> <b>1</b> <i>2</i> </div>!") (fun tp =>
    forall data t st fuel, r_budget st = None -> (4 <= fuel)%nat ->
    bx_execute bx_mgr fuel tp data t st = (s2l "<div></div>!", ROk, t, st)) /\
  loads_and (s2l "<div :remove=""tag""> <b>1</b> <i>2</i> </div>!") (fun tp =>
    forall data t st fuel, r_budget st = None -> (4 <= fuel)%nat ->
    bx_execute bx_mgr fuel tp data t st = (s2l " <b>1</b> <i>2</i> !", ROk, t, st)) /\
  loads_and (s2l "<div :remove=""all-but-first""> <b>1</b> <i>2</i> </div>!") (fun tp =>
    forall data t st fuel, r_budget st = None -> (4 <= fuel)%nat ->
    bx_execute bx_mgr fuel tp data t st = (s2l "<div> <b>1</b> </div>!", ROk, t, st)).
Proof. exact EndToEndMore.e2e_remove_modes. Qed.
Theorem e2e_block_source_to_output_thm : loads_and src_block (fun tp =>
  forall (c : bool) (t : tbl) (st : rst) (fuel : nat), r_budget st = None -> (5 <= fuel)%nat ->
  bx_execute bx_mgr fuel tp (VMap [(s2l "c", VBool c)]) t st =
  ((if c then s2l "A<b>B</b>" else []) ++ s2l "C<!-- shown -->", ROk, tbl_set t 1 c, st)).
Proof. exact EndToEndMore.e2e_block_source_to_output. Qed.
Print Assumptions e2e_written_order_irrelevant_thm.
