(* C12 — Failures propagate; unselected operands are not evaluated (expression level), and the failing writer
   (render level). Theorems only. *)
From Tpl Require Import Exp.Eval Proofs.EvalStrict Html.Exec Proofs.WriterPrefix.
Open Scope N_scope.

Section C12.
Variable methods : N -> bool -> list (str * N).
Variable call_fn : N -> list value -> fres.        (* any user functions: returning, failing, panicking *)
Variable sc : scope.
Notation ev := (eval methods call_fn sc).
Notation fails := (EvalStrict.fails methods call_fn sc).
Notation args_ok := (EvalStrict.args_ok methods call_fn sc).

(* the call log only grows: nothing that was done is undone, and a failure leaves the log where it was *)
Theorem eval_log_extends : forall e lg r lg', ev e lg = (r, lg') -> exists d, lg' = d ++ lg.
Proof. exact (EvalStrict.eval_log_extends methods call_fn sc). Qed.

(* && || ?: do not evaluate the operand they do not select *)
Theorem and_short_circuit : forall a b l c lg lg1, ev a lg = (Ok (VBool false), lg1) ->
  ev (EBin BLAnd a b l c) lg = (Ok (VBool false), lg1).
Proof. exact (EvalStrict.and_short_circuit methods call_fn sc). Qed.
Theorem or_short_circuit : forall a b l c lg lg1, ev a lg = (Ok (VBool true), lg1) ->
  ev (EBin BLOr a b l c) lg = (Ok (VBool true), lg1).
Proof. exact (EvalStrict.or_short_circuit methods call_fn sc). Qed.
Theorem cond_selects : forall c a b lg lg1 x, ev c lg = (Ok (VBool x), lg1) ->
  ev (ECond c a b) lg = ev (if x then a else b) lg1.
Proof. exact (EvalStrict.cond_selects methods call_fn sc). Qed.

(* a failing operand is the failure of the whole expression: same cause, and the log is the one at
   the failure (nothing is evaluated after it) *)
Theorem err_unary : forall op a l k lg c lg', fails a lg c lg' -> fails (EUnary op a l k) lg c lg'.
Proof. exact (EvalStrict.err_unary methods call_fn sc). Qed.
Theorem err_paren : forall a lg c lg', fails a lg c lg' -> fails (EParen a) lg c lg'.
Proof. exact (EvalStrict.err_paren methods call_fn sc). Qed.
Theorem err_bin_left : forall op a b l k lg c lg', fails a lg c lg' -> fails (EBin op a b l k) lg c lg'.
Proof. exact (EvalStrict.err_bin_left methods call_fn sc). Qed.
Theorem err_bin_right : forall op a b l k v lg lg1 c lg', ev a lg = (Ok v, lg1) ->
  (op = BLAnd -> v <> VBool false) -> (op = BLOr -> v <> VBool true) ->
  fails b lg1 c lg' -> fails (EBin op a b l k) lg c lg'.
Proof. exact (EvalStrict.err_bin_right methods call_fn sc). Qed.
Theorem err_cond_test : forall t a b lg c lg', fails t lg c lg' -> fails (ECond t a b) lg c lg'.
Proof. exact (EvalStrict.err_cond_test methods call_fn sc). Qed.
Theorem err_cond_branch : forall t a b x lg lg1 c lg', ev t lg = (Ok (VBool x), lg1) ->
  fails (if x then a else b) lg1 c lg' -> fails (ECond t a b) lg c lg'.
Proof. exact (EvalStrict.err_cond_branch methods call_fn sc). Qed.
Theorem err_field : forall a s name lg c lg', fails a lg c lg' -> fails (EField a s name) lg c lg'.
Proof. exact (EvalStrict.err_field methods call_fn sc). Qed.
Theorem err_index_base : forall a i lg c lg', fails a lg c lg' -> fails (EIndex a i) lg c lg'.
Proof. exact (EvalStrict.err_index_base methods call_fn sc). Qed.
Theorem err_index_index : forall a i v lg lg1 c lg', ev a lg = (Ok v, lg1) ->
  fails i lg1 c lg' -> fails (EIndex a i) lg c lg'.
Proof. exact (EvalStrict.err_index_index methods call_fn sc). Qed.
Theorem err_slice_base : forall a lo hi lg c lg', fails a lg c lg' -> fails (ESlice a lo hi) lg c lg'.
Proof. exact (EvalStrict.err_slice_base methods call_fn sc). Qed.
Theorem err_call_callee : forall f args ell cm lg c lg', fails f lg c lg' -> fails (ECall f args ell cm) lg c lg'.
Proof. exact (EvalStrict.err_call_callee methods call_fn sc). Qed.
(* the i-th argument fails: the call fails with that cause, the function is NOT called and later
   arguments are not evaluated (the log is the one at the failure) *)
Theorem err_call_arg : forall f pre x post ell cm id bound vs lg lg1 lgk c lg',
  ev f lg = (Ok (VFunc id bound), lg1) ->
  args_ok pre lg1 vs lgk ->
  fails x lgk c lg' ->
  fails (ECall f (pre ++ x :: post) ell cm) lg c lg'.
Proof. exact (EvalStrict.err_call_arg methods call_fn sc). Qed.
End C12.


(* ---- the failing writer (render level). The writer given to Execute is modelled by a budget: [Some k] = the next k
   Write calls succeed and the (k+1)-th fails. The same render with budget k and with an unlimited writer: either the
   budget is never exhausted and everything is equal, or the budgeted render returns the writer's error, what it wrote is
   a prefix of the unlimited output, nothing is written afterwards (budget stays 0) and no expression is evaluated after
   the failure (its call log is the part of the unlimited run's log recorded up to that point). *)
Theorem writer_failure_prefix : forall is_space to_lower is_letter is_udigit methods call_fn mgr fuel tp data t st k o r t1 s1 ok rk tk sk,
  execute is_space to_lower is_letter is_udigit methods call_fn mgr fuel tp data t (with_budget st None) = (o, r, t1, s1) ->
  execute is_space to_lower is_letter is_udigit methods call_fn mgr fuel tp data t (with_budget st (Some k)) = (ok, rk, tk, sk) ->
  (ok = o /\ rk = r /\ tk = t1 /\ r_log sk = r_log s1 /\ r <> RErr RWriter /\
   exists k', r_budget sk = Some k' /\ (k' <= k)%nat)
  \/
  (rk = RErr RWriter /\ r_budget sk = Some O /\
   exists rest, o = ok ++ rest /\ exists later, r_log s1 = later ++ r_log sk).
Proof. exact WriterPrefix.execute_writer_prefix_strong. Qed.
(* the same at every node, mask and nesting position rendered to the caller's writer *)
Theorem writer_failure_prefix_node : forall is_space to_lower is_letter is_udigit methods call_fn mgr fuel mask ctx n sc t st k o r t1 s1 ok rk tk sk,
  exec_node is_space to_lower is_letter is_udigit methods call_fn mgr fuel mask ctx n sc true t (with_budget st None) = (o, r, t1, s1) ->
  exec_node is_space to_lower is_letter is_udigit methods call_fn mgr fuel mask ctx n sc true t (with_budget st (Some k)) = (ok, rk, tk, sk) ->
  (ok = o /\ rk = r /\ tk = t1 /\ r_log sk = r_log s1)
  \/
  (rk = RErr RWriter /\ exists rest, o = ok ++ rest /\ exists later, r_log s1 = later ++ r_log sk).
Proof. exact WriterPrefix.writer_prefix. Qed.
(* a writer error can only come from the writer: with an unlimited writer no render reports one *)
Theorem writer_error_only_from_writer : forall is_space to_lower is_letter is_udigit methods call_fn mgr fuel tp data t st o r t1 s1,
  r_budget st = None ->
  execute is_space to_lower is_letter is_udigit methods call_fn mgr fuel tp data t st = (o, r, t1, s1) ->
  r <> RErr RWriter /\ r_budget s1 = None.
Proof. exact WriterPrefix.execute_never_fails_unlimited. Qed.
(* renders into buffers (if/range re-executions, inserted fragments) neither consult nor consume the writer *)
Theorem nested_render_ignores_writer : forall is_space to_lower is_letter is_udigit methods call_fn mgr fuel mask ctx n sc t st b b' o r t1 s1 o' r' t1' s1',
  exec_node is_space to_lower is_letter is_udigit methods call_fn mgr fuel mask ctx n sc false t (with_budget st b) = (o, r, t1, s1) ->
  exec_node is_space to_lower is_letter is_udigit methods call_fn mgr fuel mask ctx n sc false t (with_budget st b') = (o', r', t1', s1') ->
  o' = o /\ r' = r /\ t1' = t1 /\ r_log s1' = r_log s1 /\ r_budget s1 = b /\ r_budget s1' = b'.
Proof. exact WriterPrefix.nested_ignores_budget. Qed.
(* the render's call log only grows *)
Theorem render_log_extends : forall is_space to_lower is_letter is_udigit methods call_fn mgr fuel tp data t st o r t1 s1,
  execute is_space to_lower is_letter is_udigit methods call_fn mgr fuel tp data t st = (o, r, t1, s1) -> exists later, r_log s1 = later ++ r_log st.
Proof. exact WriterPrefix.execute_log_extends. Qed.

Print Assumptions eval_log_extends.
Print Assumptions and_short_circuit.
Print Assumptions cond_selects.
Print Assumptions err_bin_right.
Print Assumptions err_call_arg.
Print Assumptions writer_failure_prefix.
Print Assumptions writer_failure_prefix_node.
Print Assumptions writer_error_only_from_writer.
Print Assumptions nested_render_ignores_writer.
Print Assumptions render_log_extends.

(* Non-vacuity: a failing user function in the second operand, after a recorded call in the first *)
Example strict_example :
  let call_fn := fun (id : N) (args : list value) => if N.eqb id 3 then FErrS 1 else FOk (VInt KInt64 1) in
  let sc := with_default (SData (VMap [([102], VFunc 3 []); ([103], VFunc 7 [])])) in
  eval (fun _ _ => []) call_fn sc
    (EBin BAdd (ECall (EName [103] 1 0) [] false false) (EBin BAdd (ECall (EName [102] 1 0) [] false false) (ECall (EName [103] 1 0) [] false false) 1 0) 1 0) []
  = (Err (CUser 1), [(3, []); (7, [])]).
Proof. vm_compute. reflexivity. Qed.

(* ---- a failing USER FUNCTION (Proofs/UserFailPrefix.v): the same evaluation / render with ANY user functions call_fn
   and with the same functions except that every call selected by P that reaches the function body fails with the
   sentinel error sn.  Either the failing call is never reached and NOTHING differs, or the result is exactly that
   cause, evaluation stopped AT the failing call (it is the last entry of the log, and the log is the part of the
   unmodified run's log up to it), what reached the writer is a PREFIX of what the unmodified render writes, and
   nothing was written afterwards.  (total P call_fn = P restricted to calls whose arguments reflect accepts; the
   restriction is necessary: UserFailPrefix.badargs_counterexample.) *)
From Tpl Require Import Proofs.UserFailPrefix.
Theorem eval_user_failure : forall methods call_fn P sn sc e lg r lg1 r' lg1',
  eval methods call_fn sc e lg = (r, lg1) ->
  eval methods (inject (total P call_fn) sn call_fn) sc e lg = (r', lg1') ->
  (r' = r /\ lg1' = lg1) \/
  (r' = Err (CUser sn) /\
   exists id args lgk, P id args = true /\ call_fn id args <> FBadArgs /\ lg1' = (id, args) :: lgk /\
     (exists d', lgk = d' ++ lg) /\ exists d, lg1 = d ++ lg1').
Proof. exact UserFailPrefix.eval_user_failure_total. Qed.
Theorem user_failure_prefix :
  forall is_space to_lower is_letter is_udigit methods call_fn mgr P sn fuel tp data t st o r t1 s1 o' r' t1' s1',
  execute is_space to_lower is_letter is_udigit methods call_fn mgr fuel tp data t st = (o, r, t1, s1) ->
  execute is_space to_lower is_letter is_udigit methods (inject (total P call_fn) sn call_fn) mgr fuel tp data t st
    = (o', r', t1', s1') ->
  (o' = o /\ r' = r /\ t1' = t1 /\ s1' = s1) \/
  (r' = RErr (RC (CUser sn)) /\ (exists rest, o = o' ++ rest) /\
   exists id args lgk, P id args = true /\ call_fn id args <> FBadArgs /\ r_log s1' = (id, args) :: lgk /\
     (exists d', lgk = d' ++ r_log st) /\ exists later, r_log s1 = later ++ r_log s1').
Proof. exact UserFailPrefix.user_failure_prefix_total. Qed.
(* for any node, mask, scope, condition table, writer budget (under runs_body: P selects no call that reflect rejects) *)
Theorem user_failure_prefix_node : forall methods call_fn P sn, runs_body P call_fn ->
  forall is_space to_lower is_letter is_udigit mgr fuel mask ctx n sc top t st o r t1 s1 o' r' t1' s1',
  exec_node is_space to_lower is_letter is_udigit methods call_fn mgr fuel mask ctx n sc top t st = (o, r, t1, s1) ->
  exec_node is_space to_lower is_letter is_udigit methods (inject P sn call_fn) mgr fuel mask ctx n sc top t st = (o', r', t1', s1') ->
  (o' = o /\ r' = r /\ t1' = t1 /\ s1' = s1) \/
  (r' = RErr (RC (CUser sn)) /\ (exists rest, o = o' ++ rest) /\
   exists id args lgk, P id args = true /\ r_log s1' = (id, args) :: lgk /\
     (exists d', lgk = d' ++ r_log st) /\ exists later, r_log s1 = later ++ r_log s1').
Proof. exact UserFailPrefix.user_failure_prefix_node. Qed.
Print Assumptions eval_user_failure.
Print Assumptions user_failure_prefix.
Print Assumptions user_failure_prefix_node.

(* ---- SOURCE LEVEL (Proofs/EndToEndMore.v, session 3): the source  <p>a</p><p :text=Q${s}Q>x</p><p :text=Q${zz}Q>y</p><p>b</p>
   for EVERY string s: with zz unbound the render fails with the no-such-value cause after writing exactly
   <p>a</p><p>escape(s)</p><p> — nothing after the failure — and that output is a prefix of what the same render writes
   when zz is bound. *)
From Coq Require Import List NArith ZArith Bool Lia Arith String Ascii Permutation.
From Tpl Require Import Html.Exec Html.Manager Gen.Facts Proofs.ExecSpec Proofs.SortProps Proofs.FuelMono
  Proofs.ReadbackExample Proofs.EndToEnd Proofs.EndToEndDirectives Proofs.OrderIrrelevant Proofs.PosIrrelevant.
Import ListNotations.
Open Scope N_scope.
From Tpl Require Import Proofs.EndToEndMore.
Theorem e2e_failure_source_to_output_thm : loads_and src_fail (fun tp =>
  forall (s : str) (t : tbl) (st : rst) (fuel : nat), r_budget st = None -> (3 <= fuel)%nat ->
  bx_execute bx_mgr fuel tp (VMap [(s2l "s", VStr s)]) t st =
    (s2l "<p>a</p><p>" ++ escape s ++ s2l "</p><p>", RErr (RC CNoSuchValue), t, st) /\
  forall u : str,
  bx_execute bx_mgr fuel tp (VMap [(s2l "s", VStr s); (s2l "zz", VStr u)]) t st =
    (s2l "<p>a</p><p>" ++ escape s ++ s2l "</p><p>" ++ escape u ++ s2l "</p><p>b</p>", ROk, t, st)).
Proof. exact EndToEndMore.e2e_failure_source_to_output. Qed.
Theorem e2e_failure_output_is_prefix_thm : forall (s u : str) (t : tbl) (st : rst) (fuel : nat) out1 r1 t1 st1 out2 r2 t2 st2,
  r_budget st = None -> (3 <= fuel)%nat ->
  bx_execute bx_mgr fuel (tp_of root_fail) (VMap [(s_s, VStr s)]) t st = (out1, r1, t1, st1) ->
  bx_execute bx_mgr fuel (tp_of root_fail) (VMap [(s_s, VStr s); (s_zz, VStr u)]) t st = (out2, r2, t2, st2) ->
  r1 = RErr (RC CNoSuchValue) /\ r2 = ROk /\
  out2 = out1 ++ escape u ++ s2l "</p><p>b</p>" /\ length out1 = (18 + length (escape s))%nat.
Proof. exact EndToEndMore.e2e_failure_output_is_prefix. Qed.
Print Assumptions e2e_failure_source_to_output_thm.
