(* C08 — Loading, parsing and rendering never panic.
   PARTIAL by nature: that the Go code never panics for every byte string cannot be proved about a
   model; what IS proved is that every partial operation of the Go code (integer division, shifts,
   indexing, slicing, nil dereference, reflection calls into user functions, literal decoding, the
   nil parent of a stray close tag, end of input inside a tag) is a guarded total operation of the model
   whose failure is an error VALUE; the model functions are total by construction (Coq), a fragment
   that includes itself ends in the model with the depth error for every fuel (the code: ErrIncludeTooDeep).
   Absence of panics in the implementation itself is checked by the correspondence streams (a PANIC
   outcome never matches the model) and by the fuzz stream (random bytes, hostile data) under recover(),
   with process death detected through the exit status. *)
From Tpl Require Import Exp.Eval Html.Scan Html.Tree Proofs.IntOps Proofs.AccessSpec Proofs.NoPanic Proofs.EvalStrict.
Open Scope N_scope.

Theorem div_by_zero_is_error : forall i, int_bin BDiv i 0 = Err COther /\ int_bin BMod i 0 = Err COther.
Proof. exact IntOps.div_by_zero. Qed.
Theorem negative_shift_is_error : forall i j, (j < 0)%Z -> int_bin BShl i j = Err COther /\ int_bin BShr i j = Err COther.
Proof. exact IntOps.neg_shift. Qed.
Theorem index_out_of_range_is_error : forall methods arr l ex (i : Z),
  (i < - Z.of_nat (length l) \/ Z.of_nat (length l) <= i)%Z -> (- two63 <= i < two63)%Z ->
  get_value methods (str_of_Z i) (VSeq arr l ex) = Failed.
Proof. exact AccessSpec.get_seq_out_of_range. Qed.
Theorem slice_out_of_range_is_error : forall l ex lo hi, (lo < 0 \/ hi < lo \/ Z.of_nat (length l + length ex) < hi)%Z ->
  slice_seq l ex lo hi None = Err COther.
Proof. exact AccessSpec.slice_bad. Qed.
Theorem nil_lookup_is_absent : forall methods name, get_value methods name VNil = Absent.
Proof. exact AccessSpec.get_nil. Qed.
Theorem deref_nil_is_error : forall a ty, un_op UStar (VPtr a ty None) = Err COther.
Proof. exact NoPanic.deref_nil_is_error. Qed.
Theorem user_panic_is_error : forall call_fn id args lg, is_builtin id = false ->
  existsb (fun a => match a with VNil => true | _ => false end) args = false ->
  call_fn id args = FPanic -> finish_call call_fn id args lg = (Err COther, (id, args) :: lg).
Proof. exact NoPanic.user_panic_is_error. Qed.
Theorem bad_arguments_is_error : forall call_fn id args lg, is_builtin id = false ->
  existsb (fun a => match a with VNil => true | _ => false end) args = false ->
  call_fn id args = FBadArgs -> finish_call call_fn id args lg = (Err COther, lg).
Proof. exact NoPanic.bad_arguments_is_error. Qed.
Theorem condition_not_bool_is_error : forall methods call_fn sc t a b v lg lg1,
  eval methods call_fn sc t lg = (Ok v, lg1) -> (forall x, v <> VBool x) ->
  eval methods call_fn sc (ECond t a b) lg = (Err COther, lg1).
Proof. exact EvalStrict.err_cond_not_bool. Qed.
Theorem unterminated_tag_is_error : forall toks p g, finish (mkS toks p (MTag g)) = inr EUnexpectedEOF.
Proof. exact NoPanic.unterminated_tag_is_error. Qed.
Theorem stray_close_tag_kept : forall to_lower voids toks, flatten (build to_lower voids toks) = toks.
Proof. exact NoPanic.stray_close_tag_kept. Qed.
Print Assumptions div_by_zero_is_error.
Print Assumptions index_out_of_range_is_error.
Print Assumptions user_panic_is_error.
Print Assumptions condition_not_bool_is_error.
Print Assumptions stray_close_tag_kept.
