(* C01 — Markup without directives is reproduced unchanged. Theorems only. *)
From Tpl Require Import Html.Exec Proofs.ScanSpec Proofs.ExecSpec Proofs.ScanConcat Proofs.BuildFlatten Proofs.RenderPlain Proofs.TagPrint Proofs.TagPrintTree Proofs.IdempotentMain.
From Tpl Require Proofs.TagShape.
Open Scope N_scope.

(* the token values produced by scanning concatenate back to the source exactly *)
Theorem scan_concat : forall (is_space : rune -> bool) (to_lower : rune -> rune) (text_tags : list str)
    (attr_prefix : str) (compile : attr -> bool) (src : str) (toks : list token),
  scan is_space to_lower text_tags attr_prefix compile src = inl toks -> concat (map t_value toks) = src.
Proof. exact ScanConcat.scan_concat. Qed.
Print Assumptions scan_concat.

(* the tree builder neither drops, duplicates nor reorders a token (unbalanced, unclosed, stray close tags included) *)
Theorem build_flatten : forall (to_lower : rune -> rune) (void_elements : list str) (toks : list token),
  flatten (build to_lower void_elements toks) = toks.
Proof. exact BuildFlatten.build_flatten. Qed.
Print Assumptions build_flatten.

(* rendering a tree without directive attributes, block tags and hidden comments prints it: every text
   run, comment, CDATA section and close tag byte for byte, every open tag as  <name attr[=raw value]...>  *)
Theorem render_plain : forall is_space to_lower is_letter is_udigit methods call_fn mgr,
  m_attr_prefix mgr <> [] ->
  forall n fuel mask ctx sc t st, plain is_space to_lower mgr n -> shaped n -> (height n <= fuel)%nat ->
  r_budget st = None ->
  exec_node is_space to_lower is_letter is_udigit methods call_fn mgr fuel mask ctx n sc true t st
  = (print_plain n, ROk, t, st).
Proof. exact RenderPlain.render_plain_top. Qed.
Print Assumptions render_plain.
(* every tree produced by the loader has the shape the previous theorem asks for *)
Theorem build_shaped : forall to_lower void_elements toks, shaped (build to_lower void_elements toks).
Proof. exact RenderPlain.build_shaped. Qed.
Print Assumptions build_shaped.

(* "the only permitted difference being the whitespace that separates the parts inside a tag":
   (a) a scanned tag, re-printed from its parts, equals its source text up to white space (for every tag token, raw-text
       close tags like </SCRIPT > included; [no_synth_else] excludes only a value-less directive attribute prefix++"else",
       which gets the synthetic value "true" and cannot occur in a directive-free document: TagPrint.no_prefix_no_synth) *)
Theorem tag_print_nonspace : forall is_space to_lower text_tags attr_prefix compile,
  is_space cSP = true -> is_space cLT = false -> is_space cGT = false ->
  (forall c, to_lower c = cSLASH -> c = cSLASH) ->
  forall src toks, scan is_space to_lower text_tags attr_prefix compile src = inl toks ->
  forall t, In t toks -> t_kind t = KTag -> no_synth_else attr_prefix t ->
  nsp is_space (print_tag t) = nsp is_space (t_value t).
Proof. exact TagPrint.tag_print_nonspace. Qed.
(* (b) exactly: an open tag's source is  <name (blanks attr-name [blanks = blanks value])* blanks >  with the scanned
       name, attribute names and raw values in order; nothing else occurs in it *)
Theorem tag_source_shape_open : forall is_space to_lower text_tags attr_prefix compile,
  is_space cSP = true ->
  forall src toks, scan is_space to_lower text_tags attr_prefix compile src = inl toks ->
  forall t, In t toks -> t_kind t = KTag -> prefixb [cSLASH] (t_name t) = false -> no_synth_else attr_prefix t ->
  exists srcs w, Forall2 (TagShape.attr_src is_space) (t_attrs t) srcs /\ TagShape.allsp is_space w /\ ScanAttrPos.nonsp is_space (t_name t) /\
    t_value t = (cLT :: t_name t) ++ concat srcs ++ w ++ [cGT].
Proof. exact TagShape.tag_source_shape_open. Qed.
(* (c) the printed tree is the concatenation, token by token and in order, of either the token's source text (always for
       text, comments, CDATA, and for close tags that close an element) or its re-printed form *)
Theorem print_plain_tokens : forall to_lower void_elements toks,
  print_plain (build to_lower void_elements toks) = concat (ptoks to_lower void_elements 0 toks) /\
  Forall2 printed_as toks (ptoks to_lower void_elements 0 toks).
Proof. exact TagPrintTree.print_plain_tokens. Qed.
(* (d) hence the render of a directive-free document equals its source up to white space, and every non-tag token is
       reproduced byte for byte *)
Theorem render_differs_only_by_space : forall is_space to_lower text_tags attr_prefix compile tree_lower void_elements,
  is_space cSP = true -> is_space cLT = false -> is_space cGT = false ->
  (forall c, to_lower c = cSLASH -> c = cSLASH) ->
  forall src toks, scan is_space to_lower text_tags attr_prefix compile src = inl toks ->
  (forall t, In t toks -> t_kind t = KTag -> no_synth_else attr_prefix t) ->
  nsp is_space (print_plain (build tree_lower void_elements toks)) = nsp is_space src /\
  exists outs, print_plain (build tree_lower void_elements toks) = concat outs /\
    Forall2 (fun t o => (t_kind t <> KTag -> o = t_value t) /\ nsp is_space o = nsp is_space (t_value t)) toks outs.
Proof. exact TagPrintTree.render_differs_only_by_space. Qed.
(* "and rendering the output again yields the same output": the render of a directive-free document is a fixed point.
   out = the printed tree of the scanned source; scanning out succeeds, gives token for token the same kinds, names,
   attribute names and raw values (texts, comments, CDATA and element-closing tags byte-identical), contains no directive
   either, and printing its tree gives out again.  [compile] only has to accept attributes without the directive prefix;
   raw-text elements, stray and blank-ridden close tags, empty names, '<p a=>' etc. are all covered (no restriction on
   text_tags / void_elements). *)
Theorem render_idempotent : forall is_space to_lower text_tags attr_prefix,
  is_space cSP = true -> is_space cGT = false -> is_space cEQ = false -> is_space cDQ = false -> is_space cLT = false ->
  (forall c, to_lower c = cSLASH -> c = cSLASH) ->
  forall (compile : attr -> bool) tree_lower void_elements src toks,
  (forall a, prefixb attr_prefix (a_name a) = false -> compile a = true) ->
  scan is_space to_lower text_tags attr_prefix compile src = inl toks ->
  directive_free attr_prefix toks ->
  let out := print_plain (build tree_lower void_elements toks) in
  exists toks2, scan is_space to_lower text_tags attr_prefix compile out = inl toks2 /\
    Idempotent.rel3 toks (ptoks tree_lower void_elements 0 toks) toks2 /\
    map PrintScanDefs.shape_of toks2 = map PrintScanDefs.shape_of toks /\
    print_plain (build tree_lower void_elements toks2) = out /\
    directive_free attr_prefix toks2.
Proof. exact IdempotentMain.render_idempotent_plain. Qed.
Print Assumptions render_idempotent.
(* necessity of the oracle hypotheses and a 17-token instance: Proofs/IdempotentExample.v *)
Print Assumptions tag_print_nonspace.
Print Assumptions tag_source_shape_open.
Print Assumptions print_plain_tokens.
Print Assumptions render_differs_only_by_space.
(* non-vacuity and necessity: TagPrintExample.render_example_by_theorem (a 12-token document whose render differs from the
   source, by white space only), TagPrint.cex_else (why no_synth_else), TagPrint.tag_print_needs_slash_reflect *)

(* Non-vacuity: <p a='x'>t<br></p> has no directive and is printed as it is *)
Example plain_example :
  let sp := fun r => N.eqb r 32 in let id := fun r : rune => r in
  let m := mkM [116;58] [58] [] (SData (VMap [])) in
  match scan sp id [] [58] (fun _ => true) [60;112;32;97;61;39;120;39;62;116;60;98;114;62;60;47;112;62] with
  | inl toks =>
    let n := build id [[98;114]] toks in
    exec_node sp id (fun _ => false) (fun _ => false) (fun _ _ => []) (fun _ _ => FPanic) m 10 0 [] n (SData (VMap [])) true [] (mkR [] None)
    = ([60;112;32;97;61;39;120;39;62;116;60;98;114;62;60;47;112;62], ROk, [], mkR [] None)
  | inr _ => False
  end.
Proof. vm_compute. reflexivity. Qed.
