(* C01 — Markup without directives is reproduced unchanged. Theorems only. *)
From Tpl Require Import Html.Exec Proofs.ScanSpec Proofs.ExecSpec Proofs.ScanConcat Proofs.BuildFlatten Proofs.RenderPlain.
Open Scope N_scope.

(* the token values produced by scanning concatenate back to the source exactly *)
Theorem scan_concat : forall (is_space : rune -> bool) (to_lower : rune -> rune) (text_tags : list str)
    (attr_prefix : str) (compile : attr -> bool) (src : str) (toks : list token),
  scan is_space to_lower text_tags attr_prefix compile src = inl toks -> concat (map t_value toks) = src.
Proof. exact ScanConcat.scan_concat. Qed.
Print Assumptions scan_concat.

(* the tree builder neither drops, duplicates nor reorders a token (unbalanced, unclosed, stray close tags included) *)
Theorem build_flatten : forall (to_lower : rune -> rune) (void_elements : list str) (toks : list token),
  flatten (build to_lower void_elements toks) = toks.
Proof. exact BuildFlatten.build_flatten. Qed.
Print Assumptions build_flatten.

(* rendering a tree without directive attributes, block tags and hidden comments prints it: every text
   run, comment, CDATA section and close tag byte for byte, every open tag as  <name attr[=raw value]...>  *)
Theorem render_plain : forall is_space to_lower is_letter is_udigit methods call_fn mgr,
  m_attr_prefix mgr <> [] ->
  forall n fuel mask ctx sc t st, plain is_space to_lower mgr n -> shaped n -> (height n <= fuel)%nat ->
  r_budget st = None ->
  exec_node is_space to_lower is_letter is_udigit methods call_fn mgr fuel mask ctx n sc true t st
  = (print_plain n, ROk, t, st).
Proof. exact RenderPlain.render_plain_top. Qed.
Print Assumptions render_plain.
(* every tree produced by the loader has the shape the previous theorem asks for *)
Theorem build_shaped : forall to_lower void_elements toks, shaped (build to_lower void_elements toks).
Proof. exact RenderPlain.build_shaped. Qed.
Print Assumptions build_shaped.

(* Non-vacuity: <p a='x'>t<br></p> has no directive and is printed as it is *)
Example plain_example :
  let sp := fun r => N.eqb r 32 in let id := fun r : rune => r in
  let m := mkM [116;58] [58] [] (SData (VMap [])) in
  match scan sp id [] [58] (fun _ => true) [60;112;32;97;61;39;120;39;62;116;60;98;114;62;60;47;112;62] with
  | inl toks =>
    let n := build id [[98;114]] toks in
    exec_node sp id (fun _ => false) (fun _ => false) (fun _ _ => []) (fun _ _ => FPanic) m 10 0 [] n (SData (VMap [])) true [] (mkR [] None)
    = ([60;112;32;97;61;39;120;39;62;116;60;98;114;62;60;47;112;62], ROk, [], mkR [] None)
  | inr _ => False
  end.
Proof. vm_compute. reflexivity. Qed.
