(* C13 — Member, index and slice access agree with the Go value. Theorems only. *)
From Tpl Require Import Exp.Eval Proofs.AccessSpec.
From Tpl Require Proofs.AccessEval.
Open Scope N_scope.

Section C13.
Variable methods : N -> bool -> list (str * N).
Notation get := (get_value methods).

Theorem get_nil : forall name, get name VNil = Absent.
Proof. exact (AccessSpec.get_nil methods). Qed.
(* map entries by key; a key present with a nil value is Found, not Absent *)
Theorem get_map : forall m name, methods_of methods (VMap m) = [] ->
  get name (VMap m) = match assoc name m with Some v => Found v | None => Absent end.
Proof. exact (AccessSpec.get_map methods). Qed.
(* exported struct fields; unexported fields fail; missing fields are absent — never a zero value *)
Theorem get_struct_field : forall ty fs name, assoc name (methods ty false) = None ->
  get name (VStruct ty fs) = match assoc name fs with Some (true, v) => Found v | Some (false, _) => Failed | None => Absent end.
Proof. exact (AccessSpec.get_struct_field methods). Qed.
(* through a pointer: dereferenced exactly once *)
Theorem get_through_pointer_direct : forall a ty t name, assoc name (methods ty true) = None ->
  get name (VPtr a ty (Some t)) = AccessSpec.direct_get name t.
Proof. exact (AccessSpec.get_through_pointer_direct methods). Qed.
Theorem get_nil_pointer : forall ty name, assoc name (methods ty true) = None -> get name (VPtr 0 ty None) = Absent.
Proof. exact (AccessSpec.get_nil_pointer methods). Qed.
(* methods are bound to their receiver *)
Theorem get_method : forall v name fid, v <> VNil -> assoc name (methods_of methods v) = Some fid ->
  get name v = Found (VFunc fid [v]).
Proof. exact (AccessSpec.get_method methods). Qed.
(* indexes: i in [-len, len) selects the element (negative from the end); anything else fails *)
Theorem get_seq_index : forall arr l ex (i : Z), (- Z.of_nat (length l) <= i < Z.of_nat (length l))%Z ->
  (- two63 <= i < two63)%Z ->
  get (str_of_Z i) (VSeq arr l ex) = match nth_error l (Z.to_nat (if (i <? 0)%Z then Z.of_nat (length l) + i else i)) with Some v => Found v | None => Failed end
  /\ nth_error l (Z.to_nat (if (i <? 0)%Z then Z.of_nat (length l) + i else i)) <> None.
Proof. exact (AccessSpec.get_seq_index methods). Qed.
Theorem get_seq_out_of_range : forall arr l ex (i : Z),
  (i < - Z.of_nat (length l) \/ Z.of_nat (length l) <= i)%Z -> (- two63 <= i < two63)%Z ->
  get (str_of_Z i) (VSeq arr l ex) = Failed.
Proof. exact (AccessSpec.get_seq_out_of_range methods). Qed.
Theorem combine_get : forall s p n,
  sget methods (SCombine s p) n = match sget methods s n with Absent => sget methods p n | r => r end.
Proof. exact (AccessSpec.combine_get methods). Qed.
End C13.

(* slices: valid bounds give the sub-slice, anything else is an error *)
Theorem slice_ok : forall l ex lo hi, (0 <= lo <= hi)%Z -> (hi <= Z.of_nat (length l + length ex))%Z ->
  slice_seq l ex lo hi None = Ok (VSeq false (firstn (Z.to_nat (hi - lo)) (skipn (Z.to_nat lo) (l ++ ex))) (skipn (Z.to_nat hi) (l ++ ex))).
Proof. exact AccessSpec.slice_ok. Qed.
Theorem slice_bad : forall l ex lo hi, (lo < 0 \/ hi < lo \/ Z.of_nat (length l + length ex) < hi)%Z ->
  slice_seq l ex lo hi None = Err COther.
Proof. exact AccessSpec.slice_bad. Qed.


(* ---- at the level of the evaluator (Proofs/AccessEval.v): a.name, a['name'], a[i], a[i:j], a[i:j:k] return exactly what
   get_value / slice_seq return on the value of a; everything that is not there is an error, never a zero value ---- *)
Section C13Eval.
Variable methods : N -> bool -> list (str * N).
Variable call_fn : N -> list value -> fres.
Variable sc : scope.
Notation ev := (eval methods call_fn sc).
Notation get := (get_value methods).
Notation ev_bound := (AccessEval.ev_bound methods call_fn sc).
Notation index_name := AccessEval.index_name.
Notation bad_index_kind := AccessEval.bad_index_kind.
Notation memberless_kind := AccessEval.memberless_kind.
Notation not_sliceable := AccessEval.not_sliceable.
Theorem field_result : forall a p name lg v lg1,
  ev a lg = (Ok v, lg1) ->
  ev (EField a p name) lg =
  (match get name v with Found x => Ok x | Absent => Err CNoSuchValue | Failed => Err COther end, lg1).
Proof. first [exact (AccessEval.field_result methods call_fn sc) | exact (AccessEval.field_result methods)]. Qed.
Theorem field_never_invents : forall a p name lg x lg' v lg1,
  ev (EField a p name) lg = (Ok x, lg') -> ev a lg = (Ok v, lg1) ->
  get name v = Found x.
Proof. first [exact (AccessEval.field_never_invents methods call_fn sc) | exact (AccessEval.field_never_invents methods)]. Qed.
Theorem index_string_agrees_with_field : forall a i lg v lg1 name lg2,
  ev a lg = (Ok v, lg1) -> ev i lg1 = (Ok (VStr name), lg2) ->
  ev (EIndex a i) lg =
  (match get name v with Found x => Ok x | Absent => Err CNoSuchValue | Failed => Err COther end, lg2).
Proof. first [exact (AccessEval.index_string_agrees_with_field methods call_fn sc) | exact (AccessEval.index_string_agrees_with_field methods)]. Qed.
Theorem index_literal_same_as_field : forall a t l c p lg v lg1 name,
  ev a lg = (Ok v, lg1) -> unquote_lit t = Ok name ->
  ev (EIndex a (ELit LStr t l c)) lg = ev (EField a p name) lg.
Proof. first [exact (AccessEval.index_literal_same_as_field methods call_fn sc) | exact (AccessEval.index_literal_same_as_field methods)]. Qed.
Theorem index_int_is_get : forall a i lg v lg1 iv lg2 z,
  ev a lg = (Ok v, lg1) -> ev i lg1 = (Ok iv, lg2) -> is_int iv = Some z ->
  ev (EIndex a i) lg =
  (match get (str_of_Z z) v with Found x => Ok x | Absent => Err CNoSuchValue | Failed => Err COther end, lg2).
Proof. first [exact (AccessEval.index_int_is_get methods call_fn sc) | exact (AccessEval.index_int_is_get methods)]. Qed.
Theorem index_bad_kind_is_error : forall a i lg v lg1 iv lg2,
  ev a lg = (Ok v, lg1) -> ev i lg1 = (Ok iv, lg2) -> bad_index_kind iv ->
  ev (EIndex a i) lg = (Err COther, lg2).
Proof. first [exact (AccessEval.index_bad_kind_is_error methods call_fn sc) | exact (AccessEval.index_bad_kind_is_error methods)]. Qed.
Theorem unsupported_kind_is_error : forall a p name lg v lg1,
  ev a lg = (Ok v, lg1) -> memberless_kind v ->
  ev (EField a p name) lg = (Err CNoSuchValue, lg1).
Proof. first [exact (AccessEval.unsupported_kind_is_error methods call_fn sc) | exact (AccessEval.unsupported_kind_is_error methods)]. Qed.
Theorem nil_receiver_is_error : forall a p name lg lg1,
  ev a lg = (Ok VNil, lg1) -> ev (EField a p name) lg = (Err CNoSuchValue, lg1).
Proof. first [exact (AccessEval.nil_receiver_is_error methods call_fn sc) | exact (AccessEval.nil_receiver_is_error methods)]. Qed.
Theorem nil_pointer_receiver_is_error : forall a p name lg addr ty lg1,
  ev a lg = (Ok (VPtr addr ty None), lg1) -> assoc name (methods ty true) = None ->
  ev (EField a p name) lg = (Err CNoSuchValue, lg1).
Proof. first [exact (AccessEval.nil_pointer_receiver_is_error methods call_fn sc) | exact (AccessEval.nil_pointer_receiver_is_error methods)]. Qed.
Theorem unexported_field_is_error : forall a p name lg ty fs x lg1,
  ev a lg = (Ok (VStruct ty fs), lg1) -> assoc name (methods ty false) = None ->
  assoc name fs = Some (false, x) ->
  ev (EField a p name) lg = (Err COther, lg1).
Proof. first [exact (AccessEval.unexported_field_is_error methods call_fn sc) | exact (AccessEval.unexported_field_is_error methods)]. Qed.
Theorem slice_result : forall a lo hi lg l ex lg1 s lg2 e lg3,
  ev a lg = (Ok (VSeq false l ex), lg1) ->
  ev_bound lo 0%Z lg1 = (Ok s, lg2) -> ev_bound hi (Z.of_nat (length l)) lg2 = (Ok e, lg3) ->
  ev (ESlice a lo hi) lg = (slice_seq l ex s e None, lg3).
Proof. first [exact (AccessEval.slice_result methods call_fn sc) | exact (AccessEval.slice_result methods)]. Qed.
Theorem slice3_result : forall a lo hi cp lg l ex lg1 s lg2 e lg3 m lg4,
  ev a lg = (Ok (VSeq false l ex), lg1) ->
  ev_bound lo 0%Z lg1 = (Ok s, lg2) -> ev_bound (Some hi) 0%Z lg2 = (Ok e, lg3) ->
  ev_bound (Some cp) 0%Z lg3 = (Ok m, lg4) ->
  ev (ESlice3 a lo hi cp) lg = (slice_seq l ex s e (Some m), lg4).
Proof. first [exact (AccessEval.slice3_result methods call_fn sc) | exact (AccessEval.slice3_result methods)]. Qed.
Theorem slice_of_non_slice_is_error : forall a lo hi lg v lg1,
  ev a lg = (Ok v, lg1) -> not_sliceable v ->
  ev (ESlice a lo hi) lg = (Err COther, lg1).
Proof. first [exact (AccessEval.slice_of_non_slice_is_error methods call_fn sc) | exact (AccessEval.slice_of_non_slice_is_error methods)]. Qed.
Theorem slice3_of_non_slice_is_error : forall a lo hi cp lg v lg1,
  ev a lg = (Ok v, lg1) -> not_sliceable v ->
  ev (ESlice3 a lo hi cp) lg = (Err COther, lg1).
Proof. first [exact (AccessEval.slice3_of_non_slice_is_error methods call_fn sc) | exact (AccessEval.slice3_of_non_slice_is_error methods)]. Qed.
Theorem slice_of_array_is_error_bounds : forall a lo hi lg l ex lg1 s lg2 e lg3,
  ev a lg = (Ok (VSeq true l ex), lg1) ->
  ev_bound lo 0%Z lg1 = (Ok s, lg2) -> ev_bound hi (Z.of_nat (length l)) lg2 = (Ok e, lg3) ->
  ev (ESlice a lo hi) lg = (Err COther, lg3).
Proof. first [exact (AccessEval.slice_of_array_is_error_bounds methods call_fn sc) | exact (AccessEval.slice_of_array_is_error_bounds methods)]. Qed.
Theorem slice_success_is_seq : forall a lo hi lg x lg',
  ev (ESlice a lo hi) lg = (Ok x, lg') -> exists l ex, x = VSeq false l ex.
Proof. first [exact (AccessEval.slice_success_is_seq methods call_fn sc) | exact (AccessEval.slice_success_is_seq methods)]. Qed.
End C13Eval.
Theorem slice3_ok : forall l ex lo hi m,
  (0 <= lo)%Z -> (lo <= hi)%Z -> (hi <= m)%Z -> (m <= Z.of_nat (length (l ++ ex)))%Z ->
  slice_seq l ex lo hi (Some m) =
  Ok (VSeq false (firstn (Z.to_nat (hi - lo)) (skipn (Z.to_nat lo) (l ++ ex)))
                 (firstn (Z.to_nat (m - hi)) (skipn (Z.to_nat hi) (l ++ ex)))).
Proof. exact AccessEval.slice3_ok. Qed.
Theorem slice3_cap : forall (all : list value) lo hi m,
  (0 <= lo)%Z -> (lo <= hi)%Z -> (hi <= m)%Z -> (m <= Z.of_nat (length all))%Z ->
  (length (firstn (Z.to_nat (hi - lo)) (skipn (Z.to_nat lo) all)) +
   length (firstn (Z.to_nat (m - hi)) (skipn (Z.to_nat hi) all)))%nat = Z.to_nat (m - lo).
Proof. exact AccessEval.slice3_cap. Qed.
Theorem slice3_bad : forall l ex lo hi m,
  (lo < 0 \/ hi < lo \/ m < hi \/ Z.of_nat (length (l ++ ex)) < m)%Z ->
  slice_seq l ex lo hi (Some m) = Err COther.
Proof. exact AccessEval.slice3_bad. Qed.
Print Assumptions field_result.
Print Assumptions slice3_result.
Print Assumptions slice3_ok.

Print Assumptions get_struct_field.
Print Assumptions get_seq_index.
Print Assumptions get_seq_out_of_range.
Print Assumptions get_method.
Print Assumptions slice_ok.
Print Assumptions combine_get.

Example access_example :
  get_value (fun _ _ => []) [45; 49] (VSeq false [VInt KInt 10; VInt KInt 20; VInt KInt 30] []) = Found (VInt KInt 30) /\
  get_value (fun _ _ => []) [51] (VSeq false [VInt KInt 10; VInt KInt 20; VInt KInt 30] []) = Failed.
Proof. vm_compute. split; reflexivity. Qed.
