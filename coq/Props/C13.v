(* C13 — Member, index and slice access agree with the Go value. Theorems only. *)
From Tpl Require Import Exp.Eval Proofs.AccessSpec.
Open Scope N_scope.

Section C13.
Variable methods : N -> bool -> list (str * N).
Notation get := (get_value methods).

Theorem get_nil : forall name, get name VNil = Absent.
Proof. exact (AccessSpec.get_nil methods). Qed.
(* map entries by key; a key present with a nil value is Found, not Absent *)
Theorem get_map : forall m name, methods_of methods (VMap m) = [] ->
  get name (VMap m) = match assoc name m with Some v => Found v | None => Absent end.
Proof. exact (AccessSpec.get_map methods). Qed.
(* exported struct fields; unexported fields fail; missing fields are absent — never a zero value *)
Theorem get_struct_field : forall ty fs name, assoc name (methods ty false) = None ->
  get name (VStruct ty fs) = match assoc name fs with Some (true, v) => Found v | Some (false, _) => Failed | None => Absent end.
Proof. exact (AccessSpec.get_struct_field methods). Qed.
(* through a pointer: dereferenced exactly once *)
Theorem get_through_pointer_direct : forall a ty t name, assoc name (methods ty true) = None ->
  get name (VPtr a ty (Some t)) = AccessSpec.direct_get name t.
Proof. exact (AccessSpec.get_through_pointer_direct methods). Qed.
Theorem get_nil_pointer : forall ty name, assoc name (methods ty true) = None -> get name (VPtr 0 ty None) = Absent.
Proof. exact (AccessSpec.get_nil_pointer methods). Qed.
(* methods are bound to their receiver *)
Theorem get_method : forall v name fid, v <> VNil -> assoc name (methods_of methods v) = Some fid ->
  get name v = Found (VFunc fid [v]).
Proof. exact (AccessSpec.get_method methods). Qed.
(* indexes: i in [-len, len) selects the element (negative from the end); anything else fails *)
Theorem get_seq_index : forall arr l ex (i : Z), (- Z.of_nat (length l) <= i < Z.of_nat (length l))%Z ->
  (- two63 <= i < two63)%Z ->
  get (str_of_Z i) (VSeq arr l ex) = match nth_error l (Z.to_nat (if (i <? 0)%Z then Z.of_nat (length l) + i else i)) with Some v => Found v | None => Failed end
  /\ nth_error l (Z.to_nat (if (i <? 0)%Z then Z.of_nat (length l) + i else i)) <> None.
Proof. exact (AccessSpec.get_seq_index methods). Qed.
Theorem get_seq_out_of_range : forall arr l ex (i : Z),
  (i < - Z.of_nat (length l) \/ Z.of_nat (length l) <= i)%Z -> (- two63 <= i < two63)%Z ->
  get (str_of_Z i) (VSeq arr l ex) = Failed.
Proof. exact (AccessSpec.get_seq_out_of_range methods). Qed.
Theorem combine_get : forall s p n,
  sget methods (SCombine s p) n = match sget methods s n with Absent => sget methods p n | r => r end.
Proof. exact (AccessSpec.combine_get methods). Qed.
End C13.

(* slices: valid bounds give the sub-slice, anything else is an error *)
Theorem slice_ok : forall l ex lo hi, (0 <= lo <= hi)%Z -> (hi <= Z.of_nat (length l + length ex))%Z ->
  slice_seq l ex lo hi None = Ok (VSeq false (firstn (Z.to_nat (hi - lo)) (skipn (Z.to_nat lo) (l ++ ex))) (skipn (Z.to_nat hi) (l ++ ex))).
Proof. exact AccessSpec.slice_ok. Qed.
Theorem slice_bad : forall l ex lo hi, (lo < 0 \/ hi < lo \/ Z.of_nat (length l + length ex) < hi)%Z ->
  slice_seq l ex lo hi None = Err COther.
Proof. exact AccessSpec.slice_bad. Qed.

Print Assumptions get_struct_field.
Print Assumptions get_seq_index.
Print Assumptions get_seq_out_of_range.
Print Assumptions get_method.
Print Assumptions slice_ok.
Print Assumptions combine_get.

Example access_example :
  get_value (fun _ _ => []) [45; 49] (VSeq false [VInt KInt 10; VInt KInt 20; VInt KInt 30] []) = Found (VInt KInt 30) /\
  get_value (fun _ _ => []) [51] (VSeq false [VInt KInt 10; VInt KInt 20; VInt KInt 30] []) = Failed.
Proof. vm_compute. split; reflexivity. Qed.
