(* C02 — Inserted values are escaped and cannot change the markup structure. Theorems only.
   (The structure clause is a theorem about the scanner model — structure_invariant below — and is additionally checked
   on the implementation by re-scanning rendered outputs for pairs of inserted strings.) *)
From Tpl Require Import Html.Scan Html.Exec Proofs.ExecSpec Proofs.EscapeProps Proofs.EmitProps Proofs.HoleSim Proofs.HoleInvariant Proofs.HoleRaw Proofs.HoleEscape Proofs.Readback.
Open Scope N_scope.

(* an HTML consumer reads back exactly the evaluated string *)
Theorem escape_roundtrip : forall s, unescape5 (escape s) = s.
Proof. exact EscapeProps.escape_roundtrip. Qed.
Print Assumptions escape_roundtrip.
(* the emitted text contains no character that could open or close a tag or an attribute value *)
Theorem escape_safe : forall s r, In r (escape s) -> r <> cLT /\ r <> cGT /\ r <> cDQ /\ r <> cSQ.
Proof. exact EscapeProps.escape_safe. Qed.
Print Assumptions escape_safe.
Theorem escape_amp_starts_entity : forall s pre post, escape s = pre ++ cAMP :: post ->
  prefixb (tl s_amp) post = true \/ prefixb (tl s_sq) post = true \/ prefixb (tl s_lt) post = true \/
  prefixb (tl s_gt) post = true \/ prefixb (tl s_dq) post = true.
Proof. exact EscapeProps.escape_amp_starts_entity. Qed.
Print Assumptions escape_amp_starts_entity.
Theorem escape_app : forall a b, escape (a ++ b) = escape a ++ escape b.
Proof. exact EscapeProps.escape_app. Qed.

Section C02.
Variable is_space : rune -> bool.
Variable is_letter : rune -> bool.
Variable is_udigit : rune -> bool.
Variable methods : N -> bool -> list (str * N).
Variable call_fn : N -> list value -> fres.
Variable mgr : manager.
Variable exec : N -> list node -> node -> scope -> bool -> tbl -> rst -> R.
Notation attr_ev := (attr_evaluate is_letter is_udigit methods call_fn mgr).
(* :text writes escape(value); :raw writes the value unmodified; a dynamic attribute is name="escape(value)" *)
Theorem text_emits_escape : forall n ls top t st a v lg,
  l_child ls = CText a true -> attr_ev a (l_sc ls) (r_log st) = (AOk v, lg) ->
  run_child is_space is_letter is_udigit methods call_fn mgr exec n ls top t st = wr top (escape v) t (set_log st lg).
Proof. intros; eapply EmitProps.text_emits_escape; eassumption. Qed.
Theorem raw_emits_verbatim : forall n ls top t st a v lg,
  l_child ls = CText a false -> attr_ev a (l_sc ls) (r_log st) = (AOk v, lg) ->
  run_child is_space is_letter is_udigit methods call_fn mgr exec n ls top t st = wr top v t (set_log st lg).
Proof. intros; eapply EmitProps.raw_emits_verbatim; eassumption. Qed.
Theorem dynattr_emits_escape : forall mask ctx n attrs a ls t st cmd v lg,
  a_name a = prefix mgr ++ cmd -> is_directive cmd = false ->
  attr_ev a (l_sc ls) (r_log st) = (AOk v, lg) ->
  attr_step is_space is_letter is_udigit methods call_fn mgr exec mask ctx n attrs a ls t st =
    (inl (add_tagbuf ls ([cSP] ++ cmd ++ [cEQ; cDQ] ++ escape v ++ [cDQ])), t, set_log st lg).
Proof. intros; eapply EmitProps.dynattr_emits_escape; eassumption. Qed.
End C02.
Print Assumptions dynattr_emits_escape.

(* ---- the structure clause: "the sequence of tags and attribute names in the output is the same whatever string is
   inserted".  A consumer tokenising  pre ++ escape v ++ post , where the insertion point is in text position (not inside a
   raw-text element) or inside a quoted attribute value, finds the same tags with the same attribute names for every v
   (and succeeds for one v iff it succeeds for every other).  [compile] is the directive-value compiler of the scanner; it is
   irrelevant for rendered output (no directives), so the closed form takes the compiler that accepts everything. *)
Theorem structure_invariant : forall (is_space : rune -> bool) (to_lower : rune -> rune) (text_tags : list str) (attr_prefix pre post v1 v2 : str),
  let run := fold_left (step is_space to_lower text_tags attr_prefix (fun _ => true)) in
  let scan := scan is_space to_lower text_tags attr_prefix (fun _ => true) in
  text_ctx to_lower text_tags (run pre init) \/ (exists q, attr_ctx q (run pre init)) ->
  ((exists toks, scan (pre ++ escape v1 ++ post) = inl toks) <-> (exists toks, scan (pre ++ escape v2 ++ post) = inl toks)) /\
  (forall toks1 toks2, scan (pre ++ escape v1 ++ post) = inl toks1 -> scan (pre ++ escape v2 ++ post) = inl toks2 ->
     tag_struct toks1 = tag_struct toks2).
Proof. exact HoleEscape.escaped_insert_structure_nocompile. Qed.
(* the general statements: any two '<'-free strings in text position — everything but the one text token that holds
   the insertion is equal up to source positions ... *)
Theorem text_hole_invariant : forall is_space to_lower text_tags attr_prefix (compile : attr -> bool),
  (forall a1 a2, a_name a1 = a_name a2 -> a_value a1 = a_value a2 -> compile a1 = compile a2) ->
  forall pre s1 s2 post,
  text_ctx to_lower text_tags (fold_left (step is_space to_lower text_tags attr_prefix compile) pre init) ->
  ~ In cLT s1 -> ~ In cLT s2 ->
  (exists e, scan is_space to_lower text_tags attr_prefix compile (pre ++ s1 ++ post) = inr e /\
             scan is_space to_lower text_tags attr_prefix compile (pre ++ s2 ++ post) = inr e) \/
  (exists toks1 toks2,
     scan is_space to_lower text_tags attr_prefix compile (pre ++ s1 ++ post) = inl toks1 /\
     scan is_space to_lower text_tags attr_prefix compile (pre ++ s2 ++ post) = inl toks2 /\
     tag_struct toks1 = tag_struct toks2 /\
     map tok_np (filter (fun t => negb (is_text_tok t)) toks1) = map tok_np (filter (fun t => negb (is_text_tok t)) toks2) /\
     (same_presence (fold_left (step is_space to_lower text_tags attr_prefix compile) pre init) s1 s2 post ->
      map shape_no_text toks1 = map shape_no_text toks2 /\ length toks1 = length toks2)).
Proof. exact HoleInvariant.text_hole_invariant. Qed.
(* ... and any two strings without the delimiting quote inside a quoted attribute value: same tokens, same attribute
   names, every other attribute value equal; only the value that holds the insertion differs, exactly by the insertion *)
Theorem attr_hole_invariant : forall is_space to_lower text_tags attr_prefix (compile : attr -> bool),
  (forall a1 a2, a_name a1 = a_name a2 -> a_value a1 = a_value a2 -> compile a1 = compile a2) ->
  forall q pre s1 s2 post,
  let S0 := fold_left (step is_space to_lower text_tags attr_prefix compile) pre init in
  attr_ctx q S0 -> ~ In q s1 -> ~ In q s2 ->
  (forall a1 a2, a_name a1 = hole_aname S0 -> a_name a2 = hole_aname S0 -> compile a1 = compile a2) ->
  (exists e, scan is_space to_lower text_tags attr_prefix compile (pre ++ s1 ++ post) = inr e /\
             scan is_space to_lower text_tags attr_prefix compile (pre ++ s2 ++ post) = inr e) \/
  (exists toks1 toks2,
     scan is_space to_lower text_tags attr_prefix compile (pre ++ s1 ++ post) = inl toks1 /\
     scan is_space to_lower text_tags attr_prefix compile (pre ++ s2 ++ post) = inl toks2 /\
     tag_struct toks1 = tag_struct toks2 /\ map shape_names toks1 = map shape_names toks2 /\ length toks1 = length toks2 /\
     exists l T1 T2 r1 r2 la A1 A2 ra1 ra2,
       toks1 = l ++ T1 :: r1 /\ toks2 = l ++ T2 :: r2 /\ map tok_np r1 = map tok_np r2 /\
       t_kind T1 = KTag /\ t_kind T2 = KTag /\ t_name T1 = t_name T2 /\
       t_attrs T1 = la ++ A1 :: ra1 /\ t_attrs T2 = la ++ A2 :: ra2 /\
       map PrintScanDefs.ashape ra1 = map PrintScanDefs.ashape ra2 /\ a_name A1 = a_name A2 /\
       a_value A1 = Some (hole_aval0 S0 ++ s1 ++ upto q post ++ [q]) /\
       a_value A2 = Some (hole_aval0 S0 ++ s2 ++ upto q post ++ [q])).
Proof. exact HoleInvariant.attr_hole_invariant. Qed.
(* ---- "HTML-unescaping the emitted text / attribute value yields the original string", end to end through the scanner:
   escape v placed right after a complete tag and before the next '<' is read back as ONE text token whose value
   unescapes to v; placed between the quotes of an attribute value it is read back as that attribute's value q ++ x ++ q
   with unescape x = v. *)
Theorem text_readback : forall (is_space : rune -> bool) (to_lower : rune -> rune) (text_tags : list str) (attr_prefix : str) pre post v,
  let run := fold_left (step is_space to_lower text_tags attr_prefix (fun _ => true)) in
  let scan := scan is_space to_lower text_tags attr_prefix (fun _ => true) in
  after_tag to_lower text_tags (run pre init) -> (exists rest, post = cLT :: rest) -> v <> [] ->
  forall toks, scan (pre ++ escape v ++ post) = inl toks ->
  exists l x st en r, scan pre = inl l /\ toks = l ++ mkTok KText x st en [] [] :: r /\ x = escape v /\ unescape5 x = v.
Proof. exact Readback.text_readback_nocompile. Qed.
Print Assumptions text_readback.
Print Assumptions structure_invariant.
Print Assumptions text_hole_invariant.
Print Assumptions attr_hole_invariant.
(* the hypotheses are satisfiable, and necessary: HoleInvariant.text_hole_example_thm, attr_hole_example_thm,
   text_hole_needs_nolt (an inserted <b> changes the structure), attr_hole_needs_noquote *)

Example escape_example : escape [60;97;38;34;39;62] = [38;108;116;59;97;38;97;109;112;59;38;35;51;52;59;38;35;51;57;59;38;103;116;59]
  /\ unescape5 (escape [60;97;38;34;39;62;38;97;109;112;59]) = [60;97;38;34;39;62;38;97;109;112;59].
Proof. vm_compute. split; reflexivity. Qed.

(* ---- the read-back and structure clauses for DYNAMIC ATTRIBUTES at render level (Proofs/DynReadback.v, session 3).
   The printed open tag of an element with dynamic attributes (DynReplaces.spec_open_tag), scanned again, is ONE tag
   token with the same name whose attributes are, in order: for each dynamic attribute its name with the raw value
   DQ x DQ where x = escape v and unescape5 x = v — for ANY evaluated strings v, no condition on them — then the kept
   plain attributes as written.  For two value lists the scans have the same tag name and the same attribute NAMES.
   printable = well-formedness of the names and plain values, satisfied by every scanned tag (printable_of_scan);
   the kept plain attributes must have non-empty names: the observed exception is recorded in
   DynReadback.empty_name_static_observed. *)
From Tpl Require Import Proofs.DynReplaces Proofs.DynReadback.
Theorem dyn_render_readback : forall is_space to_lower text_tags attr_prefix (compile : attr -> bool) mgr,
  is_space cSP = true -> is_space cGT = false -> is_space cEQ = false -> is_space cDQ = false ->
  forall name statics dyns values S,
  Readback.after_tag to_lower text_tags S -> printable is_space attr_prefix mgr name statics dyns ->
  length values = length dyns -> IdemRescan.ccl compile (printed_shapes mgr statics dyns values) ->
  exists T p' A K,
    fold_left (Scan.step is_space to_lower text_tags attr_prefix compile) (spec_open_tag mgr name statics dyns values) S
      = mkS (T :: s_toks S) p' MInit /\
    t_kind T = KTag /\ t_name T = name /\ t_attrs T = A ++ K /\
    Forall2 (reads_back mgr) A (combine dyns values) /\
    map PrintScanDefs.ashape K = map PrintScanDefs.ashape (kept mgr dyns statics).
Proof. exact DynReadback.dyn_render_readback. Qed.
Theorem dyn_structure_invariant : forall is_space to_lower text_tags attr_prefix (compile : attr -> bool) mgr,
  is_space cSP = true -> is_space cGT = false -> is_space cEQ = false -> is_space cDQ = false ->
  forall name statics dyns values1 values2 S,
  Readback.after_tag to_lower text_tags S -> printable is_space attr_prefix mgr name statics dyns ->
  length values1 = length dyns -> length values2 = length dyns ->
  IdemRescan.ccl compile (printed_shapes mgr statics dyns values1) -> IdemRescan.ccl compile (printed_shapes mgr statics dyns values2) ->
  exists T1 T2 p1 p2,
    fold_left (Scan.step is_space to_lower text_tags attr_prefix compile) (spec_open_tag mgr name statics dyns values1) S
      = mkS (T1 :: s_toks S) p1 MInit /\
    fold_left (Scan.step is_space to_lower text_tags attr_prefix compile) (spec_open_tag mgr name statics dyns values2) S
      = mkS (T2 :: s_toks S) p2 MInit /\
    t_kind T1 = t_kind T2 /\ t_name T1 = t_name T2 /\
    map a_name (t_attrs T1) = map a_name (t_attrs T2) /\
    skipn (length dyns) (map PrintScanDefs.ashape (t_attrs T1)) = skipn (length dyns) (map PrintScanDefs.ashape (t_attrs T2)).
Proof. exact DynReadback.dyn_structure_invariant. Qed.
(* ... and for the OUTPUT of the renderer on an element of a scanned source *)
Definition dyn_element_render_readback := @DynReadback.dyn_element_render_readback_scanned.
Print Assumptions dyn_render_readback.
Print Assumptions dyn_structure_invariant.
Print Assumptions dyn_element_render_readback.
