(* C02 — Inserted values are escaped and cannot change the markup structure. Theorems only.
   (The structure clause is additionally checked on the implementation by re-scanning rendered
   outputs for pairs of inserted strings: exploration, see DESIGN.md.) *)
From Tpl Require Import Html.Exec Proofs.ExecSpec Proofs.EscapeProps Proofs.EmitProps.
Open Scope N_scope.

(* an HTML consumer reads back exactly the evaluated string *)
Theorem escape_roundtrip : forall s, unescape5 (escape s) = s.
Proof. exact EscapeProps.escape_roundtrip. Qed.
Print Assumptions escape_roundtrip.
(* the emitted text contains no character that could open or close a tag or an attribute value *)
Theorem escape_safe : forall s r, In r (escape s) -> r <> cLT /\ r <> cGT /\ r <> cDQ /\ r <> cSQ.
Proof. exact EscapeProps.escape_safe. Qed.
Print Assumptions escape_safe.
Theorem escape_amp_starts_entity : forall s pre post, escape s = pre ++ cAMP :: post ->
  prefixb (tl s_amp) post = true \/ prefixb (tl s_sq) post = true \/ prefixb (tl s_lt) post = true \/
  prefixb (tl s_gt) post = true \/ prefixb (tl s_dq) post = true.
Proof. exact EscapeProps.escape_amp_starts_entity. Qed.
Print Assumptions escape_amp_starts_entity.
Theorem escape_app : forall a b, escape (a ++ b) = escape a ++ escape b.
Proof. exact EscapeProps.escape_app. Qed.

Section C02.
Variable is_space : rune -> bool.
Variable is_letter : rune -> bool.
Variable is_udigit : rune -> bool.
Variable methods : N -> bool -> list (str * N).
Variable call_fn : N -> list value -> fres.
Variable mgr : manager.
Variable exec : N -> list node -> node -> scope -> bool -> tbl -> rst -> R.
Notation attr_ev := (attr_evaluate is_letter is_udigit methods call_fn mgr).
(* :text writes escape(value); :raw writes the value unmodified; a dynamic attribute is name="escape(value)" *)
Theorem text_emits_escape : forall n ls top t st a v lg,
  l_child ls = CText a true -> attr_ev a (l_sc ls) (r_log st) = (AOk v, lg) ->
  run_child is_space is_letter is_udigit methods call_fn mgr exec n ls top t st = wr top (escape v) t (set_log st lg).
Proof. intros; eapply EmitProps.text_emits_escape; eassumption. Qed.
Theorem raw_emits_verbatim : forall n ls top t st a v lg,
  l_child ls = CText a false -> attr_ev a (l_sc ls) (r_log st) = (AOk v, lg) ->
  run_child is_space is_letter is_udigit methods call_fn mgr exec n ls top t st = wr top v t (set_log st lg).
Proof. intros; eapply EmitProps.raw_emits_verbatim; eassumption. Qed.
Theorem dynattr_emits_escape : forall mask ctx n attrs a ls t st cmd v lg,
  a_name a = prefix mgr ++ cmd -> is_directive cmd = false ->
  attr_ev a (l_sc ls) (r_log st) = (AOk v, lg) ->
  attr_step is_space is_letter is_udigit methods call_fn mgr exec mask ctx n attrs a ls t st =
    (inl (add_tagbuf ls ([cSP] ++ cmd ++ [cEQ; cDQ] ++ escape v ++ [cDQ])), t, set_log st lg).
Proof. intros; eapply EmitProps.dynattr_emits_escape; eassumption. Qed.
End C02.
Print Assumptions dynattr_emits_escape.

Example escape_example : escape [60;97;38;34;39;62] = [38;108;116;59;97;38;97;109;112;59;38;35;51;52;59;38;35;51;57;59;38;103;116;59]
  /\ unescape5 (escape [60;97;38;34;39;62;38;97;109;112;59]) = [60;97;38;34;39;62;38;97;109;112;59].
Proof. vm_compute. split; reflexivity. Qed.
