(* C09 — Operators follow Go's precedence, associativity and arithmetic. Theorems only. *)
From Tpl Require Import Exp.Eval Proofs.ParseSpec Proofs.ParseRoundtrip Proofs.TernaryAssoc Proofs.IntOps Proofs.GoPrec Proofs.FactsAgree.
From Tpl Require Proofs.FloatSpec.
From Tpl Require Exp.FloatFmt Proofs.FloatFmtProps Proofs.FloatFmtRead.
From Flocq Require IEEE754.Bits.
From Coq Require Reals.
Open Scope N_scope.

(* Grouping: an expression printed with exactly the parentheses that Go's precedence table and
   left-associativity require (wf) is parsed back to the same tree by the model of the generated
   parser — unary operators bind tighter than every binary level, the binary levels are Go's five. *)
Theorem parse_print : forall e, wf e -> exists f0, forall f, (f0 <= f)%nat -> parse_expr f 0 (print e) = Some (e, []).
Proof. exact ParseRoundtrip.parse_print. Qed.
Print Assumptions parse_print.
Theorem levels_are_go_precedence : forall a b, (blevel a < blevel b <-> go_prec a < go_prec b)%nat.
Proof. exact GoPrec.blevel_order_is_go_order. Qed.
Print Assumptions levels_are_go_precedence.
(* the levels of the model are the ones in goexpression_parser.go NOW (Gen/Facts.v is regenerated each run) *)
Theorem levels_from_source :
  Parse.unary_operand_prec = Facts.unary_operand_prec /\
  Facts.loop_levels = [(6, [7]); (5, [6]); (4, [5]); (3, [4]); (2, [3]); (cond_level, [cond_mid_prec; cond_right_prec])]%nat /\
  (forall b, In (blevel b, [S (blevel b)]) Facts.loop_levels).
Proof. exact FactsAgree.precedences_agree. Qed.
Print Assumptions levels_from_source.
(* ... and so are the OPERATORS of each level: factgen decodes the token-set test of every alternative of the generated
   expression(_p) loop (and the LiteralNames table); the model's lexer table has exactly these literals in this order,
   a punctuation token is a binary operator of level n in the model iff the generated parser accepts it at level n,
   '?' alone sits at the conditional level, and the unary operators are the generated parser's *)
Theorem operators_from_source :
  map fst Lex.puncts = Facts.punct_literals /\ FactsAgree.operator_tables_ok = true /\
  forall lit p b, In (lit, p) Lex.puncts -> binop_of p = Some b ->
    In lit (FactsAgree.ops_of_level (blevel b)) /\
    forall l, In l [2;3;4;5;6]%nat -> l <> blevel b -> ~ In lit (FactsAgree.ops_of_level l).
Proof. split; [exact FactsAgree.punct_literals_agree|]. split; [exact FactsAgree.operator_tables_agree|]. exact FactsAgree.binop_level_from_source. Qed.
Print Assumptions operators_from_source.

(* The property demands that ?: binds to the RIGHT. The faithful model refutes it: the generated
   parser groups  a ? b : c ? d : e  as  (a ? b : c) ? d : e  (recorded in KNOWN_FINDINGS.json). *)
Theorem ternary_right_assoc_refuted : exists a b c d e toks,
  toks = print (ECond a b (ECond c d e)) /\ parse_expr 50 0 toks = Some (ECond (ECond a b c) d e, []).
Proof. exact TernaryAssoc.ternary_right_assoc_refuted. Qed.
Print Assumptions ternary_right_assoc_refuted.

(* Integer arithmetic is two's-complement int64 arithmetic as Go defines it *)
Open Scope Z_scope.
Theorem add_spec : forall i j, int_bin BAdd i j = Ok (VInt KInt64 (of_u64 ((to_u64 i + to_u64 j) mod two64))).
Proof. exact IntOps.add_spec. Qed.
Theorem sub_spec : forall i j, int_bin BSub i j = Ok (VInt KInt64 (of_u64 ((to_u64 i - to_u64 j) mod two64))).
Proof. exact IntOps.sub_spec. Qed.
Theorem mul_spec : forall i j, int_bin BMul i j = Ok (VInt KInt64 (of_u64 ((to_u64 i * to_u64 j) mod two64))).
Proof. exact IntOps.mul_spec. Qed.
Theorem div_spec : forall i j, in64 i -> in64 j -> j <> 0 -> exists q r,
   int_bin BDiv i j = Ok (VInt KInt64 (wrap64 q)) /\ int_bin BMod i j = Ok (VInt KInt64 r) /\
   i = q * j + r /\ Z.abs r < Z.abs j /\ (r = 0 \/ Z.sgn r = Z.sgn i).
Proof. exact IntOps.div_spec. Qed.
Theorem div_by_zero : forall i, int_bin BDiv i 0 = Err COther /\ int_bin BMod i 0 = Err COther.
Proof. exact IntOps.div_by_zero. Qed.
Theorem shl_spec : forall i j, 0 <= j < 64 -> int_bin BShl i j = Ok (VInt KInt64 (of_u64 ((to_u64 i * 2 ^ j) mod two64))).
Proof. exact IntOps.shl_spec. Qed.
Theorem shr_spec : forall i j, in64 i -> 0 <= j < 64 -> int_bin BShr i j = Ok (VInt KInt64 (i / 2 ^ j)).
Proof. exact IntOps.shr_spec. Qed.
Theorem neg_shift : forall i j, j < 0 -> int_bin BShl i j = Err COther /\ int_bin BShr i j = Err COther.
Proof. exact IntOps.neg_shift. Qed.
Theorem and_spec : forall i j, in64 i -> in64 j -> int_bin BAnd i j = Ok (VInt KInt64 (of_u64 (Z.land (to_u64 i) (to_u64 j)))).
Proof. exact IntOps.and_spec. Qed.
Theorem or_spec : forall i j, in64 i -> in64 j -> int_bin BOr i j = Ok (VInt KInt64 (of_u64 (Z.lor (to_u64 i) (to_u64 j)))).
Proof. exact IntOps.or_spec. Qed.
Theorem xor_spec : forall i j, in64 i -> in64 j -> int_bin BXor i j = Ok (VInt KInt64 (of_u64 (Z.lxor (to_u64 i) (to_u64 j)))).
Proof. exact IntOps.xor_spec. Qed.
Theorem not_spec : forall i, in64 i -> un_op UCaret (VInt KInt64 i) = Ok (VInt KInt64 (of_u64 (two64 - 1 - to_u64 i))).
Proof. exact IntOps.not_spec. Qed.
Theorem int_bin_in_range : forall op i j z, in64 i -> in64 j -> int_bin op i j = Ok (VInt KInt64 z) -> in64 z.
Proof. exact IntOps.int_bin_in_range. Qed.
(* every integer kind goes through the same int64 operation *)
Theorem num_bin_ints : forall op k1 k2 z1 z2, in64 z1 -> in64 z2 -> num_bin op (VInt k1 z1) (VInt k2 z2) = int_bin op z1 z2.
Proof. exact IntOps.num_bin_ints. Qed.
(* wrong kinds are errors, never values; + concatenates strings *)
Theorem int_only_rejects_float : forall op f b v, int_only_bin op (VFloat f b) v = Err COther.
Proof. exact IntOps.int_only_rejects_float. Qed.
Theorem plus_strings : forall a b, bin_op BAdd (VStr a) (VStr b) = Ok (VStr (a ++ b)).
Proof. exact IntOps.plus_strings. Qed.
Print Assumptions div_spec.
Print Assumptions and_spec.
Print Assumptions shr_spec.
Print Assumptions num_bin_ints.

(* ---- float64: the model's + - * / and comparisons ARE IEEE-754 binary64 with round-to-nearest-even (what Go computes),
   stated against the real numbers with Flocq's specification ([rnd] = round to nearest even in the binary64 format,
   [fmax] = 2^1024); an integer operand is converted with float64(i) = rnd i, exactly when |i| <= 2^53. *)
Module FS := Proofs.FloatSpec.
Theorem float_add_is_ieee : forall x y : Bits.binary64, FS.is_finite x = true -> FS.is_finite y = true ->
  let r := Bits.b64_of_bits (f_add (Bits.bits_of_b64 x) (Bits.bits_of_b64 y)) in
  (Rdefinitions.Rlt (Rbasic_fun.Rabs (FS.rnd (Rdefinitions.Rplus (FS.B2R x) (FS.B2R y)))) FS.fmax ->
     FS.is_finite r = true /\ FS.B2R r = FS.rnd (Rdefinitions.Rplus (FS.B2R x) (FS.B2R y))) /\
  (Rdefinitions.Rle FS.fmax (Rbasic_fun.Rabs (FS.rnd (Rdefinitions.Rplus (FS.B2R x) (FS.B2R y)))) ->
     r = FS.Binf (Raux.Rlt_bool (Rdefinitions.Rplus (FS.B2R x) (FS.B2R y)) (Rdefinitions.IZR 0)) /\ FS.Bsign x = FS.Bsign y).
Proof. exact FS.f_add_b64. Qed.
Theorem float_mul_is_ieee : forall x y : Bits.binary64, FS.is_finite x = true -> FS.is_finite y = true ->
  let r := Bits.b64_of_bits (f_mul (Bits.bits_of_b64 x) (Bits.bits_of_b64 y)) in
  (Rdefinitions.Rlt (Rbasic_fun.Rabs (FS.rnd (Rdefinitions.Rmult (FS.B2R x) (FS.B2R y)))) FS.fmax ->
     FS.is_finite r = true /\ FS.B2R r = FS.rnd (Rdefinitions.Rmult (FS.B2R x) (FS.B2R y)) /\ FS.Bsign r = xorb (FS.Bsign x) (FS.Bsign y)) /\
  (Rdefinitions.Rle FS.fmax (Rbasic_fun.Rabs (FS.rnd (Rdefinitions.Rmult (FS.B2R x) (FS.B2R y)))) ->
     r = FS.Binf (Raux.Rlt_bool (Rdefinitions.Rmult (FS.B2R x) (FS.B2R y)) (Rdefinitions.IZR 0))).
Proof. exact FS.f_mul_b64. Qed.
Theorem float_compare_is_real_order : forall x y : Bits.binary64, FS.is_finite x = true -> FS.is_finite y = true ->
  f_cmp (Bits.bits_of_b64 x) (Bits.bits_of_b64 y) = Some (Raux.Rcompare (FS.B2R x) (FS.B2R y)).
Proof. exact FS.f_cmp_b64. Qed.
Theorem int_to_float_is_rounding : forall z, in64 z ->
  FS.is_finite (Bits.b64_of_bits (f_of_Z z)) = true /\ FS.B2R (Bits.b64_of_bits (f_of_Z z)) = FS.rnd (Rdefinitions.IZR z).
Proof. exact FS.f_of_Z_int64. Qed.
Theorem int_to_float_exact_below_2_53 : forall z, (Z.abs z <= 2 ^ 53)%Z ->
  FS.is_finite (Bits.b64_of_bits (f_of_Z z)) = true /\ FS.B2R (Bits.b64_of_bits (f_of_Z z)) = Rdefinitions.IZR z.
Proof. exact FS.f_of_Z_exact. Qed.
(* "converting an integer operand to float when the other is a float" *)
Theorem mixed_operands_convert_the_integer : forall op f k i fl g, FS.fop op = Some f ->
  num_bin op (VInt k i) (VFloat fl g) = Ok (VFloat false (f (f_of_Z (wrap64 i)) g)) /\
  num_bin op (VFloat fl g) (VInt k i) = Ok (VFloat false (f g (f_of_Z (wrap64 i)))) /\
  bin_op op (VInt k i) (VFloat fl g) = Ok (VFloat false (f (f_of_Z (wrap64 i)) g)) /\
  bin_op op (VFloat fl g) (VInt k i) = Ok (VFloat false (f g (f_of_Z (wrap64 i)))).
Proof. exact FS.mixed_arith_spec. Qed.
(* decimal float literals are correctly rounded (one rounding, via a sticky bit) *)
Theorem float_literal_correctly_rounded : forall m e10 : Z, (0 <= m)%Z ->
  let v := Rdefinitions.Rmult (Rdefinitions.IZR m) (Rfunctions.powerRZ (Rdefinitions.IZR 10) e10) in
  let r := Bits.b64_of_bits (f_of_dec m e10) in
  (Rdefinitions.Rlt (Rbasic_fun.Rabs (FS.rnd v)) FS.fmax -> FS.is_finite r = true /\ FS.B2R r = FS.rnd v) /\
  (Rdefinitions.Rle FS.fmax (Rbasic_fun.Rabs (FS.rnd v)) -> r = FS.Binf false).
Proof. exact FS.f_of_dec_spec. Qed.
Print Assumptions float_add_is_ieee.
Print Assumptions float_mul_is_ieee.
Print Assumptions float_compare_is_real_order.
Print Assumptions int_to_float_is_rounding.
Print Assumptions mixed_operands_convert_the_integer.
Print Assumptions float_literal_correctly_rounded.
(* sub / div / neg, special values (x/0, 0/0, inf-inf, NaN propagation), comparisons with NaN and infinities, mixed
   comparisons against the reals: Proofs/FloatSpec.v (f_sub_spec, f_div_spec, f_div_by_zero, f_nan_propagates, mixed_rel_real) *)

(* %v of a float64 (a float concatenated to a string): the digits the formatter model prints always denote a decimal
   inside the rounding interval it computed for the float (strictly, or on a boundary of an even mantissa), and no
   shorter decimal was inside — "shortest that reads back"; and every decimal inside that interval READS BACK as the same
   float: the model's correctly rounded decimal-literal reader (float_literal_correctly_rounded above) maps it to exactly
   the bit pattern that was formatted (positive finite non-zero floats; the sign is printed separately).  That Go prints
   the same digits, and the text layout (exponent form, padding), is validated by the fmtfloat stream, not proved. *)
Theorem fmt_shortest_inside : forall fuel f p n c k,
  FloatFmt.shortest fuel f p n = Some (c, k) -> FloatFmt.inside f c k = true.
Proof. exact FloatFmtProps.shortest_inside. Qed.
Theorem fmt_shortest_first : forall fuel f p n c k, FloatFmt.shortest fuel f p n = Some (c, k) ->
  exists n', (n <= n')%Z /\ k = (p - n' + 1)%Z /\
    forall m, (n <= m < n')%Z ->
      let km := (p - m + 1)%Z in
      let lo := if (0 <=? km)%Z then (FloatFmt.fd_x f / (FloatFmt.fd_den f * FloatFmt.pow10 km))%Z
                else (FloatFmt.fd_x f * FloatFmt.pow10 (- km) / FloatFmt.fd_den f)%Z in
      FloatFmt.inside f lo km = false /\ FloatFmt.inside f (lo + 1)%Z km = false.
Proof. exact FloatFmtProps.shortest_first. Qed.
Theorem fmt_inside_reads_back : forall bits ef mf c k,
  (0 <= bits < 2 ^ 63)%Z ->
  FloatFmt.decode bits = (0, ef, mf)%Z -> (ef < 2047)%Z -> (0 < ef \/ 0 < mf)%Z ->
  FloatFmt.inside (FloatFmt.mk_fdec ef mf) c k = true ->
  f_of_dec c k = bits.
Proof. exact FloatFmtRead.inside_reads_back. Qed.
Theorem fmt_shortest_reads_back : forall bits ef mf fuel p n c k,
  (0 <= bits < 2 ^ 63)%Z ->
  FloatFmt.decode bits = (0, ef, mf)%Z -> (ef < 2047)%Z -> (0 < ef \/ 0 < mf)%Z ->
  FloatFmt.shortest fuel (FloatFmt.mk_fdec ef mf) p n = Some (c, k) ->
  f_of_dec c k = bits.
Proof. exact FloatFmtRead.shortest_reads_back. Qed.
Print Assumptions fmt_shortest_inside.
Print Assumptions fmt_shortest_reads_back.

(* Non-vacuity: 1 + 2 * 3 < 8 && !x  is well-formed without any parenthesis and round-trips *)
Close Scope Z_scope.
Open Scope N_scope.
Example wf_example :
  let e := EBin BLAnd (EBin BLt (EBin BAdd (ELit LInt [49] 1 0) (EBin BMul (ELit LInt [50] 1 2) (ELit LInt [51] 1 4) 1 3) 1 1) (ELit LInt [56] 1 6) 1 5)
                      (EUnary UNot (EName [120] 1 9) 1 8) 1 7 in
  wf e /\ parse_expr 40 0 (print e) = Some (e, []).
Proof. split; [cbn; repeat split; auto with arith | vm_compute; reflexivity]. Qed.
