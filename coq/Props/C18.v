(* C18 — The renderer always serves the last successfully built template set. Theorems only.
   (Race freedom of concurrent Reload / Instance is checked under the Go race detector: the Go memory
   model cannot be exhibited by an executable Gallina model — partial, see DESIGN.md.) *)
From Tpl Require Import Sys.Reload Proofs.ReloadProps.

Theorem serves_last_success : forall ops i ex b first,
  nth_error ops i = Some (Render ex b) \/ nth_error ops i = Some (Get ex b) ->
  nth_error (new_render false first ops) (S i) =
    Some (match last_success None (Reload first :: firstn i ops) with
          | Some v => lookup_in v ex
          | None => ANoSet
          end).
Proof. exact ReloadProps.serves_last_success. Qed.
Theorem failed_reload_keeps_previous : forall hot s, rstep hot s (Reload BFail) = (s, AReloadErr).
Proof. exact ReloadProps.failed_reload_keeps_previous. Qed.
Theorem hot_builds_afresh : forall ops i ex b first,
  nth_error ops i = Some (Render ex b) \/ nth_error ops i = Some (Get ex b) ->
  nth_error (new_render true first ops) (S i) =
    Some (match b with BOk v => lookup_in v ex | BFail => ABuildErr end).
Proof. exact ReloadProps.hot_builds_afresh. Qed.
Theorem reload_answers : forall hot ops i b first, nth_error ops i = Some (Reload b) ->
  nth_error (new_render hot first ops) (S i) = Some (match b with BOk _ => AReloadOk | BFail => AReloadErr end).
Proof. exact ReloadProps.reload_answers. Qed.
Theorem content_type_only_if_empty : forall ex ct,
  write_content_type ex ct = match ex with [] => ct | _ => ex end.
Proof. exact ReloadProps.content_type_only_if_empty. Qed.
Print Assumptions serves_last_success.
Print Assumptions hot_builds_afresh.
Print Assumptions reload_answers.

Example reload_example :
  new_render false BFail [Render true BFail; Reload (BOk 1); Render true BFail; Reload BFail; Render false BFail; Reload (BOk 2); Get true BFail]
  = [AReloadErr; ANoSet; AReloadOk; AServed 1; AReloadErr; ANotFound 1; AReloadOk; AServed 2].
Proof. reflexivity. Qed.
