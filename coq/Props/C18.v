(* C18 — The renderer always serves the last successfully built template set. Theorems only.
   Concurrency: Sys/ReloadConc.v splits Reload and a request into their atomic steps (build; store under the lock /
   load under the read lock; look-up) and the theorems below hold for EVERY schedule of any number of threads:
   the run is linearizable with respect to the sequential model, in real-time order.  That the store and the load are
   atomic with respect to each other (sync.RWMutex) and that nothing else touches the field is checked under the Go
   race detector: the Go memory model cannot be exhibited by an executable Gallina model — partial, see DESIGN.md. *)
From Tpl Require Import Sys.Reload Proofs.ReloadProps Sys.ReloadConc Proofs.ReloadConcProps.

Theorem serves_last_success : forall ops i ex b first,
  nth_error ops i = Some (Render ex b) \/ nth_error ops i = Some (Get ex b) ->
  nth_error (new_render false first ops) (S i) =
    Some (match last_success None (Reload first :: firstn i ops) with
          | Some v => lookup_in v ex
          | None => ANoSet
          end).
Proof. exact ReloadProps.serves_last_success. Qed.
Theorem failed_reload_keeps_previous : forall hot s, rstep hot s (Reload BFail) = (s, AReloadErr).
Proof. exact ReloadProps.failed_reload_keeps_previous. Qed.
Theorem hot_builds_afresh : forall ops i ex b first,
  nth_error ops i = Some (Render ex b) \/ nth_error ops i = Some (Get ex b) ->
  nth_error (new_render true first ops) (S i) =
    Some (match b with BOk v => lookup_in v ex | BFail => ABuildErr end).
Proof. exact ReloadProps.hot_builds_afresh. Qed.
Theorem reload_answers : forall hot ops i b first, nth_error ops i = Some (Reload b) ->
  nth_error (new_render hot first ops) (S i) = Some (match b with BOk _ => AReloadOk | BFail => AReloadErr end).
Proof. exact ReloadProps.reload_answers. Qed.
Theorem content_type_only_if_empty : forall ex ct,
  write_content_type ex ct = match ex with [] => ct | _ => ex end.
Proof. exact ReloadProps.content_type_only_if_empty. Qed.
(* ---- every schedule of concurrent Reloads and requests ---- *)
Theorem no_torn_state : forall c threads sched, fresh threads ->
  c_cur (crun (conc_init c threads) sched) = last_success c (ops_of threads (c_lin (crun (conc_init c threads) sched))).
Proof. exact ReloadConcProps.no_torn_state. Qed.
Theorem lin_nodup : forall c threads sched, fresh threads -> NoDup (c_lin (crun (conc_init c threads) sched)).
Proof. exact ReloadConcProps.lin_nodup. Qed.
Theorem linearizable : forall c threads sched i a, fresh threads ->
  nth_error (c_threads (crun (conc_init c threads) sched)) i = Some (TDone a) ->
  exists k, index_of (c_lin (crun (conc_init c threads) sched)) i = Some k /\
            nth_error (run false (mkRS c) (ops_of threads (c_lin (crun (conc_init c threads) sched)))) k = Some a.
Proof. exact ReloadConcProps.linearizable. Qed.
Theorem real_time_order : forall c threads sched s1 s2 i j kj, fresh threads ->
  sched = s1 ++ s2 ->
  (exists ai, nth_error (c_threads (crun (conc_init c threads) s1)) i = Some (TDone ai)) ->
  ~ In j s1 ->
  index_of (c_lin (crun (conc_init c threads) sched)) j = Some kj ->
  exists ki, index_of (c_lin (crun (conc_init c threads) sched)) i = Some ki /\ ki < kj.
Proof. exact ReloadConcProps.real_time_order. Qed.
Theorem request_after_reload_sees_it : forall c threads sched s1 s2 r q v ex a, fresh threads ->
  sched = s1 ++ s2 ->
  nth_error threads r = Some (TReload (BOk v)) -> nth_error threads q = Some (TReq ex) ->
  nth_error (c_threads (crun (conc_init c threads) s1)) r = Some (TDone AReloadOk) -> ~ In q s1 ->
  nth_error (c_threads (crun (conc_init c threads) sched)) q = Some (TDone a) ->
  exists v', a = lookup_in v' ex /\
    (v' = v \/ exists r' kr kr' kq, r' <> r /\ nth_error threads r' = Some (TReload (BOk v')) /\
       index_of (c_lin (crun (conc_init c threads) sched)) r = Some kr /\
       index_of (c_lin (crun (conc_init c threads) sched)) r' = Some kr' /\
       index_of (c_lin (crun (conc_init c threads) sched)) q = Some kq /\ kr < kr' /\ kr' < kq).
Proof. exact ReloadConcProps.request_after_reload_sees_it_strong. Qed.
Print Assumptions linearizable.
Print Assumptions real_time_order.
Print Assumptions request_after_reload_sees_it.
Print Assumptions serves_last_success.
Print Assumptions hot_builds_afresh.
Print Assumptions reload_answers.

Example reload_example :
  new_render false BFail [Render true BFail; Reload (BOk 1); Render true BFail; Reload BFail; Render false BFail; Reload (BOk 2); Get true BFail]
  = [AReloadErr; ANoSet; AReloadOk; AServed 1; AReloadErr; ANotFound 1; AReloadOk; AServed 2].
Proof. reflexivity. Qed.

(* a request's load falls between a Reload's build and its store: it is served from the old set, and linearized first *)
Example conc_example :
  let s := crun (conc_init (Some 0) [TReload (BOk 1); TReq true; TReload BFail; TReq false; TReload (BOk 2)]) [0; 1; 0; 2; 1; 3; 3] in
  c_lin s = [1; 0; 2; 3] /\ c_cur s = Some 1 /\
  c_threads s = [TDone AReloadOk; TDone (AServed 0); TDone AReloadErr; TDone (ANotFound 1); TReload (BOk 2)].
Proof. repeat split; reflexivity. Qed.
