(* Shared text definitions: a rune is a Unicode scalar value, a string a list of runes. *)
From Coq Require Export List NArith Bool.
Export ListNotations.
Open Scope N_scope.

Definition rune := N.
Definition str := list rune.
Definition pos := (N * N)%type.

Definition cLT := 60. Definition cGT := 62. Definition cEQ := 61.
Definition cDQ := 34. Definition cSQ := 39. Definition cNL := 10. Definition cTAB := 9.
Definition cBANG := 33. Definition cDASH := 45. Definition cSLASH := 47.
Definition cLBR := 91. Definition cRBR := 93. Definition cSP := 32.
Definition cDOLLAR := 36. Definition cLB := 123. Definition cRB := 125.
Definition cBQ := 96. Definition cBS := 92. Definition cAMP := 38. Definition cSEMI := 59.
Definition cCOLON := 58. Definition cCOMMA := 44. Definition cSTAR := 42. Definition cCR := 13.
Definition cHASH := 35.

(* Source positions: the specification of line/column bookkeeping (tab = 4 columns). *)
Definition adv (p : pos) (r : rune) : pos :=
  if N.eqb r cNL then (fst p + 1, 1)
  else if N.eqb r cTAB then (fst p, snd p + 4)
  else (fst p, snd p + 1).
Definition pos_after (p : pos) (s : str) : pos := fold_left adv s p.

Fixpoint str_eqb (a b : str) : bool :=
  match a, b with
  | [], [] => true
  | x :: a', y :: b' => N.eqb x y && str_eqb a' b'
  | _, _ => false
  end.
Fixpoint prefixb (p s : str) : bool := (* p is a prefix of s *)
  match p, s with
  | [], _ => true
  | x :: p', y :: s' => N.eqb x y && prefixb p' s'
  | _, _ => false
  end.
Definition suffixb (p s : str) : bool := prefixb (rev p) (rev s).
Fixpoint containsb (p s : str) : bool :=
  prefixb p s || match s with [] => false | _ :: s' => containsb p s' end.
Definition drop_last (n : nat) (s : str) : str := firstn (length s - n) s.
Definition trim_prefix (p s : str) : str := if prefixb p s then skipn (length p) s else s.
Definition trim_suffix (p s : str) : str := if suffixb p s then drop_last (length p) s else s.

Fixpoint drop_while (f : rune -> bool) (s : str) : str :=
  match s with
  | [] => []
  | c :: t => if f c then drop_while f t else s
  end.
Definition trim_left (f : rune -> bool) (s : str) := drop_while f s.
Definition trim_right (f : rune -> bool) (s : str) := rev (drop_while f (rev s)).
Definition trim_space (f : rune -> bool) (s : str) := trim_right f (trim_left f s).

(* index of the first occurrence of rune c *)
Fixpoint index_of (c : rune) (s : str) : option nat :=
  match s with
  | [] => None
  | x :: t => if N.eqb x c then Some O else option_map S (index_of c t)
  end.

(* lexicographic order on rune lists = Go's byte order on valid UTF-8 *)
Fixpoint str_compare (a b : str) : comparison :=
  match a, b with
  | [], [] => Eq
  | [], _ => Lt
  | _, [] => Gt
  | x :: a', y :: b' => match N.compare x y with Eq => str_compare a' b' | c => c end
  end.
