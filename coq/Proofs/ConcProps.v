From Tpl Require Import Sys.Conc.
From Coq Require Import Arith Lia.

Lemma filter_all_id {A} (f : A -> bool) (l : list A) : (forall x, In x l -> f x = true) -> filter f l = l.
Proof. induction l as [|x r IH]; intros H; cbn; [reflexivity|]. rewrite (H x (or_introl eq_refl)). f_equal. apply IH. intros y Hy. apply H. right. exact Hy. Qed.
Lemma str_eqb_true : forall a b : str, str_eqb a b = true -> a = b.
Proof. induction a as [|x s IH]; intros [|y t] E; try discriminate; [reflexivity|]. cbn in E. apply andb_prop in E as [E1 E2]. apply N.eqb_eq in E1. subst. f_equal. apply IH. exact E2. Qed.

Lemma build_map_length : forall l m, NoDup (map a_name l) ->
  (forall a, In a l -> ~ In (a_name a) (map fst m)) -> NoDup (map fst m) ->
  length (build_map l m) = (length l + length m)%nat.
Proof.
  induction l as [|a r IH]; intros m Hnd Hfresh Hm; cbn [build_map length].
  - reflexivity.
  - inversion Hnd as [|x xs Hnotin Hnd']; subst.
    assert (Hf : filter (fun kv => negb (str_eqb (fst kv) (a_name a))) m = m).
    { apply filter_all_id. intros kv Hin.
      destruct (str_eqb (fst kv) (a_name a)) eqn:E; [|reflexivity]. exfalso.
      apply (Hfresh a (or_introl eq_refl)). rewrite <- (str_eqb_true _ _ E). apply in_map. exact Hin. }
    rewrite Hf. rewrite IH.
    + cbn [length]. lia.
    + exact Hnd'.
    + intros b Hb Hin. cbn [map fst] in Hin. destruct Hin as [Hin|Hin].
      * apply Hnotin. rewrite Hin. apply in_map. exact Hb.
      * apply (Hfresh b (or_intror Hb)). exact Hin.
    + cbn [map fst]. constructor; [|exact Hm]. apply Hfresh. left. reflexivity.
Qed.

(* a tag published by the scanner (distinct attribute names: AddAttr rejects duplicates) is
   cache-complete: neither accessor ever writes to it again *)
Theorem published_never_written : forall attrs, NoDup (map a_name attrs) ->
  snd (attr_map (published attrs)) = false /\ snd (sorted_attr (published attrs)) = false /\
  fst (attr_map (published attrs)) = published attrs.
Proof.
  intros attrs Hnd.
  assert (Hp : published attrs = mkTC attrs (Some (build_map attrs []))) by reflexivity.
  assert (Hl : length (build_map attrs []) = length attrs).
  { rewrite build_map_length; [cbn [length]; lia|exact Hnd|intros a _ []|constructor]. }
  rewrite Hp. unfold attr_map, sorted_attr. cbn [tc_map tc_attrs fst snd].
  rewrite Hl, Nat.eqb_refl. cbn [fst snd]. repeat split.
Qed.

Section SchedProps.
Variables Sh Pv : Type.
Variable step : Sh -> Pv -> Pv.
Notation run := (run_sched Sh Pv step).

Lemma upd_nth_same : forall (l : list Pv) i f p, nth_error l i = Some p -> nth_error (upd Pv l i f) i = Some (f p).
Proof. induction l as [|x r IH]; intros [|i] f p H; cbn in *; try discriminate; [injection H as ->; reflexivity| apply IH; exact H]. Qed.
Lemma upd_nth_other : forall (l : list Pv) i j f, i <> j -> nth_error (upd Pv l i f) j = nth_error l j.
Proof. induction l as [|x r IH]; intros [|i] [|j] f H; cbn; try reflexivity; try congruence. apply IH. congruence. Qed.
Lemma upd_nth_none : forall (l : list Pv) i f, nth_error l i = None -> upd Pv l i f = l.
Proof. induction l as [|x r IH]; intros [|i] f H; cbn in *; try reflexivity; try discriminate. f_equal. apply IH. exact H. Qed.

(* Every interleaving gives each execution exactly the state it reaches when it runs alone for as
   many steps as the schedule gave it: the shared state is only read, so the others cannot matter. *)
Theorem interleaving_equals_serial : forall sh sched threads i p,
  nth_error threads i = Some p ->
  nth_error (run sh threads sched) i = Some (iter Pv (count_occ Nat.eq_dec sched i) (step sh) p).
Proof.
  induction sched as [|j r IH]; intros threads i p H; cbn [run_sched count_occ iter].
  - exact H.
  - destruct (Nat.eq_dec j i) as [->|Hne].
    + cbn [iter]. apply IH. apply upd_nth_same. exact H.
    + apply IH. rewrite upd_nth_other; [exact H|exact Hne].
Qed.
End SchedProps.
Print Assumptions published_never_written.
Print Assumptions interleaving_equals_serial.
