(* scan_concat: the values of the tokens of a successful scan concatenate to the source. *)
From Coq Require Import List NArith Bool Lia Arith.
From Tpl Require Import Proofs.ScanSpec.
Import ListNotations.
Open Scope N_scope.

(* ---------- generic string facts ---------- *)

Lemma prefixb_spec p s : prefixb p s = true -> exists t, s = p ++ t.
Proof.
  revert s; induction p as [|x p IH]; intros s H; cbn [prefixb] in H.
  - exists s; reflexivity.
  - destruct s as [|y s]; [discriminate|].
    apply andb_true_iff in H as [H1 H2]. apply N.eqb_eq in H1; subst y.
    destruct (IH _ H2) as [t ->]. exists t; reflexivity.
Qed.

Lemma suffixb_spec p s : suffixb p s = true -> s = drop_last (length p) s ++ p.
Proof.
  unfold suffixb, drop_last; intros H. apply prefixb_spec in H as [t Ht].
  assert (s = rev t ++ p) as E.
  { rewrite <- (rev_involutive s), Ht, rev_app_distr, rev_involutive; reflexivity. }
  rewrite E at 2 3. rewrite app_length.
  replace (length (rev t) + length p - length p)%nat with (length (rev t)) by lia.
  rewrite firstn_app, Nat.sub_diag, firstn_all; cbn [firstn]. rewrite app_nil_r. exact E.
Qed.

Lemma str_eqb_eq a b : str_eqb a b = true -> a = b.
Proof.
  revert b; induction a as [|x a IH]; destruct b as [|y b]; cbn [str_eqb]; try discriminate; auto.
  intros H. apply andb_true_iff in H as [H1 H2]. apply N.eqb_eq in H1. f_equal; auto.
Qed.

Lemma firstn_pre_app (pre tb : str) (r : rune) :
  firstn (length (pre ++ tb) + 1 - length (tb ++ [r])) (pre ++ tb) = pre.
Proof.
  rewrite !app_length. cbn [length].
  replace (length pre + length tb + 1 - (length tb + 1))%nat with (length pre) by lia.
  rewrite firstn_app, Nat.sub_diag, firstn_all. cbn [firstn]. apply app_nil_r.
Qed.

(* concatenated values of a reversed token list *)
Definition vals (toks : list token) : str := concat (map t_value (rev toks)).

Lemma vals_cons t toks : vals (t :: toks) = vals toks ++ t_value t.
Proof. unfold vals; cbn [rev]. rewrite map_app, concat_app; cbn [map concat]. rewrite app_nil_r; reflexivity. Qed.

(* shape of the tag buffer in the states whose emitted value is rebuilt from parts *)
Definition tag_ok (g : tagst) : Prop :=
  match g_state g with
  | TName => g_buf g = cLT :: g_name g /\ g_comment g = [] /\ g_cdata g = []
  | TComment => g_buf g = sLTBDD ++ g_comment g
  | TCData => g_buf g = (cLT :: sCDATA) ++ g_cdata g
  | _ => True
  end.

Ltac tag_cbn :=
  cbn [g_state g_buf g_name g_comment g_cdata set_g g_attrs g_aname g_anstart g_anend
       g_aval g_avstart g_avend g_start].
Ltac tag_cbn_in H :=
  cbn [g_state g_buf g_name g_comment g_cdata set_g g_attrs g_aname g_anstart g_anend
       g_aval g_avstart g_avend g_start] in H.
Ltac text_cbn := cbn [x_buf x_start x_raw x_close x_rawname x_end x_tagbuf x_namebuf].
Ltac text_cbn_in H := cbn [x_buf x_start x_raw x_close x_rawname x_end x_tagbuf x_namebuf] in H.

Section P.
Variable is_space : rune -> bool.
Variable to_lower : rune -> rune.
Variable text_tags : list str.
Variable attr_prefix : str.
Variable compile : attr -> bool.

Notation dispatch := (Scan.dispatch is_space to_lower text_tags attr_prefix compile).
Notation step := (Scan.step is_space to_lower text_tags attr_prefix compile).
Notation tag_step := (Scan.tag_step is_space attr_prefix compile).
Notation text_step := (Scan.text_step is_space to_lower).
Notation scan := (Scan.scan is_space to_lower text_tags attr_prefix compile).
Notation add_attr := (Scan.add_attr attr_prefix compile).
Notation new_text := (Scan.new_text to_lower text_tags).

Lemma add_attr_buf b a g g' : add_attr b a g = inl g' ->
  g_buf g' = g_buf g /\ g_state g' = g_state g /\ g_start g' = g_start g.
Proof.
  unfold Scan.add_attr. destruct (b && negb _); [discriminate|].
  destruct (has_attr _ _); [discriminate|]. intros H; inversion H; subst g'; tag_cbn; auto.
Qed.

Lemma new_text_buf toks p0 : x_buf (new_text toks p0) = [] /\ x_tagbuf (new_text toks p0) = [].
Proof. unfold Scan.new_text. destruct (raw_tag_of_last _ _ _); text_cbn; auto. Qed.

(* the second dispatch of an unread rune (always in TAttrName) never unreads again *)
Lemma attrname_no_unread toks g r p0 p1 toks' m' u :
  g_state g = TAttrName -> tag_step toks g r p0 p1 = TR toks' m' u -> u = false.
Proof.
  intros Hst E. unfold Scan.tag_step in E. tag_cbn_in E. rewrite Hst in E.
  repeat match type of E with context [if ?b then _ else _] => destruct b end;
  repeat match type of E with context [match ?a with inl _ => _ | inr _ => _ end] => destruct a end;
  unfold finish_or in E;
  repeat match type of E with context [if ?b then _ else _] => destruct b end;
  inversion E; reflexivity.
Qed.

(* ---------- the invariant ---------- *)

Definition minv (toks : list token) (m : mode) (consumed : str) : Prop :=
  match m with
  | MInit => vals toks = consumed
  | MText x => vals toks ++ x_buf x = consumed /\ (x_raw x = true -> exists pre, x_buf x = pre ++ x_tagbuf x)
  | MTag g => vals toks ++ g_buf g = consumed /\ tag_ok g
  | MErr _ => True
  end.

Definition rinv (res : tres) (c : str) (r : rune) : Prop :=
  match res with
  | TR toks m false => minv toks m (c ++ [r])
  | TR toks m true => exists g, m = MTag g /\ g_state g = TAttrName /\ vals toks ++ g_buf g = c
  end.

Lemma finish_or_inv toks g r p1 c :
  vals toks ++ g_buf g = c ++ [r] -> tag_ok g ->
  rinv (finish_or toks g r p1) c r.
Proof.
  intros H Hok. unfold finish_or, emit_tag. destruct (N.eqb r cGT) eqn:Egt; cbn [rinv minv].
  - rewrite vals_cons; cbn [t_value]. exact H.
  - split; assumption.
Qed.

Lemma finish_or_emit toks g r p1 c :
  N.eqb r cGT = true -> vals toks ++ g_buf g = c ++ [r] ->
  rinv (finish_or toks g r p1) c r.
Proof.
  intros Egt H. unfold finish_or, emit_tag. rewrite Egt. cbn [rinv minv].
  rewrite vals_cons; cbn [t_value]. exact H.
Qed.

Lemma tag_step_inv toks g r p0 p1 c :
  vals toks ++ g_buf g = c -> tag_ok g ->
  rinv (tag_step toks g r p0 p1) c r.
Proof.
  intros H Hok. unfold Scan.tag_step.
  assert (Hb : vals toks ++ (g_buf g ++ [r]) = c ++ [r]) by (rewrite app_assoc, H; reflexivity).
  unfold tag_ok in Hok.
  destruct (g_state g) eqn:Est; tag_cbn.
  - (* TName *)
    destruct Hok as (Hb0 & Hc0 & Hd0).
    destruct (N.eqb r cGT) eqn:Egt.
    + apply finish_or_emit; [exact Egt|exact Hb].
    + destruct (is_space r) eqn:Esp.
      * cbn [rinv minv]. split; [exact Hb| exact I].
      * apply finish_or_inv; tag_cbn; [exact Hb|].
        unfold tag_ok; tag_cbn.
        destruct (str_eqb (g_name g ++ [r]) sBANGDD) eqn:E1.
        { apply str_eqb_eq in E1. rewrite Hb0, Hc0, app_nil_r. cbn [app]. rewrite E1. reflexivity. }
        destruct (str_eqb (g_name g ++ [r]) sCDATA) eqn:E2.
        { apply str_eqb_eq in E2. rewrite Hb0, Hd0, app_nil_r. cbn [app]. rewrite E2. reflexivity. }
        rewrite Hb0. auto.
  - (* TCData *)
    destruct (suffixb sRRGT (g_cdata g ++ [r])) eqn:E; cbn [rinv minv].
    + rewrite vals_cons; cbn [t_value]. rewrite <- Hb, Hok. rewrite <- !app_assoc. reflexivity.
    + split; tag_cbn; [exact Hb|]. unfold tag_ok; tag_cbn. rewrite Hok, <- !app_assoc. reflexivity.
  - (* TComment *)
    set (ct := g_comment g ++ [r]).
    destruct (suffixb sDDGT ct) eqn:E.
    + destruct (prefixb [cGT] _ || prefixb [cDASH; cGT] _) eqn:Ebad; [exact I|].
      destruct (containsb sLTBDD _ || containsb sDDGT _ || containsb sDDBGT _) eqn:Ebad2; [exact I|].
      destruct (suffixb sLTBD _) eqn:Ebad3; [exact I|].
      cbn [rinv minv]. rewrite vals_cons; cbn [t_value].
      apply suffixb_spec in E. change (length sDDGT) with 3%nat in E.
      rewrite <- Hb, Hok. f_equal. rewrite <- app_assoc. f_equal. symmetry; exact E.
    + destruct (prefixb [cGT] _ || prefixb [cDASH; cGT] _) eqn:Ebad; [exact I|].
      cbn [rinv minv]. split; tag_cbn; [exact Hb|]. unfold tag_ok; tag_cbn.
      rewrite Hok. unfold ct. rewrite <- app_assoc. reflexivity.
  - (* TSpace *)
    destruct (N.eqb r cGT) eqn:Egt.
    + apply finish_or_inv; [exact Hb| exact I].
    + destruct (is_space r) eqn:Esp; cbn [rinv minv].
      * split; [exact Hb| exact I].
      * eexists; split; [reflexivity|]. tag_cbn. split; [reflexivity| exact H].
  - (* TAttrName *)
    destruct (is_space r) eqn:Esp; [cbn [rinv minv]; split; [exact Hb| exact I]|].
    destruct (N.eqb r cGT) eqn:Egt.
    + destruct (add_attr _ _ _) as [g'|e] eqn:Ea; [|exact I].
      apply add_attr_buf in Ea as (Eb & Es & _). tag_cbn_in Eb. tag_cbn_in Es.
      apply finish_or_inv; [rewrite Eb; exact Hb|]. unfold tag_ok; rewrite Es; exact I.
    + destruct (N.eqb r cEQ) eqn:Eeq; [cbn [rinv minv]; split; [exact Hb| exact I]|].
      destruct (ends_sp (g_aname g)) eqn:Eends.
      * destruct (add_attr _ _ _) as [g'|e] eqn:Ea; [|exact I].
        apply add_attr_buf in Ea as (Eb & Es & _). tag_cbn_in Eb. tag_cbn_in Es.
        cbn [rinv minv]. tag_cbn. rewrite Eb. split; [exact Hb| exact I].
      * cbn [rinv minv]. split; [exact Hb| exact I].
  - (* TAttrValue *)
    destruct (g_aval g) as [|f av] eqn:Eav.
    + destruct (is_space r) eqn:Esp; [cbn [rinv minv]; split; [exact Hb| exact I]|].
      destruct (N.eqb r cGT) eqn:Egt.
      * destruct (add_attr _ _ _) as [g'|e] eqn:Ea; [|exact I].
        apply add_attr_buf in Ea as (Eb & Es & _). tag_cbn_in Eb. tag_cbn_in Es.
        apply finish_or_inv; [rewrite Eb; exact Hb|]. unfold tag_ok; rewrite Es; exact I.
      * cbn [rinv minv]. split; [exact Hb| exact I].
    + destruct ((N.eqb f cDQ || N.eqb f cSQ) && N.eqb f r
                || negb (N.eqb f cDQ || N.eqb f cSQ) && (is_space r || N.eqb r cGT)) eqn:Efin.
      * destruct (add_attr _ _ _) as [g'|e] eqn:Ea; [|exact I].
        apply add_attr_buf in Ea as (Eb & Es & _). tag_cbn_in Eb. tag_cbn_in Es.
        apply finish_or_inv; tag_cbn; [rewrite Eb; exact Hb| exact I].
      * destruct (N.eqb f cDQ || N.eqb f cSQ) eqn:Eq.
        -- cbn [rinv minv]. split; [exact Hb| exact I].
        -- apply finish_or_inv; [exact Hb| exact I].
Qed.

Lemma text_step_inv toks x r p0 p1 c :
  vals toks ++ x_buf x = c -> (x_raw x = true -> exists pre, x_buf x = pre ++ x_tagbuf x) ->
  rinv (text_step toks x r p0 p1) c r.
Proof.
  intros H Hraw. unfold Scan.text_step.
  assert (Hb : vals toks ++ (x_buf x ++ [r]) = c ++ [r]) by (rewrite app_assoc, H; reflexivity).
  destruct (x_raw x) eqn:Er.
  - destruct (Hraw eq_refl) as [pre Hpre].
    destruct (N.eqb r cLT) eqn:Elt.
    + (* '<' resets: tagbuf=[], closing=true *)
      cbn [negb]. text_cbn.
      destruct (prefixb _ _) eqn:Ecl.
      * destruct (N.eqb r cGT) eqn:Egt.
        { apply N.eqb_eq in Elt, Egt. subst r. discriminate. }
        cbn [rinv minv]. text_cbn. split; [exact Hb|]. intros _. exists (x_buf x). reflexivity.
      * cbn [rinv minv]. text_cbn. split; [exact Hb|]. intros _. exists (x_buf x ++ [r]). rewrite app_nil_r; reflexivity.
    + destruct (x_tagbuf x) as [|t0 tb] eqn:Etb.
      * (* not closing *)
        cbn [negb rinv minv]. text_cbn. split; [exact Hb|]. intros _. exists (x_buf x ++ [r]). rewrite app_nil_r; reflexivity.
      * cbn [negb].
        destruct (prefixb _ _) eqn:Ecl.
        -- destruct (N.eqb r cGT) eqn:Egt.
           ++ rewrite Hpre, firstn_pre_app.
              destruct pre as [|p pre']; cbn [rinv minv]; rewrite !vals_cons; cbn [t_value];
                rewrite <- Hb, Hpre, <- ?app_assoc; reflexivity.
           ++ cbn [rinv minv]. text_cbn. split; [exact Hb|]. intros _. exists pre. rewrite Hpre, <- app_assoc. reflexivity.
        -- cbn [rinv minv]. text_cbn. split; [exact Hb|]. intros _. exists (x_buf x ++ [r]). rewrite app_nil_r; reflexivity.
  - destruct (N.eqb r cLT) eqn:Elt.
    + apply N.eqb_eq in Elt; subst r.
      cbn [rinv minv]. rewrite vals_cons. cbn [t_value]. split.
      * unfold new_tag; tag_cbn. rewrite <- Hb, <- app_assoc. reflexivity.
      * unfold tag_ok, new_tag; tag_cbn. auto.
    + cbn [rinv minv]. text_cbn. split; [exact Hb|]. discriminate.
Qed.

Lemma dispatch_inv toks m r p0 p1 c :
  minv toks m c -> rinv (dispatch toks m r p0 p1) c r.
Proof.
  intros H. destruct m as [|x|g|e]; cbn [Scan.dispatch].
  - cbn [minv] in H.
    assert (Htext : rinv (text_step toks (new_text toks p0) r p0 p1) c r).
    { destruct (new_text_buf toks p0) as [E1 E2].
      apply text_step_inv; [rewrite E1, app_nil_r; exact H|]. intros _. exists []. rewrite E1, E2. reflexivity. }
    destruct (raw_tag_of_last _ _ _) as [n|]; [exact Htext|].
    destruct (N.eqb r cLT) eqn:Elt; [|exact Htext].
    apply N.eqb_eq in Elt; subst r. cbn [rinv minv]. split; [unfold new_tag; tag_cbn; rewrite H; reflexivity|].
    unfold tag_ok, new_tag; tag_cbn; auto.
  - destruct H as [H1 H2]. apply text_step_inv; assumption.
  - destruct H as [H1 H2]. apply tag_step_inv; assumption.
  - exact I.
Qed.

Lemma step_inv s r c :
  minv (s_toks s) (s_mode s) c ->
  minv (s_toks (step s r)) (s_mode (step s r)) (c ++ [r]).
Proof.
  intros H. unfold Scan.step.
  pose proof (dispatch_inv (s_toks s) (s_mode s) r (s_pos s) (adv (s_pos s) r) c H) as D.
  destruct (dispatch _ _ _ _ _) as [toks m [|]] eqn:E1; cbn [rinv] in D.
  - destruct D as (g & -> & Hst & Hc).
    assert (M : minv toks (MTag g) c) by (split; [exact Hc| unfold tag_ok; rewrite Hst; exact I]).
    pose proof (dispatch_inv toks (MTag g) r (s_pos s) (adv (s_pos s) r) c M) as D2.
    destruct (dispatch toks (MTag g) _ _ _) as [toks' m' u] eqn:E2.
    cbn [Scan.dispatch] in E2. apply attrname_no_unread in E2; [|exact Hst]. subst u.
    cbn [s_toks s_mode]. exact D2.
  - cbn [s_toks s_mode]. exact D.
Qed.

Lemma fold_inv src : forall s c,
  minv (s_toks s) (s_mode s) c ->
  minv (s_toks (fold_left step src s)) (s_mode (fold_left step src s)) (c ++ src).
Proof.
  induction src as [|r src IH]; intros s c H; cbn [fold_left].
  - rewrite app_nil_r; exact H.
  - replace (c ++ r :: src) with ((c ++ [r]) ++ src) by (rewrite <- app_assoc; reflexivity).
    apply IH. apply step_inv; exact H.
Qed.

Theorem scan_concat (src : str) (toks : list token) :
  scan src = inl toks -> concat (map t_value toks) = src.
Proof.
  unfold Scan.scan, finish. intros H.
  pose proof (fold_inv src init [] eq_refl) as F. cbn [app] in F.
  destruct (s_mode (fold_left step src init)) as [|x|g|e] eqn:Em; cbn [minv] in F.
  - inversion H; subst toks. exact F.
  - inversion H; subst toks. destruct F as [F _].
    change (vals (mkTok KText (x_buf x) (x_start x) (s_pos (fold_left step src init)) [] []
                  :: s_toks (fold_left step src init)) = src).
    rewrite vals_cons. exact F.
  - discriminate.
  - discriminate.
Qed.
End P.

Check (scan_concat : forall (is_space : rune -> bool) (to_lower : rune -> rune) (text_tags : list str)
    (attr_prefix : str) (compile : attr -> bool) (src : str) (toks : list token),
  scan is_space to_lower text_tags attr_prefix compile src = inl toks ->
  concat (map t_value toks) = src).
Print Assumptions scan_concat.
