(* C05, clause "a dynamic attribute replaces the static attribute of the same name".

   The renderer (processTagStart = exec_tag / run_attrs / attr_step) walks the attributes of a tag in
   Tag.SortedAttr order.  A PLAIN attribute  n=raw  is appended to the tag buffer unless the tag has an
   attribute named exactly  prefix++n  (has_attr_named, a case-sensitive comparison over ALL attributes
   of the tag, wherever they are written); a DYNAMIC attribute  prefix++n="..."  appends
   n="escape(value)".  Nothing else is looked at: there is no set of "already printed names".

   This file: for ANY element whose prefixed attributes are all dynamic (no control/content directive),
   any tag name, any plain attributes, any written order, the whole render is an EQUATION:

     dynamic_replaces_static_in_order   exec_body = <name ++ spec_parts (processing order) ++ > children end,
                                         for arbitrary attribute names;
     sorted_keeps_written_order          in that processing order the dynamic attributes keep their written
                                         order and the plain ones keep theirs;
     sorted_dyn_then_static              if no plain attribute is NAMED with/if/else-if/elseif/elif/else/range/
                                         remove, the processing order is: dynamic ones, then plain ones;
     dynamic_replaces_static             hence  exec_body = spec_open_tag name statics dyns values ++ children ++ end;
     dynamic_replaces_static_ok / _node  the successful case as a triple (output, ROk, state);
     printed_names_distinct              with pairwise different attribute names (the scanner rejects a repeated
                                         name, EDupAttr) every printed attribute name is printed once.

   Observed behaviour that the clause does not promise is recorded as  Example ..._observed  at the end. *)
From Coq Require Import List NArith ZArith Bool Lia String Ascii Permutation.
From Tpl Require Import Html.Exec Html.Manager Proofs.ExecSpec Proofs.EmitProps Proofs.SortProps Proofs.RenderPlain
  Proofs.ReadbackExample.
Import ListNotations.
Open Scope N_scope.

(* ------------------------------------------------------------------------------------------ *)
(* strings                                                                                     *)
(* ------------------------------------------------------------------------------------------ *)
Lemma dr_prefixb_app : forall p s, prefixb p (p ++ s) = true.
Proof. induction p as [|x p IH]; intros s; [reflexivity|]. cbn [prefixb app]. rewrite N.eqb_refl. apply IH. Qed.
Lemma dr_skipn_app : forall (p s : str), skipn (length p) (p ++ s) = s.
Proof. induction p as [|x p IH]; intros s; [reflexivity|]. cbn [length app skipn]. apply IH. Qed.
Lemma dr_prefixb_split : forall p s, prefixb p s = true -> s = p ++ skipn (length p) s.
Proof.
  induction p as [|x p IH]; intros s H; [reflexivity|].
  destruct s as [|c s]; cbn [prefixb] in H; [discriminate H|].
  apply andb_prop in H. destruct H as [Hx Hp]. apply N.eqb_eq in Hx. subst c.
  cbn [length skipn app]. f_equal. apply IH. exact Hp.
Qed.
Lemma dr_seqb_refl : forall s, str_eqb s s = true.
Proof. induction s as [|c s IH]; [reflexivity|]. cbn [str_eqb]. rewrite N.eqb_refl. exact IH. Qed.
Lemma dr_seqb_true : forall a b, str_eqb a b = true -> a = b.
Proof.
  induction a as [|x a IH]; intros b H; destruct b as [|y b]; cbn [str_eqb] in H; try discriminate H; [reflexivity|].
  apply andb_prop in H. destruct H as [Hx Hr]. apply N.eqb_eq in Hx. subst y. f_equal. apply IH. exact Hr.
Qed.
(* x = p ++ s  iff  p is a prefix of x and the rest is s *)
Lemma dr_seqb_pfx : forall p x s, str_eqb x (p ++ s) = prefixb p x && str_eqb (skipn (length p) x) s.
Proof.
  induction p as [|y p IH]; intros x s; [reflexivity|].
  destruct x as [|c x]; [reflexivity|].
  cbn [app str_eqb prefixb length skipn]. rewrite IH, (N.eqb_sym y c), andb_assoc. reflexivity.
Qed.

Lemma dr_weight_nondir : forall cmd, is_directive cmd = false -> weight cmd = 0%Z.
Proof.
  intros cmd Hd. unfold is_directive, directive_names in Hd. cbn [existsb] in Hd.
  repeat (apply orb_false_elim in Hd; destruct Hd as [? Hd]).
  apply weight_other; try assumption.
  unfold is_cond_name, cond_names. cbn [existsb].
  repeat match goal with H : str_eqb cmd _ = false |- _ => rewrite H; clear H end. reflexivity.
Qed.

Lemma dr_NoDup_app : forall (A : Type) (l1 l2 : list A), NoDup l1 -> NoDup l2 ->
  (forall x, In x l1 -> ~ In x l2) -> NoDup (l1 ++ l2).
Proof.
  intros A l1 l2 H1 H2 Hd. induction H1 as [|x l Hx Hl IH]; cbn [app]; [exact H2|].
  constructor.
  - intros Hin. apply in_app_or in Hin. destruct Hin as [Hin|Hin]; [exact (Hx Hin)|].
    exact (Hd x (or_introl eq_refl) Hin).
  - apply IH. intros y Hy. apply Hd. right. exact Hy.
Qed.
Lemma dr_NoDup_map_filter : forall (A B : Type) (g : A -> B) (f : A -> bool) l,
  NoDup (map g l) -> NoDup (map g (filter f l)).
Proof.
  intros A B g f l. induction l as [|a l IH]; intros H; cbn [filter map]; [constructor|].
  cbn [map] in H. inversion H as [|y r Hy Hr]; subst y r.
  destruct (f a); [|apply IH; exact Hr].
  cbn [map]. constructor; [|apply IH; exact Hr].
  intros Hin. apply Hy. apply in_map_iff in Hin. destruct Hin as [b [Hb Hin]].
  apply in_map_iff. exists b. split; [exact Hb|]. apply filter_In in Hin. exact (proj1 Hin).
Qed.

(* ------------------------------------------------------------------------------------------ *)
Section DynReplaces.
Variable is_space : rune -> bool.
Variable to_lower : rune -> rune.
Variable is_letter : rune -> bool.
Variable is_udigit : rune -> bool.
Variable methods : N -> bool -> list (str * N).
Variable call_fn : N -> list value -> fres.
Variable mgr : manager.

Notation pfx := (m_attr_prefix mgr).
Notation aeval := (attr_evaluate is_letter is_udigit methods call_fn mgr).
Notation astep := (attr_step is_space is_letter is_udigit methods call_fn mgr).
Notation rattrs := (run_attrs is_space is_letter is_udigit methods call_fn mgr).
Notation etag := (exec_tag is_space to_lower is_letter is_udigit methods call_fn mgr).
Notation ebody := (exec_body is_space to_lower is_letter is_udigit methods call_fn mgr).
Notation enode := (exec_node is_space to_lower is_letter is_udigit methods call_fn mgr).
Notation ilstate := (init_lstate to_lower mgr).

(* ------------------------------------------------------------------------------------------ *)
(* (1) vocabulary and the specification                                                        *)
(* ------------------------------------------------------------------------------------------ *)
Definition prefixed (a : attr) : bool := prefixb pfx (a_name a).
Definition static (a : attr) : bool := negb (prefixed a).
Definition dname (a : attr) : str := skipn (length pfx) (a_name a).      (* the name behind the prefix *)

(* every prefixed attribute is a dynamic one: the name behind the prefix is not a directive *)
Definition dyn_static_only (attrs : list attr) : Prop :=
  forall a, In a attrs -> prefixed a = true -> is_directive (dname a) = false.
(* THE ELEMENT: a tag, not a block tag, with plain and dynamic attributes only *)
Definition dyn_elem (n : node) (tok : token) : Prop :=
  n_tok n = Some tok /\ t_kind tok = KTag /\
  str_eqb (block_key to_lower (t_name tok)) (m_tag_prefix mgr ++ d_block) = false /\
  dyn_static_only (t_attrs tok).

(* both conditions are decidable: checkers for concrete elements *)
Definition dyn_static_only_b (attrs : list attr) : bool :=
  forallb (fun a => negb (prefixed a) || negb (is_directive (dname a))) attrs.
Lemma dyn_static_only_check : forall attrs, dyn_static_only_b attrs = true -> dyn_static_only attrs.
Proof.
  intros attrs H a Hin Hp. unfold dyn_static_only_b in H. rewrite forallb_forall in H. specialize (H a Hin).
  rewrite Hp in H. cbn [negb orb] in H. apply negb_true_iff in H. exact H.
Qed.
Definition no_plain_directive_name_b (attrs : list attr) : bool :=
  forallb (fun a => prefixed a || Z.eqb (weight (a_name a)) 0) attrs.
Lemma no_plain_directive_name_check : forall attrs, no_plain_directive_name_b attrs = true -> no_plain_directive_name mgr attrs.
Proof.
  intros attrs H a Hin Hp. unfold no_plain_directive_name_b in H. rewrite forallb_forall in H. specialize (H a Hin).
  unfold prefixed in H. rewrite Hp in H. cbn [orb] in H. apply Z.eqb_eq in H. exact H.
Qed.

Definition dyns_of (attrs : list attr) : list attr := filter prefixed attrs.    (* written order *)
Definition statics_of (attrs : list attr) : list attr := filter static attrs.   (* written order *)

(* what one dynamic attribute whose value evaluated to v contributes *)
Definition dyn_print (d : attr) (v : str) : str := [cSP] ++ dname d ++ [cEQ; cDQ] ++ escape v ++ [cDQ].
(* the plain attribute s has a dynamic twin: some dynamic attribute is named prefix ++ (name of s) *)
Definition has_twin (dyns : list attr) (s : attr) : bool := existsb (fun d => str_eqb (dname d) (a_name s)) dyns.
(* the plain attributes that are printed: a FILTER of the written list (same order, same multiplicity) *)
Definition kept (dyns statics : list attr) : list attr := filter (fun s => negb (has_twin dyns s)) statics.

(* THE SPECIFICATION of the printed open tag *)
Definition spec_open_tag (name : str) (statics dyns : list attr) (values : list str) : str :=
  cLT :: name ++ flat_map (fun dv => dyn_print (fst dv) (snd dv)) (combine dyns values)
             ++ flat_map print_attr (kept dyns statics) ++ [cGT].

(* the same for an arbitrary processing order of the attributes (values: one per prefixed attribute of [order]) *)
Fixpoint spec_parts (dyns : list attr) (order : list attr) (values : list str) : str :=
  match order with
  | [] => []
  | a :: r =>
    if prefixed a
    then match values with v :: vs => dyn_print a v ++ spec_parts dyns r vs | [] => spec_parts dyns r [] end
    else (if has_twin dyns a then [] else print_attr a) ++ spec_parts dyns r values
  end.
Definition spec_open_tag_in_order (name : str) (dyns order : list attr) (values : list str) : str :=
  cLT :: name ++ spec_parts dyns order values ++ [cGT].

(* the evaluation of the dynamic attributes, one after the other, each ONCE, all in the scope of the element;
   the log is threaded; the first failure ends it *)
Fixpoint eval_dyns (l : list attr) (sc : scope) (lg : log) : (list str + rres) * log :=
  match l with
  | [] => (inl [], lg)
  | d :: r =>
    match aeval d sc lg with
    | (AOk v, lg1) => match eval_dyns r sc lg1 with
                      | (inl vs, lg2) => (inl (v :: vs), lg2)
                      | (inr e, lg2) => (inr e, lg2)
                      end
    | (AErr c, lg1) => (inr (RErr c), lg1)
    | (AUnm, lg1) => (inr RUnmodelled, lg1)
    end
  end.

Lemma eval_dyns_length : forall l sc lg vs lg', eval_dyns l sc lg = (inl vs, lg') -> length vs = length l.
Proof.
  induction l as [|d r IH]; intros sc lg vs lg' H; cbn [eval_dyns] in H.
  - injection H as Hv _. subst vs. reflexivity.
  - destruct (aeval d sc lg) as [[v|c|] lg1] eqn:Ed; try discriminate H.
    destruct (eval_dyns r sc lg1) as [[vs1|e] lg2] eqn:Er; try discriminate H.
    injection H as Hv _. subst vs. cbn [length]. f_equal. exact (IH sc lg1 vs1 lg2 Er).
Qed.

(* in the order "dynamic ones, then plain ones" spec_parts is the two flat_maps of spec_open_tag *)
Lemma spec_parts_plain : forall dyns S, (forall s, In s S -> prefixed s = false) ->
  spec_parts dyns S [] = flat_map print_attr (kept dyns S).
Proof.
  intros dyns. induction S as [|s S IH]; intros HS; [reflexivity|].
  cbn [spec_parts]. rewrite (HS s (or_introl eq_refl)).
  unfold kept. cbn [filter]. fold (kept dyns S).
  rewrite IH by (intros x Hx; apply HS; right; exact Hx).
  destruct (has_twin dyns s); reflexivity.
Qed.
Lemma spec_parts_split : forall dyns D S vs,
  (forall d, In d D -> prefixed d = true) -> (forall s, In s S -> prefixed s = false) -> length vs = length D ->
  spec_parts dyns (D ++ S) vs
  = flat_map (fun dv => dyn_print (fst dv) (snd dv)) (combine D vs) ++ flat_map print_attr (kept dyns S).
Proof.
  intros dyns. induction D as [|d D IH]; intros S vs HD HS Hlen.
  - destruct vs as [|v vs]; [|discriminate Hlen]. cbn [app combine flat_map]. apply spec_parts_plain. exact HS.
  - destruct vs as [|v vs]; [discriminate Hlen|].
    cbn [app spec_parts combine flat_map fst snd]. rewrite (HD d (or_introl eq_refl)).
    rewrite IH; [rewrite <- app_assoc; reflexivity| |exact HS|].
    + intros x Hx. apply HD. right. exact Hx.
    + cbn [length] in Hlen. lia.
Qed.

(* ------------------------------------------------------------------------------------------ *)
(* (2) Tag.SortedAttr on such an element                                                       *)
(* ------------------------------------------------------------------------------------------ *)
Notation ins := (fun acc a => insert_sorted pfx a acc).

Lemma less_dyn_dyn : forall a b, prefixed a = true -> prefixed b = true ->
  is_directive (dname a) = false -> is_directive (dname b) = false ->
  attr_less pfx (a_name a) (a_name b) = false.
Proof.
  intros a b Ha Hb Hda Hdb. unfold prefixed in Ha, Hb. unfold attr_less. rewrite Ha, Hb. cbn [andb negb].
  fold (dname a). fold (dname b). rewrite (dr_weight_nondir _ Hda), (dr_weight_nondir _ Hdb). reflexivity.
Qed.
Lemma less_plain_plain : forall a b, prefixed a = false -> prefixed b = false ->
  attr_less pfx (a_name a) (a_name b) = false.
Proof. intros a b Ha Hb. unfold prefixed in Ha, Hb. unfold attr_less. rewrite Ha, Hb. reflexivity. Qed.

(* attributes that never overtake each other keep their relative order *)
Lemma insert_filter_class : forall (f : attr -> bool) a acc,
  (forall b, In b acc -> f a = true -> f b = true -> attr_less pfx (a_name a) (a_name b) = false) ->
  filter f (insert_sorted pfx a acc) = filter f (a :: acc).
Proof.
  intros f a. induction acc as [|b r IH]; intros H; [reflexivity|].
  cbn [insert_sorted]. destruct (attr_less pfx (a_name a) (a_name b)) eqn:El; [|reflexivity].
  cbn [filter]. rewrite IH by (intros x Hx; apply H; right; exact Hx). cbn [filter].
  destruct (f a) eqn:Fa; destruct (f b) eqn:Fb; try reflexivity.
  rewrite (H b (or_introl eq_refl) eq_refl Fb) in El. discriminate El.
Qed.
Lemma fold_filter_class : forall (f : attr -> bool) l acc,
  (forall a b, In a (l ++ acc) -> In b (l ++ acc) -> f a = true -> f b = true -> attr_less pfx (a_name a) (a_name b) = false) ->
  filter f (fold_left ins l acc) = rev (filter f l) ++ filter f acc.
Proof.
  intros f. induction l as [|a l IH]; intros acc H; [reflexivity|].
  cbn [fold_left]. rewrite IH.
  - rewrite insert_filter_class.
    + cbn [filter]. destruct (f a); cbn [rev]; [rewrite <- app_assoc|]; reflexivity.
    + intros b Hb. apply H; [left; reflexivity|right; apply in_or_app; right; exact Hb].
  - intros x y Hx Hy. apply H.
    + apply in_app_or in Hx. destruct Hx as [Hx|Hx]; [right; apply in_or_app; left; exact Hx|].
      apply insert_in in Hx. destruct Hx as [Hx|Hx]; [left; symmetry; exact Hx|right; apply in_or_app; right; exact Hx].
    + apply in_app_or in Hy. destruct Hy as [Hy|Hy]; [right; apply in_or_app; left; exact Hy|].
      apply insert_in in Hy. destruct Hy as [Hy|Hy]; [left; symmetry; exact Hy|right; apply in_or_app; right; exact Hy].
Qed.
Lemma filter_rev_dr : forall (f : attr -> bool) l, filter f (rev l) = rev (filter f l).
Proof.
  intros f. induction l as [|a l IH]; [reflexivity|]. cbn [rev filter].
  rewrite filter_app, IH. cbn [filter]. destruct (f a); [reflexivity|]. rewrite app_nil_r. reflexivity.
Qed.

(* ANY names: the dynamic attributes are processed in their written order, and so are the plain ones
   (a plain attribute named like a weighted directive - with, if, ..., range, remove - may move in front
   of dynamic attributes written before it, see keyword_named_plain_attribute_observed) *)
Theorem sorted_keeps_written_order : forall attrs, dyn_static_only attrs ->
  filter prefixed (sorted_attrs pfx attrs) = dyns_of attrs /\
  filter static (sorted_attrs pfx attrs) = statics_of attrs.
Proof.
  intros attrs Hds. unfold sorted_attrs, dyns_of, statics_of. rewrite !filter_rev_dr, !fold_filter_class.
  - cbn [filter]. rewrite !app_nil_r, !rev_involutive. split; reflexivity.
  - intros a b Ha Hb Fa Fb. unfold static in Fa, Fb. apply negb_true_iff in Fa. apply negb_true_iff in Fb.
    apply less_plain_plain; assumption.
  - intros a b Ha Hb Fa Fb. rewrite app_nil_r in Ha, Hb.
    apply less_dyn_dyn; try assumption; apply Hds; assumption.
Qed.

(* no plain attribute named like a weighted directive: dynamic ones first, plain ones after them *)
Lemma less_class : forall a b,
  (prefixed a = true -> is_directive (dname a) = false) -> (prefixed a = false -> weight (a_name a) = 0%Z) ->
  (prefixed b = true -> is_directive (dname b) = false) ->
  attr_less pfx (a_name a) (a_name b) = prefixed a && negb (prefixed b).
Proof.
  intros a b Hda Hwa Hdb.
  destruct (prefixed a) eqn:Pa; destruct (prefixed b) eqn:Pb; cbn [andb negb].
  - apply less_dyn_dyn; auto.
  - unfold prefixed in Pa, Pb. unfold attr_less. rewrite Pa, Pb. reflexivity.
  - unfold prefixed in Pa, Pb. unfold attr_less. rewrite Pa, Pb. cbn [andb negb].
    fold (dname b). rewrite (Hwa eq_refl), (dr_weight_nondir _ (Hdb eq_refl)). reflexivity.
  - apply less_plain_plain; assumption.
Qed.

Definition okw (a : attr) : Prop :=
  (prefixed a = true -> is_directive (dname a) = false) /\ (prefixed a = false -> weight (a_name a) = 0%Z).

Lemma insert_plain_front : forall a acc, okw a -> (forall b, In b acc -> okw b) -> prefixed a = false ->
  insert_sorted pfx a acc = a :: acc.
Proof.
  intros a acc Ha Hacc Pa. destruct acc as [|b r]; [reflexivity|]. cbn [insert_sorted].
  rewrite less_class; [rewrite Pa; reflexivity|exact (proj1 Ha)|exact (proj2 Ha)|exact (proj1 (Hacc b (or_introl eq_refl)))].
Qed.
Lemma insert_dyn_mid : forall d S D, okw d -> (forall b, In b (S ++ D) -> okw b) -> prefixed d = true ->
  (forall s, In s S -> prefixed s = false) -> (forall x, In x D -> prefixed x = true) ->
  insert_sorted pfx d (S ++ D) = S ++ d :: D.
Proof.
  intros d S D Hd. induction S as [|s S IH]; intros Hok Pd HS HD; cbn [app].
  - destruct D as [|b r]; [reflexivity|]. cbn [insert_sorted].
    rewrite less_class; [|exact (proj1 Hd)|exact (proj2 Hd)|exact (proj1 (Hok b (or_introl eq_refl)))].
    rewrite Pd, (HD b (or_introl eq_refl)). reflexivity.
  - cbn [insert_sorted].
    rewrite less_class; [|exact (proj1 Hd)|exact (proj2 Hd)|exact (proj1 (Hok s (or_introl eq_refl)))].
    rewrite Pd, (HS s (or_introl eq_refl)). cbn [andb negb]. f_equal. apply IH.
    + intros b Hb. apply Hok. right. exact Hb.
    + exact Pd.
    + intros x Hx. apply HS. right. exact Hx.
    + exact HD.
Qed.
Lemma fold_two_classes : forall l S D, (forall a, In a l -> okw a) -> (forall b, In b (S ++ D) -> okw b) ->
  (forall s, In s S -> prefixed s = false) -> (forall x, In x D -> prefixed x = true) ->
  fold_left ins l (S ++ D) = (rev (filter static l) ++ S) ++ (rev (filter prefixed l) ++ D).
Proof.
  induction l as [|a l IH]; intros S D Hl Hok HS HD; [reflexivity|].
  cbn [fold_left filter]. unfold static at 1.
  assert (Ha : okw a) by (apply Hl; left; reflexivity).
  assert (Hl' : forall x, In x l -> okw x) by (intros x Hx; apply Hl; right; exact Hx).
  destruct (prefixed a) eqn:Pa; cbn [negb rev].
  - rewrite insert_dyn_mid by assumption.
    rewrite (IH S (a :: D)); [rewrite <- (app_assoc (rev (filter prefixed l)) [a] D); reflexivity|exact Hl'| |exact HS|].
    + intros b Hb. apply in_app_or in Hb. destruct Hb as [Hb|[Hb|Hb]];
        [apply Hok; apply in_or_app; left; exact Hb|subst b; exact Ha|apply Hok; apply in_or_app; right; exact Hb].
    + intros x [Hx|Hx]; [subst x; exact Pa|apply HD; exact Hx].
  - rewrite insert_plain_front by assumption.
    change (a :: S ++ D) with ((a :: S) ++ D).
    rewrite (IH (a :: S) D); [rewrite <- (app_assoc (rev (filter static l)) [a] S); reflexivity|exact Hl'| |  |exact HD].
    + intros b [Hb|Hb]; [subst b; exact Ha|apply Hok; exact Hb].
    + intros x [Hx|Hx]; [subst x; exact Pa|apply HS; exact Hx].
Qed.

Theorem sorted_dyn_then_static : forall attrs, dyn_static_only attrs -> no_plain_directive_name mgr attrs ->
  sorted_attrs pfx attrs = dyns_of attrs ++ statics_of attrs.
Proof.
  intros attrs Hds Hnp. unfold sorted_attrs, dyns_of, statics_of.
  assert (Hf : fold_left ins attrs ([] ++ []) = (rev (filter static attrs) ++ []) ++ (rev (filter prefixed attrs) ++ [])).
  { apply fold_two_classes.
    - intros a Ha. split; [apply Hds; exact Ha|apply Hnp; exact Ha].
    - intros b [].
    - intros s [].
    - intros x []. }
  cbn [app] in Hf. rewrite Hf.
  rewrite !app_nil_r, rev_app_distr, !rev_involutive. reflexivity.
Qed.

(* ------------------------------------------------------------------------------------------ *)
(* (3) the attribute loop                                                                      *)
(* ------------------------------------------------------------------------------------------ *)
Lemma step_plain : forall exec mask ctx n attrs b ls t st, prefixed b = false ->
  astep exec mask ctx n attrs b ls t st =
    (inl (if has_attr_named attrs (pfx ++ a_name b) then ls else add_tagbuf ls (print_attr b)), t, st).
Proof.
  intros exec mask ctx n attrs b ls t st Hb. unfold prefixed in Hb. unfold attr_step. cbv zeta. unfold prefix. rewrite Hb.
  destruct (has_attr_named attrs (pfx ++ a_name b)); reflexivity.
Qed.
Lemma owner_plain : forall mask b, prefixed b = false -> is_owner mgr mask b = false.
Proof. intros mask b Hb. unfold prefixed in Hb. unfold is_owner, prefix. rewrite Hb. reflexivity. Qed.

Lemma step_dyn : forall exec mask ctx n attrs b ls t st, prefixed b = true -> is_directive (dname b) = false ->
  astep exec mask ctx n attrs b ls t st =
    match aeval b (l_sc ls) (r_log st) with
    | (AOk v, lg) => (inl (add_tagbuf ls (dyn_print b v)), t, set_log st lg)
    | (AErr e, lg) => (inr (RErr e), t, set_log st lg)
    | (AUnm, lg) => (inr RUnmodelled, t, set_log st lg)
    end.
Proof.
  intros exec mask ctx n attrs b ls t st Hp Hd. unfold prefixed in Hp.
  unfold is_directive, directive_names in Hd. cbn [existsb] in Hd.
  repeat (apply orb_false_elim in Hd; destruct Hd as [? Hd]).
  unfold attr_step. cbv zeta. unfold prefix. rewrite Hp. fold (dname b).
  unfold is_cond_name, cond_names. cbn [existsb].
  repeat match goal with H : str_eqb (dname b) _ = false |- _ => rewrite H; clear H end.
  reflexivity.
Qed.
Lemma owner_dyn : forall mask b, is_directive (dname b) = false -> is_owner mgr mask b = false.
Proof.
  intros mask b Hd.
  unfold is_directive, directive_names in Hd. cbn [existsb] in Hd.
  repeat (apply orb_false_elim in Hd; destruct Hd as [? Hd]).
  unfold is_owner. cbv zeta. unfold prefix. fold (dname b).
  unfold is_cond_name, cond_names. cbn [existsb].
  repeat match goal with H : str_eqb (dname b) _ = false |- _ => rewrite H; clear H end.
  apply andb_false_r.
Qed.

(* the test of the renderer (an attribute named prefix++n anywhere on the tag) = a dynamic twin *)
Lemma named_is_twin : forall nm l,
  has_attr_named l (pfx ++ nm) = existsb (fun d => str_eqb (dname d) nm) (filter prefixed l).
Proof.
  intros nm. induction l as [|a l IH]; [reflexivity|].
  unfold has_attr_named in *. cbn [existsb filter]. rewrite IH, dr_seqb_pfx. fold (prefixed a). fold (dname a).
  destruct (prefixed a); reflexivity.
Qed.

Lemma add_tagbuf_nil : forall ls, add_tagbuf ls [] = ls.
Proof. intros ls. destruct ls. unfold add_tagbuf. cbn. rewrite app_nil_r. reflexivity. Qed.
Lemma add_tagbuf_app : forall ls x y, add_tagbuf (add_tagbuf ls x) y = add_tagbuf ls (x ++ y).
Proof. intros ls x y. unfold add_tagbuf. cbn. rewrite app_assoc. reflexivity. Qed.
Lemma set_log_same : forall st, set_log st (r_log st) = st.
Proof. intros st. destruct st. reflexivity. Qed.

Lemma run_attrs_dyn : forall exec mask ctx n attrs, dyn_static_only attrs ->
  forall l ls t st, incl l attrs ->
  rattrs exec mask ctx n attrs l ls t st =
    match eval_dyns (filter prefixed l) (l_sc ls) (r_log st) with
    | (inl vs, lg) => (inl (add_tagbuf ls (spec_parts (dyns_of attrs) l vs)), t, set_log st lg)
    | (inr e, lg) => (inr e, t, set_log st lg)
    end.
Proof.
  intros exec mask ctx n attrs Hds. induction l as [|a l IH]; intros ls t st Hincl.
  - cbn [run_attrs filter eval_dyns spec_parts]. rewrite add_tagbuf_nil, set_log_same. reflexivity.
  - assert (Hin : In a attrs) by (apply Hincl; left; reflexivity).
    assert (Hincl' : incl l attrs) by (intros x Hx; apply Hincl; right; exact Hx).
    cbn [run_attrs filter spec_parts]. destruct (prefixed a) eqn:Pa.
    + assert (Hd : is_directive (dname a) = false) by (apply Hds; assumption).
      rewrite step_dyn by assumption. cbn [eval_dyns].
      destruct (aeval a (l_sc ls) (r_log st)) as [[v|c|] lg1] eqn:Ea; try reflexivity.
      rewrite owner_dyn by exact Hd. rewrite IH by exact Hincl'.
      change (l_sc (add_tagbuf ls (dyn_print a v))) with (l_sc ls).
      change (r_log (set_log st lg1)) with lg1.
      destruct (eval_dyns (filter prefixed l) (l_sc ls) lg1) as [[vs|e] lg2] eqn:Er.
      * rewrite add_tagbuf_app. reflexivity.
      * reflexivity.
    + rewrite step_plain by exact Pa. rewrite owner_plain by exact Pa.
      rewrite named_is_twin. fold (dyns_of attrs). fold (has_twin (dyns_of attrs) a).
      destruct (has_twin (dyns_of attrs) a) eqn:Tw.
      * rewrite IH by exact Hincl'. reflexivity.
      * rewrite IH by exact Hincl'.
        change (l_sc (add_tagbuf ls (print_attr a))) with (l_sc ls).
        destruct (eval_dyns (filter prefixed l) (l_sc ls) (r_log st)) as [[vs|e] lg2] eqn:Er; [|reflexivity].
        rewrite add_tagbuf_app. reflexivity.
Qed.

(* no suppression pre-check fires: the tag is printed, the children are rendered *)
Lemma no_dir : forall attrs d, dyn_static_only attrs -> is_directive d = true -> has_dir mgr attrs d = false.
Proof.
  intros attrs d Hds Hd. unfold has_dir, prefix. rewrite named_is_twin.
  destruct (existsb (fun x => str_eqb (dname x) d) (filter prefixed attrs)) eqn:E; [|reflexivity].
  apply existsb_exists in E. destruct E as [x [Hx Hn]]. apply filter_In in Hx. destruct Hx as [Hx Px].
  apply dr_seqb_true in Hn. rewrite <- Hn, (Hds x Hx Px) in Hd. discriminate Hd.
Qed.
Lemma init_dyn : forall mask tok sc,
  str_eqb (block_key to_lower (t_name tok)) (m_tag_prefix mgr ++ d_block) = false -> dyn_static_only (t_attrs tok) ->
  ilstate mask tok sc = mkL sc false CDefault (cLT :: t_name tok) [] [] false.
Proof.
  intros mask tok sc Hb Hds. unfold init_lstate. cbv zeta. rewrite Hb.
  unfold cond_names. cbn [existsb].
  rewrite (no_dir _ d_define Hds eq_refl), (no_dir _ d_replace Hds eq_refl), (no_dir _ d_if Hds eq_refl),
    (no_dir _ d_else_if Hds eq_refl), (no_dir _ d_elseif Hds eq_refl), (no_dir _ d_elif Hds eq_refl),
    (no_dir _ d_else Hds eq_refl), (no_dir _ d_range Hds eq_refl), (no_dir _ d_insert Hds eq_refl).
  reflexivity.
Qed.

(* ------------------------------------------------------------------------------------------ *)
(* (4) the rendered element                                                                    *)
(* ------------------------------------------------------------------------------------------ *)
Definition end_text (n : node) : str := match n_end n with Some e => t_value e | None => [] end.
Definition wr_end (top : bool) (n : node) (t : tbl) (st : rst) : R :=
  match n_end n with Some e => wr top (t_value e) t st | None => ([], ROk, t, st) end.
(* one Write call for the open tag, the children in the scope of the element, one Write call for the end tag *)
Definition spec_elem (exec : N -> list node -> node -> scope -> bool -> tbl -> rst -> R)
    (open : str) (n : node) (sc : scope) (top : bool) (t : tbl) (st : rst) : R :=
  seq2 (wr top open t st) (fun t2 st2 =>
    seq2 (exec_list exec (n_children n) (n_children n) sc top t2 st2) (fun t3 st3 => wr_end top n t3 st3)).

(* ANY attribute names: the equation over the processing order; the dynamic attributes are evaluated in
   their WRITTEN order (sorted_keeps_written_order), each once, in the scope of the element; a failing one
   ends the element with nothing printed; the mask is irrelevant *)
Theorem dynamic_replaces_static_in_order : forall exec mask ctx n tok sc top t st, dyn_elem n tok ->
  ebody exec mask ctx n sc top t st =
    match eval_dyns (dyns_of (t_attrs tok)) sc (r_log st) with
    | (inl values, lg) =>
        spec_elem exec (spec_open_tag_in_order (t_name tok) (dyns_of (t_attrs tok)) (sorted_attrs pfx (t_attrs tok)) values)
                  n sc top t (set_log st lg)
    | (inr e, lg) => ([], e, t, set_log st lg)
    end.
Proof.
  intros exec mask ctx n tok sc top t st [Htok [Hkind [Hblk Hds]]].
  unfold exec_body. rewrite Htok, Hkind. unfold exec_tag, prefix.
  rewrite run_attrs_dyn; [|exact Hds|].
  - rewrite (proj1 (sorted_keeps_written_order _ Hds)).
    rewrite init_dyn by assumption. cbn [l_sc].
    destruct (eval_dyns (dyns_of (t_attrs tok)) sc (r_log st)) as [[vs|e] lg]; [|reflexivity].
    unfold spec_elem, spec_open_tag_in_order, token_buf, add_tagbuf, run_child, wr_end. cbn [l_direct l_np l_tagbuf l_content l_child l_sc app].
    rewrite <- app_assoc. reflexivity.
  - intros x Hx. exact (Permutation_in x (sorted_perm pfx (t_attrs tok)) Hx).
Qed.

(* THE CLAUSE.  No plain attribute is named like a weighted directive: the printed open tag is
   <name, then  n="escape v"  once per dynamic attribute prefix++n (written order), then every plain attribute
   that has no dynamic twin, verbatim, once, in written order; the plain twins are not printed *)
Theorem dynamic_replaces_static : forall exec mask ctx n tok sc top t st, dyn_elem n tok ->
  no_plain_directive_name mgr (t_attrs tok) ->
  ebody exec mask ctx n sc top t st =
    match eval_dyns (dyns_of (t_attrs tok)) sc (r_log st) with
    | (inl values, lg) =>
        spec_elem exec (spec_open_tag (t_name tok) (statics_of (t_attrs tok)) (dyns_of (t_attrs tok)) values)
                  n sc top t (set_log st lg)
    | (inr e, lg) => ([], e, t, set_log st lg)
    end.
Proof.
  intros exec mask ctx n tok sc top t st He Hnp.
  rewrite (dynamic_replaces_static_in_order exec mask ctx n tok sc top t st He).
  destruct He as [Htok [Hkind [Hblk Hds]]].
  destruct (eval_dyns (dyns_of (t_attrs tok)) sc (r_log st)) as [[vs|e] lg] eqn:Ev; [|reflexivity].
  unfold spec_open_tag_in_order, spec_open_tag. rewrite (sorted_dyn_then_static _ Hds Hnp).
  rewrite spec_parts_split.
  - rewrite <- app_assoc. reflexivity.
  - intros d Hd. apply filter_In in Hd. exact (proj2 Hd).
  - intros s Hs. apply filter_In in Hs. destruct Hs as [_ Hs]. unfold static in Hs. apply negb_true_iff in Hs. exact Hs.
  - exact (eval_dyns_length _ _ _ _ _ Ev).
Qed.

(* the successful case: given the values of the dynamic attributes (written order, log threaded) and the output
   of the children; every Write accepted *)
Corollary dynamic_replaces_static_ok : forall exec mask ctx n tok sc top t st values lg co t2 st2,
  dyn_elem n tok -> no_plain_directive_name mgr (t_attrs tok) ->
  eval_dyns (dyns_of (t_attrs tok)) sc (r_log st) = (inl values, lg) ->
  exec_list exec (n_children n) (n_children n) sc top t (set_log st lg) = (co, ROk, t2, st2) ->
  wok top st -> wok top st2 ->
  ebody exec mask ctx n sc top t st =
    (spec_open_tag (t_name tok) (statics_of (t_attrs tok)) (dyns_of (t_attrs tok)) values ++ co ++ end_text n, ROk, t2, st2).
Proof.
  intros exec mask ctx n tok sc top t st values lg co t2 st2 He Hnp Hev Hch Hw Hw2.
  rewrite (dynamic_replaces_static exec mask ctx n tok sc top t st He Hnp), Hev.
  unfold spec_elem. rewrite wr_ok by (destruct Hw as [Hw|Hw]; [left; exact Hw|right; exact Hw]).
  apply seq2_ok. rewrite Hch. apply seq2_ok. unfold wr_end, end_text. apply end_ok. exact Hw2.
Qed.
Corollary dynamic_replaces_static_node : forall fuel mask ctx n tok sc top t st values lg co t2 st2,
  dyn_elem n tok -> no_plain_directive_name mgr (t_attrs tok) ->
  eval_dyns (dyns_of (t_attrs tok)) sc (r_log st) = (inl values, lg) ->
  exec_list (enode fuel) (n_children n) (n_children n) sc top t (set_log st lg) = (co, ROk, t2, st2) ->
  wok top st -> wok top st2 ->
  enode (S fuel) mask ctx n sc top t st =
    (spec_open_tag (t_name tok) (statics_of (t_attrs tok)) (dyns_of (t_attrs tok)) values ++ co ++ end_text n, ROk, t2, st2).
Proof.
  intros fuel mask ctx n tok sc top t st values lg co t2 st2. cbn [exec_node].
  apply (dynamic_replaces_static_ok (enode fuel)).
Qed.
(* a failing dynamic attribute: nothing of the element is printed *)
Corollary dynamic_attribute_fails : forall exec mask ctx n tok sc top t st e lg, dyn_elem n tok ->
  eval_dyns (dyns_of (t_attrs tok)) sc (r_log st) = (inr e, lg) ->
  ebody exec mask ctx n sc top t st = ([], e, t, set_log st lg).
Proof.
  intros exec mask ctx n tok sc top t st e lg He Hev.
  rewrite (dynamic_replaces_static_in_order exec mask ctx n tok sc top t st He), Hev. reflexivity.
Qed.

(* ------------------------------------------------------------------------------------------ *)
(* (5) "exactly one": the names printed by spec_open_tag                                       *)
(* ------------------------------------------------------------------------------------------ *)
(* spec_open_tag prints one attribute per entry of this list, in this order *)
Definition printed_names (statics dyns : list attr) : list str := map dname dyns ++ map a_name (kept dyns statics).

Lemma kept_spec : forall dyns statics s,
  In s (kept dyns statics) <-> In s statics /\ forall d, In d dyns -> dname d <> a_name s.
Proof.
  intros dyns statics s. unfold kept. rewrite filter_In. split; intros [Hs Hk]; split; try exact Hs.
  - intros d Hd Hn. apply negb_true_iff in Hk. unfold has_twin in Hk.
    assert (Ht : existsb (fun d0 => str_eqb (dname d0) (a_name s)) dyns = true).
    { apply existsb_exists. exists d. split; [exact Hd|]. rewrite Hn. apply dr_seqb_refl. }
    rewrite Ht in Hk. discriminate Hk.
  - apply negb_true_iff. unfold has_twin. destruct (existsb (fun d => str_eqb (dname d) (a_name s)) dyns) eqn:E; [|reflexivity].
    apply existsb_exists in E. destruct E as [d [Hd Hn]]. apply dr_seqb_true in Hn. exfalso. exact (Hk d Hd Hn).
Qed.

(* the scanner accepts a tag only if its attribute names are pairwise different (add_attr: EDupAttr); then every
   printed name is printed ONCE: one  n=  for the pair  n / prefix++n, the dynamic one *)
Theorem printed_names_distinct : forall attrs, NoDup (map a_name attrs) ->
  NoDup (printed_names (statics_of attrs) (dyns_of attrs)).
Proof.
  intros attrs Hnd. unfold printed_names. apply dr_NoDup_app.
  - assert (Hm : map a_name (dyns_of attrs) = map (app pfx) (map dname (dyns_of attrs))).
    { rewrite map_map. apply map_ext_in. intros d Hd. apply filter_In in Hd. apply dr_prefixb_split. exact (proj2 Hd). }
    assert (H1 : NoDup (map a_name (dyns_of attrs))) by (apply dr_NoDup_map_filter; exact Hnd).
    rewrite Hm in H1. exact (NoDup_map_inv _ _ H1).
  - unfold kept, statics_of. apply dr_NoDup_map_filter. apply dr_NoDup_map_filter. exact Hnd.
  - intros x Hx Hk. apply in_map_iff in Hx. destruct Hx as [d [Hdn Hd]].
    apply in_map_iff in Hk. destruct Hk as [s [Hsn Hs]]. apply kept_spec in Hs. destruct Hs as [_ Hs].
    apply (Hs d Hd). rewrite Hdn, Hsn. reflexivity.
Qed.
End DynReplaces.

(* ------------------------------------------------------------------------------------------ *)
(* (6) non-vacuity:  <a href=Q#Q id=QkQ :href=Q${url}Q class=QcQ>t</a>,  url = aQb<c   (Q = the double quote) *)
(* ------------------------------------------------------------------------------------------ *)
Definition n_a : node := elem "<a href=""#"" id=""k"" :href=""${url}"" class=""c"">t</a>".
Definition v_url : str := s2l "a""b<c".
Definition sc_url : scope := SData (VMap [(s2l "url", VStr v_url); (s2l "x", VStr (s2l "X")); (s2l "y", VStr (s2l "Y"))]).
Notation bx_body := (exec_body bx_space bx_lower bx_letter bx_digit bx_methods bx_call bx_mgr).

Lemma n_a_elem : dyn_elem bx_lower bx_mgr n_a (tok_of n_a).
Proof.
  split; [vm_compute; reflexivity|]. split; [vm_compute; reflexivity|]. split; [vm_compute; reflexivity|].
  apply dyn_static_only_check. vm_compute. reflexivity.
Qed.
Lemma n_a_names : no_plain_directive_name bx_mgr (t_attrs (tok_of n_a)).
Proof. apply no_plain_directive_name_check. vm_compute. reflexivity. Qed.
Lemma n_a_values : exists lg,
  eval_dyns bx_letter bx_digit bx_methods bx_call bx_mgr (dyns_of bx_mgr (t_attrs (tok_of n_a))) sc_url [] = (inl [v_url], lg).
Proof. eexists. vm_compute. reflexivity. Qed.

(* the specification on this element: ONE href, with the escaped value; id and class verbatim, in order *)
Example a_spec :
  spec_open_tag bx_mgr (t_name (tok_of n_a)) (statics_of bx_mgr (t_attrs (tok_of n_a))) (dyns_of bx_mgr (t_attrs (tok_of n_a))) [v_url]
  = s2l "<a href=""a&#34;b&lt;c"" id=""k"" class=""c"">".
Proof. vm_compute. reflexivity. Qed.
(* the render, by the theorem *)
Example a_render : exists lg,
  bx_node 5 0 [n_a] n_a sc_url true [] st0 = (s2l "<a href=""a&#34;b&lt;c"" id=""k"" class=""c"">t</a>", ROk, [], set_log st0 lg).
Proof.
  destruct n_a_values as [lg Hev]. exists lg.
  rewrite (dynamic_replaces_static_node bx_space bx_lower bx_letter bx_digit bx_methods bx_call bx_mgr
             4 0 [n_a] n_a (tok_of n_a) sc_url true [] st0 [v_url] lg (s2l "t") [] (set_log st0 lg) n_a_elem n_a_names Hev).
  - rewrite a_spec. vm_compute. reflexivity.
  - vm_compute. reflexivity.
  - right. reflexivity.
  - right. reflexivity.
Qed.
(* and the renderer model run directly agrees *)
Example a_render_computed :
  fst (fst (bx_node 5 0 [n_a] n_a sc_url true [] st0)) = (s2l "<a href=""a&#34;b&lt;c"" id=""k"" class=""c"">t</a>", ROk).
Proof. vm_compute. reflexivity. Qed.
Example a_names_once :
  printed_names bx_mgr (statics_of bx_mgr (t_attrs (tok_of n_a))) (dyns_of bx_mgr (t_attrs (tok_of n_a)))
  = [s2l "href"; s2l "id"; s2l "class"].
Proof. vm_compute. reflexivity. Qed.

(* ------------------------------------------------------------------------------------------ *)
(* (7) observed behaviour of the model, by computation                                         *)
(* ------------------------------------------------------------------------------------------ *)
Definition run_src (s : string) : str * rres := fst (fst (bx_node 5 0 [] (elem s) sc_url true [] st0)).
(* elements the scanner does not produce (repeated attribute names): built by hand *)
Definition at_ (n v : string) : attr := mkAttr (s2l n) (1,1) (1,1) (Some (s2l v)) (1,1) (1,1).
Definition el_a (attrs : list attr) : node :=
  Node 1 (Some (mkTok KTag [] (1,1) (1,1) (s2l "a") attrs))
       [Node 2 (Some (mkTok KText (s2l "t") (1,1) (1,1) [] [])) [] None]
       (Some (mkTok KTag (s2l "</a>") (1,1) (1,1) (s2l "/a") [])).
Definition run_el (attrs : list attr) : str * rres := fst (fst (bx_node 5 0 [] (el_a attrs) sc_url true [] st0)).

(* as the clause says *)
Example static_before_dynamic : run_src "<a href=""#"" :href=""${url}"">t</a>" = (s2l "<a href=""a&#34;b&lt;c"">t</a>", ROk).
Proof. vm_compute. reflexivity. Qed.
Example static_after_dynamic : run_src "<a :href=""${url}"" href=""#"">t</a>" = (s2l "<a href=""a&#34;b&lt;c"">t</a>", ROk).
Proof. vm_compute. reflexivity. Qed.
Example static_without_value : run_src "<input disabled :disabled=""${x}"">" = (s2l "<input disabled=""X"">", ROk).
Proof. vm_compute. reflexivity. Qed.
Example single_quoted : run_src "<a href='#' :href='${url}'>t</a>" = (s2l "<a href=""a&#34;b&lt;c"">t</a>", ROk).
Proof. vm_compute. reflexivity. Qed.
Example literal_and_code : run_src "<a id=""k"" :href=""/p/${x}"" :title=""${y}"" class=""c"">t</a>"
  = (s2l "<a href=""/p/X"" title=""Y"" id=""k"" class=""c"">t</a>", ROk).
Proof. vm_compute. reflexivity. Qed.

(* a repeated attribute name never reaches the renderer: the scanner rejects the tag *)
Example repeated_static_rejected_observed :
  load bx_space bx_lower bx_tags [] [58] bx_pok (s2l "<a href=""#"" :href=""${url}"" href=""2"">t</a>") = inr EDupAttr.
Proof. vm_compute. reflexivity. Qed.
Example repeated_dynamic_rejected_observed :
  load bx_space bx_lower bx_tags [] [58] bx_pok (s2l "<a href=""#"" :href=""${x}"" :href=""${y}"">t</a>") = inr EDupAttr.
Proof. vm_compute. reflexivity. Qed.
(* ... the renderer itself, given such a token: BOTH static twins are dropped; BOTH dynamic attributes are printed
   (two href in the output) *)
Example two_statics_observed :
  run_el [at_ "href" """#"""; at_ ":href" """${url}"""; at_ "href" """2"""] = (s2l "<a href=""a&#34;b&lt;c"">t</a>", ROk).
Proof. vm_compute. reflexivity. Qed.
Example two_dynamics_observed :
  run_el [at_ "href" """#"""; at_ ":href" """${x}"""; at_ ":href" """${y}"""] = (s2l "<a href=""X"" href=""Y"">t</a>", ROk).
Proof. vm_compute. reflexivity. Qed.

(* the name comparison is case-sensitive (and the scanner keeps the case of attribute names): a static twin
   written in another letter case SURVIVES - two attributes that an HTML parser treats as the same one *)
Example other_case_static_survives_observed :
  run_src "<a HREF=""#"" :href=""${url}"">t</a>" = (s2l "<a href=""a&#34;b&lt;c"" HREF=""#"">t</a>", ROk).
Proof. vm_compute. reflexivity. Qed.
Example other_case_dynamic_observed :
  run_src "<a href=""#"" :HREF=""${url}"">t</a>" = (s2l "<a HREF=""a&#34;b&lt;c"" href=""#"">t</a>", ROk).
Proof. vm_compute. reflexivity. Qed.

(* the dynamic attributes are printed BEFORE all plain ones (Tag.SortedAttr), not at their written place *)
Example dynamic_moves_to_front_observed :
  run_src "<a id=""k"" class=""c"" :href=""${x}"">t</a>" = (s2l "<a href=""X"" id=""k"" class=""c"">t</a>", ROk).
Proof. vm_compute. reflexivity. Qed.
(* ... except that a plain attribute NAMED like a weighted directive (here: if) overtakes the dynamic attributes
   written before it (the comparison gives it the directive's weight): the case dynamic_replaces_static excludes
   and dynamic_replaces_static_in_order covers *)
Example keyword_named_plain_attribute_observed :
  run_src "<a :href=""${x}"" if=""1"" :title=""${y}"" class=""c"">t</a>"
  = (s2l "<a if=""1"" href=""X"" title=""Y"" class=""c"">t</a>", ROk).
Proof. vm_compute. reflexivity. Qed.
(* a dynamic attribute without a value fails the render; an unknown name in it too; nothing is printed *)
Example dynamic_without_value_observed : run_src "<a href=""#"" :href>t</a>" = ([], RErr RNoValue).
Proof. vm_compute. reflexivity. Qed.
Example dynamic_unknown_value_observed : run_src "<a href=""#"" :href=""${nope}"">t</a>" = ([], RErr (RC CNoSuchValue)).
Proof. vm_compute. reflexivity. Qed.
(* the doubled prefix: ::x is the dynamic attribute named :x; :x is the dynamic twin of x *)
Example doubled_prefix_observed :
  run_src "<a ::x=""${x}"" :x=""${y}"" x=1>t</a>" = (s2l "<a :x=""X"" x=""Y"">t</a>", ROk).
Proof. vm_compute. reflexivity. Qed.

Print Assumptions dynamic_replaces_static_in_order.
Print Assumptions dynamic_replaces_static.
Print Assumptions dynamic_replaces_static_ok.
Print Assumptions dynamic_replaces_static_node.
Print Assumptions dynamic_attribute_fails.
Print Assumptions sorted_keeps_written_order.
Print Assumptions sorted_dyn_then_static.
Print Assumptions printed_names_distinct.
Print Assumptions a_render.
