(* C05, last clause -- experiments: what does the model print for an element carrying MANY directives?
   Source text is scanned and built by the pipeline model (attribute prefix ":", tag prefix "t:"). *)
From Coq Require Import List NArith ZArith Bool Lia String Ascii.
From Tpl Require Import Html.Exec Html.Manager Proofs.ExecSpec Proofs.EmitProps.
Import ListNotations.
Open Scope N_scope.

Fixpoint s2l (s : string) : str := match s with EmptyString => [] | String a r => N_of_ascii a :: s2l r end.
Fixpoint l2s (l : str) : string := match l with [] => EmptyString | c :: r => String (ascii_of_N c) (l2s r) end.
Definition nx_space (r : rune) : bool := N.eqb r 32 || N.eqb r 10.
Definition nx_lower (r : rune) : rune := if (65 <=? r) && (r <=? 90) then r + 32 else r.
Definition nx_letter (r : rune) : bool := ((97 <=? r) && (r <=? 122)) || ((65 <=? r) && (r <=? 90)).
Definition nx_digit (r : rune) : bool := (48 <=? r) && (r <=? 57).
Definition nx_methods (_ : N) (_ : bool) : list (str * N) := [].
Definition nx_call (_ : N) (_ : list value) : fres := FPanic.
Definition nx_pok (_ : pos) (s : str) : bool := match parse_code nx_letter nx_digit s with Some _ => true | None => false end.

Definition root (s : string) : node :=
  match load nx_space nx_lower [] [] [58] nx_pok (s2l s) with
  | inl n => n
  | inr _ => Node 0 None [] None
  end.
Definition elem (s : string) : node := match root s with Node _ _ (n :: _) _ => n | n => n end.
Definition frag (s : string) : template := let r := root s in mkT (n_children r) (n_children r).

Definition nx_mgr : manager :=
  mkM [116; 58] [58]
      [(s2l "f", frag "<b :k=""${v}"" :if=""${true}"">F</b>"); (s2l "g", frag "<i :text=""${v}"">old</i>")]
      (SData (VMap [])).
Definition nx_data : value :=
  VMap [(s2l "v", VStr (s2l "<&>")); (s2l "xs", VSeq false [VStr (s2l "a"); VStr (s2l "b""")] []); (s2l "yes", VBool true)].
Definition sc0 : scope := SCombine (SData nx_data) (SData (VMap [])).
Notation nx_node := (exec_node nx_space nx_lower nx_letter nx_digit nx_methods nx_call nx_mgr).
Definition st0 : rst := mkR [] None.
Definition show (x : R) := let '(o, r, _, _) := x in (l2s o, r).
Definition render (s : string) : string * rres :=
  let r := root s in
  show (nx_node 12 0 (n_children r) (Node 0 None (n_children r) None) sc0 true [] st0).

(* ---- one element with with + if + range + remove + dynamic + plain + text ---- *)
Eval vm_compute in render
  "<p id=""a"" :title=""${x}"" :remove=""none"" title=""old"" class=k :range=""i, x : xs"" :if=""${yes}"" :with=""w := ${v}"" :data-w=""${w}"" hidden :text=""${x}"">old</p> <q>z</q>".
(* ---- a dynamic attribute whose command starts with the prefix:  ::x  prints  :x="..." ---- *)
Eval vm_compute in render "<p ::x=""${v}"" :x=""1"" x=""0"" :=""e"" id=1>c</p>".
(* ---- a plain attribute named like a directive ---- *)
Eval vm_compute in render "<p if=""a"" text=b :text=""${v}"" remove>c</p>".
(* ---- insert / replace / define ---- *)
Eval vm_compute in render "<p a=1 :insert=""f"" :b=""${v}"">c</p>|<p a=1 :replace=""g"" :b=""${v}"">c</p>|<p a=1 :define=""h"" :b=""${v}"">c</p>".
Eval vm_compute in render "<p a=1 :insert=""f"" :replace=""g"" :b=""${v}"">c</p>|<p a=1 :replace=""g"" :insert=""f"" :b=""${v}"">c</p>".
(* ---- else chain ---- *)
Eval vm_compute in render "<p :if=""${false}"" a=1>c</p><p :else a=2 :k=""x"">d</p><p :else a=3>e</p>".
(* ---- block tags (tag prefix t:) ---- *)
Eval vm_compute in render "<t:block a=1 :k=""${v}"">in<b>x</b></t:block>|<T:Block>y</T:Block>|<t:blocks>n</t:blocks>|<t:block/>|<t:block :text=""${v}"">o</t:block>".
Eval vm_compute in render "<t:block :range=""x : xs"" :a=""${x}"">[${x}]</t:block>".
(* ---- comments ---- *)
Eval vm_compute in render "a<!--/* hidden */-->b<!-- /*h*/ -->c<!--shown-->d<!--/* not hidden -->e<!--/**/-->f<!--/*/-->g".
(* the writer with an exhausted budget: the hidden comment performs one (empty) Write *)
Eval vm_compute in
  let n := elem "<!--/*h*/-->" in
  (nx_node 12 0 [] n sc0 true [] (mkR [] (Some O)), nx_node 12 0 [] n sc0 false [] (mkR [] (Some O))).
(* errors: nothing of the element is written *)
Eval vm_compute in render "<p a=1 :k=""${nope(}"">c</p>".
Eval vm_compute in render "x<p a=1 :k=""${nope}"" :with=""oops"">c</p>".
