(* Go's operator precedence table (https://go.dev/ref/spec#Operator_precedence), written down
   independently, and its agreement with the levels of the generated parser. *)
From Tpl Require Import Exp.Parse.
From Coq Require Import Lia.
Definition go_prec (b : binop) : nat :=
  match b with
  | BMul | BDiv | BMod | BShl | BShr | BAnd | BAndNot => 5
  | BAdd | BSub | BOr | BXor => 4
  | BEq | BNe | BLt | BLe | BGt | BGe => 3
  | BLAnd => 2
  | BLOr => 1
  end.
Lemma blevel_is_go_prec : forall b, blevel b = S (go_prec b).
Proof. destruct b; reflexivity. Qed.
Lemma blevel_order_is_go_order : forall a b, (blevel a < blevel b <-> go_prec a < go_prec b)%nat.
Proof. intros a b. rewrite !blevel_is_go_prec. lia. Qed.
