(* Non-vacuity of Proofs/Compose.v on the element of Proofs/ComposeExp.v:
     <p :text="${ta(x)}" :range="i, x : oa(w)" class="k" :if="${ca(w)}" :title="${aa(x)}" :with="w := ${fa()}">old</p>
   (written order "order2": directives reversed, :text BEFORE :title, one plain attribute in between) and
     <p :title="${aa(x)}" :range="i, x : oa(w)" :text="${ta(x)}" :with="w := ${fa()}" :if="${ca(w)}">old</p>
   ("order3").  [composed] is proved for both; the theorems predict the render, and the prediction is
   computed (vm_compute of spec_once / spec_one) and compared with the render computed directly. *)
From Coq Require Import List NArith ZArith Bool Lia Permutation.
From Tpl Require Import Html.Exec Proofs.ChainWith Proofs.EmitProps Proofs.Compose Proofs.ComposeExp.
Import ListNotations.
Open Scope N_scope.

Definition x_tok (l : list attr) : token := mkTok KTag [] p0 p0 [112] l.
Definition x_av : str := q ([105;44;32;120;32;58;32] ++ call1 [111;97] [119]).
Definition x_sc : scope := SCombine (SData x_data) (m_global x_mgr).
Definition x_ctx (l : list attr) : list node := [x_elem l; x_blank; x_tail].

Lemma x_dynamic : dynamic x_mgr a_title.
Proof. exists s_title. split; reflexivity. Qed.

Example x_composed2 : composed x_lower x_mgr (x_elem order2) (x_tok order2) a_with a_if a_range a_text x_av [a_title].
Proof.
  unfold composed.
  split; [reflexivity|]. split; [reflexivity|]. split; [reflexivity|].
  split; [reflexivity|]. split; [reflexivity|]. split; [reflexivity|]. split; [reflexivity|].
  split; [discriminate|]. split; [reflexivity|].
  split; [constructor; [exact x_dynamic|constructor]|].
  change (dirs x_mgr (x_tok order2)) with [a_text; a_range; a_if; a_title; a_with].
  apply Permutation_sym.
  apply (Permutation_cons_app [a_text; a_range; a_if; a_title] [] a_with). cbn [app].
  apply (Permutation_cons_app [a_text; a_range] [a_title] a_if). cbn [app].
  apply perm_swap.
Qed.

Example x_composed3 : composed x_lower x_mgr (x_elem order3) (x_tok order3) a_with a_if a_range a_text x_av [a_title].
Proof.
  unfold composed.
  split; [reflexivity|]. split; [reflexivity|]. split; [reflexivity|].
  split; [reflexivity|]. split; [reflexivity|]. split; [reflexivity|]. split; [reflexivity|].
  split; [discriminate|]. split; [reflexivity|].
  split; [constructor; [exact x_dynamic|constructor]|].
  change (dirs x_mgr (x_tok order3)) with [a_title; a_range; a_text; a_with; a_if].
  apply Permutation_sym.
  apply (Permutation_cons_app [a_title; a_range; a_text] [a_if] a_with). cbn [app].
  apply (Permutation_cons_app [a_title; a_range; a_text] [] a_if). cbn [app].
  apply (Permutation_cons_app [a_title] [a_text] a_range). cbn [app].
  apply perm_swap.
Qed.

Definition x_node (call : N -> list value -> fres) :=
  exec_node x_space x_lower x_letter x_digit x_methods call x_mgr.
Definition shown (x : R) := let '(o, r, t, st) := x in (o, r, t, rev (r_log st)).

(* order2, 3 items, condition true: predicted by compose_exec_node ... *)
Example x_order2_by_theorem :
  shown (x_node (x_call tt 3 0 []) 5 0 (x_ctx order2) (x_elem order2) x_sc true [] (mkR [] None))
  = shown (spec_once x_space x_letter x_digit x_methods (x_call tt 3 0 []) x_mgr
             (x_ctx order2) (x_elem order2) (x_tok order2) a_with a_if a_text x_av x_sc true [] (mkR [] None)).
Proof.
  unfold x_node.
  rewrite (compose_exec_node x_space x_lower x_letter x_digit x_methods (x_call tt 3 0 []) x_mgr
             (x_ctx order2) (x_elem order2) (x_tok order2) a_with a_if a_range a_text x_av [a_title] x_composed2 2).
  reflexivity.
Qed.
(* ... the prediction, computed: fa once, ca once (argument W: the with binding), oa once (argument W), then
   per item aa (title) BEFORE ta (text) although :text is written first; separator "\n " between instances *)
Example x_order2_spec :
  shown (spec_once x_space x_letter x_digit x_methods (x_call tt 3 0 []) x_mgr
           (x_ctx order2) (x_elem order2) (x_tok order2) a_with a_if a_text x_av x_sc true [] (mkR [] None))
  = ([60; 112; 32; 116; 105; 116; 108; 101; 61; 34; 38; 108; 116; 59; 107; 49; 34; 32; 99; 108; 97; 115; 115; 61; 34; 107; 34; 62;
      107; 49; 38; 97; 109; 112; 59; 60; 47; 112; 62; 10; 32;
      60; 112; 32; 116; 105; 116; 108; 101; 61; 34; 38; 108; 116; 59; 107; 50; 34; 32; 99; 108; 97; 115; 115; 61; 34; 107; 34; 62;
      107; 50; 38; 97; 109; 112; 59; 60; 47; 112; 62; 10; 32;
      60; 112; 32; 116; 105; 116; 108; 101; 61; 34; 38; 108; 116; 59; 107; 51; 34; 32; 99; 108; 97; 115; 115; 61; 34; 107; 34; 62;
      107; 51; 38; 97; 109; 112; 59; 60; 47; 112; 62],
     ROk, [(1, true)],
     [(1, []); (11, [VStr [87]]); (31, [VStr [87]]);
      (41, [VStr [107; 49]]); (21, [VStr [107; 49]]);
      (41, [VStr [107; 50]]); (21, [VStr [107; 50]]);
      (41, [VStr [107; 51]]); (21, [VStr [107; 51]])]).
Proof. vm_compute. reflexivity. Qed.
(* ... and the render computed directly *)
Example x_order2_direct :
  shown (x_node (x_call tt 3 0 []) 5 0 (x_ctx order2) (x_elem order2) x_sc true [] (mkR [] None))
  = shown (spec_once x_space x_letter x_digit x_methods (x_call tt 3 0 []) x_mgr
             (x_ctx order2) (x_elem order2) (x_tok order2) a_with a_if a_text x_av x_sc true [] (mkR [] None)).
Proof. vm_compute. reflexivity. Qed.

(* order3 (no plain attribute): compose_one_title, text failing at item 2 *)
Example x_order3_by_theorem :
  shown (x_node (x_call tt 3 21 [107;50]) 3 0 (x_ctx order3) (x_elem order3) x_sc true [] (mkR [] None))
  = shown (spec_one x_space x_letter x_digit x_methods (x_call tt 3 21 [107;50]) x_mgr
             (x_ctx order3) (x_elem order3) (x_tok order3) a_with a_if a_text x_av a_title s_title x_sc true [] (mkR [] None)).
Proof.
  unfold x_node.
  rewrite (compose_one_title x_space x_lower x_letter x_digit x_methods (x_call tt 3 21 [107;50]) x_mgr
             (x_ctx order3) (x_elem order3) (x_tok order3) a_with a_if a_range a_text x_av a_title s_title x_composed3 eq_refl).
  - reflexivity.
  - intros b Hb. cbn in Hb. destruct Hb as [Hb|[Hb|[Hb|[Hb|[Hb|[]]]]]]; subst b; reflexivity.
Qed.
Example x_order3_spec :
  shown (spec_one x_space x_letter x_digit x_methods (x_call tt 3 21 [107;50]) x_mgr
           (x_ctx order3) (x_elem order3) (x_tok order3) a_with a_if a_text x_av a_title s_title x_sc true [] (mkR [] None))
  = ([], RErr (RC (CUser 7)), [(1, true)],
     [(1, []); (11, [VStr [87]]); (31, [VStr [87]]);
      (41, [VStr [107; 49]]); (21, [VStr [107; 49]]);
      (41, [VStr [107; 50]]); (21, [VStr [107; 50]])]).
Proof. vm_compute. reflexivity. Qed.

Print Assumptions x_order2_by_theorem.
Print Assumptions x_order3_by_theorem.
