(* C14 + C02, END TO END: from SOURCE TEXT to OUTPUT TEXT through the whole pipeline

       scan (Html/Scan.v)  ->  directive-value compiler (Html/Code.v, with exp.ParseCode = Exp/Lex.v + Exp/Parse.v as
       its oracle)  ->  tree builder (Html/Tree.v)  ->  renderer (Html/Exec.v)  ->  evaluator (Exp/Eval.v, Exp/Lit.v)

   For every string s the template
       <p :text=D${LIT}D>x</p>            D = the attribute delimiter, LIT = a canonical spelling of s as a literal
   LOADS (the literal's braces, dollar-brace, back quotes and the quote other than D neither end the ${} block nor the
   attribute early) and, executed with ANY data, ANY global scope, an unlimited writer and fuel >= 2, writes exactly
       <p> ++ escape s ++ </p>
   with result ROk, the condition table and the call log unchanged.

     literal_text_end_to_end      D = double quote,  LIT = quote_with cSQ s   (single-quoted),  s without DQ
     raw_literal_text_end_to_end  D = double quote,  LIT = quote_raw s        (back-quoted),    s without DQ, BQ, CR (also D = SQ)
     dq_literal_text_end_to_end   D = single quote,  LIT = quote_with cDQ s   (double-quoted),  s without SQ
     code_text_end_to_end         the common statement, for any literal text with the four properties L1..L4

   (DQ = the double quote 34, SQ = the single quote 39, BQ = the back quote 96.)
   The conditions on s are exact for the canonical spellings: the HTML scanner ends a quoted attribute value at the first
   occurrence of its delimiter, whatever the ${} nesting (Html/Scan.v, TAttrValue), and quote_with q leaves the OTHER
   quote unescaped; see the counterexamples at the end (e2e_needs_no_dq, ...).

   Composition: LitRoundtrip (C14: *_roundtrip, *_one_token, scan_block_with / quoted_in_block / raw_in_block),
   PrintScanSteps (C17: the one-rune scanner lemmas), Readback.text_only_exec (C02), and the new links
   lex_string / parse_code_string (a string literal alone is one token and parses to ELit LStr),
   scan_p_text (the three tokens of the source), build_three, attr_evaluate_block.  No axiom of its own. *)
From Coq Require Import List NArith ZArith Bool Lia Arith.
From Tpl Require Import Html.Exec Proofs.LitSpec Proofs.LitRoundtrip Proofs.PrintScanDefs Proofs.PrintScanSteps
  Proofs.ExecSpec Proofs.RenderPlain Proofs.ChainWith Proofs.RemoveModes Proofs.Readback.
Import ListNotations.
Open Scope N_scope.

(* ------------------------------------------------------------------------------------------ *)
(* 1. exp.ParseCode on a string literal standing alone: one STRING token, the expression ELit LStr *)
(* ------------------------------------------------------------------------------------------ *)
Definition is_strq (q : rune) : Prop := q = cDQ \/ q = cSQ \/ q = cBQ.

Section LexLit.
Variable is_letter : rune -> bool.
Variable is_udigit : rune -> bool.

Lemma lex_default_string : forall q c t,
  is_strq q -> is_letter q = false ->
  m_string (q :: c :: t) = length (q :: c :: t) ->
  lex_default is_letter is_udigit (q :: c :: t) = mkCand (length (q :: c :: t)) (Some TStr) true.
Proof.
  intros q c t Hq Hl Hm. unfold lex_default. cbv zeta.
  assert (Hid : m_ident is_letter is_udigit (q :: c :: t) = O).
  { unfold m_ident, letter. rewrite Hl. destruct Hq as [->|[->| ->]]; reflexivity. }
  rewrite Hid. cbn [firstn].
  assert (Hp : m_punct puncts (q :: c :: t) None = None) by (destruct Hq as [->|[->| ->]]; reflexivity).
  rewrite Hp.
  assert (H1 : m_decimal (q :: c :: t) = O) by (destruct Hq as [->|[->| ->]]; reflexivity).
  assert (H2 : m_binary (q :: c :: t) = O) by (destruct Hq as [->|[->| ->]]; reflexivity).
  assert (H3 : m_octal (q :: c :: t) = O) by (destruct Hq as [->|[->| ->]]; reflexivity).
  assert (H4 : m_hex (q :: c :: t) = O) by (destruct Hq as [->|[->| ->]]; reflexivity).
  assert (H5 : m_float (q :: c :: t) = O) by (destruct Hq as [->|[->| ->]]; reflexivity).
  assert (H6 : m_imag (q :: c :: t) = O) by (destruct Hq as [->|[->| ->]]; reflexivity).
  assert (H7 : m_byteval (q :: c :: t) = O) by (destruct Hq as [->|[->| ->]]; reflexivity).
  assert (H8 : m_ws (q :: c :: t) = O) by (destruct Hq as [->|[->| ->]]; reflexivity).
  assert (H9 : m_comment true (q :: c :: t) = O) by (destruct Hq as [->|[->| ->]]; reflexivity).
  assert (H10 : m_term (q :: c :: t) = O) by (destruct Hq as [->|[->| ->]]; reflexivity).
  assert (H11 : m_line_comment (q :: c :: t) = O) by (destruct Hq as [->|[->| ->]]; reflexivity).
  rewrite H1, H2, H3, H4, H5, H6, H7, H8, H9, H10, H11, Hm.
  reflexivity.
Qed.

Lemma firstn_length_self : forall (A : Type) (l : list A), firstn (length l) l = l.
Proof. intros A l. apply firstn_all. Qed.
Lemma skipn_length_self : forall (A : Type) (l : list A), skipn (length l) l = [].
Proof. intros A l. apply skipn_all. Qed.

Lemma lex_string : forall q c t,
  is_strq q -> is_letter q = false ->
  m_string (q :: c :: t) = length (q :: c :: t) ->
  lex is_letter is_udigit (q :: c :: t) = Some [mkE TStr (q :: c :: t) 1 0].
Proof.
  intros q c t Hq Hl Hm. unfold lex.
  pose proof (lex_default_string q c t Hq Hl Hm) as Hd.
  remember (q :: c :: t) as s eqn:Es.
  assert (Hlen : length s = S (S (length t))) by (rewrite Es; reflexivity).
  assert (Hf : forall f, lex_loop is_letter is_udigit (S (S f)) false s 1 0 [] = Some [mkE TStr s 1 0]).
  { intros f. cbn [lex_loop]. rewrite Hd. cbn [c_len c_tk c_nlsemi].
    destruct s as [|x s']; [discriminate Es|]. cbn [length].
    change (S (length s')) with (length (x :: s')).
    rewrite firstn_length_self, skipn_length_self.
    destruct (advance 1 0 (x :: s')) as [l2 c2]. reflexivity. }
  rewrite Hlen. cbn [Nat.mul Nat.add]. apply Hf.
Qed.

Lemma parse_code_string : forall q c t,
  is_strq q -> is_letter q = false ->
  m_string (q :: c :: t) = length (q :: c :: t) ->
  parse_code is_letter is_udigit (q :: c :: t) = Some (ELit LStr (q :: c :: t) 1 0).
Proof.
  intros q c t Hq Hl Hm. unfold parse_code. rewrite (lex_string q c t Hq Hl Hm). reflexivity.
Qed.
End LexLit.

(* ------------------------------------------------------------------------------------------ *)
(* 2. the scanner on   <p :text=D body D>x</p>   (body without D)                                *)
(* ------------------------------------------------------------------------------------------ *)
Definition s_text_attr : str := [cCOLON; 116; 101; 120; 116].                        (* :text *)
Definition pre_src : str := [cLT; 112; cSP; cCOLON; 116; 101; 120; 116; cEQ].        (* <p :text= *)
Definition post_src : str := [cGT; 120; cLT; cSLASH; 112; cGT].                       (* >x</p> *)
Definition s_close_p : str := [cLT; cSLASH; 112; cGT].                                (* </p> *)

Section ScanSrc.
Variable is_space : rune -> bool.
Variable to_lower : rune -> rune.
Variable text_tags : list str.
Variable attr_prefix : str.
Variable compile : attr -> bool.
Notation step := (Scan.step is_space to_lower text_tags attr_prefix compile).
Notation run := (@fold_left sstate rune (Scan.step is_space to_lower text_tags attr_prefix compile)).

Lemma tname_char_plain toks p (buf : str) gs attrs (name cm cd an : str) ans ane (av : str) avs ave (r : rune) :
  N.eqb r cGT = false -> is_space r = false ->
  str_eqb (name ++ [r]) sBANGDD = false -> str_eqb (name ++ [r]) sCDATA = false ->
  step (mkS toks p (MTag (mkTag TName buf gs attrs name cm cd an ans ane av avs ave))) r =
  mkS toks (adv p r) (MTag (mkTag TName (buf ++ [r]) gs attrs (name ++ [r]) cm cd an ans ane av avs ave)).
Proof.
  intros Hgt Hsp H1 H2.
  rewrite (tname_char is_space to_lower text_tags attr_prefix compile toks p buf gs attrs name cm cd an ans ane av avs ave r Hgt Hsp).
  rewrite H1, H2. reflexivity.
Qed.

Definition last_ave (p ave : pos) (body : str) : pos := match body with [] => ave | _ => pos_after p body end.

Lemma aval_q_run : forall (body : str) (f : rune) (t : str) toks p (buf : str) gs attrs (name cm cd an : str) ans ane avs ave,
  is_quote f = true -> ~ In f body ->
  run body (mkS toks p (MTag (mkTag TAttrValue buf gs attrs name cm cd an ans ane (f :: t) avs ave))) =
  mkS toks (pos_after p body)
      (MTag (mkTag TAttrValue (buf ++ body) gs attrs name cm cd an ans ane (f :: t ++ body) avs (last_ave p ave body))).
Proof.
  induction body as [|r body IH]; intros f t toks p buf gs attrs name cm cd an ans ane avs ave Hq Hn.
  - cbn [fold_left pos_after last_ave]. rewrite !app_nil_r. reflexivity.
  - destruct (LitRoundtrip.not_in_cons f r body Hn) as [Hr Hb]. rewrite N.eqb_sym in Hr.
    cbn [fold_left].
    rewrite (aval_q_char is_space to_lower text_tags attr_prefix compile toks p buf gs attrs name cm cd an ans ane f t avs ave r Hq Hr).
    cbn [app]. rewrite (IH f (t ++ [r]) toks (adv p r) (buf ++ [r]) gs attrs name cm cd an ans ane avs (adv p r) Hq Hb).
    rewrite <- !app_assoc. cbn [app pos_after fold_left last_ave].
    destruct body as [|r2 body]; reflexivity.
Qed.

Hypothesis Hsp : is_space cSP = true.
Hypothesis Hnsp : forall c, In c [cEQ; cSLASH; cCOLON; 112; 116; 101; 120] -> is_space c = false.
Hypothesis Hraw_p : existsb (fun tt => str_eqb (Scan.lower to_lower [112]) (Scan.lower to_lower tt)) text_tags = false.

Variable d : rune.
Variable body : str.
Hypothesis Hd : is_quote d = true.
Hypothesis Hdsp : is_space d = false.
Hypothesis Hbody : ~ In d body.
Hypothesis Hcomp : forall a, a_name a = s_text_attr -> a_value a = Some (d :: body ++ [d]) -> compile a = true.

Lemma raw_tag_p : forall tok toks, t_kind tok = KTag -> t_name tok = [112] ->
  Scan.raw_tag_of_last to_lower text_tags (tok :: toks) = None.
Proof.
  intros tok toks Hk Hn. unfold Scan.raw_tag_of_last. rewrite Hk, Hn.
  destruct (existsb _ text_tags) eqn:E; [|reflexivity].
  discriminate Hraw_p.
Qed.

Lemma quote_not_gt : N.eqb d cGT = false.
Proof. unfold is_quote in Hd. apply orb_true_iff in Hd as [H|H]; apply N.eqb_eq in H; subst d; reflexivity. Qed.

Lemma fold_left_cons : forall (A B : Type) (f : A -> B -> A) (x : B) (l : list B) (a : A),
  fold_left f (x :: l) a = fold_left f l (f a x).
Proof. reflexivity. Qed.

Lemma src_cons : pre_src ++ d :: body ++ d :: post_src =
  cLT :: 112 :: cSP :: cCOLON :: 116 :: 101 :: 120 :: 116 :: cEQ :: d :: body ++ d :: post_src.
Proof. reflexivity. Qed.

Lemma scan_p_text : exists gs pe ans ane avs ave xs xe es ee,
  Scan.scan is_space to_lower text_tags attr_prefix compile (pre_src ++ d :: body ++ d :: post_src) =
  inl [ mkTok KTag (pre_src ++ d :: body ++ [d; cGT]) gs pe [112] [mkAttr s_text_attr ans ane (Some (d :: body ++ [d])) avs ave];
        mkTok KText [120] xs xe [] [];
        mkTok KTag s_close_p es ee [cSLASH; 112] [] ].
Proof.
  assert (S112 : is_space 112 = false) by (apply Hnsp; cbn; tauto).
  assert (S116 : is_space 116 = false) by (apply Hnsp; cbn; tauto).
  assert (S101 : is_space 101 = false) by (apply Hnsp; cbn; tauto).
  assert (S120 : is_space 120 = false) by (apply Hnsp; cbn; tauto).
  assert (Scol : is_space cCOLON = false) by (apply Hnsp; cbn; tauto).
  assert (Seq : is_space cEQ = false) by (apply Hnsp; cbn; tauto).
  assert (Ssl : is_space cSLASH = false) by (apply Hnsp; cbn; tauto).
  do 10 eexists. match goal with |- _ = ?R => set (rhs := R) end.
  unfold Scan.scan, init. rewrite src_cons. rewrite !fold_left_cons.
  rewrite fold_left_app. unfold post_src. rewrite !fold_left_cons.
  cbv beta iota delta [fold_left].
  rewrite init_lt by reflexivity. unfold new_tag.
  rewrite tname_char_plain by (try reflexivity; assumption).
  rewrite tname_sp by exact Hsp.
  rewrite tspace_char by (try reflexivity; assumption).
  rewrite aname_char by (try reflexivity; assumption).
  rewrite aname_char by (try reflexivity; assumption).
  rewrite aname_char by (try reflexivity; assumption).
  rewrite aname_char by (try reflexivity; assumption).
  rewrite aname_eq by exact Seq.
  rewrite aval_first by (try exact quote_not_gt; assumption).
  rewrite (aval_q_run body d []) by assumption.
  rewrite aval_q_end; [| exact Hd | apply Hcomp; reflexivity | reflexivity].
  rewrite tspace_gt.
  rewrite init_char; [| apply raw_tag_p; reflexivity | reflexivity].
  rewrite text_lt. unfold new_tag.
  rewrite tname_char_plain by (try reflexivity; assumption).
  rewrite tname_char_plain by (try reflexivity; assumption).
  rewrite tname_gt.
  unfold Scan.finish. cbn [s_mode s_toks rev app trim_sp N.eqb Pos.eqb cSP].
  rewrite <- !app_assoc. cbn [app]. subst rhs. unfold pre_src. cbn [app]. reflexivity.
Qed.
End ScanSrc.

(* ------------------------------------------------------------------------------------------ *)
(* 3. the tree builder on  open tag, text, close tag                                            *)
(* ------------------------------------------------------------------------------------------ *)
Lemma last_rune_snoc : forall (l : str) (c : rune), last_rune (l ++ [c]) = Some c.
Proof. intros l c. unfold last_rune. rewrite rev_app_distr. reflexivity. Qed.

Section BuildThree.
Variable to_lower : rune -> rune.
Variable void_elements : list str.

Lemma build_three : forall ptok xtok etok,
  t_kind ptok = KTag -> is_close ptok = false -> is_void to_lower void_elements (t_name ptok) = false ->
  t_kind xtok = KText ->
  t_kind etok = KTag -> is_close etok = true -> is_self_close etok = false ->
  is_void to_lower void_elements (t_name etok) = false ->
  build to_lower void_elements [ptok; xtok; etok] =
  Node 0 None [Node 1 (Some ptok) [Node 2 (Some xtok) [] None] (Some etok)] None.
Proof.
  intros ptok xtok etok Hpk Hpc Hpv Hxk Hek Hec Hes Hev. unfold build.
  assert (E1 : bstep to_lower void_elements (mkB [] [] 1) ptok = mkB [] [mkF 1 (Some ptok) []] 2).
  { unfold bstep. rewrite Hpk, Hpc, Hpv. reflexivity. }
  assert (E2 : bstep to_lower void_elements (mkB [] [mkF 1 (Some ptok) []] 2) xtok =
               mkB [leaf 2 xtok] [mkF 1 (Some ptok) []] 3).
  { unfold bstep. rewrite Hxk. reflexivity. }
  assert (E3 : bstep to_lower void_elements (mkB [leaf 2 xtok] [mkF 1 (Some ptok) []] 3) etok =
               mkB [Node 1 (Some ptok) [leaf 2 xtok] (Some etok)] [] 4).
  { unfold bstep. rewrite Hek, Hec, Hes, Hev. reflexivity. }
  rewrite !fold_left_cons. rewrite E1, E2, E3. reflexivity.
Qed.
End BuildThree.

(* ------------------------------------------------------------------------------------------ *)
(* 4. the whole pipeline, for any literal text with the properties L1..L4                       *)
(* ------------------------------------------------------------------------------------------ *)
Definition s_open_p : str := [cLT; 112; cGT].                                         (* <p> *)
(* the directive value  D${lit}D  and the source  <p :text=D${lit}D>x</p> *)
Definition code_value (d : rune) (lit : str) : str := d :: cDOLLAR :: cLB :: lit ++ [cRB; d].
Definition src_of (d : rune) (lit : str) : str := pre_src ++ code_value d lit ++ post_src.

Lemma not_block_key : forall (to_lower : rune -> rune) (tag_prefix : str),
  str_eqb (block_key to_lower [112]) (tag_prefix ++ d_block) = false.
Proof.
  intros to_lower tag_prefix. apply str_eqb_neq. intros E.
  assert (Hl : Nat.le (length (block_key to_lower [112])) 1).
  { unfold block_key, strip_slash. cbn [map rev app]. destruct (N.eqb (to_lower 112) cSLASH); cbn [rev length]; lia. }
  rewrite E, app_length in Hl. cbn [d_block length] in Hl. lia.
Qed.

Section EndToEnd.
Variable is_space : rune -> bool.
Variable to_lower : rune -> rune.
Variable is_letter : rune -> bool.
Variable is_udigit : rune -> bool.
Variable methods : N -> bool -> list (str * N).
Variable call_fn : N -> list value -> fres.
Variable text_tags : list str.
Variable void_elements : list str.
Variable mgr : manager.
Notation pok := (parse_ok is_letter is_udigit).
Notation attr_ev := (attr_evaluate is_letter is_udigit methods call_fn mgr).

(* the configuration: the default attribute prefix (a colon); <p> is neither a raw-text nor a void element *)
Hypothesis Hpfx : m_attr_prefix mgr = [cCOLON].
Hypothesis Hraw_p : existsb (fun tt => str_eqb (Scan.lower to_lower [112]) (Scan.lower to_lower tt)) text_tags = false.
Hypothesis Hvoid_p : is_void to_lower void_elements [112] = false.
Hypothesis Hvoid_cp : is_void to_lower void_elements [cSLASH; 112] = false.
(* the Unicode oracle: the blank is white space; the runes of  =/:ptex  are not *)
Hypothesis Hsp : is_space cSP = true.
Hypothesis Hnsp : forall c, In c [cEQ; cSLASH; cCOLON; 112; 116; 101; 120] -> is_space c = false.

Variable d : rune.            (* the attribute delimiter *)
Variable lit : str.           (* the text of the ${} block *)
Variable s : str.             (* its value *)
Hypothesis Hd : is_quote d = true.
Hypothesis Hdsp : is_space d = false.
(* L1: the code scanner, inside a ${} block, runs over lit and stays in the block at depth 0 *)
Hypothesis Hblock : forall (compile : pos -> str -> bool) t p f b st e,
  fold_left (cstep compile) lit (mkCS t p f b (CBlock [] st e)) =
  mkCS t (pos_after p lit) f b (CBlock lit st (pos_after p lit)).
(* L2: lit alone parses to the string literal with text lit *)
Hypothesis Hparse : parse_code is_letter is_udigit lit = Some (ELit LStr lit 1 0).
(* L3: decoding lit gives s *)
Hypothesis Hunq : unquote_lit lit = Ok s.
(* L4: lit does not contain the attribute delimiter *)
Hypothesis Hnod : ~ In d lit.

Definition block_body : str := cDOLLAR :: cLB :: lit ++ [cRB].

Lemma src_split : src_of d lit = pre_src ++ d :: block_body ++ d :: post_src.
Proof.
  unfold src_of, code_value, block_body. f_equal. cbn [app]. f_equal. f_equal. f_equal.
  rewrite <- !app_assoc. reflexivity.
Qed.
Lemma value_split : code_value d lit = d :: block_body ++ [d].
Proof. unfold code_value, block_body. cbn [app]. rewrite <- app_assoc. reflexivity. Qed.

Lemma quote_cases : d = cDQ \/ d = cSQ.
Proof. unfold is_quote in Hd. apply orb_true_iff in Hd as [H|H]; apply N.eqb_eq in H; auto. Qed.

Lemma body_no_d : ~ In d block_body.
Proof.
  unfold block_body. intros [H|[H|H]].
  - destruct quote_cases as [E|E]; rewrite E in H; discriminate H.
  - destruct quote_cases as [E|E]; rewrite E in H; discriminate H.
  - apply in_app_or in H as [H|[H|[]]]; [exact (Hnod H)|].
    destruct quote_cases as [E|E]; rewrite E in H; discriminate H.
Qed.

(* the directive-value compiler on the value *)
Lemma value_ctoks : forall start, exists toks,
  cscan pok start (code_value d lit) = inl toks /\
  map c_kind toks = [BegEnd; CodeStart; CodeValue; CodeEnd; BegEnd] /\
  map c_value toks = [[d]; [cDOLLAR; cLB]; lit; [cRB]; [d]].
Proof.
  intros start. apply (scan_block_with pok start d lit Hd (Hblock pok)).
  unfold parse_ok. rewrite Hparse. reflexivity.
Qed.

Lemma text_attr_ctoks : forall a, a_name a = s_text_attr -> a_value a = Some (code_value d lit) ->
  exists toks, attr_ctoks [cCOLON] pok a = inl toks /\
    map c_kind toks = [BegEnd; CodeStart; CodeValue; CodeEnd; BegEnd] /\
    map c_value toks = [[d]; [cDOLLAR; cLB]; lit; [cRB]; [d]].
Proof.
  intros a Hn Hv. unfold attr_ctoks. rewrite Hv, Hn.
  change (prefixb [cCOLON] s_text_attr) with true. cbv iota. apply value_ctoks.
Qed.

Lemma text_attr_compiles : forall a, a_name a = s_text_attr -> a_value a = Some (d :: block_body ++ [d]) ->
  compile_attr [cCOLON] pok a = true.
Proof.
  intros a Hn Hv. rewrite <- value_split in Hv. unfold compile_attr.
  destruct (text_attr_ctoks a Hn Hv) as (toks & E & _). rewrite E. reflexivity.
Qed.

(* LOAD: scan + compile + build *)
Definition loaded (root : node) : Prop :=
  exists gs pe ans ane avs ave xs xe es ee,
    root = Node 0 None
      [Node 1 (Some (mkTok KTag (pre_src ++ code_value d lit ++ [cGT]) gs pe [112]
                            [mkAttr s_text_attr ans ane (Some (code_value d lit)) avs ave]))
              [Node 2 (Some (mkTok KText [120] xs xe [] [])) [] None]
              (Some (mkTok KTag s_close_p es ee [cSLASH; 112] []))] None.

Theorem source_loads : exists root,
  load is_space to_lower text_tags void_elements [cCOLON] pok (src_of d lit) = inl root /\ loaded root.
Proof.
  destruct (scan_p_text is_space to_lower text_tags [cCOLON] (compile_attr [cCOLON] pok) Hsp Hnsp Hraw_p
              d block_body Hd Hdsp body_no_d text_attr_compiles)
    as (gs & pe & ans & ane & avs & ave & xs & xe & es & ee & Hscan).
  unfold load, scan_html. rewrite src_split, Hscan. eexists. split; [reflexivity|].
  rewrite build_three.
  - exists gs, pe, ans, ane, avs, ave, xs, xe, es, ee. rewrite value_split.
    replace ((d :: block_body ++ [d]) ++ [cGT]) with (d :: block_body ++ [d; cGT])
      by (cbn [app]; rewrite <- app_assoc; reflexivity).
    reflexivity.
  - reflexivity.
  - unfold is_close, is_self_close. cbn [t_name t_attrs rev app a_value prefixb N.eqb cSLASH Pos.eqb andb orb].
    unfold ends_slash. change (d :: block_body ++ [d]) with ((d :: block_body) ++ [d]). rewrite last_rune_snoc.
    destruct quote_cases as [E|E]; rewrite E; reflexivity.
  - exact Hvoid_p.
  - reflexivity.
  - reflexivity.
  - reflexivity.
  - reflexivity.
  - exact Hvoid_cp.
Qed.

(* EVALUATE: the block evaluates to s in every scope and leaves the call log alone *)
Lemma eval_text_lit : forall sc lg,
  eval_text is_letter is_udigit methods call_fn sc lit lg = (Ok (VStr s), lg).
Proof. intros sc lg. unfold eval_text. rewrite Hparse. cbn [eval]. rewrite Hunq. reflexivity. Qed.

Lemma eval_block_lit : forall sc lg,
  eval_block is_letter is_udigit methods call_fn sc lit lg = (Ok s, lg).
Proof. intros sc lg. unfold eval_block. rewrite eval_text_lit. reflexivity. Qed.

Lemma eval_ctoks_block : forall sc toks lg,
  map c_kind toks = [BegEnd; CodeStart; CodeValue; CodeEnd; BegEnd] ->
  map c_value toks = [[d]; [cDOLLAR; cLB]; lit; [cRB]; [d]] ->
  eval_ctoks is_letter is_udigit methods call_fn sc toks [] lg = (Ok s, lg).
Proof.
  intros sc toks lg Hk Hv.
  destruct toks as [|t1 [|t2 [|t3 [|t4 [|t5 [|t6 r]]]]]]; try discriminate Hk.
  cbn [map] in Hk, Hv. injection Hk as K1 K2 K3 K4 K5. injection Hv as V1 V2 V3 V4 V5.
  cbn [eval_ctoks]. rewrite K1, K2, K3, K4, K5. cbv iota. rewrite V3, eval_block_lit. reflexivity.
Qed.

Lemma text_attr_evaluates : forall a sc lg, a_name a = s_text_attr -> a_value a = Some (code_value d lit) ->
  attr_ev a sc lg = (AOk s, lg).
Proof.
  intros a sc lg Hn Hv. unfold attr_evaluate. rewrite Hv. unfold ctoks_of, prefix. rewrite Hpfx.
  destruct (text_attr_ctoks a Hn Hv) as (toks & E & Hk & Hvv). rewrite E.
  destruct toks as [|t0 r]; [discriminate Hk|]. cbv iota.
  rewrite (eval_ctoks_block sc (t0 :: r) lg Hk Hvv). reflexivity.
Qed.

Lemma exec_node_S : forall f mask ctx n sc top t st,
  exec_node is_space to_lower is_letter is_udigit methods call_fn mgr (S f) mask ctx n sc top t st =
  exec_body is_space to_lower is_letter is_udigit methods call_fn mgr
    (exec_node is_space to_lower is_letter is_udigit methods call_fn mgr f) mask ctx n sc top t st.
Proof. reflexivity. Qed.

Lemma set_log_same : forall st, set_log st (r_log st) = st.
Proof. intros [lg b]. reflexivity. Qed.

(* EXECUTE *)
Theorem loaded_executes : forall root, loaded root ->
  forall (data : value) (t : tbl) (st : rst) (fuel : nat), r_budget st = None -> (2 <= fuel)%nat ->
  execute is_space to_lower is_letter is_udigit methods call_fn mgr fuel
          (mkT (n_children root) (n_children root)) data t st =
  (s_open_p ++ escape s ++ s_close_p, ROk, t, st).
Proof.
  intros root (gs & pe & ans & ane & avs & ave & xs & xe & es & ee & ->) data t st fuel Hb Hf.
  destruct fuel as [|[|f]]; [lia|lia|].
  unfold execute. cbn [n_children tp_ctx tp_children].
  set (sc := SCombine _ _).
  set (a := mkAttr s_text_attr ans ane (Some (code_value d lit)) avs ave).
  set (ptok := mkTok KTag (pre_src ++ code_value d lit ++ [cGT]) gs pe [112] [a]).
  set (etok := mkTok KTag s_close_p es ee [cSLASH; 112] []).
  set (pnode := Node 1 (Some ptok) [Node 2 (Some (mkTok KText [120] xs xe [] [])) [] None] (Some etok)).
  assert (Hw : RenderPlain.wok true st) by (right; exact Hb).
  assert (Hsd : single_dir to_lower mgr d_text pnode ptok a).
  { unfold single_dir. rewrite Hpfx. repeat split. apply not_block_key. }
  assert (Hev : attr_ev a sc (r_log st) = (AOk s, r_log st)) by (apply text_attr_evaluates; reflexivity).
  assert (Hp : forall ctx,
    exec_node is_space to_lower is_letter is_udigit methods call_fn mgr (S f) 0 ctx pnode sc true t st =
    (s_open_p ++ escape s ++ s_close_p, ROk, t, st)).
  { intros ctx. rewrite exec_node_S.
    rewrite (text_only_exec is_space to_lower is_letter is_udigit methods call_fn mgr _ 0 ctx pnode ptok a sc true t st
               s (r_log st) Hsd Hw Hev).
    rewrite set_log_same. f_equal. f_equal. f_equal.
    unfold open_tag, open_buf, kept. rewrite Hpfx. reflexivity. }
  rewrite exec_node_S. unfold exec_body at 1. cbn [n_tok n_children].
  rewrite (wr_ok true [] t st Hw).
  rewrite (seq2_ok [] t st _ (s_open_p ++ escape s ++ s_close_p) ROk t st); [reflexivity|].
  cbn [exec_list]. rewrite Hp. unfold seq2. rewrite app_nil_r. reflexivity.
Qed.

(* SOURCE TEXT TO OUTPUT TEXT *)
Theorem code_text_end_to_end : exists root,
  load is_space to_lower text_tags void_elements [cCOLON] pok (src_of d lit) = inl root /\
  forall (data : value) (t : tbl) (st : rst) (fuel : nat), r_budget st = None -> (2 <= fuel)%nat ->
  execute is_space to_lower is_letter is_udigit methods call_fn mgr fuel
          (mkT (n_children root) (n_children root)) data t st =
  (s_open_p ++ escape s ++ s_close_p, ROk, t, st).
Proof.
  destruct source_loads as (root & Hl & Hr). exists root. split; [exact Hl|]. apply loaded_executes. exact Hr.
Qed.
End EndToEnd.

(* ------------------------------------------------------------------------------------------ *)
(* 5. the three canonical spellings                                                            *)
(* ------------------------------------------------------------------------------------------ *)
(* the environment: default attribute prefix (a colon), <p> neither raw-text nor void, and eight facts about the white-space
   table (the blank is white space; the seven runes of  =/:ptex  are not) *)
Definition e2e_env (is_space : rune -> bool) (to_lower : rune -> rune) (text_tags void_elements : list str)
    (mgr : manager) : Prop :=
  m_attr_prefix mgr = [cCOLON] /\
  existsb (fun tt => str_eqb (Scan.lower to_lower [112]) (Scan.lower to_lower tt)) text_tags = false /\
  is_void to_lower void_elements [112] = false /\
  is_void to_lower void_elements [cSLASH; 112] = false /\
  is_space cSP = true /\
  (forall c, In c [cEQ; cSLASH; cCOLON; 112; 116; 101; 120] -> is_space c = false).

(* source text |-> output text *)
Definition renders_to (is_space : rune -> bool) (to_lower : rune -> rune) (is_letter is_udigit : rune -> bool)
    (methods : N -> bool -> list (str * N)) (call_fn : N -> list value -> fres)
    (text_tags void_elements : list str) (mgr : manager) (src out : str) : Prop :=
  exists root,
    load is_space to_lower text_tags void_elements (m_attr_prefix mgr) (parse_ok is_letter is_udigit) src = inl root /\
    forall (data : value) (t : tbl) (st : rst) (fuel : nat), r_budget st = None -> (2 <= fuel)%nat ->
      execute is_space to_lower is_letter is_udigit methods call_fn mgr fuel
              (mkT (n_children root) (n_children root)) data t st = (out, ROk, t, st).

Lemma quote_with_shape : forall q s, exists c t, quote_with q s = q :: c :: t.
Proof.
  intros q s. unfold quote_with. destruct (flat_map (esc_rune q) s ++ [q]) as [|c t] eqn:E.
  - apply app_eq_nil in E as [_ E]. discriminate E.
  - exists c, t. reflexivity.
Qed.
Lemma quote_raw_shape : forall s, exists c t, quote_raw s = cBQ :: c :: t.
Proof.
  intros s. unfold quote_raw. destruct (s ++ [cBQ]) as [|c t] eqn:E.
  - apply app_eq_nil in E as [_ E]. discriminate E.
  - exists c, t. reflexivity.
Qed.

(* a rune that is neither the quote, nor the backslash, nor 'n' occurs in the canonical spelling only if it occurs in s *)
Lemma in_quote_with : forall (x q : rune) (s : str), x <> q -> x <> cBS -> x <> 110 ->
  In x (quote_with q s) -> In x s.
Proof.
  intros x q s Hq Hb Hn H. unfold quote_with in H. destruct H as [H|H]; [contradiction (Hq (eq_sym H))|].
  apply in_app_or in H as [H|[H|[]]]; [|contradiction (Hq (eq_sym H))].
  apply in_flat_map in H as (c & Hc & Hx).
  destruct (esc_rune_cases q c) as [[_ He]|[[_ [_ He]]|[[_ [_ [_ He]]]|[_ [_ [_ He]]]]]]; rewrite He in Hx.
  - destruct Hx as [Hx|[Hx|[]]]; [contradiction (Hb (eq_sym Hx))|contradiction (Hq (eq_sym Hx))].
  - destruct Hx as [Hx|[Hx|[]]]; contradiction (Hb (eq_sym Hx)).
  - destruct Hx as [Hx|[Hx|[]]]; [contradiction (Hb (eq_sym Hx))|contradiction (Hn (eq_sym Hx))].
  - destruct Hx as [Hx|[]]. subst c. exact Hc.
Qed.
Lemma in_quote_raw : forall (x : rune) (s : str), x <> cBQ -> In x (quote_raw s) -> In x s.
Proof.
  intros x s Hq H. unfold quote_raw in H. destruct H as [H|H]; [contradiction (Hq (eq_sym H))|].
  apply in_app_or in H as [H|[H|[]]]; [exact H|contradiction (Hq (eq_sym H))].
Qed.

Lemma src_of_flat : forall (d : rune) (lit : str),
  pre_src ++ [d; cDOLLAR; cLB] ++ lit ++ [cRB; d] ++ post_src = src_of d lit.
Proof.
  intros d lit. unfold src_of, code_value. f_equal. cbn [app]. f_equal. f_equal. f_equal.
  rewrite <- app_assoc. reflexivity.
Qed.

Section Spellings.
Variable is_space : rune -> bool.
Variable to_lower : rune -> rune.
Variable is_letter : rune -> bool.
Variable is_udigit : rune -> bool.
Variable methods : N -> bool -> list (str * N).
Variable call_fn : N -> list value -> fres.
Variable text_tags : list str.
Variable void_elements : list str.
Variable mgr : manager.
Hypothesis Henv : e2e_env is_space to_lower text_tags void_elements mgr.
Notation renders := (renders_to is_space to_lower is_letter is_udigit methods call_fn text_tags void_elements mgr).

(* the common part: attribute delimiter d, literal with quote q *)
Lemma spelling_end_to_end : forall (d q : rune) (lit s : str) c0 t0,
  is_quote d = true -> is_space d = false ->
  lit = q :: c0 :: t0 -> is_strq q -> is_letter q = false -> m_string lit = length lit ->
  (forall (compile : pos -> str -> bool) t p f b st e,
     fold_left (cstep compile) lit (mkCS t p f b (CBlock [] st e)) =
     mkCS t (pos_after p lit) f b (CBlock lit st (pos_after p lit))) ->
  unquote_lit lit = Ok s -> ~ In d lit ->
  renders (src_of d lit) (s_open_p ++ escape s ++ s_close_p).
Proof.
  intros d q lit s c0 t0 Hd Hdsp Hshape Hq Hlet Hone Hblock Hunq Hnod.
  destruct Henv as (Hpfx & Hraw & Hv1 & Hv2 & Hsp & Hnsp).
  assert (Hparse : parse_code is_letter is_udigit lit = Some (ELit LStr lit 1 0)).
  { rewrite Hshape. apply parse_code_string; [exact Hq|exact Hlet|]. rewrite <- Hshape. exact Hone. }
  unfold renders_to. rewrite Hpfx.
  exact (code_text_end_to_end is_space to_lower is_letter is_udigit methods call_fn text_tags void_elements mgr
           Hpfx Hraw Hv1 Hv2 Hsp Hnsp d lit s Hd Hdsp Hblock Hparse Hunq Hnod).
Qed.

(* <p :text=DQ ${'...'} DQ>x</p> : single-quoted literal inside a double-quoted attribute *)
Theorem literal_text_end_to_end :
  is_space cDQ = false -> is_letter cSQ = false ->
  forall s : str, ~ In cDQ s ->
  renders (pre_src ++ [cDQ; cDOLLAR; cLB] ++ quote_with cSQ s ++ [cRB; cDQ] ++ post_src)
          (s_open_p ++ escape s ++ s_close_p).
Proof.
  intros Hdsp Hlet s Hs. destruct (quote_with_shape cSQ s) as (c0 & t0 & Hshape). rewrite src_of_flat.
  apply (spelling_end_to_end cDQ cSQ (quote_with cSQ s) s c0 t0 eq_refl Hdsp Hshape (or_intror (or_introl eq_refl)) Hlet
           (sq_one_token s) (fun compile => quoted_in_block compile cSQ s (or_intror eq_refl)) (sq_roundtrip s)).
  intros H. apply Hs. apply (in_quote_with cDQ cSQ s); [discriminate|discriminate|discriminate|exact H].
Qed.

(* <p :text=SQ ${ DQ...DQ } SQ>x</p> : double-quoted literal inside a single-quoted attribute *)
Theorem dq_literal_text_end_to_end :
  is_space cSQ = false -> is_letter cDQ = false ->
  forall s : str, ~ In cSQ s ->
  renders (pre_src ++ [cSQ; cDOLLAR; cLB] ++ quote_with cDQ s ++ [cRB; cSQ] ++ post_src)
          (s_open_p ++ escape s ++ s_close_p).
Proof.
  intros Hdsp Hlet s Hs. destruct (quote_with_shape cDQ s) as (c0 & t0 & Hshape). rewrite src_of_flat.
  apply (spelling_end_to_end cSQ cDQ (quote_with cDQ s) s c0 t0 eq_refl Hdsp Hshape (or_introl eq_refl) Hlet
           (dq_one_token s) (fun compile => quoted_in_block compile cDQ s (or_introl eq_refl)) (dq_roundtrip s)).
  intros H. apply Hs. apply (in_quote_with cSQ cDQ s); [discriminate|discriminate|discriminate|exact H].
Qed.

(* <p :text=d ${`...`} d>x</p> : raw literal, either attribute delimiter d *)
Theorem raw_literal_text_end_to_end : forall d : rune,
  is_quote d = true -> is_space d = false -> is_letter cBQ = false ->
  forall s : str, ~ In d s -> ~ In cBQ s -> ~ In cCR s ->
  renders (pre_src ++ [d; cDOLLAR; cLB] ++ quote_raw s ++ [cRB; d] ++ post_src)
          (s_open_p ++ escape s ++ s_close_p).
Proof.
  intros d Hd Hdsp Hlet s Hs Hbq Hcr. destruct (quote_raw_shape s) as (c0 & t0 & Hshape). rewrite src_of_flat.
  apply (spelling_end_to_end d cBQ (quote_raw s) s c0 t0 Hd Hdsp Hshape (or_intror (or_intror eq_refl)) Hlet
           (raw_one_token s Hbq) (fun compile => raw_in_block compile s Hbq) (raw_roundtrip s Hbq Hcr)).
  intros H. apply Hs. apply (in_quote_raw d s); [|exact H].
  unfold is_quote in Hd. apply orb_true_iff in Hd as [E|E]; apply N.eqb_eq in E; subst d; discriminate.
Qed.
End Spellings.

(* ------------------------------------------------------------------------------------------ *)
(* 6. non-vacuity and necessity, by computation                                                *)
(*    concrete ASCII tables of Proofs/ReadbackExample.v, default raw-text tags and void elements of Gen/Facts.v *)
(* ------------------------------------------------------------------------------------------ *)
From Coq Require Import String Ascii.
From Tpl Require Import Gen.Facts Proofs.ReadbackExample.

Lemma bx_env : e2e_env bx_space bx_lower default_text_tags default_void_elements bx_mgr.
Proof.
  unfold e2e_env. repeat split.
  intros c H. cbn [In] in H.
  destruct H as [<-|[<-|[<-|[<-|[<-|[<-|[<-|[]]]]]]]]; reflexivity.
Qed.

(* the hostile string  a}b${c{'`<&  : braces, dollar-brace, the single quote (the literal's own delimiter), a back
   quote, less-than, ampersand *)
Definition hostile : str := s2l "a}b${c{'`<&".
Definition hostile_src : str := s2l "<p :text=""${'a}b${c{\'`<&'}"">x</p>".
Definition hostile_out : str := s2l "<p>a}b${c{&#39;`&lt;&amp;</p>".

Example hostile_end_to_end :
  pre_src ++ [cDQ; cDOLLAR; cLB] ++ quote_with cSQ hostile ++ [cRB; cDQ] ++ post_src = hostile_src /\
  s_open_p ++ escape hostile ++ s_close_p = hostile_out /\
  renders_to bx_space bx_lower bx_letter bx_digit bx_methods bx_call default_text_tags default_void_elements bx_mgr
             hostile_src hostile_out.
Proof.
  assert (E1 : pre_src ++ [cDQ; cDOLLAR; cLB] ++ quote_with cSQ hostile ++ [cRB; cDQ] ++ post_src = hostile_src)
    by (vm_compute; reflexivity).
  assert (E2 : s_open_p ++ escape hostile ++ s_close_p = hostile_out) by (vm_compute; reflexivity).
  split; [exact E1|]. split; [exact E2|]. rewrite <- E1, <- E2.
  apply (literal_text_end_to_end bx_space bx_lower bx_letter bx_digit bx_methods bx_call default_text_tags
           default_void_elements bx_mgr bx_env eq_refl eq_refl hostile).
  intros H. vm_compute in H. repeat (destruct H as [H|H]; [discriminate H|]). exact H.
Qed.

(* the model computes the same: load, then execute with nil data, fuel 2, unlimited writer *)
Definition run_src (src : str) : (str * rres) + serr :=
  match load bx_space bx_lower default_text_tags default_void_elements [58] (parse_ok bx_letter bx_digit) src with
  | inl root =>
    match execute bx_space bx_lower bx_letter bx_digit bx_methods bx_call bx_mgr 2
                  (mkT (n_children root) (n_children root)) VNil [] (mkR [] None) with
    | (o, r, _, _) => inl (o, r)
    end
  | inr e => inr e
  end.
Example hostile_computed : run_src hostile_src = inl (hostile_out, ROk).
Proof. vm_compute. reflexivity. Qed.

(* every rune class at once, in all four admissible combinations: empty string, non-ASCII runes (233, 128512, 20013),
   NUL, tab, newline, backslash, backslash-n spelled out, comment openers, a close tag *)
Definition probe_strings : list str :=
  [ []; [233; 128512; 20013]; [0; 9; 10; 92]; [92; 110]; s2l "*/ /* //"; s2l "</p>"; s2l "}}}{{{${${"; [125]; [36; 123] ].
Definition probe (d : rune) (quote : str -> str) (s : str) : bool :=
  match run_src (pre_src ++ [d; cDOLLAR; cLB] ++ quote s ++ [cRB; d] ++ post_src) with
  | inl (o, ROk) => str_eqb o (s_open_p ++ escape s ++ s_close_p)
  | _ => false
  end.
Example probes_computed :
  forallb (probe cDQ (quote_with cSQ)) (hostile :: [39] :: [96] :: probe_strings) = true /\
  forallb (probe cSQ (quote_with cDQ)) ([34] :: [96] :: probe_strings) = true /\
  forallb (probe cDQ quote_raw) ([39] :: probe_strings) = true /\
  forallb (probe cSQ quote_raw) ([34] :: probe_strings) = true.
Proof. vm_compute. repeat split. Qed.

(* NECESSITY of the side conditions (findings about the model, each a computed run):
   - the attribute delimiter inside the literal ends the attribute early: the value  DQ ${ SQ  does not compile;
     quote_with cSQ leaves DQ unescaped, so no canonical single-quoted spelling of a string with DQ can stand in a
     double-quoted attribute (and symmetrically); a literal in the attribute's own quoting style never can *)
Example e2e_needs_no_dq : run_src (pre_src ++ [cDQ; cDOLLAR; cLB] ++ quote_with cSQ [cDQ] ++ [cRB; cDQ] ++ post_src) = inr ECompile.
Proof. vm_compute. reflexivity. Qed.
Example e2e_needs_no_sq : run_src (pre_src ++ [cSQ; cDOLLAR; cLB] ++ quote_with cDQ [cSQ] ++ [cRB; cSQ] ++ post_src) = inr ECompile.
Proof. vm_compute. reflexivity. Qed.
Example e2e_same_style_fails : run_src (pre_src ++ [cDQ; cDOLLAR; cLB] ++ quote_with cDQ [97] ++ [cRB; cDQ] ++ post_src) = inr ECompile.
Proof. vm_compute. reflexivity. Qed.
(*  - a raw literal cannot contain a back quote (the literal ends there: compile error), and loses carriage returns
      (the template loads and renders, but the output is <p></p>: the value is not s) *)
Example e2e_raw_needs_no_bq : run_src (pre_src ++ [cDQ; cDOLLAR; cLB] ++ quote_raw [cBQ] ++ [cRB; cDQ] ++ post_src) = inr ECompile.
Proof. vm_compute. reflexivity. Qed.
Example e2e_raw_needs_no_cr : run_src (pre_src ++ [cDQ; cDOLLAR; cLB] ++ quote_raw [cCR] ++ [cRB; cDQ] ++ post_src) = inl (s_open_p ++ s_close_p, ROk).
Proof. vm_compute. reflexivity. Qed.

Print Assumptions code_text_end_to_end.
Print Assumptions literal_text_end_to_end.
Print Assumptions dq_literal_text_end_to_end.
Print Assumptions raw_literal_text_end_to_end.
Print Assumptions hostile_end_to_end.
