(* Specification-side definitions used by the scanner theorems (no proofs here). *)
From Tpl Require Export Html.Scan Html.Tree.
Open Scope N_scope.

(* Tokens abut: each starts where the previous one ended and ends where its own text ends. *)
Fixpoint chain (p : pos) (toks : list token) : Prop :=
  match toks with
  | [] => True
  | t :: r => t_start t = p /\ t_end t = pos_after p (t_value t) /\ chain (t_end t) r
  end.

(* An attribute's name (resp. value) span lies inside the tag text at the reported positions. *)
Definition span_in (start : pos) (text : str) (s : str) (ps pe : pos) : Prop :=
  exists pre post, text = pre ++ s ++ post /\ ps = pos_after start pre /\ pe = pos_after ps s.
