(* C02: properties of the five-entity escape of the renderer. *)
From Tpl Require Import Proofs.ExecSpec.
From Coq Require Import Lia.
Open Scope N_scope.

(* ---------- the shape of escape1 ---------- *)
Lemma escape1_cases : forall c,
  (c = cAMP /\ escape1 c = s_amp) \/ (c = cSQ /\ escape1 c = s_sq) \/ (c = cLT /\ escape1 c = s_lt) \/
  (c = cGT /\ escape1 c = s_gt) \/ (c = cDQ /\ escape1 c = s_dq) \/
  (c <> cAMP /\ c <> cSQ /\ c <> cLT /\ c <> cGT /\ c <> cDQ /\ escape1 c = [c]).
Proof.
  intros c. unfold escape1.
  destruct (N.eqb c cAMP) eqn:E1; [apply N.eqb_eq in E1; auto|apply N.eqb_neq in E1].
  destruct (N.eqb c cSQ) eqn:E2; [apply N.eqb_eq in E2; auto|apply N.eqb_neq in E2].
  destruct (N.eqb c cLT) eqn:E3; [apply N.eqb_eq in E3; auto|apply N.eqb_neq in E3].
  destruct (N.eqb c cGT) eqn:E4; [apply N.eqb_eq in E4; auto 6|apply N.eqb_neq in E4].
  destruct (N.eqb c cDQ) eqn:E5; [apply N.eqb_eq in E5; auto 7|apply N.eqb_neq in E5].
  do 5 right. auto 10.
Qed.

Lemma escape_cons : forall c s, escape (c :: s) = escape1 c ++ escape s.
Proof. reflexivity. Qed.

Theorem escape_app : forall a b, escape (a ++ b) = escape a ++ escape b.
Proof. intros a b. unfold escape. apply flat_map_app. Qed.

(* ---------- round trip ---------- *)
Lemma unescape5_f_escape : forall s fuel, (length (escape s) <= fuel)%nat -> unescape5_f fuel (escape s) = s.
Proof.
  induction s as [|c s IH]; intros fuel Hf.
  - destruct fuel; reflexivity.
  - rewrite escape_cons in *. rewrite app_length in Hf.
    destruct (escape1_cases c) as [[Hc He]|[[Hc He]|[[Hc He]|[[Hc He]|[[Hc He]|(H1 & H2 & H3 & H4 & H5 & He)]]]]];
      rewrite He in *; try subst c.
    + destruct fuel as [|f]; [cbn in Hf; lia|].
      cbn [length s_amp] in Hf. cbn. f_equal. apply IH. lia.
    + destruct fuel as [|f]; [cbn in Hf; lia|].
      cbn [length s_sq] in Hf. cbn. f_equal. apply IH. lia.
    + destruct fuel as [|f]; [cbn in Hf; lia|].
      cbn [length s_lt] in Hf. cbn. f_equal. apply IH. lia.
    + destruct fuel as [|f]; [cbn in Hf; lia|].
      cbn [length s_gt] in Hf. cbn. f_equal. apply IH. lia.
    + destruct fuel as [|f]; [cbn in Hf; lia|].
      cbn [length s_dq] in Hf. cbn. f_equal. apply IH. lia.
    + destruct fuel as [|f]; [cbn in Hf; lia|].
      cbn [length] in Hf. cbn [app unescape5_f].
      apply N.eqb_neq in H1. rewrite H1. f_equal. apply IH. lia.
Qed.

Theorem escape_roundtrip : forall s, unescape5 (escape s) = s.
Proof. intros s. unfold unescape5. apply unescape5_f_escape. lia. Qed.

(* ---------- no markup-significant rune survives ---------- *)
Theorem escape_safe : forall s r, In r (escape s) -> r <> cLT /\ r <> cGT /\ r <> cDQ /\ r <> cSQ.
Proof.
  intros s r Hin. unfold escape in Hin. apply in_flat_map in Hin. destruct Hin as [c [_ Hr]].
  destruct (escape1_cases c) as [[Hc He]|[[Hc He]|[[Hc He]|[[Hc He]|[[Hc He]|(H1 & H2 & H3 & H4 & H5 & He)]]]]];
    rewrite He in Hr.
  1-5: cbn in Hr; repeat (destruct Hr as [Hr|Hr]; [subst r; repeat split; discriminate|]); contradiction.
  destruct Hr as [Hr|[]]. subst r. auto.
Qed.

(* ---------- every '&' of the output starts an entity ---------- *)
Lemma split_no_amp : forall e rest pre post, ~ In cAMP e -> e ++ rest = pre ++ cAMP :: post ->
  exists pre', pre = e ++ pre' /\ rest = pre' ++ cAMP :: post.
Proof.
  induction e as [|x e IH]; intros rest pre post Hn Heq.
  - exists pre. auto.
  - destruct pre as [|y pre].
    + cbn in Heq. injection Heq as Hx _. exfalso. apply Hn. left. exact Hx.
    + cbn in Heq. injection Heq as Hx Heq. subst y.
      destruct (IH rest pre post) as [pre' [Hp Hr]].
      * intros Hi. apply Hn. right. exact Hi.
      * exact Heq.
      * exists pre'. split; [cbn; f_equal; exact Hp|exact Hr].
Qed.

Definition entity_follows (post : str) : Prop :=
  prefixb (tl s_amp) post = true \/ prefixb (tl s_sq) post = true \/ prefixb (tl s_lt) post = true \/
  prefixb (tl s_gt) post = true \/ prefixb (tl s_dq) post = true.

Lemma entity_case : forall (e : str) rest pre post,
  ~ In cAMP e ->
  (forall s, prefixb e (e ++ s) = true) ->
  (forall pre' , rest = pre' ++ cAMP :: post -> entity_follows post) ->
  (prefixb e post = true -> entity_follows post) ->
  (cAMP :: e) ++ rest = pre ++ cAMP :: post -> entity_follows post.
Proof.
  intros e rest pre post Hn Hpre IH Hent Heq.
  destruct pre as [|y pre].
  - cbn in Heq. injection Heq as Heq. subst post. apply Hent. apply Hpre.
  - cbn in Heq. injection Heq as _ Heq.
    destruct (split_no_amp e rest pre post Hn Heq) as [pre' [_ Hr]].
    eapply IH. exact Hr.
Qed.

Lemma prefixb_app_self : forall e s, prefixb e (e ++ s) = true.
Proof. induction e as [|x e IH]; intros s; cbn; [reflexivity|]. rewrite N.eqb_refl. apply IH. Qed.

Theorem escape_amp_starts_entity : forall s pre post, escape s = pre ++ cAMP :: post ->
  prefixb (tl s_amp) post = true \/ prefixb (tl s_sq) post = true \/ prefixb (tl s_lt) post = true \/
  prefixb (tl s_gt) post = true \/ prefixb (tl s_dq) post = true.
Proof.
  induction s as [|c s IH]; intros pre post Heq.
  - destruct pre; discriminate Heq.
  - rewrite escape_cons in Heq. fold (entity_follows post).
    assert (IH' : forall pre', escape s = pre' ++ cAMP :: post -> entity_follows post)
      by (intros pre' H; exact (IH pre' post H)).
    destruct (escape1_cases c) as [[Hc He]|[[Hc He]|[[Hc He]|[[Hc He]|[[Hc He]|(H1 & H2 & H3 & H4 & H5 & He)]]]]];
      rewrite He in Heq.
    + apply (entity_case (tl s_amp) (escape s) pre post); auto using prefixb_app_self.
      * cbn. intros H. repeat (destruct H as [H|H]; [discriminate H|]). exact H.
      * intros H. left. exact H.
    + apply (entity_case (tl s_sq) (escape s) pre post); auto using prefixb_app_self.
      * cbn. intros H. repeat (destruct H as [H|H]; [discriminate H|]). exact H.
      * intros H. right. left. exact H.
    + apply (entity_case (tl s_lt) (escape s) pre post); auto using prefixb_app_self.
      * cbn. intros H. repeat (destruct H as [H|H]; [discriminate H|]). exact H.
      * intros H. right. right. left. exact H.
    + apply (entity_case (tl s_gt) (escape s) pre post); auto using prefixb_app_self.
      * cbn. intros H. repeat (destruct H as [H|H]; [discriminate H|]). exact H.
      * intros H. right. right. right. left. exact H.
    + apply (entity_case (tl s_dq) (escape s) pre post); auto using prefixb_app_self.
      * cbn. intros H. repeat (destruct H as [H|H]; [discriminate H|]). exact H.
      * intros H. right. right. right. right. exact H.
    + destruct (split_no_amp [c] (escape s) pre post) as [pre' [_ Hr]].
      * intros [H|[]]. apply H1. exact H.
      * exact Heq.
      * eapply IH'. exact Hr.
Qed.

(* conversely, the entity that follows is the escape of one source rune: a decomposition form *)
Theorem escape_amp_decompose : forall s pre post, escape s = pre ++ cAMP :: post ->
  exists s1 c s2, s = s1 ++ c :: s2 /\ pre = escape s1 /\ cAMP :: firstn (length (escape1 c) - 1) post = escape1 c /\
                  In c [cAMP; cSQ; cLT; cGT; cDQ] /\ skipn (length (escape1 c) - 1) post = escape s2.
Proof.
  induction s as [|c s IH]; intros pre post Heq.
  - destruct pre; discriminate Heq.
  - rewrite escape_cons in Heq.
    assert (Hsp : forall e, ~ In cAMP e -> escape1 c = cAMP :: e ->
              In c [cAMP; cSQ; cLT; cGT; cDQ] ->
              exists s1 c0 s2, c :: s = s1 ++ c0 :: s2 /\ pre = escape s1 /\
                cAMP :: firstn (length (escape1 c0) - 1) post = escape1 c0 /\
                In c0 [cAMP; cSQ; cLT; cGT; cDQ] /\ skipn (length (escape1 c0) - 1) post = escape s2).
    { intros e Hn He Hin. rewrite He in Heq. destruct pre as [|y pre].
      - cbn in Heq. injection Heq as Heq. subst post.
        exists [], c, s. rewrite He. cbn [length]. assert (Hl : forall k : nat, (S k - 1 = k)%nat) by (intros; lia). rewrite !Hl.
        rewrite firstn_app. rewrite Nat.sub_diag, firstn_all, skipn_app, Nat.sub_diag, skipn_all. cbn.
        rewrite app_nil_r. auto.
      - cbn in Heq. injection Heq as Hy Heq. subst y.
        destruct (split_no_amp e (escape s) pre post Hn Heq) as [pre' [Hp Hr]].
        destruct (IH pre' post Hr) as (s1 & c0 & s2 & Hs & Hp' & H3 & H4 & H5).
        exists (c :: s1), c0, s2. rewrite escape_cons, He, Hp, Hp', Hs. cbn. auto. }
    destruct (escape1_cases c) as [[Hc He]|[[Hc He]|[[Hc He]|[[Hc He]|[[Hc He]|(H1 & H2 & H3 & H4 & H5 & He)]]]]].
    1-5: eapply Hsp; [|rewrite He; reflexivity|subst c; cbn; auto 10];
         cbn; intros H; repeat (destruct H as [H|H]; [discriminate H|]); exact H.
    rewrite He in Heq.
    destruct (split_no_amp [c] (escape s) pre post) as [pre' [Hp Hr]].
    + intros [H|[]]. apply H1. exact H.
    + exact Heq.
    + destruct (IH pre' post Hr) as (s1 & c0 & s2 & Hs & Hp' & H3' & H4' & H5').
      exists (c :: s1), c0, s2. rewrite escape_cons, He, Hp, Hp', Hs. cbn. auto.
Qed.

Print Assumptions escape_roundtrip.
Print Assumptions escape_safe.
Print Assumptions escape_amp_starts_entity.
Print Assumptions escape_amp_decompose.
Print Assumptions escape_app.
