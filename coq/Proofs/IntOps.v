(* The integer operators of the evaluator model are two's-complement int64 arithmetic as Go defines it.
   The specification below (to_u64 / of_u64 / in64) is independent of the model's wrap64. *)
From Tpl Require Import Exp.Value Exp.Eval.
From Coq Require Import ZArith Lia List.
From Coq Require Import ZifyBool.
Ltac Zify.zify_post_hook ::= Z.div_mod_to_equations.
Import ListNotations.
Open Scope Z_scope.

Definition two64 : Z := 2 * two63.
Definition to_u64 (z : Z) : Z := z mod two64.                       (* the 64-bit pattern *)
Definition of_u64 (u : Z) : Z := if u <? two63 then u else u - two64. (* read the pattern as signed *)
Definition in64 (z : Z) : Prop := - two63 <= z < two63.

(* ---------- basic facts ---------- *)
Lemma two64_pow : two64 = 2 ^ 64.
Proof. reflexivity. Qed.
Lemma two63_pow : two63 = 2 ^ 63.
Proof. reflexivity. Qed.
Lemma two64_pos : 0 < two64.
Proof. reflexivity. Qed.
Lemma two64_nz : two64 <> 0.
Proof. discriminate. Qed.

Theorem wrap64_range : forall z, in64 (wrap64 z).
Proof. intro z. unfold in64, wrap64, two63. lia. Qed.

Theorem wrap64_spec : forall z, wrap64 z = of_u64 (to_u64 z).
Proof.
  intro z. unfold wrap64, of_u64, to_u64, two64.
  destruct (Z.ltb_spec (z mod (2 * two63)) two63); unfold two63 in *; lia.
Qed.

Theorem wrap64_id : forall z, in64 z -> wrap64 z = z.
Proof. intros z H. unfold in64, wrap64, two63 in *. lia. Qed.

Lemma to_u64_range : forall z, 0 <= to_u64 z < two64.
Proof. intro z. unfold to_u64. apply Z.mod_pos_bound, two64_pos. Qed.

Lemma of_to_u64 : forall z, in64 z -> of_u64 (to_u64 z) = z.
Proof. intros z H. rewrite <- wrap64_spec. apply wrap64_id, H. Qed.

Lemma to_u64_idem : forall z, to_u64 (to_u64 z) = to_u64 z.
Proof. intro z. unfold to_u64. apply Z.mod_mod, two64_nz. Qed.

(* ---------- + - * ---------- *)
Theorem add_spec : forall i j, int_bin BAdd i j = Ok (VInt KInt64 (of_u64 ((to_u64 i + to_u64 j) mod two64))).
Proof.
  intros i j. cbn [int_bin]. rewrite wrap64_spec. unfold to_u64.
  rewrite <- Zplus_mod. reflexivity.
Qed.

Theorem sub_spec : forall i j, int_bin BSub i j = Ok (VInt KInt64 (of_u64 ((to_u64 i - to_u64 j) mod two64))).
Proof.
  intros i j. cbn [int_bin]. rewrite wrap64_spec. unfold to_u64.
  rewrite <- Zminus_mod. reflexivity.
Qed.

Theorem mul_spec : forall i j, int_bin BMul i j = Ok (VInt KInt64 (of_u64 ((to_u64 i * to_u64 j) mod two64))).
Proof.
  intros i j. cbn [int_bin]. rewrite wrap64_spec. unfold to_u64.
  rewrite <- Zmult_mod. reflexivity.
Qed.

(* ---------- / % ---------- *)
(* Go's / truncates toward zero, % has the sign of the dividend, and i = (i/j)*j + i%j *)
Theorem div_spec : forall i j, in64 i -> in64 j -> j <> 0 -> exists q r,
   int_bin BDiv i j = Ok (VInt KInt64 (wrap64 q)) /\ int_bin BMod i j = Ok (VInt KInt64 r) /\
   i = q * j + r /\ Z.abs r < Z.abs j /\ (r = 0 \/ Z.sgn r = Z.sgn i).
Proof.
  intros i j Hi Hj Hnz. exists (Z.quot i j), (Z.rem i j).
  pose proof (Z.rem_bound_abs i j Hnz) as Habs.
  cbn [int_bin]. destruct (Z.eqb_spec j 0) as [E|_]; [contradiction|].
  repeat split.
  - rewrite wrap64_id; [reflexivity|]. unfold in64, two63 in *. lia.
  - rewrite (Z.quot_rem' i j) at 1. ring.
  - exact Habs.
  - destruct (Z.eq_dec (Z.rem i j) 0) as [E|N]; [left; exact E|right].
    apply Z.rem_sign_nz; assumption.
Qed.

Theorem div_by_zero : forall i, int_bin BDiv i 0 = Err COther /\ int_bin BMod i 0 = Err COther.
Proof. intro i. split; reflexivity. Qed.

(* wraps, no panic: as Go *)
Theorem min_div_minus_one : int_bin BDiv (- two63) (-1) = Ok (VInt KInt64 (- two63)).
Proof. vm_compute. reflexivity. Qed.

(* ---------- shifts ---------- *)
Theorem shl_spec : forall i j, 0 <= j < 64 -> int_bin BShl i j = Ok (VInt KInt64 (of_u64 ((to_u64 i * 2 ^ j) mod two64))).
Proof.
  intros i j Hj. cbn [int_bin].
  destruct (Z.ltb_spec j 0); [lia|]. destruct (Z.leb_spec 64 j); [lia|].
  rewrite wrap64_spec. unfold to_u64.
  rewrite Z.mul_mod_idemp_l by apply two64_nz. reflexivity.
Qed.

Theorem shl_big : forall i j, 64 <= j -> int_bin BShl i j = Ok (VInt KInt64 0).
Proof.
  intros i j Hj. cbn [int_bin].
  destruct (Z.ltb_spec j 0); [lia|]. destruct (Z.leb_spec 64 j); [|lia].
  reflexivity.
Qed.

(* arithmetic shift = floor division *)
Theorem shr_spec : forall i j, in64 i -> 0 <= j < 64 -> int_bin BShr i j = Ok (VInt KInt64 (i / 2 ^ j)).
Proof.
  intros i j Hi Hj. cbn [int_bin].
  destruct (Z.ltb_spec j 0); [lia|]. destruct (Z.leb_spec 64 j); [lia|].
  rewrite Z.shiftr_div_pow2 by lia.
  rewrite wrap64_id; [reflexivity|].
  assert (Hp : 0 < 2 ^ j) by (apply Z.pow_pos_nonneg; lia).
  unfold in64 in *. split.
  - apply Z.div_le_lower_bound; [exact Hp|]. unfold two63 in *. nia.
  - apply Z.div_lt_upper_bound; [exact Hp|]. unfold two63 in *. nia.
Qed.

Theorem shr_big : forall i j, in64 i -> 64 <= j -> int_bin BShr i j = Ok (VInt KInt64 (if i <? 0 then -1 else 0)).
Proof.
  intros i j Hi Hj. cbn [int_bin].
  destruct (Z.ltb_spec j 0); [lia|]. destruct (Z.leb_spec 64 j); [|lia].
  destruct (i <? 0); reflexivity.
Qed.

Theorem neg_shift : forall i j, j < 0 -> int_bin BShl i j = Err COther /\ int_bin BShr i j = Err COther.
Proof.
  intros i j Hj. cbn [int_bin]. destruct (Z.ltb_spec j 0); [|lia]. split; reflexivity.
Qed.

(* ---------- bitwise operators act on the 64-bit patterns ---------- *)
Lemma to_u64_ones : forall z, to_u64 z = Z.land z (Z.ones 64).
Proof. intro z. unfold to_u64. rewrite two64_pow. symmetry. apply Z.land_ones. lia. Qed.

Ltac bitwise :=
  intros; rewrite !to_u64_ones; apply Z.bits_inj'; intros n Hn;
  repeat first [rewrite Z.land_spec | rewrite Z.lor_spec | rewrite Z.lxor_spec];
  generalize (Z.ones 64); intro;
  repeat match goal with |- context [Z.testbit ?a n] => destruct (Z.testbit a n) end; reflexivity.

Lemma to_u64_land : forall a b, to_u64 (Z.land a b) = Z.land (to_u64 a) (to_u64 b).
Proof. bitwise. Qed.
Lemma to_u64_lor : forall a b, to_u64 (Z.lor a b) = Z.lor (to_u64 a) (to_u64 b).
Proof. bitwise. Qed.
Lemma to_u64_lxor : forall a b, to_u64 (Z.lxor a b) = Z.lxor (to_u64 a) (to_u64 b).
Proof. bitwise. Qed.

(* NOT on 64 bits: complementing the pattern is the pattern of Z.lnot *)
Lemma to_u64_lnot : forall z, two64 - 1 - to_u64 z = to_u64 (Z.lnot z).
Proof. intro z. unfold to_u64, Z.lnot, Z.pred, two64, two63. lia. Qed.

Theorem and_spec : forall i j, in64 i -> in64 j -> int_bin BAnd i j = Ok (VInt KInt64 (of_u64 (Z.land (to_u64 i) (to_u64 j)))).
Proof. intros i j _ _. cbn [int_bin]. rewrite wrap64_spec, to_u64_land. reflexivity. Qed.

Theorem or_spec : forall i j, in64 i -> in64 j -> int_bin BOr i j = Ok (VInt KInt64 (of_u64 (Z.lor (to_u64 i) (to_u64 j)))).
Proof. intros i j _ _. cbn [int_bin]. rewrite wrap64_spec, to_u64_lor. reflexivity. Qed.

Theorem xor_spec : forall i j, in64 i -> in64 j -> int_bin BXor i j = Ok (VInt KInt64 (of_u64 (Z.lxor (to_u64 i) (to_u64 j)))).
Proof. intros i j _ _. cbn [int_bin]. rewrite wrap64_spec, to_u64_lxor. reflexivity. Qed.

(* i AND (NOT j) on 64 bits *)
Theorem andnot_spec : forall i j, in64 i -> in64 j ->
  int_bin BAndNot i j = Ok (VInt KInt64 (of_u64 (Z.land (to_u64 i) (two64 - 1 - to_u64 j)))).
Proof.
  intros i j _ _. cbn [int_bin].
  rewrite wrap64_spec, Z.ldiff_land, to_u64_land, to_u64_lnot. reflexivity.
Qed.

Theorem not_spec : forall i, in64 i -> un_op UCaret (VInt KInt64 i) = Ok (VInt KInt64 (of_u64 (two64 - 1 - to_u64 i))).
Proof.
  intros i Hi. cbn [un_op is_int]. rewrite (wrap64_id i Hi).
  rewrite to_u64_lnot, of_to_u64; [reflexivity|].
  unfold in64, Z.lnot, Z.pred, two63 in *. lia.
Qed.

Theorem neg_spec : forall i, in64 i -> un_op UMinus (VInt KInt64 i) = Ok (VInt KInt64 (of_u64 ((two64 - to_u64 i) mod two64))).
Proof.
  intros i Hi. cbn [un_op is_int is_float]. rewrite (wrap64_id i Hi).
  rewrite wrap64_spec. do 3 f_equal.
  unfold to_u64. rewrite Zminus_mod_idemp_r.
  replace (two64 - i) with (- i + 1 * two64) by ring.
  rewrite Z.mod_add by apply two64_nz. reflexivity.
Qed.

(* ---------- results always stay in the int64 range ---------- *)
Theorem int_bin_in_range : forall op i j z, in64 i -> in64 j -> int_bin op i j = Ok (VInt KInt64 z) -> in64 z.
Proof.
  intros op i j z _ _ H.
  destruct op; cbn [int_bin] in H;
    repeat match type of H with
           | context [if ?c then _ else _] => destruct c
           end;
    try discriminate; injection H as <-; apply wrap64_range.
Qed.

(* ---------- kinds: every integer kind goes through the same int64 operation ---------- *)
Theorem num_bin_ints : forall op k1 k2 z1 z2, in64 z1 -> in64 z2 -> num_bin op (VInt k1 z1) (VInt k2 z2) = int_bin op z1 z2.
Proof.
  intros op k1 k2 z1 z2 H1 H2. unfold num_bin. cbn [any_opaque is_int is_float].
  rewrite (wrap64_id z1 H1), (wrap64_id z2 H2). reflexivity.
Qed.

(* ---------- wrong kinds are errors, never values ---------- *)
Theorem int_only_rejects_float : forall op f b v, int_only_bin op (VFloat f b) v = Err COther.
Proof. intros. reflexivity. Qed.

Theorem bool_arith_is_error : forall op b v, (op = BMul \/ op = BDiv \/ op = BSub) ->
  num_bin op (VBool b) v = Err COther \/ num_bin op (VBool b) v = Unmodelled.
Proof.
  intros op b v _. unfold num_bin. destruct v; cbn [any_opaque is_int is_float];
    first [left; reflexivity | right; reflexivity].
Qed.

(* ---------- + concatenates when both operands are strings ---------- *)
Theorem plus_strings : forall a b, bin_op BAdd (VStr a) (VStr b) = Ok (VStr (a ++ b)).
Proof. intros. reflexivity. Qed.

Print Assumptions wrap64_range.
Print Assumptions wrap64_spec.
Print Assumptions wrap64_id.
Print Assumptions add_spec.
Print Assumptions sub_spec.
Print Assumptions mul_spec.
Print Assumptions div_spec.
Print Assumptions div_by_zero.
Print Assumptions min_div_minus_one.
Print Assumptions shl_spec.
Print Assumptions shl_big.
Print Assumptions shr_spec.
Print Assumptions shr_big.
Print Assumptions neg_shift.
Print Assumptions and_spec.
Print Assumptions or_spec.
Print Assumptions xor_spec.
Print Assumptions andnot_spec.
Print Assumptions not_spec.
Print Assumptions neg_spec.
Print Assumptions int_bin_in_range.
Print Assumptions num_bin_ints.
Print Assumptions int_only_rejects_float.
Print Assumptions bool_arith_is_error.
Print Assumptions plus_strings.
