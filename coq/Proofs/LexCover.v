(* The lexer drops nothing but blanks and comments: a ghost version of lex_loop keeps every chunk
   it cuts; the chunks tile the source, the tokens are exactly the visible chunks, and every
   hidden chunk is a run of blanks, a run of line terminators, a comment or a line comment. *)
From Tpl Require Import Base.Runes Exp.Lex.
From Coq Require Import Arith Lia.
Open Scope N_scope.

(* every hidden chunk is a run of blanks/tabs, a comment, a line comment or a run of line terminators *)
Definition hidden_ok (t : str) : Prop :=
  m_ws t = length t \/ m_term t = length t \/ m_line_comment t = length t \/
  m_comment true t = length t \/ m_comment false t = length t.

(* what a chunk contributes to the token stream *)
Definition visible (c : option tkind * str) : list (tkind * str) :=
  match fst c with Some k => [(k, snd c)] | None => [] end.

(* --- the hidden matchers accept their own match in full --- *)
Lemma span_firstn : forall f s, span f (firstn (span f s) s) = length (firstn (span f s) s).
Proof.
  intros f s. induction s as [|c t IH]; cbn [span].
  - reflexivity.
  - destruct (f c) eqn:Hc.
    + cbn [firstn span length]. rewrite Hc. f_equal. exact IH.
    + reflexivity.
Qed.

Lemma m_ws_firstn : forall s, m_ws (firstn (m_ws s) s) = length (firstn (m_ws s) s).
Proof. intros s. unfold m_ws. apply span_firstn. Qed.

Lemma m_term_firstn : forall s, m_term (firstn (m_term s) s) = length (firstn (m_term s) s).
Proof. intros s. unfold m_term. apply span_firstn. Qed.

Lemma m_line_comment_firstn : forall s,
  m_line_comment (firstn (m_line_comment s) s) = length (firstn (m_line_comment s) s).
Proof.
  intros s. destruct s as [|a [|b t]]; try reflexivity.
  unfold m_line_comment at 2 3.
  destruct (N.eqb a cSLASH && N.eqb b cSLASH) eqn:Hab.
  - cbn [firstn length]. unfold m_line_comment. rewrite Hab. do 2 f_equal. apply span_firstn.
  - reflexivity.
Qed.

Lemma mcb_step : forall nl a t,
  m_comment_body nl (a :: t) =
  if N.eqb a cSTAR && (match t with b :: _ => N.eqb b cSLASH | [] => false end) then 2%nat
  else if negb nl && (N.eqb a cNL || N.eqb a cCR) then O
  else match m_comment_body nl t with O => O | k => S k end.
Proof. reflexivity. Qed.

Lemma head_firstn : forall k (t : str),
  match firstn (S k) t with b :: _ => N.eqb b cSLASH | [] => false end =
  match t with b :: _ => N.eqb b cSLASH | [] => false end.
Proof. intros k t. destruct t; reflexivity. Qed.

Lemma m_comment_body_firstn : forall nl s,
  m_comment_body nl (firstn (m_comment_body nl s) s) = length (firstn (m_comment_body nl s) s).
Proof.
  intros nl s. induction s as [|a t IH].
  - reflexivity.
  - cbn [m_comment_body].
    destruct (N.eqb a cSTAR && match t with b :: _ => N.eqb b cSLASH | [] => false end) eqn:H1.
    + (* the closing "*/" right here *)
      destruct t as [|b t2].
      * rewrite andb_false_r in H1. discriminate.
      * cbn [firstn length m_comment_body]. rewrite H1. reflexivity.
    + destruct (negb nl && (N.eqb a cNL || N.eqb a cCR)) eqn:H2.
      * reflexivity.
      * destruct (m_comment_body nl t) as [|k] eqn:Hk.
        -- reflexivity.
        -- change (firstn (S (S k)) (a :: t)) with (a :: firstn (S k) t).
           rewrite mcb_step, head_firstn, H1, H2, IH.
           destruct t as [|b t2].
           ++ cbn [m_comment_body] in Hk. discriminate.
           ++ cbn [firstn length]. reflexivity.
Qed.

Lemma m_comment_firstn : forall nl s,
  m_comment nl (firstn (m_comment nl s) s) = length (firstn (m_comment nl s) s).
Proof.
  intros nl s. destruct s as [|a [|b t]]; try reflexivity.
  unfold m_comment at 2 3.
  destruct (N.eqb a cSLASH && N.eqb b cSTAR) eqn:Hab.
  - destruct (m_comment_body nl t) as [|k] eqn:Hk.
    + reflexivity.
    + change (firstn (S (S (S k))) (a :: b :: t)) with (a :: b :: firstn (S k) t).
      unfold m_comment. rewrite Hab.
      pose proof (m_comment_body_firstn nl t) as Hb. rewrite Hk in Hb. rewrite Hb.
      destruct t as [|c t2].
      * cbn [m_comment_body] in Hk. discriminate.
      * cbn [firstn length]. reflexivity.
  - reflexivity.
Qed.

Section Cover.
Variable is_letter : rune -> bool.
Variable is_udigit : rune -> bool.

(* like lex_loop, but returns every chunk it cut: (Some kind | None for hidden, text) *)
Fixpoint lex_chunks (fuel : nat) (nlsemi : bool) (s : str) (acc : list (option tkind * str))
  : option (list (option tkind * str)) :=
  match fuel with
  | O => None
  | S f =>
    match s with
    | [] => Some (rev acc)
    | _ =>
      let c := if nlsemi then lex_nlsemi s else lex_default is_letter is_udigit s in
      match c_len c with
      | O => if nlsemi then lex_chunks f false s acc   (* OTHER: no chunk *)
             else None
      | n => lex_chunks f (c_nlsemi c) (skipn n s) ((c_tk c, firstn n s) :: acc)
      end
    end
  end.

Theorem lex_chunks_concat_sec : forall f nl s acc cs,
  lex_chunks f nl s acc = Some cs ->
  concat (map snd cs) = concat (map snd (rev acc)) ++ s.
Proof.
  induction f as [|f IH]; intros nl s acc cs H; cbn [lex_chunks] in H.
  - discriminate.
  - destruct s as [|r s'].
    + injection H as H. subst cs. rewrite app_nil_r. reflexivity.
    + set (s := r :: s') in *.
      set (c := if nl then lex_nlsemi s else lex_default is_letter is_udigit s) in *.
      destruct (c_len c) as [|n] eqn:Hn.
      * destruct nl; [|discriminate]. apply (IH _ _ _ _ H).
      * apply IH in H. rewrite H. cbn [rev]. rewrite map_app, concat_app.
        cbn [map concat snd]. rewrite app_nil_r, <- app_assoc.
        rewrite firstn_skipn. reflexivity.
Qed.

(* --- lex = the visible part of lex_chunks --- *)
Definition kt (t : etok) : tkind * str := (e_kind t, e_text t).

Lemma flat_map_snoc : forall (A B : Type) (g : A -> list B) l x, flat_map g (l ++ [x]) = flat_map g l ++ g x.
Proof.
  intros A B g l x. rewrite flat_map_app. cbn [flat_map]. rewrite app_nil_r. reflexivity.
Qed.

Lemma lex_loop_chunks : forall f nl s line col acc cacc ts,
  map kt (rev acc) = flat_map visible (rev cacc) ->
  lex_loop is_letter is_udigit f nl s line col acc = Some ts ->
  exists cs, lex_chunks f nl s cacc = Some cs /\ map kt ts = flat_map visible cs.
Proof.
  induction f as [|f IH]; intros nl s line col acc cacc ts Hacc H; cbn [lex_loop] in H.
  - discriminate.
  - cbn [lex_chunks]. destruct s as [|r s'].
    + injection H as H. subst ts. exists (rev cacc). split; [reflexivity|exact Hacc].
    + set (s := r :: s') in *.
      set (c := if nl then lex_nlsemi s else lex_default is_letter is_udigit s) in *.
      destruct (c_len c) as [|n] eqn:Hn.
      * destruct nl; [|discriminate]. apply (IH _ _ _ _ _ _ _ Hacc H).
      * destruct (advance line col (firstn (S n) s)) as [l2 c2] eqn:Hadv.
        apply (IH _ _ _ _ _ ((c_tk c, firstn (S n) s) :: cacc)) in H; [exact H|].
        cbn [rev]. rewrite flat_map_snoc. unfold visible at 2. cbn [fst snd].
        destruct (c_tk c) as [k|].
        -- cbn [rev]. rewrite map_app. cbn [map]. unfold kt at 2. cbn [e_kind e_text].
           rewrite Hacc. reflexivity.
        -- rewrite app_nil_r. exact Hacc.
Qed.

Theorem lex_is_filter_sec : forall s ts, lex is_letter is_udigit s = Some ts ->
  exists cs, lex_chunks (2 * length s + 2) false s [] = Some cs /\
             map (fun t => (e_kind t, e_text t)) ts =
               flat_map (fun c => match fst c with Some k => [(k, snd c)] | None => [] end) cs /\
             concat (map snd cs) = s.
Proof.
  intros s ts H. unfold lex in H.
  destruct (lex_loop_chunks _ _ _ _ _ [] [] ts eq_refl H) as [cs [Hc Hm]].
  exists cs. split; [exact Hc|]. split; [exact Hm|].
  rewrite (lex_chunks_concat_sec _ _ _ _ _ Hc). reflexivity.
Qed.

(* --- hidden chunks --- *)
(* the winner of fold_left pick has every property shared by all candidates *)
Lemma fold_pick_ind : forall (P : cand -> Prop) l c0, P c0 -> Forall P l -> P (fold_left pick l c0).
Proof.
  intros P l. induction l as [|a l IH]; intros c0 H0 Hl; cbn [fold_left].
  - exact H0.
  - inversion Hl as [|a' l' Ha Hl']; subst. apply IH; [|exact Hl'].
    unfold pick. destruct (Nat.ltb (c_len c0) (c_len a)); assumption.
Qed.

(* the result of fold_left pick is the start candidate or one of the list *)
Lemma fold_pick_in : forall l c0, fold_left pick l c0 = c0 \/ In (fold_left pick l c0) l.
Proof.
  induction l as [|a l IH]; intros c0; cbn [fold_left].
  - left. reflexivity.
  - destruct (IH (pick c0 a)) as [H|H].
    + rewrite H. unfold pick. destruct (Nat.ltb (c_len c0) (c_len a)).
      * right. left. reflexivity.
      * left. reflexivity.
    + right. right. exact H.
Qed.

(* a candidate for source s is fine if, when it wins as a non-empty hidden token, its text is a
   blank run / comment *)
Definition cand_ok (s : str) (c : cand) : Prop :=
  c_len c <> O -> c_tk c = None -> hidden_ok (firstn (c_len c) s).

Lemma cand_ok_some : forall s n k b, cand_ok s (mkCand n (Some k) b).
Proof. intros s n k b _ H. cbn [c_tk] in H. discriminate. Qed.

Lemma cand_ok_ws : forall s b, cand_ok s (mkCand (m_ws s) None b).
Proof. intros s b _ _. cbn [c_len]. left. apply m_ws_firstn. Qed.
Lemma cand_ok_term : forall s b, cand_ok s (mkCand (m_term s) None b).
Proof. intros s b _ _. cbn [c_len]. right. left. apply m_term_firstn. Qed.
Lemma cand_ok_line : forall s b, cand_ok s (mkCand (m_line_comment s) None b).
Proof. intros s b _ _. cbn [c_len]. right. right. left. apply m_line_comment_firstn. Qed.
Lemma cand_ok_comment_t : forall s b, cand_ok s (mkCand (m_comment true s) None b).
Proof. intros s b _ _. cbn [c_len]. right. right. right. left. apply m_comment_firstn. Qed.
Lemma cand_ok_comment_f : forall s b, cand_ok s (mkCand (m_comment false s) None b).
Proof. intros s b _ _. cbn [c_len]. right. right. right. right. apply m_comment_firstn. Qed.

Lemma lex_default_ok : forall s, cand_ok s (lex_default is_letter is_udigit s).
Proof.
  intros s. unfold lex_default. apply fold_pick_ind.
  - destruct (existsb (str_eqb (firstn (m_ident is_letter is_udigit s) s)) keywords);
      [apply cand_ok_some|].
    destruct (str_eqb (firstn (m_ident is_letter is_udigit s) s) kw_nil); apply cand_ok_some.
  - repeat apply Forall_cons; try apply Forall_nil;
      try apply cand_ok_some; try apply cand_ok_ws; try apply cand_ok_term;
      try apply cand_ok_line; try apply cand_ok_comment_t.
    destruct (m_punct puncts s None) as [[n k]|].
    + apply cand_ok_some.
    + intros Hl _. exfalso. apply Hl. reflexivity.
Qed.

Lemma lex_nlsemi_ok : forall s, cand_ok s (lex_nlsemi s).
Proof.
  intros s. unfold lex_nlsemi. apply fold_pick_ind.
  - apply cand_ok_ws.
  - repeat apply Forall_cons; try apply Forall_nil;
      try apply cand_ok_some; try apply cand_ok_line; try apply cand_ok_comment_f.
Qed.

Theorem hidden_chunks_are_blank_sec : forall f nl s acc cs,
  (forall c, In c acc -> fst c = None -> hidden_ok (snd c)) ->
  lex_chunks f nl s acc = Some cs ->
  forall c, In c cs -> fst c = None -> hidden_ok (snd c).
Proof.
  induction f as [|f IH]; intros nl s acc cs Hacc H; cbn [lex_chunks] in H.
  - discriminate.
  - destruct s as [|r s'].
    + injection H as H. subst cs. intros c Hin Hc. apply Hacc; [|exact Hc].
      apply in_rev. exact Hin.
    + set (s := r :: s') in *.
      assert (Hok : cand_ok s (if nl then lex_nlsemi s else lex_default is_letter is_udigit s)).
      { destruct nl; [apply lex_nlsemi_ok|apply lex_default_ok]. }
      set (c := if nl then lex_nlsemi s else lex_default is_letter is_udigit s) in *.
      destruct (c_len c) as [|n] eqn:Hn.
      * destruct nl; [|discriminate]. apply (IH _ _ _ _ Hacc H).
      * refine (IH _ _ _ _ _ H).
        intros c' [Hc'|Hc'] Hnone.
        -- subst c'. cbn [fst snd] in *. rewrite <- Hn. apply Hok; [rewrite Hn; discriminate|exact Hnone].
        -- apply Hacc; assumption.
Qed.
End Cover.

Theorem lex_chunks_concat : forall is_letter is_udigit f nl s acc cs,
  lex_chunks is_letter is_udigit f nl s acc = Some cs ->
  concat (map snd cs) = concat (map snd (rev acc)) ++ s.
Proof. exact lex_chunks_concat_sec. Qed.

Theorem lex_is_filter : forall is_letter is_udigit s ts, lex is_letter is_udigit s = Some ts ->
  exists cs, lex_chunks is_letter is_udigit (2 * length s + 2) false s [] = Some cs /\
             map (fun t => (e_kind t, e_text t)) ts =
               flat_map (fun c => match fst c with Some k => [(k, snd c)] | None => [] end) cs /\
             concat (map snd cs) = s.
Proof. exact lex_is_filter_sec. Qed.

Theorem hidden_chunks_are_blank : forall is_letter is_udigit f nl s acc cs,
  (forall c, In c acc -> fst c = None -> hidden_ok (snd c)) ->
  lex_chunks is_letter is_udigit f nl s acc = Some cs ->
  forall c, In c cs -> fst c = None -> hidden_ok (snd c).
Proof. exact hidden_chunks_are_blank_sec. Qed.

(* corollary for the whole lexer run *)
Corollary lex_hidden_blank : forall is_letter is_udigit s cs,
  lex_chunks is_letter is_udigit (2 * length s + 2) false s [] = Some cs ->
  forall c, In c cs -> fst c = None -> hidden_ok (snd c).
Proof.
  intros is_letter is_udigit s cs H. apply (hidden_chunks_are_blank is_letter is_udigit (2 * length s + 2) false s [] cs); [|exact H].
  intros c Hin. destruct Hin.
Qed.

Print Assumptions lex_chunks_concat.
Print Assumptions lex_is_filter.
Print Assumptions hidden_chunks_are_blank.
Print Assumptions lex_hidden_blank.
