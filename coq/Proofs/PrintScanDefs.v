(* Print/scan round trip (C17, first sentence): definitions only.
   A source-independent description of written markup tokens, its printer, the
   position-free shape of scanned tokens, and the well-formedness side conditions. *)
From Coq Require Import List NArith Bool.
From Tpl Require Import Html.Scan.
Import ListNotations.
Open Scope N_scope.

(* value = raw value text as written: including its quotes, or unquoted *)
Inductive wattr := WA (name : str) (value : option str).
Inductive wtok :=
| WText (s : str)
| WComment (body : str)                  (* printed <!--body--> *)
| WCData (body : str)                    (* printed <![CDATA[body]]> *)
| WTag (name : str) (attrs : list wattr). (* printed <name a1 a2 ...> : ONE blank before each attribute *)

Definition print_wattr (a : wattr) : str :=
  match a with
  | WA n None => cSP :: n
  | WA n (Some v) => cSP :: n ++ cEQ :: v
  end.
Definition print_wtok (w : wtok) : str :=
  match w with
  | WText s => s
  | WComment b => sLTBDD ++ b ++ sDDGT
  | WCData b => cLT :: sCDATA ++ b ++ sRRGT
  | WTag n attrs => cLT :: n ++ concat (map print_wattr attrs) ++ [cGT]
  end.
Definition print_wtoks (ws : list wtok) : str := concat (map print_wtok ws).

(* position-free content of a token: kind, text (tag: the name), attributes (name, raw value) in order *)
Definition shape := (tkind * str * list (str * option str))%type.
Definition ashape (a : attr) : str * option str := (a_name a, a_value a).
Definition wshape (a : wattr) : str * option str := match a with WA n v => (n, v) end.
Definition wname (a : wattr) : str := match a with WA n _ => n end.
Definition shape_of (t : token) : shape :=
  (t_kind t, match t_kind t with KTag => t_name t | _ => t_value t end, map ashape (t_attrs t)).
Definition shape_of_w (w : wtok) : shape :=
  match w with
  | WText s => (KText, s, [])
  | WComment b => (KComment, sLTBDD ++ b ++ sDDGT, [])
  | WCData b => (KCDATA, cLT :: sCDATA ++ b ++ sRRGT, [])
  | WTag n attrs => (KTag, n, map wshape attrs)
  end.

Definition is_quote (c : rune) : bool := N.eqb c cDQ || N.eqb c cSQ.
Definition is_text (w : wtok) : bool := match w with WText _ => true | _ => false end.

(* each name is different from all later ones *)
Fixpoint distinctb (l : list str) : bool :=
  match l with
  | [] => true
  | x :: r => negb (existsb (str_eqb x) r) && distinctb r
  end.

(* no two text tokens are adjacent (they would merge into one) *)
Fixpoint sep_ok (ws : list wtok) : bool :=
  match ws with
  | [] => true
  | w :: r => (negb (is_text w) || match r with w2 :: _ => negb (is_text w2) | [] => true end) && sep_ok r
  end.

Section WF.
Variable is_space : rune -> bool.
Variable to_lower : rune -> rune.
Variable text_tags : list str.
Variable attr_prefix : str.
Variable compile : attr -> bool.

(* the assumptions on the Unicode oracle *)
Definition oracle_ok : Prop :=
  is_space cSP = true /\ is_space cGT = false /\ is_space cEQ = false /\
  is_space cDQ = false /\ is_space cSQ = false /\
  (forall c, In c [cBANG; cDASH; cLBR; 67; 68; 65; 84] -> is_space c = false).  (* the runes of the comment and CDATA openers *)

Definition plain (c : rune) : bool := negb (is_space c) && negb (N.eqb c cGT).
Definition aplain (c : rune) : bool := plain c && negb (N.eqb c cEQ).

(* raw attribute value: quoted by a double or single quote (closing quote last, none inside),
   or unquoted: non-empty, not starting with a quote, no space, no GT *)
Definition value_okb (v : str) : bool :=
  match v with
  | [] => false
  | f :: t =>
    if is_quote f
    then match rev t with
         | l :: m => N.eqb l f && forallb (fun c => negb (N.eqb c f)) m
         | [] => false
         end
    else forallb plain v
  end.

Definition wf_wattr (a : wattr) : Prop :=
  match a with
  | WA n v =>
    n <> [] /\ forallb aplain n = true /\           (* no space, no GT, no EQ *)
    match v with
    | None => str_eqb n (else_name attr_prefix) = false   (* value-less prefix-else gets a synthetic value *)
    | Some v => value_okb v = true /\
                forall a, a_name a = n -> a_value a = Some v -> compile a = true
    end
  end.

Definition wf_wtok (w : wtok) : Prop :=
  match w with
  | WText s => s <> [] /\ forallb (fun c => negb (N.eqb c cLT)) s = true
  | WComment b =>
      prefixb [cGT] b = false /\ prefixb [cDASH; cGT] b = false /\
      containsb sLTBDD b = false /\ containsb sDDGT b = false /\ containsb sDDBGT b = false /\
      suffixb sLTBD b = false
  | WCData b => containsb sRRGT b = false
  | WTag n attrs =>
      forallb plain n = true /\                      (* no space, no GT *)
      prefixb sBANGDD n = false /\ prefixb sCDATA n = false /\   (* not a comment / CDATA opener *)
      existsb (fun tt => str_eqb (lower to_lower n) (lower to_lower tt)) text_tags = false /\ (* not raw-text *)
      distinctb (map wname attrs) = true /\
      Forall wf_wattr attrs
  end.

Definition wf_wtoks (ws : list wtok) : Prop := sep_ok ws = true /\ Forall wf_wtok ws.
End WF.
