(* C05 -- composition of with + if + range + dynamic attributes + text on ONE element.
   The element is rendered by three nested invocations of execute/processTagStart:
     mask 0 : plain attributes, :with (WithAssign in the caller's scope), :if (owner: evaluates the
              condition in the extended scope and, when "true", re-executes the element with mask 1);
     mask 1 : :with skipped, :if skipped, :range (owner: evaluates the object once, then re-executes the
              element once per item with mask 3 in the item's scope);
     mask 3 : :with, :if, :range skipped; every dynamic attribute evaluated (sorted = written order among
              themselves), :text only RECORDED (CText) and evaluated after the attribute loop.
   [spec_once] below is a plain function that performs exactly these evaluations, each once, and
   [compose_exec_node] says that the renderer computes exactly [spec_once] (output, result, table, log). *)
From Tpl Require Import Html.Exec Proofs.ExecSpec Proofs.SortProps Proofs.ChainProps Proofs.ChainWith Proofs.RangeProps Proofs.EmitProps.
From Coq Require Import Lia ZArith Sorting.Sorted Permutation.
Open Scope N_scope.

(* ------------------------------------------------------------------------------------------ *)
(* a list sorted by key starts with its strictly smallest element                              *)
(* ------------------------------------------------------------------------------------------ *)
Section MinHead.
Variable A : Type.
Variable key : A -> Z.
Lemma sorted_min_head : forall m rest l,
  StronglySorted (fun a b => (key a <= key b)%Z) l -> Permutation l (m :: rest) ->
  (forall b, In b rest -> (key m < key b)%Z) ->
  exists T, l = m :: T /\ Permutation T rest /\ StronglySorted (fun a b => (key a <= key b)%Z) T.
Proof.
  intros m rest l Hs Hp Hlt. destruct l as [|h T].
  - apply Permutation_nil in Hp. discriminate.
  - inversion Hs as [|h' T' HsT HF]; subst.
    assert (Hh : In h (m :: rest)) by (apply (Permutation_in h Hp); left; reflexivity).
    destruct Hh as [Hh|Hh].
    + subst h. exists T. split; [reflexivity|]. split; [apply (Permutation_cons_inv Hp)|exact HsT].
    + exfalso. pose proof (Hlt h Hh) as H1.
      assert (Hm : In m (h :: T)) by (apply (Permutation_in m (Permutation_sym Hp)); left; reflexivity).
      destruct Hm as [Hm|Hm]; [subst; lia|].
      rewrite Forall_forall in HF. specialize (HF m Hm). cbv beta in HF. lia.
Qed.
End MinHead.

Lemma seqb_app_l : forall p a b, str_eqb (p ++ a) (p ++ b) = str_eqb a b.
Proof. induction p as [|y p IH]; intros a b; [reflexivity|]. cbn [app str_eqb]. rewrite N.eqb_refl. apply IH. Qed.

Lemma weight_nondir : forall cmd, is_directive cmd = false -> weight cmd = 0%Z.
Proof.
  intros cmd Hd. unfold is_directive, directive_names in Hd. cbn [existsb] in Hd.
  repeat (apply orb_false_elim in Hd; destruct Hd as [? Hd]).
  apply weight_other; try assumption.
  unfold is_cond_name, cond_names. cbn [existsb].
  repeat match goal with H : str_eqb cmd _ = false |- _ => rewrite H; clear H end. reflexivity.
Qed.

(* ------------------------------------------------------------------------------------------ *)
Section Compose.
Variable is_space : rune -> bool.
Variable to_lower : rune -> rune.
Variable is_letter : rune -> bool.
Variable is_udigit : rune -> bool.
Variable methods : N -> bool -> list (str * N).
Variable call_fn : N -> list value -> fres.
Variable mgr : manager.

Notation pfx := (m_attr_prefix mgr).
Notation aeval := (attr_evaluate is_letter is_udigit methods call_fn mgr).
Notation wassign := (with_assign is_space is_letter is_udigit methods call_fn mgr).
Notation etext := (eval_text is_letter is_udigit methods call_fn).
Notation pcode := (parse_code is_letter is_udigit).
Notation xrange := (extract_range is_space).
Notation astep := (attr_step is_space is_letter is_udigit methods call_fn mgr).
Notation rattrs := (run_attrs is_space is_letter is_udigit methods call_fn mgr).
Notation rchild := (run_child is_space is_letter is_udigit methods call_fn mgr).
Notation rowner := (range_owner is_space is_letter is_udigit methods call_fn).
Notation ebody := (exec_body is_space to_lower is_letter is_udigit methods call_fn mgr).
Notation enode := (exec_node is_space to_lower is_letter is_udigit methods call_fn mgr).
Notation ilstate := (init_lstate to_lower mgr).
Notation fin := (finish is_space is_letter is_udigit methods call_fn mgr).
Notation plainL := (Forall (fun b : attr => prefixb pfx (a_name b) = false)).

(* a dynamic attribute: prefixed, and the name behind the prefix is not a directive *)
Definition dynamic (b : attr) : Prop := exists cmd, a_name b = pfx ++ cmd /\ is_directive cmd = false.

(* THE ELEMENT: a tag (not a block tag) whose directive (= prefixed) attributes are, IN ANY WRITTEN
   ORDER and interleaved with any plain attributes: w (:with), c (:if, with a value), r (:range, value
   av), x (:text) and the dynamic attributes das (possibly none) *)
Definition composed (n : node) (tok : token) (w c r x : attr) (av : str) (das : list attr) : Prop :=
  n_tok n = Some tok /\ t_kind tok = KTag /\
  str_eqb (block_key to_lower (t_name tok)) (m_tag_prefix mgr ++ d_block) = false /\
  a_name w = pfx ++ d_with /\ a_name c = pfx ++ d_if /\ a_name r = pfx ++ d_range /\ a_name x = pfx ++ d_text /\
  a_value c <> None /\ a_value r = Some av /\
  Forall dynamic das /\
  Permutation (dirs mgr tok) (w :: c :: r :: x :: das).

Section Elem.
Variable ctx : list node.
Variable n : node.
Variable tok : token.
Variables w c r x : attr.
Variable av : str.
Variable das : list attr.
Hypothesis Htok : n_tok n = Some tok.
Hypothesis Hkind : t_kind tok = KTag.
Hypothesis Hblk : str_eqb (block_key to_lower (t_name tok)) (m_tag_prefix mgr ++ d_block) = false.
Hypothesis Hw : a_name w = pfx ++ d_with.
Hypothesis Hc : a_name c = pfx ++ d_if.
Hypothesis Hr : a_name r = pfx ++ d_range.
Hypothesis Hx : a_name x = pfx ++ d_text.
Hypothesis Hcv : a_value c <> None.
Hypothesis Hrv : a_value r = Some av.
Hypothesis Hdas : Forall dynamic das.
Hypothesis Hperm : Permutation (dirs mgr tok) (w :: c :: r :: x :: das).

Notation attrs := (t_attrs tok).
Notation sattrs := (sorted_attrs pfx (t_attrs tok)).

(* ------------------------------------------------------------------------------------------ *)
(* (1) the attributes: classification, Tag.SortedAttr                                          *)
(* ------------------------------------------------------------------------------------------ *)
Lemma dirs_in : forall b, In b (dirs mgr tok) <-> In b attrs /\ prefixb pfx (a_name b) = true.
Proof. intros b. unfold dirs. rewrite filter_In. unfold pref. tauto. Qed.

Lemma classify : forall b, In b attrs -> prefixb pfx (a_name b) = true ->
  b = w \/ b = c \/ b = r \/ b = x \/ In b das.
Proof.
  intros b Hin Hp. assert (H : In b (dirs mgr tok)) by (apply dirs_in; split; assumption).
  apply (Permutation_in b Hperm) in H. cbn [In] in H.
  destruct H as [H|[H|[H|[H|H]]]]; auto 6.
Qed.

Lemma in_attrs : In w attrs /\ In c attrs /\ In r attrs /\ In x attrs.
Proof.
  assert (H : forall b, In b (w :: c :: r :: x :: das) -> In b attrs).
  { intros b Hb. apply (Permutation_in b (Permutation_sym Hperm)) in Hb. apply dirs_in in Hb. tauto. }
  repeat split; apply H; cbn [In]; auto 6.
Qed.

Lemma dyn_of : forall b, In b das -> dynamic b.
Proof. intros b Hb. exact (proj1 (Forall_forall _ _) Hdas b Hb). Qed.

Lemma key_pref : forall b cmd, a_name b = pfx ++ cmd -> sort_key mgr b = (weight cmd - 10)%Z.
Proof. intros b cmd H. unfold sort_key. rewrite H, prefixb_app, skipn_app_len. reflexivity. Qed.

(* with, if, range come first, in this order, whatever the written order *)
Lemma sorted_dirs : exists T, sorted_attrs pfx (dirs mgr tok) = w :: c :: r :: T /\ Permutation T (x :: das).
Proof.
  assert (Hnp : no_plain_directive_name mgr (dirs mgr tok)).
  { intros b Hb Hpb. apply dirs_in in Hb. destruct Hb as [_ Hb]. rewrite Hb in Hpb. discriminate. }
  pose proof (sorted_by_key mgr _ Hnp) as Hs.
  pose proof (Permutation_trans (sorted_perm pfx (dirs mgr tok)) Hperm) as Hp.
  assert (Kw : sort_key mgr w = (-14)%Z) by (rewrite (key_pref w d_with Hw); reflexivity).
  assert (Kc : sort_key mgr c = (-13)%Z) by (rewrite (key_pref c d_if Hc); reflexivity).
  assert (Kr : sort_key mgr r = (-12)%Z) by (rewrite (key_pref r d_range Hr); reflexivity).
  assert (Kx : sort_key mgr x = (-10)%Z) by (rewrite (key_pref x d_text Hx); reflexivity).
  assert (Kd : forall b, In b das -> sort_key mgr b = (-10)%Z).
  { intros b Hb. destruct (dyn_of b Hb) as [cmd [Hn Hd]].
    rewrite (key_pref b cmd Hn), (weight_nondir cmd Hd). reflexivity. }
  destruct (sorted_min_head attr (sort_key mgr) w _ _ Hs Hp) as [T1 [E1 [P1 S1]]].
  { intros b Hb. cbn [In] in Hb. rewrite Kw.
    destruct Hb as [Hb|[Hb|[Hb|Hb]]]; [subst b; rewrite Kc|subst b; rewrite Kr|subst b; rewrite Kx|rewrite (Kd b Hb)]; lia. }
  destruct (sorted_min_head attr (sort_key mgr) c _ _ S1 P1) as [T2 [E2 [P2 S2]]].
  { intros b Hb. cbn [In] in Hb. rewrite Kc.
    destruct Hb as [Hb|[Hb|Hb]]; [subst b; rewrite Kr|subst b; rewrite Kx|rewrite (Kd b Hb)]; lia. }
  destruct (sorted_min_head attr (sort_key mgr) r _ _ S2 P2) as [T3 [E3 [P3 _]]].
  { intros b Hb. cbn [In] in Hb. rewrite Kr.
    destruct Hb as [Hb|Hb]; [subst b; rewrite Kx|rewrite (Kd b Hb)]; lia. }
  exists T3. split; [rewrite E1, E2, E3; reflexivity|exact P3].
Qed.

Lemma sattrs_split : exists l0 l1 l2 l3,
  sattrs = l0 ++ w :: l1 ++ c :: l2 ++ r :: l3 /\ plainL l0 /\ plainL l1 /\ plainL l2.
Proof.
  destruct sorted_dirs as [T [HT _]].
  assert (Hf : filter (pref pfx) sattrs = w :: c :: r :: T).
  { rewrite filter_sorted_attrs. exact HT. }
  destruct (filter_cons_split _ _ _ _ _ Hf) as [l0 [r0 [Hs0 [HF0 Hr0]]]].
  destruct (filter_cons_split _ _ _ _ _ Hr0) as [l1 [r1 [Hs1 [HF1 Hr1]]]].
  destruct (filter_cons_split _ _ _ _ _ Hr1) as [l2 [l3 [Hs2 [HF2 _]]]].
  exists l0, l1, l2, l3. split; [rewrite Hs0, Hs1, Hs2; reflexivity|]. repeat split; assumption.
Qed.

(* which directives the tag carries *)
Lemma has_dir_cases : forall d, has_dir mgr attrs d = true ->
  d = d_with \/ d = d_if \/ d = d_range \/ d = d_text \/ is_directive d = false.
Proof.
  intros d H. unfold has_dir, has_attr_named, prefix in H. apply existsb_exists in H.
  destruct H as [b [Hin Hb]]. apply seqb_eq in Hb.
  assert (Hp : prefixb pfx (a_name b) = true) by (rewrite Hb; apply prefixb_app).
  destruct (classify b Hin Hp) as [E|[E|[E|[E|E]]]].
  - subst b. rewrite Hw in Hb. apply app_inv_head in Hb. auto.
  - subst b. rewrite Hc in Hb. apply app_inv_head in Hb. auto.
  - subst b. rewrite Hr in Hb. apply app_inv_head in Hb. auto.
  - subst b. rewrite Hx in Hb. apply app_inv_head in Hb. auto 6.
  - destruct (dyn_of b E) as [cmd [Hn Hd]]. rewrite Hn in Hb. apply app_inv_head in Hb. subst cmd. auto 6.
Qed.

Lemma no_dir : forall d, is_directive d = true -> d <> d_with -> d <> d_if -> d <> d_range -> d <> d_text ->
  has_dir mgr attrs d = false.
Proof.
  intros d Hd H1 H2 H3 H4. destruct (has_dir mgr attrs d) eqn:E; [|reflexivity].
  destruct (has_dir_cases d E) as [F|[F|[F|[F|F]]]]; try contradiction. rewrite F in Hd. discriminate.
Qed.

Lemma has_named : forall b cmd, In b attrs -> a_name b = pfx ++ cmd -> has_dir mgr attrs cmd = true.
Proof.
  intros b cmd Hin Hn. unfold has_dir, has_attr_named, prefix. apply existsb_exists.
  exists b. split; [exact Hin|]. rewrite Hn. apply seqb_refl.
Qed.

Lemma init_dirs :
  has_dir mgr attrs d_define = false /\ has_dir mgr attrs d_replace = false /\ has_dir mgr attrs d_insert = false /\
  has_dir mgr attrs d_range = true /\ has_dir mgr attrs d_if = true.
Proof.
  destruct in_attrs as (_ & Hic & Hir & _).
  split; [apply no_dir; [reflexivity|discriminate..]|].
  split; [apply no_dir; [reflexivity|discriminate..]|].
  split; [apply no_dir; [reflexivity|discriminate..]|].
  split; [exact (has_named r d_range Hir Hr)|exact (has_named c d_if Hic Hc)].
Qed.

Lemma init1 : forall sc, ilstate 1 tok sc = mkL sc true CNop (cLT :: t_name tok) [] [] false.
Proof.
  intros sc. destruct init_dirs as (H1 & H2 & H3 & H4 & H5).
  unfold init_lstate. cbv zeta. rewrite Hblk, H1, H2, H3, H4.
  change (N.eqb (N.land 1 1) 0) with false. rewrite andb_false_r. reflexivity.
Qed.

Lemma init3 : forall sc, ilstate 3 tok sc = mkL sc false CDefault (cLT :: t_name tok) [] [] false.
Proof.
  intros sc. destruct init_dirs as (H1 & H2 & H3 & H4 & H5).
  unfold init_lstate. cbv zeta. rewrite Hblk, H1, H2, H3, H4.
  change (N.eqb (N.land 3 1) 0) with false. change (N.eqb (N.land 3 2) 0) with false.
  rewrite !andb_false_r. reflexivity.
Qed.


(* ------------------------------------------------------------------------------------------ *)
(* (2) single steps of the attribute loop                                                      *)
(* ------------------------------------------------------------------------------------------ *)
Definition plain_print (b : attr) : str :=
  [cSP] ++ a_name b ++ match a_value b with Some v => cEQ :: v | None => [] end.

Lemma step_plain : forall exec mask b ls t st, prefixb pfx (a_name b) = false ->
  astep exec mask ctx n attrs b ls t st =
    (inl (if has_attr_named attrs (pfx ++ a_name b) then ls else add_tagbuf ls (plain_print b)), t, st).
Proof.
  intros exec mask b ls t st Hb. unfold attr_step. cbv zeta. unfold prefix. rewrite Hb.
  destruct (has_attr_named attrs (pfx ++ a_name b)); reflexivity.
Qed.
Lemma owner_plain : forall mask b, prefixb pfx (a_name b) = false -> is_owner mgr mask b = false.
Proof. intros mask b Hb. unfold is_owner, prefix. rewrite Hb. reflexivity. Qed.

(* :if in a re-execution (condition mark set): skipped *)
Lemma step_cond_skip : forall exec mask ls t st, N.land mask 1 <> 0 ->
  astep exec mask ctx n attrs c ls t st = (inl ls, t, st).
Proof.
  intros exec mask ls t st Hm. unfold attr_step. cbv zeta. unfold prefix.
  rewrite Hc, prefixb_app, skipn_app_len.
  destruct (a_value c) as [v|] eqn:Ev; [|congruence].
  apply N.eqb_neq in Hm. rewrite Hm. reflexivity.
Qed.
Lemma owner_cond_skip : forall mask, N.land mask 1 <> 0 -> is_owner mgr mask c = false.
Proof.
  intros mask Hm. unfold is_owner. cbv zeta. unfold prefix. rewrite Hc, prefixb_app, skipn_app_len.
  apply N.eqb_neq in Hm. rewrite Hm. reflexivity.
Qed.

(* :range in a re-execution (range mark set): skipped; otherwise processRange *)
Lemma step_range_skip : forall exec mask ls t st, N.land mask 2 <> 0 ->
  astep exec mask ctx n attrs r ls t st = (inl ls, t, st).
Proof.
  intros exec mask ls t st Hm. unfold attr_step. cbv zeta. unfold prefix.
  rewrite Hr, prefixb_app, skipn_app_len, Hrv.
  apply N.eqb_neq in Hm. rewrite Hm. reflexivity.
Qed.
Lemma owner_range_skip : forall mask, N.land mask 2 <> 0 -> is_owner mgr mask r = false.
Proof.
  intros mask Hm. unfold is_owner. cbv zeta. unfold prefix. rewrite Hr, prefixb_app, skipn_app_len.
  apply N.eqb_neq in Hm. rewrite Hm. reflexivity.
Qed.
Lemma step_range_own : forall exec mask ls t st, N.land mask 2 = 0 ->
  astep exec mask ctx n attrs r ls t st = rowner exec mask ctx n av ls t st.
Proof.
  intros exec mask ls t st Hm. unfold attr_step. cbv zeta. unfold prefix.
  rewrite Hr, prefixb_app, skipn_app_len, Hrv, Hm. reflexivity.
Qed.
Lemma owner_range_own : forall mask, N.land mask 2 = 0 -> is_owner mgr mask r = true.
Proof.
  intros mask Hm. unfold is_owner. cbv zeta. unfold prefix. rewrite Hr, prefixb_app, skipn_app_len, Hm.
  reflexivity.
Qed.

(* :text only records itself; it is evaluated after the attribute loop (run_child) *)
Lemma step_text : forall exec mask ls t st,
  astep exec mask ctx n attrs x ls t st =
    (inl (match l_child ls with CDefault => set_child ls (CText x true) | _ => ls end), t, st).
Proof.
  intros exec mask ls t st. unfold attr_step. cbv zeta. unfold prefix.
  rewrite Hx, prefixb_app, skipn_app_len.
  change (str_eqb d_text d_with) with false. change (is_cond_name d_text) with false.
  change (str_eqb d_text d_range) with false. change (str_eqb d_text d_remove) with false.
  change (str_eqb d_text d_text) with true. cbn [orb].
  destruct (l_child ls); reflexivity.
Qed.
Lemma owner_text : forall mask, is_owner mgr mask x = false.
Proof. intros mask. unfold is_owner. cbv zeta. unfold prefix. rewrite Hx, prefixb_app, skipn_app_len. reflexivity. Qed.

(* a dynamic attribute is evaluated in the current scope, whatever the mask *)
Lemma step_dyn : forall exec mask b cmd ls t st, a_name b = pfx ++ cmd -> is_directive cmd = false ->
  astep exec mask ctx n attrs b ls t st =
    match aeval b (l_sc ls) (r_log st) with
    | (AOk v, lg) => (inl (add_tagbuf ls ([cSP] ++ cmd ++ [cEQ; cDQ] ++ escape v ++ [cDQ])), t, set_log st lg)
    | (AErr e, lg) => (inr (RErr e), t, set_log st lg)
    | (AUnm, lg) => (inr RUnmodelled, t, set_log st lg)
    end.
Proof.
  intros exec mask b cmd ls t st Hn Hd.
  unfold is_directive, directive_names in Hd. cbn [existsb] in Hd.
  repeat (apply orb_false_elim in Hd; destruct Hd as [? Hd]).
  unfold attr_step. cbv zeta. unfold prefix. rewrite Hn, prefixb_app, skipn_app_len.
  unfold is_cond_name, cond_names. cbn [existsb].
  repeat match goal with H : str_eqb cmd _ = false |- _ => rewrite H; clear H end.
  reflexivity.
Qed.
Lemma owner_dyn : forall mask b cmd, a_name b = pfx ++ cmd -> is_directive cmd = false -> is_owner mgr mask b = false.
Proof.
  intros mask b cmd Hn Hd.
  unfold is_directive, directive_names in Hd. cbn [existsb] in Hd.
  repeat (apply orb_false_elim in Hd; destruct Hd as [? Hd]).
  unfold is_owner. cbv zeta. unfold prefix. rewrite Hn, prefixb_app, skipn_app_len.
  unfold is_cond_name, cond_names. cbn [existsb].
  repeat match goal with H : str_eqb cmd _ = false |- _ => rewrite H; clear H end.
  reflexivity.
Qed.

(* ------------------------------------------------------------------------------------------ *)
(* (3) mask 3: one rendered instance                                                           *)
(* ------------------------------------------------------------------------------------------ *)
(* The attribute loop of an instance as a plain function: plain attributes are printed, directives are
   passed over, EVERY DYNAMIC ATTRIBUTE IS EVALUATED EXACTLY ONCE (one attr_evaluate per list element),
   in list order, in the instance's scope csc; the first failure ends the loop. *)
Fixpoint inst_attrs (l : list attr) (csc : scope) (tb : str) (lg : log) : (str + rres) * log :=
  match l with
  | [] => (inl tb, lg)
  | b :: rest =>
    if prefixb pfx (a_name b) then
      let cmd := skipn (length pfx) (a_name b) in
      if is_directive cmd then inst_attrs rest csc tb lg
      else match aeval b csc lg with
           | (AOk v, lg') => inst_attrs rest csc (tb ++ [cSP] ++ cmd ++ [cEQ; cDQ] ++ escape v ++ [cDQ]) lg'
           | (AErr e, lg') => (inr (RErr e), lg')
           | (AUnm, lg') => (inr RUnmodelled, lg')
           end
    else inst_attrs rest csc (if has_attr_named attrs (pfx ++ a_name b) then tb else tb ++ plain_print b) lg
  end.

Definition child3 (ch : child_action) (b : attr) : child_action :=
  if str_eqb (a_name b) (pfx ++ d_text) then match ch with CDefault => CText b true | _ => ch end else ch.

Lemma child3_other : forall ch b cmd, a_name b = pfx ++ cmd -> str_eqb cmd d_text = false -> child3 ch b = ch.
Proof. intros ch b cmd Hn Hne. unfold child3. rewrite Hn, seqb_app_l, Hne. reflexivity. Qed.
Lemma child3_plain : forall ch b, prefixb pfx (a_name b) = false -> child3 ch b = ch.
Proof.
  intros ch b Hb. unfold child3. destruct (str_eqb (a_name b) (pfx ++ d_text)) eqn:E; [|reflexivity].
  apply seqb_eq in E. rewrite E, prefixb_app in Hb. discriminate.
Qed.
Lemma dyn_not_text : forall cmd, is_directive cmd = false -> str_eqb cmd d_text = false.
Proof.
  intros cmd Hd. unfold is_directive, directive_names in Hd. cbn [existsb] in Hd.
  repeat (apply orb_false_elim in Hd; destruct Hd as [? Hd]). assumption.
Qed.

Lemma run_attrs3 : forall exec l ls t st, (forall b, In b l -> In b attrs) ->
  rattrs exec 3 ctx n attrs l ls t st =
    match inst_attrs l (l_sc ls) (l_tagbuf ls) (r_log st) with
    | (inl tb, lg) =>
      (inl (mkL (l_sc ls) (l_np ls) (fold_left child3 l (l_child ls)) tb (l_content ls) (l_direct ls) (l_replace ls)),
       t, set_log st lg)
    | (inr e, lg) => (inr e, t, set_log st lg)
    end.
Proof.
  intros exec l. induction l as [|b l IH]; intros ls t st Hin.
  - cbn [run_attrs inst_attrs fold_left]. rewrite set_log_same. destruct ls; reflexivity.
  - cbn [run_attrs inst_attrs fold_left].
    assert (Hb : In b attrs) by (apply Hin; left; reflexivity).
    assert (Hl : forall b', In b' l -> In b' attrs) by (intros b' Hb'; apply Hin; right; exact Hb').
    destruct (prefixb pfx (a_name b)) eqn:Ep.
    + destruct (classify b Hb Ep) as [E|[E|[E|[E|E]]]].
      * subst b. rewrite (attr_step_with_skip is_space is_letter is_udigit methods call_fn mgr exec 3 ctx n attrs w ls t st Hw) by discriminate.
        rewrite (is_owner_with mgr 3 w Hw), (IH ls t st Hl).
        rewrite Hw, skipn_app_len. change (is_directive d_with) with true. cbv iota.
        rewrite (child3_other (l_child ls) w d_with Hw eq_refl). reflexivity.
      * subst b. rewrite (step_cond_skip exec 3 ls t st) by discriminate.
        rewrite (owner_cond_skip 3) by discriminate. rewrite (IH ls t st Hl).
        rewrite Hc, skipn_app_len. change (is_directive d_if) with true. cbv iota.
        rewrite (child3_other (l_child ls) c d_if Hc eq_refl). reflexivity.
      * subst b. rewrite (step_range_skip exec 3 ls t st) by discriminate.
        rewrite (owner_range_skip 3) by discriminate. rewrite (IH ls t st Hl).
        rewrite Hr, skipn_app_len. change (is_directive d_range) with true. cbv iota.
        rewrite (child3_other (l_child ls) r d_range Hr eq_refl). reflexivity.
      * subst b. rewrite (step_text exec 3 ls t st), (owner_text 3).
        rewrite Hx, skipn_app_len. change (is_directive d_text) with true. cbv iota.
        unfold child3 at 2. rewrite Hx, seqb_refl.
        destruct (l_child ls) eqn:Ech; rewrite (IH _ t st Hl); cbn [set_child l_sc l_np l_child l_tagbuf l_content l_direct l_replace];
          rewrite ?Ech; reflexivity.
      * destruct (dyn_of b E) as [cmd [Hn Hd]].
        rewrite (step_dyn exec 3 b cmd ls t st Hn Hd).
        rewrite Hn, skipn_app_len, Hd.
        rewrite (child3_other (l_child ls) b cmd Hn (dyn_not_text cmd Hd)).
        destruct (aeval b (l_sc ls) (r_log st)) as [[v|e|] lg']; [|reflexivity|reflexivity].
        rewrite (owner_dyn 3 b cmd Hn Hd), (IH _ t (set_log st lg') Hl).
        cbn [add_tagbuf l_sc l_np l_child l_tagbuf l_content l_direct l_replace].
        change (r_log (set_log st lg')) with lg'. reflexivity.
    + rewrite (step_plain exec 3 b ls t st Ep), (owner_plain 3 b Ep), (IH _ t st Hl).
      rewrite (child3_plain (l_child ls) b Ep).
      destruct (has_attr_named attrs (pfx ++ a_name b)); reflexivity.
Qed.

Lemma child3_fixed : forall l ch, ch <> CDefault -> fold_left child3 l ch = ch.
Proof.
  induction l as [|b l IH]; intros ch Hch; [reflexivity|]. cbn [fold_left].
  assert (E : child3 ch b = ch) by (unfold child3; destruct (str_eqb (a_name b) (pfx ++ d_text)); destruct ch; try reflexivity; contradiction).
  rewrite E. apply IH. exact Hch.
Qed.
Lemma child3_final : forall l, (forall b, In b l -> In b attrs) -> In x l -> fold_left child3 l CDefault = CText x true.
Proof.
  induction l as [|b l IH]; intros Hin Hxl; [destruct Hxl|]. cbn [fold_left].
  unfold child3 at 2. destruct (str_eqb (a_name b) (pfx ++ d_text)) eqn:E.
  - apply seqb_eq in E.
    assert (Hb : In b attrs) by (apply Hin; left; reflexivity).
    assert (Hp : prefixb pfx (a_name b) = true) by (rewrite E; apply prefixb_app).
    assert (Hbx : b = x).
    { destruct (classify b Hb Hp) as [F|[F|[F|[F|F]]]].
      - subst b. rewrite Hw in E. apply app_inv_head in E. discriminate.
      - subst b. rewrite Hc in E. apply app_inv_head in E. discriminate.
      - subst b. rewrite Hr in E. apply app_inv_head in E. discriminate.
      - exact F.
      - destruct (dyn_of b F) as [cmd [Hn Hd]]. rewrite Hn in E. apply app_inv_head in E. subst cmd. discriminate. }
    subst b. apply child3_fixed. discriminate.
  - destruct Hxl as [Hxl|Hxl]; [subst b; rewrite Hx, seqb_refl in E; discriminate|].
    apply IH; [intros b' Hb'; apply Hin; right; exact Hb'|exact Hxl].
Qed.

Definition end_text : str := match n_end n with Some e => t_value e | None => [] end.

(* ONE INSTANCE: the dynamic attributes (inst_attrs), THEN the text expression, each once, in csc;
   output <name plain/dynamic attributes>escape(text)</name> *)
Definition inst_spec (csc : scope) (lg : log) : str * rres * log :=
  match inst_attrs sattrs csc (cLT :: t_name tok) lg with
  | (inr e, lg1) => ([], e, lg1)
  | (inl tb, lg1) =>
    match aeval x csc lg1 with
    | (AOk v, lg2) => (tb ++ [cGT] ++ escape v ++ end_text, ROk, lg2)
    | (AErr e, lg2) => (tb ++ [cGT], RErr e, lg2)
    | (AUnm, lg2) => (tb ++ [cGT], RUnmodelled, lg2)
    end
  end.

Lemma body3 : forall exec csc t st,
  ebody exec 3 ctx n csc false t st = (let '(o, r0, lg) := inst_spec csc (r_log st) in (o, r0, t, set_log st lg)).
Proof.
  intros exec csc t st. unfold exec_body. rewrite Htok, Hkind. cbv beta iota.
  rewrite exec_tag_finish.
  rewrite run_attrs3 by (intros b Hb; apply in_sorted_attrs in Hb; exact Hb).
  rewrite init3. cbn [l_sc l_np l_child l_tagbuf l_content l_direct l_replace].
  unfold inst_spec.
  destruct (inst_attrs sattrs csc (cLT :: t_name tok) (r_log st)) as [[tb|e] lg1]; [|reflexivity].
  rewrite child3_final;
    [|intros b Hb; apply in_sorted_attrs in Hb; exact Hb|apply in_sorted_attrs; apply in_attrs].
  unfold finish, token_buf, run_child, wr, write.
  cbn [l_sc l_np l_child l_tagbuf l_content l_direct l_replace seq2 app].
  change (r_log (set_log st lg1)) with lg1.
  destruct (aeval x csc lg1) as [[v|e|] lg2]; cbn [seq2 app]; rewrite ?app_nil_r.
  - unfold end_text. destruct (n_end n) as [e|]; cbn [seq2 app]; rewrite ?app_nil_r, <- ?app_assoc; reflexivity.
  - reflexivity.
  - reflexivity.
Qed.


(* ------------------------------------------------------------------------------------------ *)
(* (4) mask 1: the range loop over the instances                                               *)
(* ------------------------------------------------------------------------------------------ *)
(* the instances of the items, in order, each in the scope binding that item; the log is threaded;
   the first failing instance ends the loop.  Result: the renders that succeeded, the failure (if
   any), the final log. *)
Fixpoint insts (idx item : str) (scope0 : scope) (items : list (value * value)) (lg : log)
  : list str * option rres * log :=
  match items with
  | [] => ([], None, lg)
  | (k, v) :: more =>
    match inst_spec (range_scope idx item k v scope0) lg with
    | (o, ROk, lg1) => let '(outs, e, lg2) := insts idx item scope0 more lg1 in (o :: outs, e, lg2)
    | (_, r0, lg1) => ([], Some r0, lg1)
    end
  end.

(* the blank text node behind the element, if any (processRange's separator) *)
Definition sep_node : option node :=
  match next_sibling ctx (n_id n) with
  | Some y => if is_blank_text is_space y then Some y else None
  | None => None
  end.

(* processRange as a plain function: header, object (evaluated ONCE, in the default-combined scope of
   the element after :with), then the instances *)
Definition range_part (sc' : scope) (lg : log) : (str + rres) * log :=
  let '(idx, item, obj) := xrange (strip_quotes av) in
  match pcode obj with
  | None => (inr (RErr RSyntax), lg)
  | Some _ =>
    match etext (with_default sc') obj lg with
    | (Ok v, lg1) =>
      match range_items v with
      | None => (inr (match v with VOpaque _ => RUnmodelled | _ => RErr (RC COther) end), lg1)
      | Some items =>
        match insts idx item (with_default sc') items lg1 with
        | (outs, None, lg2) => (inl (range_spec (sep_text_of sep_node) outs), lg2)
        | (_, Some r0, lg2) => (inr r0, lg2)
        end
      end
    | (Err e, lg1) => (inr (RErr (RC e)), lg1)
    | (Unmodelled, lg1) => (inr RUnmodelled, lg1)
    end
  end.

Lemma insts_fail_nok : forall idx item scope0 items lg outs r0 lg',
  insts idx item scope0 items lg = (outs, Some r0, lg') -> r0 <> ROk.
Proof.
  intros idx item scope0 items. induction items as [|[k v] more IH]; intros lg outs r0 lg' H; cbn [insts] in H.
  - discriminate.
  - destruct (inst_spec (range_scope idx item k v scope0) lg) as [[o r1] lg1].
    destruct r1.
    + destruct (insts idx item scope0 more lg1) as [[outs1 e1] lg2] eqn:Em. inversion H; subst.
      exact (IH lg1 outs1 r0 lg' Em).
    + inversion H; subst. discriminate.
    + inversion H; subst. discriminate.
Qed.

(* the error side of processRange is an error *)
Lemma range_part_inr : forall sc' lg e lg', range_part sc' lg = (inr e, lg') -> e <> ROk.
Proof.
  intros sc' lg e lg' H. unfold range_part in H.
  destruct (xrange (strip_quotes av)) as [[idx item] obj].
  destruct (pcode obj) as [e0|]; [|inversion H; discriminate].
  destruct (etext (with_default sc') obj lg) as [[v|e'|] lg1]; [|inversion H; discriminate|inversion H; discriminate].
  destruct (range_items v) as [items|]; [|inversion H; destruct v; discriminate].
  destruct (insts idx item (with_default sc') items lg1) as [[outs [r0|]] lg2] eqn:Ei; [|discriminate].
  inversion H; subst. exact (insts_fail_nok _ _ _ _ _ _ _ _ Ei).
Qed.

Section Loop.
Variable exec : N -> list node -> node -> scope -> bool -> tbl -> rst -> R.
(* the recursive call renders an instance (mask 3) as [inst_spec] says *)
Hypothesis Hex3 : forall csc t st,
  exec 3 ctx n csc false t st = (let '(o, r0, lg) := inst_spec csc (r_log st) in (o, r0, t, set_log st lg)).

Lemma insts_ok_runs : forall idx item scope0 items lg outs lg' t st,
  insts idx item scope0 items lg = (outs, None, lg') ->
  iter_runs exec 1 ctx n idx item scope0 items t (set_log st lg) outs t (set_log st lg').
Proof.
  intros idx item scope0 items. induction items as [|[k v] more IH]; intros lg outs lg' t st H; cbn [insts] in H.
  - inversion H; subst. constructor.
  - destruct (inst_spec (range_scope idx item k v scope0) lg) as [[o r0] lg1] eqn:Ei.
    destruct r0; try discriminate.
    destruct (insts idx item scope0 more lg1) as [[outs1 e1] lg2] eqn:Em. inversion H; subst.
    eapply IR_cons.
    + change (N.lor 1 2) with 3. rewrite Hex3. change (r_log (set_log st lg)) with lg. rewrite Ei. reflexivity.
    + exact (IH lg1 outs1 lg' t (set_log st lg) Em).
Qed.

Lemma insts_fail_iter : forall idx item scope0 sep items lg outs r0 lg' first acc t st,
  insts idx item scope0 items lg = (outs, Some r0, lg') ->
  range_iter exec 1 ctx n idx item scope0 sep items first acc t (set_log st lg) = (inr r0, t, set_log st lg').
Proof.
  intros idx item scope0 sep items. induction items as [|[k v] more IH]; intros lg outs r0 lg' first acc t st H; cbn [insts] in H.
  - discriminate.
  - cbn [range_iter]. change (N.lor 1 2) with 3. rewrite Hex3. change (r_log (set_log st lg)) with lg.
    destruct (inst_spec (range_scope idx item k v scope0) lg) as [[o r1] lg1] eqn:Ei.
    destruct r1.
    + destruct (insts idx item scope0 more lg1) as [[outs1 e1] lg2] eqn:Em. inversion H; subst.
      exact (IH lg1 outs1 r0 lg' false _ t (set_log st lg) Em).
    + inversion H; subst. reflexivity.
    + inversion H; subst. reflexivity.
Qed.

Lemma range_owner_part : forall ls t st,
  rowner exec 1 ctx n av ls t st =
    match range_part (l_sc ls) (r_log st) with
    | (inl o, lg) => (inl (add_direct ls o), t, set_log st lg)
    | (inr e, lg) => (inr e, t, set_log st lg)
    end.
Proof.
  intros ls t st. unfold range_owner, range_part.
  destruct (xrange (strip_quotes av)) as [[idx item] obj].
  destruct (pcode obj) as [e|]; [|rewrite set_log_same; reflexivity].
  destruct (etext (with_default (l_sc ls)) obj (r_log st)) as [[v|e'|] lg1]; [|reflexivity|reflexivity].
  destruct (range_items v) as [items|]; [|reflexivity].
  fold sep_node.
  destruct (insts idx item (with_default (l_sc ls)) items lg1) as [[outs [r0|]] lg2] eqn:Ei.
  - rewrite (insts_fail_iter idx item _ sep_node items lg1 outs r0 lg2 true [] t st Ei). reflexivity.
  - rewrite (range_iter_ok exec 1 ctx n idx item _ sep_node items t (set_log st lg1) outs t (set_log st lg2)
               (insts_ok_runs idx item _ items lg1 outs lg2 t st Ei)).
    reflexivity.
Qed.

(* the re-execution with the condition mark set: neither :with nor :if is evaluated; :range owns it *)
Lemma body1 : forall sc' top t st,
  ebody exec 1 ctx n sc' top t st =
    match range_part sc' (r_log st) with
    | (inl o, lg) => wr top o t (set_log st lg)
    | (inr e, lg) => ([], e, t, set_log st lg)
    end.
Proof.
  intros sc' top t st. unfold exec_body. rewrite Htok, Hkind. cbv beta iota.
  rewrite exec_tag_finish.
  destruct sattrs_split as (l0 & l1 & l2 & l3 & HS & P0 & P1 & P2). rewrite HS, init1.
  destruct (run_attrs_plain is_space is_letter is_udigit methods call_fn mgr exec 1 ctx n attrs l0
              (w :: l1 ++ c :: l2 ++ r :: l3) t st P0 (mkL sc' true CNop (cLT :: t_name tok) [] [] false)) as [tb0 E0].
  rewrite E0. cbn [run_attrs].
  rewrite (attr_step_with_skip is_space is_letter is_udigit methods call_fn mgr exec 1 ctx n attrs w _ t st Hw) by discriminate.
  rewrite (is_owner_with mgr 1 w Hw).
  destruct (run_attrs_plain is_space is_letter is_udigit methods call_fn mgr exec 1 ctx n attrs l1
              (c :: l2 ++ r :: l3) t st P1 (set_tagbuf (mkL sc' true CNop (cLT :: t_name tok) [] [] false) tb0)) as [tb1 E1].
  rewrite E1. cbn [run_attrs].
  rewrite (step_cond_skip exec 1 _ t st) by discriminate. rewrite (owner_cond_skip 1) by discriminate.
  match goal with |- context [rattrs exec 1 ctx n attrs (l2 ++ r :: l3) ?ls t st] =>
    destruct (run_attrs_plain is_space is_letter is_udigit methods call_fn mgr exec 1 ctx n attrs l2 (r :: l3) t st P2 ls) as [tb2 E2]
  end.
  rewrite E2. cbn [run_attrs].
  rewrite (step_range_own exec 1 _ t st eq_refl), (owner_range_own 1 eq_refl).
  rewrite range_owner_part. cbn [set_tagbuf l_sc l_np l_child l_tagbuf l_content l_direct l_replace].
  destruct (range_part sc' (r_log st)) as [[o|e] lg]; [|reflexivity].
  unfold finish, token_buf. cbn [add_direct l_sc l_np l_child l_tagbuf l_content l_direct l_replace app].
  rewrite app_nil_r. apply seq2_wr_nop. intros t2 st2.
  unfold run_child. cbn [l_child l_np seq2]. destruct (n_end n); reflexivity.
Qed.
End Loop.

(* ------------------------------------------------------------------------------------------ *)
(* (5) mask 0: WithAssign, then the condition                                                  *)
(* ------------------------------------------------------------------------------------------ *)
Lemma body0 : forall exec sc top t st,
  ebody exec 0 ctx n sc top t st =
    match wassign w sc (r_log st) with
    | (inr e, lg0) => ([], e, t, set_log st lg0)
    | (inl sc', lg0) =>
      match aeval c sc' lg0 with
      | (AOk s, lg) =>
        if str_eqb s s_true then
          match exec 1 ctx n sc' false (tbl_set t (n_id n) true) (set_log st lg) with
          | (o, ROk, t2, st2) => wr top o t2 st2
          | (_, r0, t2, st2) => ([], r0, t2, st2)
          end
        else wr top [] (tbl_set t (n_id n) false) (set_log st lg)
      | (AErr e, lg) => ([], RErr e, t, set_log st lg)
      | (AUnm, lg) => ([], RUnmodelled, t, set_log st lg)
      end
    end.
Proof.
  intros exec sc top t st. unfold exec_body. rewrite Htok, Hkind. cbv beta iota.
  rewrite exec_tag_finish.
  destruct sattrs_split as (l0 & l1 & l2 & l3 & HS & P0 & P1 & P2). rewrite HS.
  destruct in_attrs as (_ & Hic & _ & _).
  destruct (run_attrs_plain is_space is_letter is_udigit methods call_fn mgr exec 0 ctx n attrs l0
              (w :: l1 ++ c :: l2 ++ r :: l3) t st P0 (ilstate 0 tok sc)) as [tb0 E0].
  rewrite E0. cbn [run_attrs].
  rewrite (attr_step_with is_space is_letter is_udigit methods call_fn mgr exec ctx n attrs w _ t st Hw), (is_owner_with mgr 0 w Hw).
  change (l_sc (set_tagbuf (ilstate 0 tok sc) tb0)) with sc.
  destruct (wassign w sc (r_log st)) as [[sc'|e] lg0]; [|reflexivity].
  destruct (run_attrs_plain is_space is_letter is_udigit methods call_fn mgr exec 0 ctx n attrs l1
              (c :: l2 ++ r :: l3) t (set_log st lg0) P1 (set_sc (set_tagbuf (ilstate 0 tok sc) tb0) sc')) as [tb1 E1].
  rewrite E1.
  change (set_tagbuf (set_sc (set_tagbuf (ilstate 0 tok sc) tb0) sc') tb1) with (set_tagbuf (ilstate 0 tok sc') tb1).
  rewrite (cond_tail is_space to_lower is_letter is_udigit methods call_fn mgr exec ctx n tok c d_if sc' tb1 _ top t (set_log st lg0)
             Hic Hc eq_refl Hcv Hblk).
  rewrite if_owner.
  destruct (init_lstate_cond to_lower mgr tok c d_if sc' Hic Hc eq_refl Hblk) as (_ & _ & Hdir & Hsc).
  unfold eval_cond. rewrite Hsc. change (r_log (set_log st lg0)) with lg0.
  destruct (aeval c sc' lg0) as [[s|e|] lg]; [|reflexivity|reflexivity].
  change (set_log (set_log st lg0) lg) with (set_log st lg).
  destruct (str_eqb s s_true).
  - change (N.lor 0 1) with 1.
    destruct (exec 1 ctx n sc' false (tbl_set t (n_id n) true) (set_log st lg)) as [[[o r0] t2] st2].
    destruct r0; try reflexivity; cbn [l_direct add_direct set_child]; rewrite Hdir; reflexivity.
  - cbn [l_direct set_child]. rewrite Hdir. reflexivity.
Qed.

(* ------------------------------------------------------------------------------------------ *)
(* (6) THE COMPOSITION                                                                         *)
(* ------------------------------------------------------------------------------------------ *)
(* The whole element as a plain function.  Read off the evaluations, top to bottom:
     1. with_assign w   in sc                         -- once            (failure: that error, log there)
     2. attr_evaluate c in sc' = sc + {with bindings} -- once            (failure / not "true": stop)
     3. eval_text obj   in with_default sc'           -- once (range_part; failure / not a collection: stop)
     4. for each item, in order (insts): in csc = range_scope idx item k v (with_default sc'):
          attr_evaluate of every dynamic attribute    -- once each, in sorted order (inst_attrs)
          attr_evaluate x (:text)                     -- once, AFTER the dynamic attributes (inst_spec)
   Nothing else is evaluated; one Write (wr top) of the joined instances (or of the empty string). *)
Definition spec_once (sc : scope) (top : bool) (t : tbl) (st : rst) : R :=
  match wassign w sc (r_log st) with
  | (inr e, lg0) => ([], e, t, set_log st lg0)
  | (inl sc', lg0) =>
    match aeval c sc' lg0 with
    | (AOk s, lg1) =>
      if str_eqb s s_true then
        match range_part sc' lg1 with
        | (inl o, lg2) => wr top o (tbl_set t (n_id n) true) (set_log st lg2)
        | (inr e, lg2) => ([], e, tbl_set t (n_id n) true, set_log st lg2)
        end
      else wr top [] (tbl_set t (n_id n) false) (set_log st lg1)
    | (AErr e, lg1) => ([], RErr e, t, set_log st lg1)
    | (AUnm, lg1) => ([], RUnmodelled, t, set_log st lg1)
    end
  end.

Theorem compose_exec_node_elem : forall f sc top t st,
  enode (S (S (S f))) 0 ctx n sc top t st = spec_once sc top t st.
Proof.
  intros f sc top t st.
  change (enode (S (S (S f)))) with (ebody (enode (S (S f)))).
  rewrite body0. unfold spec_once.
  destruct (wassign w sc (r_log st)) as [[sc'|e] lg0]; [|reflexivity].
  destruct (aeval c sc' lg0) as [[s|e|] lg1]; [|reflexivity|reflexivity].
  destruct (str_eqb s s_true); [|reflexivity].
  change (enode (S (S f))) with (ebody (enode (S f))).
  rewrite (body1 (enode (S f))).
  - change (r_log (set_log st lg1)) with lg1.
    destruct (range_part sc' lg1) as [[o|e] lg2] eqn:Erp;
      [|pose proof (range_part_inr sc' lg1 e lg2 Erp) as Hne; destruct e; [contradiction|reflexivity|reflexivity]].
    unfold wr at 1. unfold write at 1. cbv beta iota.
    change (set_log (set_log st lg1) lg2) with (set_log st lg2). reflexivity.
  - intros csc t0 st0. change (enode (S f)) with (ebody (enode f)). apply body3.
Qed.


(* ------------------------------------------------------------------------------------------ *)
(* (7) the outcomes, one by one (renderer itself, fuel >= 3)                                   *)
(* ------------------------------------------------------------------------------------------ *)
Lemma insts_app : forall idx item scope0 done rest lg outs lg1,
  insts idx item scope0 done lg = (outs, None, lg1) ->
  insts idx item scope0 (done ++ rest) lg =
    (let '(outs2, e, lg2) := insts idx item scope0 rest lg1 in (outs ++ outs2, e, lg2)).
Proof.
  intros idx item scope0 done. induction done as [|[k v] more IH]; intros rest lg outs lg1 H; cbn [insts] in H.
  - inversion H; subst. cbn [app]. destruct (insts idx item scope0 rest lg1) as [[outs2 e] lg2]. reflexivity.
  - cbn [app insts]. destruct (inst_spec (range_scope idx item k v scope0) lg) as [[o r0] lg0].
    destruct r0; try discriminate.
    destruct (insts idx item scope0 more lg0) as [[outs1 e1] lg2] eqn:Em. inversion H; subst.
    rewrite (IH rest lg0 outs1 lg1 Em).
    destruct (insts idx item scope0 rest lg1) as [[outs2 e] lg3]. reflexivity.
Qed.

(* a failing :with binding: that error, the log as WithAssign left it; nothing else is evaluated *)
Corollary compose_with_fails : forall f sc top t st e lg0,
  wassign w sc (r_log st) = (inr e, lg0) ->
  enode (S (S (S f))) 0 ctx n sc top t st = ([], e, t, set_log st lg0).
Proof. intros f sc top t st e lg0 H. rewrite compose_exec_node_elem. unfold spec_once. rewrite H. reflexivity. Qed.

(* a failing condition (evaluated in the extended scope sc') *)
Corollary compose_cond_fails : forall f sc top t st sc' lg0 e lg1,
  wassign w sc (r_log st) = (inl sc', lg0) -> aeval c sc' lg0 = (AErr e, lg1) ->
  enode (S (S (S f))) 0 ctx n sc top t st = ([], RErr e, t, set_log st lg1).
Proof. intros f sc top t st sc' lg0 e lg1 H1 H2. rewrite compose_exec_node_elem. unfold spec_once. rewrite H1, H2. reflexivity. Qed.

(* the condition is not "true": one empty Write, the range object / attributes / text are NOT evaluated *)
Corollary compose_cond_false : forall f sc top t st sc' lg0 s lg1,
  wassign w sc (r_log st) = (inl sc', lg0) -> aeval c sc' lg0 = (AOk s, lg1) -> str_eqb s s_true = false ->
  enode (S (S (S f))) 0 ctx n sc top t st = wr top [] (tbl_set t (n_id n) false) (set_log st lg1).
Proof. intros f sc top t st sc' lg0 s lg1 H1 H2 H3. rewrite compose_exec_node_elem. unfold spec_once. rewrite H1, H2, H3. reflexivity. Qed.

(* a failing range object (evaluated in with_default sc', i.e. with the :with bindings visible) *)
Corollary compose_range_object_fails : forall f sc top t st sc' lg0 s lg1 idx item obj e0 e lg2,
  wassign w sc (r_log st) = (inl sc', lg0) -> aeval c sc' lg0 = (AOk s, lg1) -> str_eqb s s_true = true ->
  xrange (strip_quotes av) = (idx, item, obj) -> pcode obj = Some e0 ->
  etext (with_default sc') obj lg1 = (Err e, lg2) ->
  enode (S (S (S f))) 0 ctx n sc top t st = ([], RErr (RC e), tbl_set t (n_id n) true, set_log st lg2).
Proof.
  intros f sc top t st sc' lg0 s lg1 idx item obj e0 e lg2 H1 H2 H3 H4 H5 H6.
  rewrite compose_exec_node_elem. unfold spec_once. rewrite H1, H2, H3. unfold range_part. rewrite H4, H5, H6. reflexivity.
Qed.

(* everything succeeds: ONE Write of the instances joined by the blank text behind the element *)
Corollary compose_ok : forall f sc top t st sc' lg0 s lg1 idx item obj e0 v lg2 items outs lg3,
  wassign w sc (r_log st) = (inl sc', lg0) -> aeval c sc' lg0 = (AOk s, lg1) -> str_eqb s s_true = true ->
  xrange (strip_quotes av) = (idx, item, obj) -> pcode obj = Some e0 ->
  etext (with_default sc') obj lg1 = (Ok v, lg2) -> range_items v = Some items ->
  insts idx item (with_default sc') items lg2 = (outs, None, lg3) ->
  enode (S (S (S f))) 0 ctx n sc top t st =
    wr top (range_spec (sep_text_of sep_node) outs) (tbl_set t (n_id n) true) (set_log st lg3).
Proof.
  intros f sc top t st sc' lg0 s lg1 idx item obj e0 v lg2 items outs lg3 H1 H2 H3 H4 H5 H6 H7 H8.
  rewrite compose_exec_node_elem. unfold spec_once. rewrite H1, H2, H3. unfold range_part. rewrite H4, H5, H6, H7, H8. reflexivity.
Qed.

(* the instance of item (k, v) fails (a dynamic attribute or the text): the instances already rendered
   are DROPPED (nothing is written), the items behind it are not looked at *)
Corollary compose_instance_fails : forall f sc top t st sc' lg0 s lg1 idx item obj e0 vo lg2 done k v later outs lg3 o e lg4,
  wassign w sc (r_log st) = (inl sc', lg0) -> aeval c sc' lg0 = (AOk s, lg1) -> str_eqb s s_true = true ->
  xrange (strip_quotes av) = (idx, item, obj) -> pcode obj = Some e0 ->
  etext (with_default sc') obj lg1 = (Ok vo, lg2) -> range_items vo = Some (done ++ (k, v) :: later) ->
  insts idx item (with_default sc') done lg2 = (outs, None, lg3) ->
  inst_spec (range_scope idx item k v (with_default sc')) lg3 = (o, e, lg4) -> e <> ROk ->
  enode (S (S (S f))) 0 ctx n sc top t st = ([], e, tbl_set t (n_id n) true, set_log st lg4).
Proof.
  intros f sc top t st sc' lg0 s lg1 idx item obj e0 vo lg2 done k v later outs lg3 o e lg4 H1 H2 H3 H4 H5 H6 H7 H8 H9 H10.
  rewrite compose_exec_node_elem. unfold spec_once. rewrite H1, H2, H3. unfold range_part. rewrite H4, H5, H6, H7.
  rewrite (insts_app idx item _ done ((k, v) :: later) lg2 outs lg3 H8). cbn [insts]. rewrite H9.
  destruct e; [contradiction|reflexivity|reflexivity].
Qed.

(* ... in particular a failing :text at item (k, v), after that item's dynamic attributes were evaluated *)
Corollary compose_text_fails : forall f sc top t st sc' lg0 s lg1 idx item obj e0 vo lg2 done k v later outs lg3 tb lg4 e lg5,
  wassign w sc (r_log st) = (inl sc', lg0) -> aeval c sc' lg0 = (AOk s, lg1) -> str_eqb s s_true = true ->
  xrange (strip_quotes av) = (idx, item, obj) -> pcode obj = Some e0 ->
  etext (with_default sc') obj lg1 = (Ok vo, lg2) -> range_items vo = Some (done ++ (k, v) :: later) ->
  insts idx item (with_default sc') done lg2 = (outs, None, lg3) ->
  inst_attrs sattrs (range_scope idx item k v (with_default sc')) (cLT :: t_name tok) lg3 = (inl tb, lg4) ->
  aeval x (range_scope idx item k v (with_default sc')) lg4 = (AErr e, lg5) ->
  enode (S (S (S f))) 0 ctx n sc top t st = ([], RErr e, tbl_set t (n_id n) true, set_log st lg5).
Proof.
  intros f sc top t st sc' lg0 s lg1 idx item obj e0 vo lg2 done k v later outs lg3 tb lg4 e lg5 H1 H2 H3 H4 H5 H6 H7 H8 H9 H10.
  apply (compose_instance_fails f sc top t st sc' lg0 s lg1 idx item obj e0 vo lg2 done k v later outs lg3 (tb ++ [cGT]) (RErr e) lg5);
    try assumption; [|discriminate].
  unfold inst_spec. rewrite H9, H10. reflexivity.
Qed.

(* ------------------------------------------------------------------------------------------ *)
(* (8) the documented element: no plain attribute, exactly one dynamic attribute a (:ta)       *)
(* ------------------------------------------------------------------------------------------ *)
Section OneTitle.
Variable a : attr.
Variable ta : str.
Hypothesis Hdas1 : das = [a].
Hypothesis Ha : a_name a = pfx ++ ta.
Hypothesis Hta : is_directive ta = false.
Hypothesis Hall : forall b, In b attrs -> prefixb pfx (a_name b) = true.

Lemma filter_all : forall (l : list attr), (forall b, In b l -> pref pfx b = true) -> filter (pref pfx) l = l.
Proof.
  induction l as [|b l IH]; intros H; [reflexivity|]. cbn [filter]. rewrite (H b (or_introl eq_refl)).
  f_equal. apply IH. intros b' Hb'. apply H. right. exact Hb'.
Qed.

(* Tag.SortedAttr: with, if, range, then text and the dynamic attribute in their written order *)
Lemma sattrs_one : sattrs = [w; c; r; x; a] \/ sattrs = [w; c; r; a; x].
Proof.
  destruct sorted_dirs as [T [HT HP]]. unfold dirs in HT. rewrite (filter_all attrs Hall) in HT.
  rewrite Hdas1 in HP. apply Permutation_sym, Permutation_length_2_inv in HP.
  destruct HP as [HP|HP]; subst T; [left|right]; exact HT.
Qed.

(* ... but the written order of :text and the dynamic attribute does NOT matter: the attribute loop
   evaluates the dynamic attribute, :text is evaluated after the loop *)
Lemma inst_attrs_one : forall csc tb lg,
  inst_attrs sattrs csc tb lg =
    match aeval a csc lg with
    | (AOk va, lg1) => (inl (tb ++ [cSP] ++ ta ++ [cEQ; cDQ] ++ escape va ++ [cDQ]), lg1)
    | (AErr e, lg1) => (inr (RErr e), lg1)
    | (AUnm, lg1) => (inr RUnmodelled, lg1)
    end.
Proof.
  intros csc tb lg.
  destruct sattrs_one as [E|E]; rewrite E; cbn [inst_attrs];
    rewrite Hw, Hc, Hr, Hx, Ha, !prefixb_app, !skipn_app_len, Hta;
    change (is_directive d_with) with true; change (is_directive d_if) with true;
    change (is_directive d_range) with true; change (is_directive d_text) with true; cbv iota;
    destruct (aeval a csc lg) as [[va|e|] lg1]; reflexivity.
Qed.

(* <name ta="escape(va)">escape(vt)</name> *)
Definition inst_html (va vt : str) : str :=
  (cLT :: t_name tok) ++ [cSP] ++ ta ++ [cEQ; cDQ] ++ escape va ++ [cDQ] ++ [cGT] ++ escape vt ++ end_text.

(* one instance: the dynamic attribute, THEN the text, each once, in csc *)
Definition inst_one (csc : scope) (lg : log) : str * rres * log :=
  match aeval a csc lg with
  | (AOk va, lg1) =>
    match aeval x csc lg1 with
    | (AOk vt, lg2) => (inst_html va vt, ROk, lg2)
    | (AErr e, lg2) => ((cLT :: t_name tok) ++ [cSP] ++ ta ++ [cEQ; cDQ] ++ escape va ++ [cDQ] ++ [cGT], RErr e, lg2)
    | (AUnm, lg2) => ((cLT :: t_name tok) ++ [cSP] ++ ta ++ [cEQ; cDQ] ++ escape va ++ [cDQ] ++ [cGT], RUnmodelled, lg2)
    end
  | (AErr e, lg1) => ([], RErr e, lg1)
  | (AUnm, lg1) => ([], RUnmodelled, lg1)
  end.

Lemma inst_spec_one : forall csc lg, inst_spec csc lg = inst_one csc lg.
Proof.
  intros csc lg. unfold inst_spec, inst_one, inst_html. rewrite inst_attrs_one.
  destruct (aeval a csc lg) as [[va|e|] lg1]; [|reflexivity|reflexivity].
  destruct (aeval x csc lg1) as [[vt|e|] lg2]; repeat (progress (rewrite <- ?app_assoc; cbn [app])); reflexivity.
Qed.

Fixpoint insts_one (idx item : str) (scope0 : scope) (items : list (value * value)) (lg : log)
  : list str * option rres * log :=
  match items with
  | [] => ([], None, lg)
  | (k, v) :: more =>
    match inst_one (range_scope idx item k v scope0) lg with
    | (o, ROk, lg1) => let '(outs, e, lg2) := insts_one idx item scope0 more lg1 in (o :: outs, e, lg2)
    | (_, r0, lg1) => ([], Some r0, lg1)
    end
  end.

Lemma insts_one_eq : forall idx item scope0 items lg, insts idx item scope0 items lg = insts_one idx item scope0 items lg.
Proof.
  intros idx item scope0 items. induction items as [|[k v] more IH]; intros lg; cbn [insts insts_one]; [reflexivity|].
  rewrite inst_spec_one. destruct (inst_one (range_scope idx item k v scope0) lg) as [[o r0] lg1].
  destruct r0; try reflexivity. rewrite IH. reflexivity.
Qed.

(* the whole element, fully explicit: every expression below is evaluated by exactly one call *)
Definition spec_one (sc : scope) (top : bool) (t : tbl) (st : rst) : R :=
  match wassign w sc (r_log st) with                                  (* ew: once, in sc *)
  | (inr e, lg0) => ([], e, t, set_log st lg0)
  | (inl sc', lg0) =>
    match aeval c sc' lg0 with                                         (* ec: once, in sc + {w} *)
    | (AOk s, lg1) =>
      if str_eqb s s_true then
        let '(idx, item, obj) := xrange (strip_quotes av) in
        match pcode obj with
        | None => ([], RErr RSyntax, tbl_set t (n_id n) true, set_log st lg1)
        | Some _ =>
          match etext (with_default sc') obj lg1 with                  (* eo: once, in sc + {w} *)
          | (Ok v, lg2) =>
            match range_items v with
            | None => ([], match v with VOpaque _ => RUnmodelled | _ => RErr (RC COther) end, tbl_set t (n_id n) true, set_log st lg2)
            | Some items =>
              match insts_one idx item (with_default sc') items lg2 with   (* per item: ea then et, once each *)
              | (outs, None, lg3) => wr top (range_spec (sep_text_of sep_node) outs) (tbl_set t (n_id n) true) (set_log st lg3)
              | (_, Some r0, lg3) => ([], r0, tbl_set t (n_id n) true, set_log st lg3)
              end
            end
          | (Err e, lg2) => ([], RErr (RC e), tbl_set t (n_id n) true, set_log st lg2)
          | (Unmodelled, lg2) => ([], RUnmodelled, tbl_set t (n_id n) true, set_log st lg2)
          end
        end
      else wr top [] (tbl_set t (n_id n) false) (set_log st lg1)
    | (AErr e, lg1) => ([], RErr e, t, set_log st lg1)
    | (AUnm, lg1) => ([], RUnmodelled, t, set_log st lg1)
    end
  end.

Lemma spec_once_one : forall sc top t st, spec_once sc top t st = spec_one sc top t st.
Proof.
  intros sc top t st. unfold spec_once, spec_one.
  destruct (wassign w sc (r_log st)) as [[sc'|e] lg0]; [|reflexivity].
  destruct (aeval c sc' lg0) as [[s|e|] lg1]; [|reflexivity|reflexivity].
  destruct (str_eqb s s_true); [|reflexivity].
  unfold range_part. destruct (xrange (strip_quotes av)) as [[idx item] obj].
  destruct (pcode obj) as [e0|]; [|reflexivity].
  destruct (etext (with_default sc') obj lg1) as [[v|e|] lg2]; [|reflexivity|reflexivity].
  destruct (range_items v) as [items|]; [|reflexivity].
  rewrite insts_one_eq.
  destruct (insts_one idx item (with_default sc') items lg2) as [[outs [r0|]] lg3]; reflexivity.
Qed.

Theorem compose_one_elem : forall f sc top t st,
  enode (S (S (S f))) 0 ctx n sc top t st = spec_one sc top t st.
Proof. intros f sc top t st. rewrite compose_exec_node_elem. apply spec_once_one. Qed.
End OneTitle.

End Elem.

(* ------------------------------------------------------------------------------------------ *)
(* (9) THE THEOREMS                                                                            *)
(* ------------------------------------------------------------------------------------------ *)
(* The renderer itself, any fuel >= 3, any writer (top / budget), any table, any sibling context, any
   children (they are discarded by :text), any written order of the attributes (Permutation in
   [composed]), any number of plain and dynamic attributes: output, result, table and log are those of
   [spec_once]. *)
Theorem compose_exec_node : forall ctx n tok w c r x av das, composed n tok w c r x av das ->
  forall f sc top t st,
  enode (S (S (S f))) 0 ctx n sc top t st = spec_once ctx n tok w c x av sc top t st.
Proof.
  intros ctx n tok w c r x av das (H1 & H2 & H3 & H4 & H5 & H6 & H7 & H8 & H9 & H10 & H11) f sc top t st.
  apply (compose_exec_node_elem ctx n tok w c r x av das); assumption.
Qed.

Corollary compose_exec_node_fuel : forall ctx n tok w c r x av das, composed n tok w c r x av das ->
  forall fuel sc top t st, (3 <= fuel)%nat ->
  enode fuel 0 ctx n sc top t st = spec_once ctx n tok w c x av sc top t st.
Proof.
  intros ctx n tok w c r x av das Hcomp fuel sc top t st Hf.
  destruct fuel as [|[|[|f]]]; try lia. apply (compose_exec_node ctx n tok w c r x av das Hcomp).
Qed.

(* the documented element <name :with :if :range :ta :text> (no plain attribute, one dynamic attribute),
   in any of the 120 written orders: the fully explicit [spec_one] *)
Theorem compose_one_title : forall ctx n tok w c r x av a ta, composed n tok w c r x av [a] ->
  a_name a = pfx ++ ta ->
  (forall b, In b (t_attrs tok) -> prefixb pfx (a_name b) = true) ->
  forall f sc top t st,
  enode (S (S (S f))) 0 ctx n sc top t st = spec_one ctx n tok w c x av a ta sc top t st.
Proof.
  intros ctx n tok w c r x av a ta Hcomp Ha Hall f sc top t st.
  assert (Hta : is_directive ta = false).
  { destruct Hcomp as (_ & _ & _ & _ & _ & _ & _ & _ & _ & Hd & _).
    inversion Hd as [|b l [cmd [Hn Hdir]] _]; subst. rewrite Ha in Hn. apply app_inv_head in Hn. subst cmd. exact Hdir. }
  destruct Hcomp as (H1 & H2 & H3 & H4 & H5 & H6 & H7 & H8 & H9 & H10 & H11).
  apply (compose_one_elem ctx n tok w c r x av [a]); try assumption. reflexivity.
Qed.
End Compose.

Print Assumptions compose_exec_node.
Print Assumptions compose_exec_node_fuel.
Print Assumptions compose_one_title.
Print Assumptions compose_with_fails.
Print Assumptions compose_cond_fails.
Print Assumptions compose_cond_false.
Print Assumptions compose_range_object_fails.
Print Assumptions compose_ok.
Print Assumptions compose_instance_fails.
Print Assumptions compose_text_fails.
Print Assumptions body0.
Print Assumptions body1.
Print Assumptions body3.
