(* C19: properties of the model of tplManager.Parse (Sys/FsWalk.v). *)
From Tpl Require Import Sys.FsWalk.
From Coq Require Import List NArith Lia Permutation Sorted.
Import ListNotations.
Open Scope N_scope.

(* ---------- strings, assoc ---------- *)
Lemma fp_str_eqb_refl : forall s : str, str_eqb s s = true.
Proof.
  induction s as [|x s IH]; cbn [str_eqb]; [reflexivity|].
  rewrite N.eqb_refl, IH. reflexivity.
Qed.

Lemma fp_str_eqb_eq : forall a b : str, str_eqb a b = true -> a = b.
Proof.
  induction a as [|x a IH]; destruct b as [|y b]; cbn [str_eqb]; intros H; try discriminate; [reflexivity|].
  apply andb_prop in H. destruct H as [Hx Hr]. apply N.eqb_eq in Hx. subst y.
  rewrite (IH b Hr). reflexivity.
Qed.

Lemma assoc_cons : forall A k k' (v : A) (l : list (str * A)),
  assoc k ((k', v) :: l) = if str_eqb k' k then Some v else assoc k l.
Proof.
  intros A k k' v l. unfold assoc. cbn [find fst snd].
  destruct (str_eqb k' k); reflexivity.
Qed.

Lemma assoc_app_some : forall A k (l1 l2 : list (str * A)) v,
  assoc k l1 = Some v -> assoc k (l1 ++ l2) = Some v.
Proof.
  induction l1 as [|[k' v'] l1 IH]; intros l2 v H.
  - unfold assoc in H. cbn [find] in H. discriminate.
  - cbn [app]. rewrite assoc_cons in *. destruct (str_eqb k' k); [exact H|]. apply IH. exact H.
Qed.

Lemma assoc_app_none : forall A k (l1 l2 : list (str * A)),
  assoc k l1 = None -> assoc k (l1 ++ l2) = assoc k l2.
Proof.
  induction l1 as [|[k' v'] l1 IH]; intros l2 H.
  - reflexivity.
  - cbn [app]. rewrite assoc_cons in *. destruct (str_eqb k' k); [discriminate|]. apply IH. exact H.
Qed.

Lemma assoc_snoc_self : forall A k (v : A) (l : list (str * A)), assoc k (l ++ [(k, v)]) <> None.
Proof.
  intros A k v l. destruct (assoc k l) as [w|] eqn:E.
  - rewrite (assoc_app_some _ _ _ _ _ E). discriminate.
  - rewrite (assoc_app_none _ _ _ _ E), assoc_cons, fp_str_eqb_refl. discriminate.
Qed.

Definition ext {A} (a b : list (str * A)) : Prop :=
  forall name tp, assoc name a = Some tp -> assoc name b = Some tp.
Lemma ext_refl : forall A (a : list (str * A)), ext a a.
Proof. intros A a name tp H. exact H. Qed.
Lemma ext_trans : forall A (a b c : list (str * A)), ext a b -> ext b c -> ext a c.
Proof. intros A a b c H1 H2 name tp H. apply H2, H1, H. Qed.
Lemma ext_app : forall A (a l : list (str * A)), ext a (a ++ l).
Proof. intros A a l name tp H. apply assoc_app_some. exact H. Qed.

(* ---------- generic lexicographic comparison ---------- *)
Section Lex.
Variable X : Type.
Variable cmp : X -> X -> comparison.
Fixpoint lex_compare (a b : list X) : comparison :=
  match a, b with
  | [], [] => Eq
  | [], _ => Lt
  | _, [] => Gt
  | x :: a', y :: b' => match cmp x y with Eq => lex_compare a' b' | c => c end
  end.
Hypothesis cmp_eq : forall x y, cmp x y = Eq -> x = y.
Hypothesis cmp_refl : forall x, cmp x x = Eq.
Hypothesis cmp_opp : forall x y, cmp y x = CompOpp (cmp x y).
Hypothesis cmp_lt_trans : forall x y z, cmp x y = Lt -> cmp y z = Lt -> cmp x z = Lt.

Lemma lex_eq : forall a b, lex_compare a b = Eq -> a = b.
Proof.
  induction a as [|x a IH]; destruct b as [|y b]; cbn [lex_compare]; intros H; try discriminate; [reflexivity|].
  destruct (cmp x y) eqn:E; try discriminate.
  apply cmp_eq in E. subst y. rewrite (IH b H). reflexivity.
Qed.
Lemma lex_refl : forall a, lex_compare a a = Eq.
Proof. induction a as [|x a IH]; cbn [lex_compare]; [reflexivity|]. rewrite cmp_refl. exact IH. Qed.
Lemma lex_opp : forall a b, lex_compare b a = CompOpp (lex_compare a b).
Proof.
  induction a as [|x a IH]; destruct b as [|y b]; cbn [lex_compare]; try reflexivity.
  rewrite (cmp_opp x y). destruct (cmp x y); cbn [CompOpp]; [apply IH | reflexivity | reflexivity].
Qed.
Lemma lex_lt_trans : forall a b c, lex_compare a b = Lt -> lex_compare b c = Lt -> lex_compare a c = Lt.
Proof.
  induction a as [|x a IH]; destruct b as [|y b]; destruct c as [|z c]; cbn [lex_compare];
    intros H1 H2; try discriminate; try reflexivity.
  destruct (cmp x y) eqn:Exy; try discriminate.
  - apply cmp_eq in Exy. subst y. destruct (cmp x z); try discriminate; [|reflexivity].
    eapply IH; eassumption.
  - destruct (cmp y z) eqn:Eyz; try discriminate.
    + apply cmp_eq in Eyz. subst z. rewrite Exy. reflexivity.
    + rewrite (cmp_lt_trans _ _ _ Exy Eyz). reflexivity.
Qed.
Lemma lex_le_trans : forall a b c, lex_compare a b <> Gt -> lex_compare b c <> Gt -> lex_compare a c <> Gt.
Proof.
  intros a b c H1 H2.
  destruct (lex_compare a b) eqn:E1; [| |congruence].
  - apply lex_eq in E1. subst b. exact H2.
  - destruct (lex_compare b c) eqn:E2; [| |congruence].
    + apply lex_eq in E2. subst c. rewrite E1. discriminate.
    + rewrite (lex_lt_trans _ _ _ E1 E2). discriminate.
Qed.
End Lex.

Lemma str_compare_lex : forall a b, str_compare a b = lex_compare _ N.compare a b.
Proof.
  induction a as [|x a IH]; destruct b as [|y b]; cbn [str_compare lex_compare];
    first [reflexivity | rewrite IH; reflexivity].
Qed.
Lemma seg_compare_lex : forall a b, seg_compare a b = lex_compare _ str_compare a b.
Proof.
  induction a as [|x a IH]; destruct b as [|y b]; cbn [seg_compare lex_compare];
    first [reflexivity | rewrite IH; reflexivity].
Qed.

Lemma N_compare_lt_trans : forall x y z : N, (x ?= y) = Lt -> (y ?= z) = Lt -> (x ?= z) = Lt.
Proof. intros x y z H1 H2. rewrite N.compare_lt_iff in *. lia. Qed.

Lemma str_compare_eq : forall a b, str_compare a b = Eq -> a = b.
Proof. intros a b. rewrite str_compare_lex. apply lex_eq. intros x y. apply N.compare_eq. Qed.
Lemma str_compare_refl : forall a, str_compare a a = Eq.
Proof. intros a. rewrite str_compare_lex. apply lex_refl. apply N.compare_refl. Qed.
Lemma str_compare_opp : forall a b, str_compare b a = CompOpp (str_compare a b).
Proof. intros a b. rewrite !str_compare_lex. apply lex_opp. intros x y. apply N.compare_antisym. Qed.
Lemma str_compare_lt_trans : forall a b c, str_compare a b = Lt -> str_compare b c = Lt -> str_compare a c = Lt.
Proof.
  intros a b c. rewrite !str_compare_lex. apply lex_lt_trans.
  - intros x y. apply N.compare_eq.
  - exact N_compare_lt_trans.
Qed.

Lemma seg_compare_opp : forall a b, seg_compare b a = CompOpp (seg_compare a b).
Proof. intros a b. rewrite !seg_compare_lex. apply lex_opp. exact str_compare_opp. Qed.
Lemma seg_compare_le_trans : forall a b c,
  seg_compare a b <> Gt -> seg_compare b c <> Gt -> seg_compare a c <> Gt.
Proof.
  intros a b c. rewrite !seg_compare_lex. apply lex_le_trans.
  - exact str_compare_eq.
  - exact str_compare_lt_trans.
Qed.

(* ---------- walk order ---------- *)
Lemma insert_file_perm : forall f l, Permutation (insert_file f l) (f :: l).
Proof.
  induction l as [|g r IH]; cbn [insert_file]; [apply Permutation_refl|].
  destruct (seg_compare (ff_path f) (ff_path g)); try apply Permutation_refl.
  eapply perm_trans; [apply perm_skip, IH | apply perm_swap].
Qed.

Theorem walk_order_perm : forall l, Permutation (walk_order l) l.
Proof.
  induction l as [|f l IH]; unfold walk_order in *; cbn [fold_right]; [apply perm_nil|].
  eapply perm_trans; [apply insert_file_perm | apply perm_skip, IH].
Qed.

Definition file_le (a b : ffile) : Prop := seg_compare (ff_path a) (ff_path b) <> Gt.

Lemma insert_file_sorted : forall f l, StronglySorted file_le l -> StronglySorted file_le (insert_file f l).
Proof.
  induction l as [|g r IH]; intros Hs; cbn [insert_file].
  - constructor; [constructor | constructor].
  - inversion Hs as [|g' r' Hr Hall]; subst.
    assert (Hle : seg_compare (ff_path f) (ff_path g) <> Gt ->
                  StronglySorted file_le (f :: g :: r)).
    { intros Hfg. constructor; [exact Hs|]. constructor; [exact Hfg|].
      rewrite Forall_forall in *. intros h Hh. unfold file_le.
      eapply seg_compare_le_trans; [exact Hfg | apply Hall, Hh]. }
    destruct (seg_compare (ff_path f) (ff_path g)) eqn:E.
    + apply Hle. discriminate.
    + apply Hle. discriminate.
    + constructor; [apply IH, Hr|].
      rewrite Forall_forall in *. intros h Hh.
      apply (Permutation_in _ (insert_file_perm f r)) in Hh. destruct Hh as [Hh|Hh].
      * subst h. unfold file_le. rewrite seg_compare_opp, E. discriminate.
      * apply Hall, Hh.
Qed.

Theorem walk_order_sorted : forall l,
  StronglySorted (fun a b => seg_compare (ff_path a) (ff_path b) <> Gt) (walk_order l).
Proof.
  induction l as [|f l IH]; unfold walk_order in *; cbn [fold_right]; [constructor|].
  apply (insert_file_sorted f _ IH).
Qed.

(* ---------- sub_fs ---------- *)
Theorem sub_fs_spec : forall sub l g,
  In g (sub_fs sub l) <->
  exists f, In f l /\ exists rest, rest <> [] /\ strip_prefix sub (ff_path f) = Some rest /\
            g = mkFF rest (ff_content f) (ff_fault f) (ff_match f).
Proof.
  intros sub l g. unfold sub_fs. rewrite in_flat_map. split.
  - intros [f [Hf Hg]]. exists f. split; [exact Hf|].
    destruct (strip_prefix sub (ff_path f)) as [[|s r]|] eqn:E; cbn [In] in Hg; try contradiction.
    destruct Hg as [Hg|[]]. exists (s :: r). split; [discriminate|]. split; [reflexivity|]. symmetry. exact Hg.
  - intros [f [Hf [rest [Hne [Hs Hg]]]]]. exists f. split; [exact Hf|].
    rewrite Hs. destruct rest as [|s r]; [congruence|]. left. symmetry. exact Hg.
Qed.

Lemma strip_prefix_nil : forall l, strip_prefix [] l = Some l.
Proof. intros l. destruct l; reflexivity. Qed.

Theorem sub_fs_nil : forall l, (forall f, In f l -> ff_path f <> []) -> sub_fs [] l = l.
Proof.
  induction l as [|f l IH]; intros H; unfold sub_fs in *; cbn [flat_map]; [reflexivity|].
  rewrite strip_prefix_nil, IH by (intros g Hg; apply H; right; exact Hg).
  assert (Hf : ff_path f <> []) by (apply H; left; reflexivity).
  destruct f as [p c flt m]. cbn [ff_path ff_content ff_fault ff_match] in *.
  destruct p as [|s r]; [congruence|]. reflexivity.
Qed.

(* ---------- events ---------- *)
Definition ev_path (e : fev) : str := match e with EvOpen p | EvOpenFail p | EvClose p => p end.
Definition opens (l : list fev) : list str := flat_map (fun e => match e with EvOpen p => [p] | _ => [] end) l.
Definition closes (l : list fev) : list str := flat_map (fun e => match e with EvClose p => [p] | _ => [] end) l.

Lemma opens_snoc : forall l e, opens (l ++ [e]) = opens l ++ opens [e].
Proof. intros. unfold opens. apply flat_map_app. Qed.
Lemma closes_snoc : forall l e, closes (l ++ [e]) = closes l ++ closes [e].
Proof. intros. unfold closes. apply flat_map_app. Qed.

Ltac inj3 H := injection H as ? ? ?; subst.
Ltac norm_in He := cbn [rev] in He; repeat rewrite in_app_iff in He; cbn [In] in He; rewrite <- ?in_rev in He.

Section WalkProps.
Variable is_space : rune -> bool.
Variable to_lower : rune -> rune.
Variable is_letter : rune -> bool.
Variable is_udigit : rune -> bool.
Variable methods : N -> bool -> list (str * N).
Variable call_fn : N -> list value -> fres.
Variable text_tags : list str.
Variable void_elements : list str.
Variable tag_prefix : str.
Variable attr_prefix : str.
Variable global : scope.
Notation addfile := (add_file is_space to_lower is_letter is_udigit methods call_fn text_tags void_elements tag_prefix attr_prefix global).
Notation adddefs := (add_defs is_space is_letter is_udigit methods call_fn tag_prefix attr_prefix global).
Notation walk := (walk is_space to_lower is_letter is_udigit methods call_fn text_tags void_elements tag_prefix attr_prefix global).
Notation parse_fs := (parse_fs is_space to_lower is_letter is_udigit methods call_fn text_tags void_elements tag_prefix attr_prefix global).

(* ---------- add_defs / add_file only append ---------- *)
Lemma add_defs_extends : forall fuel n tps tps' e,
  adddefs fuel n tps = (tps', e) -> ext tps tps'.
Proof.
  induction fuel as [|f IH]; intros n tps tps' e H.
  - cbn [add_defs] in H. inversion H; subst. apply ext_refl.
  - assert (Hgo : forall l t t' e',
      (fix go (l : list node) (tps : list (str * template)) {struct l} : list (str * template) * option lerr :=
         match l with
         | [] => (tps, None)
         | c :: r => match adddefs f c tps with
                     | (tps', None) => go r tps'
                     | e => e
                     end
         end) l t = (t', e') -> ext t t').
    { induction l as [|c r IHl]; intros t t' e' Hg.
      - inversion Hg; subst; apply ext_refl.
      - destruct (adddefs f c t) as [t1 [e1|]] eqn:Hc.
        + inversion Hg; subst. eapply IH; eauto.
        + eapply ext_trans; [eapply IH; eauto | eapply IHl; eauto]. }
    cbn [add_defs] in H.
    destruct (n_tok n) as [tok|].
    2:{ eapply Hgo; exact H. }
    destruct (t_kind tok).
    all: try (eapply Hgo; exact H).
    destruct (find _ (t_attrs tok)) as [a|].
    2:{ eapply Hgo; exact H. }
    destruct (attr_evaluate _ _ _ _ _ _ _ _) as [[name0| | ] ?].
    all: try (inversion H; subst; apply ext_refl).
    destruct (assoc name0 tps) as [?|].
    + inversion H; subst; apply ext_refl.
    + eapply ext_trans; [apply ext_app | eapply Hgo; exact H].
Qed.

Theorem add_file_extends : forall tps name src tps' e,
  addfile tps name src = (tps', e) ->
  forall n tp, assoc n tps = Some tp -> assoc n tps' = Some tp.
Proof.
  intros tps name src tps' e H. change (ext tps tps').
  unfold add_file in H.
  destruct (assoc name tps) as [?|]; [inversion H; subst; apply ext_refl|].
  destruct (load _ _ _ _ _ _ src) as [root|se]; [|inversion H; subst; apply ext_refl].
  eapply ext_trans; [apply ext_app | eapply add_defs_extends; exact H].
Qed.

Theorem add_file_registers : forall tps name src tps',
  addfile tps name src = (tps', None) -> assoc name tps' <> None.
Proof.
  intros tps name src tps' H. unfold add_file in H.
  destruct (assoc name tps) as [?|]; [discriminate|].
  destruct (load _ _ _ _ _ _ src) as [root|se]; [|discriminate].
  apply add_defs_extends in H.
  destruct (assoc name (tps ++ [(name, mkT (n_children root) (n_children root))])) as [tp|] eqn:E.
  - rewrite (H _ _ E). discriminate.
  - exfalso. exact (assoc_snoc_self _ _ _ _ E).
Qed.

Theorem add_file_duplicate : forall tps name src,
  assoc name tps <> None -> addfile tps name src = (tps, Some LDup).
Proof.
  intros tps name src H. unfold add_file. destruct (assoc name tps); [reflexivity|congruence].
Qed.

(* ---------- one step of walk ---------- *)
Lemma walk_nil : forall tps evs, walk [] tps evs = (tps, None, rev evs).
Proof. reflexivity. Qed.

Lemma walk_cons : forall f r tps evs,
  walk (f :: r) tps evs =
    let p := join_path (ff_path f) in
    if negb (ff_match f) then walk r tps evs
    else
      match ff_fault f with
      | Some FltOpen => (tps, Some WFs, rev (EvOpenFail p :: evs))
      | flt =>
        let evs1 := EvOpen p :: evs in
        match assoc p tps with
        | Some _ => (tps, Some (WLoad LDup), rev (EvClose p :: evs1))
        | None =>
          match flt with
          | Some FltRead => (tps, Some WFs, rev (EvClose p :: evs1))
          | _ =>
            match addfile tps p (ff_content f) with
            | (tps', None) => walk r tps' (EvClose p :: evs1)
            | (tps', Some e) => (tps', Some (WLoad e), rev (EvClose p :: evs1))
            end
          end
        end
      end.
Proof. reflexivity. Qed.

(* The possible outcomes of one step, as a case analysis. *)
Inductive step_spec (f : ffile) (r : list ffile) (tps : T) (evs : list fev) (res : T * option werr * list fev) : Prop :=
| StSkip : ff_match f = false -> res = walk r tps evs -> step_spec f r tps evs res
| StOpenFail : ff_match f = true -> ff_fault f = Some FltOpen ->
    res = (tps, Some WFs, rev (EvOpenFail (join_path (ff_path f)) :: evs)) -> step_spec f r tps evs res
| StDup : ff_match f = true -> ff_fault f <> Some FltOpen -> assoc (join_path (ff_path f)) tps <> None ->
    res = (tps, Some (WLoad LDup), rev (EvClose (join_path (ff_path f)) :: EvOpen (join_path (ff_path f)) :: evs)) ->
    step_spec f r tps evs res
| StReadFail : ff_match f = true -> ff_fault f = Some FltRead -> assoc (join_path (ff_path f)) tps = None ->
    res = (tps, Some WFs, rev (EvClose (join_path (ff_path f)) :: EvOpen (join_path (ff_path f)) :: evs)) ->
    step_spec f r tps evs res
| StLoadFail : forall tps1 e, ff_match f = true -> ff_fault f = None -> assoc (join_path (ff_path f)) tps = None ->
    addfile tps (join_path (ff_path f)) (ff_content f) = (tps1, Some e) ->
    res = (tps1, Some (WLoad e), rev (EvClose (join_path (ff_path f)) :: EvOpen (join_path (ff_path f)) :: evs)) ->
    step_spec f r tps evs res
| StOk : forall tps1, ff_match f = true -> ff_fault f = None -> assoc (join_path (ff_path f)) tps = None ->
    addfile tps (join_path (ff_path f)) (ff_content f) = (tps1, None) ->
    res = walk r tps1 (EvClose (join_path (ff_path f)) :: EvOpen (join_path (ff_path f)) :: evs) ->
    step_spec f r tps evs res.

Lemma walk_step : forall f r tps evs, step_spec f r tps evs (walk (f :: r) tps evs).
Proof.
  intros f r tps evs. rewrite walk_cons. cbv zeta.
  destruct (ff_match f) eqn:Hm; cbn [negb].
  2:{ apply StSkip; [exact Hm|reflexivity]. }
  destruct (ff_fault f) as [[|]|] eqn:Hf.
  - apply StOpenFail; [exact Hm|exact Hf|reflexivity].
  - destruct (assoc (join_path (ff_path f)) tps) eqn:Ha.
    + apply StDup; [exact Hm|congruence|congruence|reflexivity].
    + apply StReadFail; [exact Hm|exact Hf|exact Ha|reflexivity].
  - destruct (assoc (join_path (ff_path f)) tps) eqn:Ha.
    + apply StDup; [exact Hm|congruence|congruence|reflexivity].
    + destruct (addfile tps (join_path (ff_path f)) (ff_content f)) as [tps1 [e|]] eqn:Hadd.
      * eapply StLoadFail; [exact Hm|exact Hf|exact Ha|exact Hadd|reflexivity].
      * eapply StOk; [exact Hm|exact Hf|exact Ha|exact Hadd|reflexivity].
Qed.

(* ---------- walk only extends the namespace ---------- *)
Theorem walk_extends : forall files tps tps' r evs evs', walk files tps evs = (tps', r, evs') ->
  forall name tp, assoc name tps = Some tp -> assoc name tps' = Some tp.
Proof.
  induction files as [|f fs IH]; intros tps tps' r evs evs' H.
  - rewrite walk_nil in H. inversion H; subst. intros name tp Hn; exact Hn.
  - change (ext tps tps').
    destruct (walk_step f fs tps evs) as [Hm Hr|Hm Hf Hr|Hm Hf Ha Hr|Hm Hf Ha Hr|tps1 e Hm Hf Ha Hadd Hr|tps1 Hm Hf Ha Hadd Hr];
      rewrite H in Hr.
    + symmetry in Hr. exact (IH _ _ _ _ _ Hr).
    + inj3 Hr. apply ext_refl.
    + inj3 Hr. apply ext_refl.
    + inj3 Hr. apply ext_refl.
    + inj3 Hr. exact (add_file_extends _ _ _ _ _ Hadd).
    + symmetry in Hr. eapply ext_trans; [exact (add_file_extends _ _ _ _ _ Hadd) | exact (IH _ _ _ _ _ Hr)].
Qed.

(* ---------- every file that was opened is closed ---------- *)
Lemma every_open_closed_gen : forall files tps evs tps' r evs', walk files tps evs = (tps', r, evs') ->
  opens (rev evs) = closes (rev evs) -> opens evs' = closes evs'.
Proof.
  induction files as [|f fs IH]; intros tps evs tps' r evs' H Hacc.
  - rewrite walk_nil in H. inversion H; subst. exact Hacc.
  - assert (Hoc : opens (rev (EvClose (join_path (ff_path f)) :: EvOpen (join_path (ff_path f)) :: evs)) =
                  closes (rev (EvClose (join_path (ff_path f)) :: EvOpen (join_path (ff_path f)) :: evs))).
    { cbn [rev]. rewrite !opens_snoc, !closes_snoc, Hacc. cbn [opens closes flat_map app].
      rewrite !app_nil_r. reflexivity. }
    destruct (walk_step f fs tps evs) as [Hm Hr|Hm Hf Hr|Hm Hf Ha Hr|Hm Hf Ha Hr|tps1 e Hm Hf Ha Hadd Hr|tps1 Hm Hf Ha Hadd Hr];
      rewrite H in Hr.
    + symmetry in Hr. exact (IH _ _ _ _ _ Hr Hacc).
    + inj3 Hr. cbn [rev]. rewrite opens_snoc, closes_snoc, Hacc. reflexivity.
    + inj3 Hr. exact Hoc.
    + inj3 Hr. exact Hoc.
    + inj3 Hr. exact Hoc.
    + symmetry in Hr. exact (IH _ _ _ _ _ Hr Hoc).
Qed.

Theorem every_open_closed : forall files tps tps' r evs', walk files tps [] = (tps', r, evs') ->
  opens evs' = closes evs'.
Proof. intros files tps tps' r evs' H. eapply every_open_closed_gen; [exact H | reflexivity]. Qed.

Corollary parse_fs_every_open_closed : forall sub files tps' r evs',
  parse_fs sub files = (tps', r, evs') -> opens evs' = closes evs'.
Proof. intros sub files tps' r evs' H. unfold FsWalk.parse_fs in H. eapply every_open_closed; exact H. Qed.

(* ---------- files that do not match are never opened ---------- *)
Lemma unmatched_never_opened_gen : forall files tps evs tps' r evs', walk files tps evs = (tps', r, evs') ->
  forall e, In e evs' -> In e evs \/ exists f, In f files /\ ff_match f = true /\ ev_path e = join_path (ff_path f).
Proof.
  induction files as [|f fs IH]; intros tps evs tps' r evs' H e He.
  - rewrite walk_nil in H. inversion H; subst. left. rewrite in_rev. exact He.
  - assert (Hhere : forall e0, ev_path e0 = join_path (ff_path f) -> ff_match f = true ->
              exists g, In g (f :: fs) /\ ff_match g = true /\ ev_path e0 = join_path (ff_path g)).
    { intros e0 He0 Hm. exists f. split; [left; reflexivity|]. split; [exact Hm|exact He0]. }
    assert (Htail : (exists g, In g fs /\ ff_match g = true /\ ev_path e = join_path (ff_path g)) ->
              exists g, In g (f :: fs) /\ ff_match g = true /\ ev_path e = join_path (ff_path g)).
    { intros [g [Hg Hrest]]. exists g. split; [right; exact Hg|exact Hrest]. }
    destruct (walk_step f fs tps evs) as [Hm Hr|Hm Hf Hr|Hm Hf Ha Hr|Hm Hf Ha Hr|tps1 e1 Hm Hf Ha Hadd Hr|tps1 Hm Hf Ha Hadd Hr];
      rewrite H in Hr.
    + symmetry in Hr. destruct (IH _ _ _ _ _ Hr e He) as [Hin|Hex]; [left; exact Hin|right; exact (Htail Hex)].
    + inj3 Hr. norm_in He. destruct He as [He|[He|[]]]; [left; exact He|].
      subst e. right. apply Hhere; [reflexivity|exact Hm].
    + inj3 Hr. norm_in He. destruct He as [[He|[He|[]]]|[He|[]]]; [left; exact He| |];
        subst e; right; (apply Hhere; [reflexivity|exact Hm]).
    + inj3 Hr. norm_in He. destruct He as [[He|[He|[]]]|[He|[]]]; [left; exact He| |];
        subst e; right; (apply Hhere; [reflexivity|exact Hm]).
    + inj3 Hr. norm_in He. destruct He as [[He|[He|[]]]|[He|[]]]; [left; exact He| |];
        subst e; right; (apply Hhere; [reflexivity|exact Hm]).
    + symmetry in Hr. destruct (IH _ _ _ _ _ Hr e He) as [Hin|Hex]; [|right; exact (Htail Hex)].
      destruct Hin as [Hin|[Hin|Hin]]; [| |left; exact Hin];
        subst e; right; (apply Hhere; [reflexivity|exact Hm]).
Qed.

Theorem unmatched_never_opened : forall files tps tps' r evs', walk files tps [] = (tps', r, evs') ->
  forall e, In e evs' -> exists f, In f files /\ ff_match f = true /\ ev_path e = join_path (ff_path f).
Proof.
  intros files tps tps' r evs' H e He.
  destruct (unmatched_never_opened_gen _ _ _ _ _ _ H e He) as [[]|Hex]. exact Hex.
Qed.

(* ---------- on success every matching file is registered ---------- *)
Lemma matching_files_registered_gen : forall files tps evs tps' evs', walk files tps evs = (tps', None, evs') ->
  forall f, In f files -> ff_match f = true -> assoc (join_path (ff_path f)) tps' <> None.
Proof.
  induction files as [|f fs IH]; intros tps evs tps' evs' H g Hg Hgm.
  - destruct Hg.
  - destruct (walk_step f fs tps evs) as [Hm Hr|Hm Hf Hr|Hm Hf Ha Hr|Hm Hf Ha Hr|tps1 e1 Hm Hf Ha Hadd Hr|tps1 Hm Hf Ha Hadd Hr];
      rewrite H in Hr; try discriminate.
    + symmetry in Hr. destruct Hg as [Hg|Hg]; [subst g; congruence|]. exact (IH _ _ _ _ Hr g Hg Hgm).
    + symmetry in Hr. destruct Hg as [Hg|Hg]; [|exact (IH _ _ _ _ Hr g Hg Hgm)].
      subst g. pose proof (add_file_registers _ _ _ _ Hadd) as Hreg.
      destruct (assoc (join_path (ff_path f)) tps1) as [tp|] eqn:E; [|congruence].
      rewrite (walk_extends _ _ _ _ _ _ Hr _ _ E). discriminate.
Qed.

Theorem matching_files_registered : forall files tps tps' evs', walk files tps [] = (tps', None, evs') ->
  forall f, In f files -> ff_match f = true -> assoc (join_path (ff_path f)) tps' <> None.
Proof. intros files tps tps' evs' H. exact (matching_files_registered_gen _ _ _ _ _ H). Qed.

(* ---------- file-system errors are returned ---------- *)
Lemma walk_app_ok : forall pre post tps evs tps1 evs1, walk pre tps evs = (tps1, None, evs1) ->
  walk (pre ++ post) tps evs = walk post tps1 (rev evs1).
Proof.
  induction pre as [|f fs IH]; intros post tps evs tps1 evs1 H.
  - rewrite walk_nil in H. inversion H; subst. rewrite rev_involutive. reflexivity.
  - cbn [app].
    destruct (walk_step f (fs ++ post) tps evs) as [Hm Hr|Hm Hf Hr|Hm Hf Ha Hr|Hm Hf Ha Hr|tps2 e1 Hm Hf Ha Hadd Hr|tps2 Hm Hf Ha Hadd Hr];
    destruct (walk_step f fs tps evs) as [Hm' Hr'|Hm' Hf' Hr'|Hm' Hf' Ha' Hr'|Hm' Hf' Ha' Hr'|tps3 e2 Hm' Hf' Ha' Hadd' Hr'|tps3 Hm' Hf' Ha' Hadd' Hr'];
      rewrite H in Hr'; try discriminate; try congruence.
    + rewrite Hr. symmetry in Hr'. exact (IH _ _ _ _ _ Hr').
    + rewrite Hr. symmetry in Hr'. rewrite Hadd in Hadd'. inversion Hadd'; subst tps3.
      exact (IH _ _ _ _ _ Hr').
Qed.

Theorem fs_error_returned : forall pre f post tps tps1 evs1,
  walk pre tps [] = (tps1, None, evs1) -> ff_match f = true -> ff_fault f <> None ->
  assoc (join_path (ff_path f)) tps1 = None ->
  exists tps' evs', walk (pre ++ f :: post) tps [] = (tps', Some WFs, evs').
Proof.
  intros pre f post tps tps1 evs1 H Hm Hf Ha.
  rewrite (walk_app_ok _ _ _ _ _ _ H).
  destruct (walk_step f post tps1 (rev evs1)) as [Hm' Hr|Hm' Hf' Hr|Hm' Hf' Ha' Hr|Hm' Hf' Ha' Hr|tps2 e1 Hm' Hf' Ha' Hadd Hr|tps2 Hm' Hf' Ha' Hadd Hr];
    try congruence; rewrite Hr; eexists; eexists; reflexivity.
Qed.

(* ---------- duplicates ---------- *)
Theorem duplicate_rejected : forall f r tps evs, ff_match f = true -> ff_fault f <> Some FltOpen ->
  assoc (join_path (ff_path f)) tps <> None ->
  exists evs', walk (f :: r) tps evs = (tps, Some (WLoad LDup), evs').
Proof.
  intros f r tps evs Hm Hf Ha.
  destruct (walk_step f r tps evs) as [Hm' Hr|Hm' Hf' Hr|Hm' Hf' Ha' Hr|Hm' Hf' Ha' Hr|tps2 e1 Hm' Hf' Ha' Hadd Hr|tps2 Hm' Hf' Ha' Hadd Hr];
    try congruence.
  rewrite Hr. eexists; reflexivity.
Qed.

(* extra: when no file matches, the walk opens nothing and registers nothing (so every lookup that
   failed before still fails) *)
Theorem no_match_registers_nothing : forall files tps tps' r evs evs',
  (forall f, In f files -> ff_match f = false) ->
  walk files tps evs = (tps', r, evs') -> tps' = tps /\ r = None /\ evs' = rev evs.
Proof.
  induction files as [|f fs IH]; intros tps tps' r evs evs' Hall H.
  - rewrite walk_nil in H. inversion H; subst. repeat split.
  - rewrite walk_cons in H. cbv zeta in H. rewrite (Hall f (or_introl eq_refl)) in H. cbn [negb] in H.
    apply (IH _ _ _ _ _ (fun g Hg => Hall g (or_intror Hg)) H).
Qed.

End WalkProps.

Print Assumptions every_open_closed.
Print Assumptions parse_fs_every_open_closed.
Print Assumptions unmatched_never_opened.
Print Assumptions matching_files_registered.
Print Assumptions walk_extends.
Print Assumptions fs_error_returned.
Print Assumptions duplicate_rejected.
Print Assumptions add_file_duplicate.
Print Assumptions add_file_extends.
Print Assumptions add_file_registers.
Print Assumptions walk_order_perm.
Print Assumptions walk_order_sorted.
Print Assumptions sub_fs_spec.
Print Assumptions sub_fs_nil.
Print Assumptions no_match_registers_nothing.
