(* C05: the written order of the attributes of a tag is irrelevant for the rendered result, as long
   as attributes with the same sort key keep their relative order.
   (1) sorted_attrs_order_irrelevant: Tag.SortedAttr returns the same list for both orders
       (a list sorted by key is determined by its per-key sub-sequences);
   (2) exec_body_rel / exec_tag_order_irrelevant / exec_body_order_irrelevant: one invocation of
       execute / processTagStart on two nodes that differ only in the order of the attributes of
       their token gives the same result, for ANY recursive call [exec] that does not distinguish
       the two nodes;
   (3) exec_node_order_irrelevant: the renderer itself (exec_node, any fuel) gives the same result on
       two trees related by [reorder_eq] (any number of tags reordered, anywhere in the tree, also in
       the sibling context). *)
From Tpl Require Import Proofs.ExecSpec Proofs.SortProps.
From Coq Require Import Lia ZArith Sorting.Sorted.
Open Scope N_scope.

(* ------------------------------------------------------------------------------------------ *)
(* (1) a list sorted by key is determined by its per-key sub-sequences                          *)
(* ------------------------------------------------------------------------------------------ *)
Section Determined.
Variable A : Type.
Variable key : A -> Z.
Notation fk k := (filter (fun a => Z.eqb (key a) k)).
Notation le_k := (fun a b => (key a <= key b)%Z).

Lemma filter_key_none : forall k l, (forall y, In y l -> key y <> k) -> fk k l = [].
Proof.
  intros k l. induction l as [|x l IH]; intros H; cbn [filter]; [reflexivity|].
  destruct (Z.eqb_spec (key x) k) as [E|E].
  - exfalso. apply (H x); [left; reflexivity|exact E].
  - apply IH. intros y Hy. apply H. right. exact Hy.
Qed.

Lemma sorted_head_filter : forall a r, fk (key a) (a :: r) = a :: fk (key a) r.
Proof. intros a r. cbn [filter]. rewrite Z.eqb_refl. reflexivity. Qed.

(* the head of one list cannot have a smaller key than the head of the other *)
Lemma sorted_head_not_lt : forall a r1 b r2,
  StronglySorted le_k (b :: r2) -> fk (key a) (a :: r1) = fk (key a) (b :: r2) -> (key b <= key a)%Z.
Proof.
  intros a r1 b r2 Hs Hf.
  destruct (Z.le_gt_cases (key b) (key a)) as [Hle|Hgt]; [exact Hle|exfalso].
  rewrite sorted_head_filter in Hf.
  rewrite (filter_key_none (key a) (b :: r2)) in Hf; [discriminate Hf|].
  intros y Hy. inversion Hs as [|b' r' Hsr Hall]; subst b' r'.
  destruct Hy as [Hy|Hy]; [subst y; lia|].
  rewrite Forall_forall in Hall. specialize (Hall y Hy). cbv beta in Hall. lia.
Qed.

Theorem sorted_determined : forall l1 l2,
  StronglySorted le_k l1 -> StronglySorted le_k l2 ->
  (forall k, fk k l1 = fk k l2) -> l1 = l2.
Proof.
  induction l1 as [|a r1 IH]; intros l2 Hs1 Hs2 Hf.
  - destruct l2 as [|b r2]; [reflexivity|exfalso].
    specialize (Hf (key b)). rewrite sorted_head_filter in Hf. cbn [filter] in Hf. discriminate Hf.
  - destruct l2 as [|b r2].
    + exfalso. specialize (Hf (key a)). rewrite sorted_head_filter in Hf. cbn [filter] in Hf. discriminate Hf.
    + assert (Hba : (key b <= key a)%Z) by (apply (sorted_head_not_lt a r1 b r2 Hs2); apply Hf).
      assert (Hab : (key a <= key b)%Z) by (apply (sorted_head_not_lt b r2 a r1 Hs1); symmetry; apply Hf).
      assert (Hk : key b = key a) by lia.
      pose proof (Hf (key a)) as Hh. rewrite sorted_head_filter in Hh.
      assert (Hb : fk (key a) (b :: r2) = b :: fk (key a) r2).
      { cbn [filter]. destruct (Z.eqb_spec (key b) (key a)) as [_|E]; [reflexivity|contradiction]. }
      rewrite Hb in Hh. injection Hh as Hab' Hrest. subst b. f_equal.
      inversion Hs1 as [|a1 l1' Hs1' _]; subst a1 l1'.
      inversion Hs2 as [|a2 l2' Hs2' _]; subst a2 l2'.
      apply IH; [exact Hs1'|exact Hs2'|]. intros k.
      destruct (Z.eq_dec k (key a)) as [E|E]; [subst k; exact Hrest|].
      specialize (Hf k). cbn [filter] in Hf.
      destruct (Z.eqb_spec (key a) k) as [E'|E']; [exfalso; apply E; symmetry; exact E'|exact Hf].
Qed.
End Determined.

Lemma no_plain_perm : forall mgr l l', no_plain_directive_name mgr l -> Permutation l l' -> no_plain_directive_name mgr l'.
Proof.
  intros mgr l l' H Hp a Hin. apply H. apply (Permutation_in a (Permutation_sym Hp)). exact Hin.
Qed.

Theorem sorted_attrs_order_irrelevant : forall mgr l l',
  no_plain_directive_name mgr l -> Permutation l l' ->
  (forall k, filter (fun a => Z.eqb (sort_key mgr a) k) l = filter (fun a => Z.eqb (sort_key mgr a) k) l') ->
  sorted_attrs (m_attr_prefix mgr) l = sorted_attrs (m_attr_prefix mgr) l'.
Proof.
  intros mgr l l' Hnp Hperm Hf.
  pose proof (no_plain_perm mgr l l' Hnp Hperm) as Hnp'.
  apply (sorted_determined attr (sort_key mgr)).
  - apply sorted_by_key. exact Hnp.
  - apply sorted_by_key. exact Hnp'.
  - intros k. rewrite (sorted_stable mgr l k Hnp), (sorted_stable mgr l' k Hnp'). apply Hf.
Qed.

(* ------------------------------------------------------------------------------------------ *)
(* (2) one invocation of execute / processTagStart                                             *)
(* ------------------------------------------------------------------------------------------ *)
Lemma existsb_perm : forall (A : Type) (f : A -> bool) l l', Permutation l l' -> existsb f l = existsb f l'.
Proof.
  intros A f l l' Hp. induction Hp as [|x l l' Hp IH|x y l|l l' l'' Hp1 IH1 Hp2 IH2]; cbn [existsb].
  - reflexivity.
  - rewrite IH. reflexivity.
  - destruct (f x), (f y); reflexivity.
  - rewrite IH1. exact IH2.
Qed.

Lemma existsb_ext' : forall (A : Type) (f g : A -> bool) l, (forall x, f x = g x) -> existsb f l = existsb g l.
Proof.
  intros A f g l H. induction l as [|x l IH]; cbn [existsb]; [reflexivity|]. rewrite H, IH. reflexivity.
Qed.

Lemma seq2_ext : forall (a : R) (f g : tbl -> rst -> R), (forall t s, f t s = g t s) -> seq2 a f = seq2 a g.
Proof.
  intros a f g H. unfold seq2. destruct a as [[[o r] t] s]. destruct r; [|reflexivity|reflexivity].
  rewrite H. reflexivity.
Qed.

(* the separator text of processRange: all that is used of the next sibling *)
Definition sep_text (sep : option node) : str :=
  match sep with
  | Some x => match n_tok x with Some tk => t_value tk | None => [] end
  | None => []
  end.

Section Irr.
Variable is_space : rune -> bool.
Variable to_lower : rune -> rune.
Variable is_letter : rune -> bool.
Variable is_udigit : rune -> bool.
Variable methods : N -> bool -> list (str * N).
Variable call_fn : N -> list value -> fres.
Variable mgr : manager.

Notation key := (sort_key mgr).
Notation blank := (is_blank_text is_space).
Notation abf := (abf_children is_space).
Notation ilstate := (init_lstate to_lower mgr).

Definition sep_of (ctx : list node) (id : N) : option node :=
  match next_sibling ctx id with
  | Some x => if blank x then Some x else None
  | None => None
  end.

(* ---------- the pieces that look at the whole attribute list only use membership ---------- *)
Lemma has_attr_named_perm : forall l l' nm, Permutation l l' -> has_attr_named l nm = has_attr_named l' nm.
Proof. intros l l' nm Hp. unfold has_attr_named. apply existsb_perm. exact Hp. Qed.

Lemma has_dir_perm : forall l l' d, Permutation l l' -> has_dir mgr l d = has_dir mgr l' d.
Proof. intros l l' d Hp. unfold has_dir. apply has_attr_named_perm. exact Hp. Qed.

Lemma init_lstate_perm : forall mask tok tok' sc,
  t_name tok = t_name tok' -> Permutation (t_attrs tok) (t_attrs tok') ->
  ilstate mask tok sc = ilstate mask tok' sc.
Proof.
  intros mask tok tok' sc Hname Hp. unfold init_lstate. cbv zeta.
  rewrite <- Hname.
  rewrite (has_dir_perm _ _ d_define Hp), (has_dir_perm _ _ d_replace Hp),
          (has_dir_perm _ _ d_range Hp), (has_dir_perm _ _ d_insert Hp).
  rewrite (existsb_ext' _ (has_dir mgr (t_attrs tok)) (has_dir mgr (t_attrs tok')) cond_names
             (fun d => has_dir_perm _ _ d Hp)).
  reflexivity.
Qed.

(* ---------- one invocation, for two nodes that the recursive call does not distinguish ---------- *)
Section Step.
Variable exec : N -> list node -> node -> scope -> bool -> tbl -> rst -> R.
Variables ctx ctx' : list node.
Variables n n' : node.
Hypothesis Hid : n_id n = n_id n'.
Hypothesis Hend : n_end n = n_end n'.
(* the re-execution of the element itself by its if/else/range directive *)
Hypothesis Hself : forall m s tp tb stt, exec m ctx n s tp tb stt = exec m ctx' n' s tp tb stt.
(* the children *)
Hypothesis Hch : forall s tp tb stt,
  exec_list exec (n_children n) (n_children n) s tp tb stt = exec_list exec (n_children n') (n_children n') s tp tb stt.
Hypothesis Habf : forall s tp tb stt,
  exec_list exec (n_children n) (abf (n_children n)) s tp tb stt
  = exec_list exec (n_children n') (abf (n_children n')) s tp tb stt.
(* what is used of the sibling context: the id of the previous tag, the text of a blank next sibling *)
Hypothesis Hprev : option_map n_id (prev_tag ctx (n_id n) None) = option_map n_id (prev_tag ctx' (n_id n') None).
Hypothesis Hnext : sep_text (sep_of ctx (n_id n)) = sep_text (sep_of ctx' (n_id n')).

Notation econd := (eval_cond is_letter is_udigit methods call_fn mgr exec).
Notation cowner := (cond_owner is_letter is_udigit methods call_fn mgr exec).
Notation riter := (range_iter exec).
Notation rowner := (range_owner is_space is_letter is_udigit methods call_fn exec).
Notation astep := (attr_step is_space is_letter is_udigit methods call_fn mgr exec).
Notation rattrs := (run_attrs is_space is_letter is_udigit methods call_fn mgr exec).
Notation rchild := (run_child is_space is_letter is_udigit methods call_fn mgr exec).
Notation etag := (exec_tag is_space to_lower is_letter is_udigit methods call_fn mgr exec).
Notation ebody := (exec_body is_space to_lower is_letter is_udigit methods call_fn mgr exec).

Lemma eval_cond_rel : forall mask a ls t st, econd mask ctx n a ls t st = econd mask ctx' n' a ls t st.
Proof.
  intros mask a ls t st. unfold eval_cond.
  destruct (attr_evaluate is_letter is_udigit methods call_fn mgr a (l_sc ls) (r_log st)) as [[s|c|] lg];
    [|reflexivity|reflexivity].
  cbv zeta. rewrite Hself, Hid. reflexivity.
Qed.

Lemma prev_tbl_rel : forall t : tbl,
  match prev_tag ctx (n_id n) None with Some p => tbl_get t (n_id p) | None => None end
  = match prev_tag ctx' (n_id n') None with Some p => tbl_get t (n_id p) | None => None end.
Proof.
  intros t. destruct (prev_tag ctx (n_id n) None) as [p|]; destruct (prev_tag ctx' (n_id n') None) as [p'|];
    cbn [option_map] in Hprev; try discriminate Hprev; [|reflexivity].
  injection Hprev as Hp. rewrite Hp. reflexivity.
Qed.

Lemma cond_owner_rel : forall mask a cmd ls t st, cowner mask ctx n a cmd ls t st = cowner mask ctx' n' a cmd ls t st.
Proof.
  intros mask a cmd ls t st. unfold cond_owner. rewrite eval_cond_rel, prev_tbl_rel, Hid. reflexivity.
Qed.

Lemma sep_out_text : forall (sep : option node) (first : bool),
  match sep, first with
  | Some x, false => (match n_tok x with Some tk => t_value tk | None => [] end)
  | _, _ => []
  end = if first then [] else sep_text sep.
Proof. intros [x|] [|]; reflexivity. Qed.

Lemma range_iter_rel : forall mask idx item scope0 sep sep', sep_text sep = sep_text sep' ->
  forall items first acc t st,
  riter mask ctx n idx item scope0 sep items first acc t st
  = riter mask ctx' n' idx item scope0 sep' items first acc t st.
Proof.
  intros mask idx item scope0 sep sep' Hsep. induction items as [|[k v] more IH]; intros first acc t st;
    cbn [range_iter]; [reflexivity|]. cbv zeta.
  rewrite Hself, !sep_out_text, Hsep.
  destruct (exec (N.lor mask 2) ctx' n' (range_scope idx item k v scope0) false t st) as [[[o r] t2] st2].
  destruct r; [|reflexivity|reflexivity]. apply IH.
Qed.

Lemma range_owner_rel : forall mask av ls t st, rowner mask ctx n av ls t st = rowner mask ctx' n' av ls t st.
Proof.
  intros mask av ls t st. unfold range_owner.
  destruct (extract_range is_space (strip_quotes av)) as [[idx item] obj].
  destruct (parse_code is_letter is_udigit obj) as [c|]; [|reflexivity]. cbv zeta.
  destruct (eval_text is_letter is_udigit methods call_fn (with_default (l_sc ls)) obj (r_log st)) as [[v|c'|] lg];
    [|reflexivity|reflexivity].
  destruct (range_items v) as [items|]; [|reflexivity].
  pose proof Hnext as Hn. unfold sep_of in Hn.
  rewrite (range_iter_rel mask idx item (with_default (l_sc ls)) _ _ Hn items true [] t (set_log st lg)).
  reflexivity.
Qed.

Lemma attr_step_rel : forall mask attrs attrs' a ls t st,
  (forall nm, has_attr_named attrs nm = has_attr_named attrs' nm) ->
  astep mask ctx n attrs a ls t st = astep mask ctx' n' attrs' a ls t st.
Proof.
  intros mask attrs attrs' a ls t st Hmem. unfold attr_step. cbv zeta. rewrite Hmem.
  destruct (a_value a) as [av|]; rewrite ?cond_owner_rel, ?range_owner_rel; reflexivity.
Qed.

Lemma run_attrs_rel : forall mask attrs attrs', (forall nm, has_attr_named attrs nm = has_attr_named attrs' nm) ->
  forall l ls t st, rattrs mask ctx n attrs l ls t st = rattrs mask ctx' n' attrs' l ls t st.
Proof.
  intros mask attrs attrs' Hmem. induction l as [|a rest IH]; intros ls t st; cbn [run_attrs]; [reflexivity|].
  rewrite (attr_step_rel mask attrs attrs' a ls t st Hmem).
  destruct (astep mask ctx' n' attrs' a ls t st) as [[[ls'|r] t'] st']; [|reflexivity].
  destruct (is_owner mgr mask a); [reflexivity|apply IH].
Qed.

Lemma run_child_rel : forall ls top t st, rchild n ls top t st = rchild n' ls top t st.
Proof.
  intros ls top t st. unfold run_child. destruct (l_child ls) as [| |a esc|csc]; rewrite ?Hch, ?Habf; reflexivity.
Qed.

(* the statement at the level of exec_tag: [tok]/[tok'] need not be the tokens of [n]/[n'] *)
Lemma exec_tag_rel : forall mask tok tok' sc top t st,
  t_name tok = t_name tok' -> Permutation (t_attrs tok) (t_attrs tok') ->
  sorted_attrs (m_attr_prefix mgr) (t_attrs tok) = sorted_attrs (m_attr_prefix mgr) (t_attrs tok') ->
  etag mask ctx n tok sc top t st = etag mask ctx' n' tok' sc top t st.
Proof.
  intros mask tok tok' sc top t st Hname Hp Hsorted. unfold exec_tag. unfold prefix. rewrite Hsorted.
  rewrite (init_lstate_perm mask tok tok' sc Hname Hp).
  rewrite (run_attrs_rel mask (t_attrs tok) (t_attrs tok') (fun nm => has_attr_named_perm _ _ nm Hp)).
  destruct (rattrs mask ctx' n' (t_attrs tok') (sorted_attrs (m_attr_prefix mgr) (t_attrs tok')) (ilstate mask tok' sc) t st)
    as [[[ls|r] t'] st']; [|reflexivity].
  rewrite Hend. apply seq2_ext. intros t2 st2. rewrite run_child_rel. reflexivity.
Qed.
End Step.

Notation etag := (exec_tag is_space to_lower is_letter is_udigit methods call_fn mgr).
Notation ebody := (exec_body is_space to_lower is_letter is_udigit methods call_fn mgr).
Notation enode := (exec_node is_space to_lower is_letter is_udigit methods call_fn mgr).

(* ---------- (2) the statements asked for: same context, same children ---------- *)
(* [tok]/[tok'] differ only in the written order of the attributes; [n]/[n'] differ only in that
   token; the recursive call does not distinguish [n] and [n'] (its re-execution by if/else/range). *)
Theorem exec_tag_order_irrelevant : forall exec mask ctx n n' tok tok' sc top t st,
  n_id n = n_id n' -> n_children n = n_children n' -> n_end n = n_end n' ->
  t_name tok = t_name tok' ->
  no_plain_directive_name mgr (t_attrs tok) ->
  Permutation (t_attrs tok) (t_attrs tok') ->
  (forall k, filter (fun a => Z.eqb (key a) k) (t_attrs tok) = filter (fun a => Z.eqb (key a) k) (t_attrs tok')) ->
  (forall m c s tp tb stt, exec m c n s tp tb stt = exec m c n' s tp tb stt) ->
  etag exec mask ctx n tok sc top t st = etag exec mask ctx n' tok' sc top t st.
Proof.
  intros exec mask ctx n n' tok tok' sc top t st Hid Hch Hend Hname Hnp Hp Hf Hexec.
  apply exec_tag_rel; try assumption.
  - intros m s tp tb stt. apply Hexec.
  - intros s tp tb stt. rewrite Hch. reflexivity.
  - intros s tp tb stt. rewrite Hch. reflexivity.
  - rewrite Hid. reflexivity.
  - rewrite Hid. reflexivity.
  - apply sorted_attrs_order_irrelevant; assumption.
Qed.

Theorem exec_body_order_irrelevant : forall exec mask ctx n n' tok tok' sc top t st,
  n_tok n = Some tok -> n_tok n' = Some tok' ->
  n_id n = n_id n' -> n_children n = n_children n' -> n_end n = n_end n' ->
  t_kind tok = t_kind tok' -> t_value tok = t_value tok' -> t_name tok = t_name tok' ->
  t_start tok = t_start tok' -> t_end tok = t_end tok' ->
  no_plain_directive_name mgr (t_attrs tok) ->
  Permutation (t_attrs tok) (t_attrs tok') ->
  (forall k, filter (fun a => Z.eqb (key a) k) (t_attrs tok) = filter (fun a => Z.eqb (key a) k) (t_attrs tok')) ->
  (forall m c s tp tb stt, exec m c n s tp tb stt = exec m c n' s tp tb stt) ->
  ebody exec mask ctx n sc top t st = ebody exec mask ctx n' sc top t st.
Proof.
  intros exec mask ctx n n' tok tok' sc top t st Hn Hn' Hid Hch Hend Hk Hv Hname _ _ Hnp Hp Hf Hexec.
  unfold exec_body. rewrite Hn, Hn'. rewrite <- Hk, <- Hv.
  destruct (t_kind tok); try reflexivity.
  apply exec_tag_order_irrelevant; assumption.
Qed.

(* ------------------------------------------------------------------------------------------ *)
(* (3) the renderer: trees related by reordering the attributes of any number of tags          *)
(* ------------------------------------------------------------------------------------------ *)
(* equal, or a reordering that keeps the relative order of attributes with the same key *)
Definition attrs_reorder (l l' : list attr) : Prop :=
  l = l' \/
  (no_plain_directive_name mgr l /\ Permutation l l' /\
   forall k, filter (fun a => Z.eqb (key a) k) l = filter (fun a => Z.eqb (key a) k) l').
Definition tok_reorder (tk tk' : token) : Prop :=
  t_kind tk = t_kind tk' /\ t_value tk = t_value tk' /\ t_start tk = t_start tk' /\ t_end tk = t_end tk' /\
  t_name tk = t_name tk' /\ attrs_reorder (t_attrs tk) (t_attrs tk').
Definition otok_reorder (o o' : option token) : Prop :=
  match o, o' with
  | None, None => True
  | Some tk, Some tk' => tok_reorder tk tk'
  | _, _ => False
  end.
Inductive reorder_eq : node -> node -> Prop :=
| RE_node : forall id tok tok' ch ch' e,
    otok_reorder tok tok' -> Forall2 reorder_eq ch ch' -> reorder_eq (Node id tok ch e) (Node id tok' ch' e).

Lemma attrs_reorder_refl : forall l, attrs_reorder l l.
Proof. intros l. left. reflexivity. Qed.
Lemma tok_reorder_refl : forall tk, tok_reorder tk tk.
Proof. intros tk. unfold tok_reorder. repeat split. apply attrs_reorder_refl. Qed.
Lemma otok_reorder_refl : forall o, otok_reorder o o.
Proof. intros [tk|]; cbn [otok_reorder]; [apply tok_reorder_refl|exact I]. Qed.
Fixpoint reorder_eq_refl (x : node) : reorder_eq x x :=
  match x with
  | Node id tok ch e =>
    RE_node id tok tok ch ch e (otok_reorder_refl tok)
      ((fix go (l : list node) : Forall2 reorder_eq l l :=
          match l with
          | [] => Forall2_nil reorder_eq
          | c :: r => Forall2_cons c c (reorder_eq_refl c) (go r)
          end) ch)
  end.
Lemma reorder_eq_list_refl : forall l, Forall2 reorder_eq l l.
Proof. induction l as [|c r IH]; constructor; [apply reorder_eq_refl|exact IH]. Qed.

Lemma attrs_reorder_perm : forall l l', attrs_reorder l l' -> Permutation l l'.
Proof. intros l l' [E|(_ & Hp & _)]; [subst l'; apply Permutation_refl|exact Hp]. Qed.
Lemma attrs_reorder_sorted : forall l l', attrs_reorder l l' ->
  sorted_attrs (m_attr_prefix mgr) l = sorted_attrs (m_attr_prefix mgr) l'.
Proof.
  intros l l' [E|(Hnp & Hp & Hf)]; [subst l'; reflexivity|].
  apply sorted_attrs_order_irrelevant; assumption.
Qed.

(* ---------- what the renderer reads of a node other than through the recursive call ---------- *)
Lemma n_id_rel : forall x x', reorder_eq x x' -> n_id x = n_id x'.
Proof. intros x x' H. destruct H. reflexivity. Qed.
Lemma n_end_rel : forall x x', reorder_eq x x' -> n_end x = n_end x'.
Proof. intros x x' H. destruct H. reflexivity. Qed.
Lemma n_children_rel : forall x x', reorder_eq x x' -> Forall2 reorder_eq (n_children x) (n_children x').
Proof. intros x x' H. destruct H as [id tok tok' ch ch' e _ Hch]. exact Hch. Qed.
Lemma n_tok_rel : forall x x', reorder_eq x x' -> otok_reorder (n_tok x) (n_tok x').
Proof. intros x x' H. destruct H as [id tok tok' ch ch' e Htok _]. exact Htok. Qed.

Lemma is_tag_node_rel : forall x x', reorder_eq x x' -> is_tag_node x = is_tag_node x'.
Proof.
  intros x x' H. apply n_tok_rel in H. unfold is_tag_node.
  destruct (n_tok x) as [tk|], (n_tok x') as [tk'|]; cbn [otok_reorder] in H; try contradiction; [|reflexivity].
  destruct H as (Hk & _). rewrite Hk. reflexivity.
Qed.
Lemma is_blank_text_rel : forall x x', reorder_eq x x' -> blank x = blank x'.
Proof.
  intros x x' H. apply n_tok_rel in H. unfold is_blank_text.
  destruct (n_tok x) as [tk|], (n_tok x') as [tk'|]; cbn [otok_reorder] in H; try contradiction; [|reflexivity].
  destruct H as (Hk & Hv & _). rewrite Hk, Hv. reflexivity.
Qed.
Lemma tok_text_rel : forall x x', reorder_eq x x' -> sep_text (Some x) = sep_text (Some x').
Proof.
  intros x x' H. apply n_tok_rel in H. unfold sep_text.
  destruct (n_tok x) as [tk|], (n_tok x') as [tk'|]; cbn [otok_reorder] in H; try contradiction; [|reflexivity].
  destruct H as (_ & Hv & _). exact Hv.
Qed.

Lemma prev_tag_rel : forall c c', Forall2 reorder_eq c c' -> forall id last last',
  option_map n_id last = option_map n_id last' ->
  option_map n_id (prev_tag c id last) = option_map n_id (prev_tag c' id last').
Proof.
  intros c c' H. induction H as [|x x' r r' Hx Hr IH]; intros id last last' Hlast; cbn [prev_tag]; [reflexivity|].
  rewrite (n_id_rel x x' Hx). destruct (N.eqb (n_id x') id); [exact Hlast|].
  apply IH. rewrite (is_tag_node_rel x x' Hx). destruct (is_tag_node x'); [|exact Hlast].
  cbn [option_map]. rewrite (n_id_rel x x' Hx). reflexivity.
Qed.

Lemma next_sibling_rel : forall c c', Forall2 reorder_eq c c' -> forall id,
  match next_sibling c id, next_sibling c' id with
  | Some x, Some x' => reorder_eq x x'
  | None, None => True
  | _, _ => False
  end.
Proof.
  intros c c' H. induction H as [|x x' r r' Hx Hr IH]; intros id; cbn [next_sibling]; [exact I|].
  rewrite (n_id_rel x x' Hx). destruct (N.eqb (n_id x') id); [|apply IH].
  destruct Hr as [|y y' q q' Hy _]; [exact I|exact Hy].
Qed.

Lemma sep_of_rel : forall c c', Forall2 reorder_eq c c' -> forall id,
  sep_text (sep_of c id) = sep_text (sep_of c' id).
Proof.
  intros c c' H id. unfold sep_of. pose proof (next_sibling_rel c c' H id) as Hn.
  destruct (next_sibling c id) as [x|], (next_sibling c' id) as [x'|]; try contradiction; [|reflexivity].
  rewrite (is_blank_text_rel x x' Hn). destruct (blank x'); [apply tok_text_rel; exact Hn|reflexivity].
Qed.

Lemma Forall2_rev' : forall (A B : Type) (P : A -> B -> Prop) l l', Forall2 P l l' -> Forall2 P (rev l) (rev l').
Proof.
  intros A B P l l' H. induction H as [|x x' r r' Hx Hr IH]; cbn [rev]; [constructor|].
  apply Forall2_app; [exact IH|constructor; [exact Hx|constructor]].
Qed.

Lemma find_tag_rel : forall c c', Forall2 reorder_eq c c' ->
  match find is_tag_node c, find is_tag_node c' with
  | Some x, Some x' => reorder_eq x x'
  | None, None => True
  | _, _ => False
  end.
Proof.
  intros c c' H. induction H as [|x x' r r' Hx Hr IH]; cbn [find]; [exact I|].
  rewrite (is_tag_node_rel x x' Hx). destruct (is_tag_node x'); [exact Hx|exact IH].
Qed.

Lemma abf_children_rel : forall c c', Forall2 reorder_eq c c' -> Forall2 reorder_eq (abf c) (abf c').
Proof.
  intros c c' H. unfold abf_children. cbv zeta.
  pose proof (find_tag_rel c c' H) as Hfind. pose proof (Forall2_rev' _ _ _ c c' H) as Hrev.
  remember (find is_tag_node c) as ft eqn:Eft. remember (find is_tag_node c') as ft' eqn:Eft'. clear Eft Eft'.
  remember (rev c) as rc eqn:Erc. remember (rev c') as rc' eqn:Erc'. clear Erc Erc'.
  apply Forall2_app; [|apply Forall2_app].
  - destruct H as [|x x' r r' Hx _]; [constructor|].
    rewrite (is_tag_node_rel x x' Hx), (is_blank_text_rel x x' Hx).
    destruct ft as [y|], ft' as [y'|]; try contradiction;
      (destruct (negb (is_tag_node x') && _ && blank x'); [constructor; [exact Hx|constructor]|constructor]).
  - destruct ft as [y|], ft' as [y'|]; try contradiction; [constructor; [exact Hfind|constructor]|constructor].
  - destruct Hrev as [|z z' q q' Hz _]; [constructor|].
    rewrite (is_blank_text_rel z z' Hz). destruct (blank z'); [constructor; [exact Hz|constructor]|constructor].
Qed.

(* ---------- lifting through an arbitrary recursive call that respects the relation ---------- *)
Section Tree.
Variable exec : N -> list node -> node -> scope -> bool -> tbl -> rst -> R.
Hypothesis Hexec : forall m c c' x x' s tp tb stt, Forall2 reorder_eq c c' -> reorder_eq x x' ->
  exec m c x s tp tb stt = exec m c' x' s tp tb stt.

Lemma exec_list_rel : forall c c', Forall2 reorder_eq c c' -> forall l l', Forall2 reorder_eq l l' ->
  forall s tp tb stt, exec_list exec c l s tp tb stt = exec_list exec c' l' s tp tb stt.
Proof.
  intros c c' Hc l l' Hl. induction Hl as [|x x' r r' Hx Hr IH]; intros s tp tb stt; cbn [exec_list]; [reflexivity|].
  rewrite (Hexec 0 c c' x x' s tp tb stt Hc Hx). apply seq2_ext. intros t2 st2. apply IH.
Qed.

Theorem exec_body_reorder : forall mask ctx ctx' n n' sc top t st,
  Forall2 reorder_eq ctx ctx' -> reorder_eq n n' ->
  ebody exec mask ctx n sc top t st = ebody exec mask ctx' n' sc top t st.
Proof.
  intros mask ctx ctx' n n' sc top t st Hctx Hn.
  pose proof (n_tok_rel n n' Hn) as Htok. pose proof (n_children_rel n n' Hn) as Hch.
  unfold exec_body.
  destruct (n_tok n) as [tk|], (n_tok n') as [tk'|]; cbn [otok_reorder] in Htok; try contradiction.
  - destruct Htok as (Hk & Hv & _ & _ & Hname & Hattrs). rewrite <- Hk, <- Hv.
    destruct (t_kind tk); try reflexivity.
    apply exec_tag_rel.
    + apply n_id_rel. exact Hn.
    + apply n_end_rel. exact Hn.
    + intros m s tp tb stt. apply Hexec; assumption.
    + intros s tp tb stt. apply exec_list_rel; assumption.
    + intros s tp tb stt. apply exec_list_rel; [assumption|apply abf_children_rel; assumption].
    + rewrite <- (n_id_rel n n' Hn). apply prev_tag_rel; [exact Hctx|reflexivity].
    + rewrite <- (n_id_rel n n' Hn). apply sep_of_rel. exact Hctx.
    + exact Hname.
    + apply attrs_reorder_perm. exact Hattrs.
    + apply attrs_reorder_sorted. exact Hattrs.
  - apply seq2_ext. intros t2 st2. apply exec_list_rel; assumption.
Qed.
End Tree.

Theorem exec_node_order_irrelevant : forall fuel mask ctx ctx' n n' sc top t st,
  Forall2 reorder_eq ctx ctx' -> reorder_eq n n' ->
  enode fuel mask ctx n sc top t st = enode fuel mask ctx' n' sc top t st.
Proof.
  induction fuel as [|f IH]; intros mask ctx ctx' n n' sc top t st Hctx Hn; cbn [exec_node]; [reflexivity|].
  apply exec_body_reorder; [|exact Hctx|exact Hn].
  intros m c c' x x' s tp tb stt Hc Hx. apply IH; assumption.
Qed.

(* the whole template: the same children up to reordering, rendered with htmlTemplate.Execute *)
Theorem execute_order_irrelevant : forall fuel tp tp' data t st,
  Forall2 reorder_eq (tp_children tp) (tp_children tp') -> Forall2 reorder_eq (tp_ctx tp) (tp_ctx tp') ->
  execute is_space to_lower is_letter is_udigit methods call_fn mgr fuel tp data t st
  = execute is_space to_lower is_letter is_udigit methods call_fn mgr fuel tp' data t st.
Proof.
  intros fuel tp tp' data t st Hch Hctx. unfold execute.
  apply exec_node_order_irrelevant; [exact Hctx|]. constructor; [exact I|exact Hch].
Qed.

(* the instance of the task: one tag reordered, the rest of the tree (and the context) unchanged *)
Corollary exec_node_one_tag_reordered : forall fuel mask ctx id tok tok' ch e sc top t st,
  t_kind tok = t_kind tok' -> t_value tok = t_value tok' -> t_start tok = t_start tok' -> t_end tok = t_end tok' ->
  t_name tok = t_name tok' ->
  no_plain_directive_name mgr (t_attrs tok) ->
  Permutation (t_attrs tok) (t_attrs tok') ->
  (forall k, filter (fun a => Z.eqb (key a) k) (t_attrs tok) = filter (fun a => Z.eqb (key a) k) (t_attrs tok')) ->
  enode fuel mask ctx (Node id (Some tok) ch e) sc top t st
  = enode fuel mask ctx (Node id (Some tok') ch e) sc top t st.
Proof.
  intros fuel mask ctx id tok tok' ch e sc top t st Hk Hv Hs He Hname Hnp Hp Hf.
  apply exec_node_order_irrelevant; [apply reorder_eq_list_refl|].
  constructor; [|apply reorder_eq_list_refl].
  cbn [otok_reorder]. unfold tok_reorder. repeat (split; [assumption|]).
  right. repeat split; assumption.
Qed.
End Irr.

Print Assumptions sorted_determined.
Print Assumptions sorted_attrs_order_irrelevant.
Print Assumptions exec_tag_rel.
Print Assumptions exec_tag_order_irrelevant.
Print Assumptions exec_body_order_irrelevant.
Print Assumptions exec_body_reorder.
Print Assumptions exec_node_order_irrelevant.
Print Assumptions execute_order_irrelevant.
Print Assumptions exec_node_one_tag_reordered.
