(* The expression parser accounts for every token it consumes: whenever parse_expr succeeds on ts
   with result (e, rest), the input is (up to positions and the spelling of punctuation, which the
   token kind determines) exactly the tokens of e followed by rest. *)
From Tpl Require Import Proofs.ParseSpec Proofs.ParseRoundtrip.
From Coq Require Import Arith Lia.
Local Open Scope nat_scope.

Definition shape (t : etok) : tkind * str :=
  match e_kind t with TP p => (TP p, []) | k => (k, e_text t) end.

Definition sh (ts : list etok) : list (tkind * str) := map shape ts.

Lemma sh_app a b : sh (a ++ b) = sh a ++ sh b.
Proof. apply map_app. Qed.
Lemma sh_cons t a : sh (t :: a) = shape t :: sh a.
Proof. reflexivity. Qed.
Lemma sh_nil : sh [] = [].
Proof. reflexivity. Qed.

Lemma shape_tp t q : e_kind t = TP q -> shape t = (TP q, []).
Proof. intros H. unfold shape. rewrite H. reflexivity. Qed.
Lemma shape_ptok q l c : shape (ptok q l c) = (TP q, []).
Proof. reflexivity. Qed.

Lemma is_p_kind p t : is_p p t = true -> e_kind t = TP p.
Proof.
  unfold is_p. destruct (e_kind t) as [| | |q| | | | | |]; try discriminate.
  destruct p, q; intros H; solve [discriminate H | reflexivity].
Qed.
Lemma is_p_shape p t l c : is_p p t = true -> shape t = shape (ptok p l c).
Proof. intros H. rewrite shape_ptok. apply shape_tp, is_p_kind, H. Qed.

Lemma binop_of_inv q b : binop_of q = Some b -> punct_of_binop b = q.
Proof. destruct q; intros H; inversion H; reflexivity. Qed.
Lemma unop_of_inv q u : unop_of q = Some u -> punct_of_unop u = q.
Proof. destruct q; intros H; inversion H; reflexivity. Qed.
Lemma lit_of_inv kd lk : lit_of kd = Some lk -> kind_of_lit lk = kd /\ (forall q, kd <> TP q).
Proof. destruct kd; intros H; inversion H; split; solve [reflexivity | intros q; discriminate]. Qed.

(* the yield property of an expression parser *)
Definition Y (pe : nat -> list etok -> pres) : Prop :=
  forall p ts e rest, pe p ts = Some (e, rest) -> sh ts = sh (print e ++ rest).

Ltac shn := repeat first [rewrite sh_app | rewrite sh_cons | rewrite sh_nil | rewrite <- app_assoc | progress cbn [app popt]].
Ltac shn_in H := repeat first [rewrite sh_app in H | rewrite sh_cons in H | rewrite sh_nil in H
                              | rewrite <- app_assoc in H | progress cbn [app popt] in H].

Ltac scrut H := match type of H with (match ?X with _ => _ end) = _ => X end.

(* ------------------------------------------------------------------------------------------ *)
Section Companions.
Variable pe : nat -> list etok -> pres.
Hypothesis HY : Y pe.

Lemma loop_yield p k : forall lhs ts e rest,
  loop pe p k lhs ts = Some (e, rest) -> sh (print lhs ++ ts) = sh (print e ++ rest).
Proof.
  induction k as [|k IH]; intros lhs ts e rest H; [discriminate H|].
  cbn [loop] in H. destruct ts as [|t ts']; [inversion H; subst; reflexivity|].
  destruct (e_kind t) as [| | |q| | | | | |] eqn:Ek; try (inversion H; subst; reflexivity).
  destruct (binop_of q) as [b|] eqn:Eb.
  - destruct (Nat.leb p (blevel b)); [|inversion H; subst; reflexivity].
    destruct (pe (S (blevel b)) ts') as [[rhs r]|] eqn:Er; [|discriminate H].
    apply IH in H. rewrite <- H. apply HY in Er. rewrite print_bin_app.
    shn_in Er. shn. rewrite Er.
    rewrite shape_ptok, (shape_tp t q Ek), (binop_of_inv q b Eb). reflexivity.
  - destruct q; try (inversion H; subst; reflexivity).
    destruct (Nat.leb p cond_level); [|inversion H; subst; reflexivity].
    destruct (pe cond_mid_prec ts') as [[m [|c r1]]|] eqn:Em; try discriminate H.
    destruct (is_p COLON c) eqn:Ec; [|discriminate H].
    destruct (pe cond_right_prec r1) as [[rhs r2]|] eqn:Er; [|discriminate H].
    apply IH in H. rewrite <- H. apply HY in Em. apply HY in Er. rewrite print_cond_app.
    shn_in Em. shn_in Er. shn. rewrite Em, Er.
    rewrite !shape_ptok, (shape_tp t QUESTION Ek), (is_p_shape COLON c 0%N 0%N Ec), shape_ptok. reflexivity.
Qed.

Lemma parse_args_yield k : forall ts acc args rest,
  parse_args pe k ts acc = Some (args, rest) ->
  exists more, args = rev acc ++ more /\ more <> [] /\ sh ts = sh (print_args more ++ rest).
Proof.
  induction k as [|k IH]; intros ts acc args rest H; [discriminate H|].
  cbn [parse_args] in H. destruct (pe 0 ts) as [[e r]|] eqn:Ee; [|discriminate H]. apply HY in Ee.
  assert (Hstop : Some (rev (e :: acc), r) = Some (args, rest) ->
          exists more, args = rev acc ++ more /\ more <> [] /\ sh ts = sh (print_args more ++ rest)).
  { intros E. inversion E; subst. exists [e]. split; [reflexivity|]. split; [discriminate|].
    rewrite print_args_one. exact Ee. }
  destruct r as [|t [|t2 r2]]; [apply Hstop, H|apply Hstop, H|].
  destruct (is_p COMMA t && negb (is_p RPAREN t2)) eqn:Ec; [|apply Hstop, H].
  apply andb_prop in Ec. destruct Ec as [Ec _]. cbn [tl] in H.
  apply IH in H. destruct H as (more & Ea & Hne & Hs). exists (e :: more).
  split; [rewrite Ea; change (rev (e :: acc)) with (rev acc ++ [e]); rewrite <- app_assoc; reflexivity|].
  split; [discriminate|].
  destruct more as [|y more]; [congruence|]. rewrite print_args_cons2.
  rewrite Ee. shn_in Hs. shn. rewrite <- Hs.
  rewrite (is_p_shape COMMA t 0%N 0%N Ec). reflexivity.
Qed.

Lemma lo_yield r lo r1 :
  match r with
  | c :: _ => if is_p COLON c then Some (@None expr, r)
              else match pe 0 r with Some (lo', r1') => Some (Some lo', r1') | None => None end
  | [] => None
  end = Some (lo, r1) ->
  sh r = sh (popt lo ++ r1).
Proof.
  intros H. destruct r as [|c r0]; [discriminate H|].
  destruct (is_p COLON c); [inversion H; subst; reflexivity|].
  destruct (pe 0 (c :: r0)) as [[lo' r1']|] eqn:E; [|discriminate H].
  inversion H; subst. apply HY in E. exact E.
Qed.

Definition take_p (q : punct) (r : list etok) : bool * list etok :=
  match r with c2 :: r' => if is_p q c2 then (true, r') else (false, r) | [] => (false, r) end.

Lemma take_yield q r b r' : take_p q r = (b, r') -> sh r = sh ((if b then [ptok q 0 0] else []) ++ r').
Proof.
  unfold take_p. destruct r as [|c2 r0]; [intros H; inversion H; subst; reflexivity|].
  destruct (is_p q c2) eqn:E; intros H; inversion H; subst; [|reflexivity].
  shn. rewrite (is_p_shape q c2 0%N 0%N E). reflexivity.
Qed.

Lemma postfix_yield k : forall e ts e' rest,
  postfix pe k e ts = Some (e', rest) -> sh (print e ++ ts) = sh (print e' ++ rest).
Proof.
  induction k as [|k IH]; intros e ts e' rest H; [discriminate H|].
  cbn [postfix] in H. destruct ts as [|t r]; [inversion H; subst; reflexivity|].
  destruct (is_p DOT t || is_p SAFEINDEX t) eqn:Edot.
  { (* field *)
    destruct r as [|n r2]; [discriminate H|].
    destruct (e_kind n) eqn:En; try discriminate H.
    apply IH in H. rewrite <- H. rewrite print_field_app.
    shn. f_equal. f_equal; [|f_equal].
    - destruct (is_p SAFEINDEX t) eqn:Es; [apply is_p_shape; exact Es|].
      rewrite orb_false_r in Edot. apply is_p_shape; exact Edot.
    - unfold shape. cbn [e_kind e_text]. rewrite En. reflexivity. }
  destruct (is_p LBRACK t) eqn:Elb.
  { (* index / slices *)
    let X := scrut H in destruct X as [[lo r1]|] eqn:Elo; [|discriminate H].
    apply lo_yield in Elo.
    destruct r1 as [|c r2]; [discriminate H|].
    destruct (is_p RBRACK c) eqn:Erb.
    { destruct lo as [i|]; [|discriminate H]. apply IH in H. rewrite <- H. rewrite print_index_app.
      shn_in Elo. shn. rewrite Elo.
      rewrite (is_p_shape LBRACK t 0%N 0%N Elb), (is_p_shape RBRACK c 0%N 0%N Erb). reflexivity. }
    destruct (is_p COLON c) eqn:Ecol; [|discriminate H].
    destruct r2 as [|c2 r3]; [discriminate H|].
    destruct (is_p RBRACK c2) eqn:Erb2.
    { apply IH in H. rewrite <- H. rewrite print_slice_app.
      shn_in Elo. shn. rewrite Elo.
      rewrite (is_p_shape LBRACK t 0%N 0%N Elb), (is_p_shape COLON c 0%N 0%N Ecol), (is_p_shape RBRACK c2 0%N 0%N Erb2).
      reflexivity. }
    destruct (pe 0 (c2 :: r3)) as [[hi r4]|] eqn:Ehi; [|discriminate H]. apply HY in Ehi.
    destruct r4 as [|c3 r5]; [discriminate H|].
    destruct (is_p RBRACK c3) eqn:Erb3.
    { apply IH in H. rewrite <- H. rewrite print_slice_app.
      shn_in Elo. shn_in Ehi. shn. rewrite Elo, Ehi.
      rewrite (is_p_shape LBRACK t 0%N 0%N Elb), (is_p_shape COLON c 0%N 0%N Ecol), (is_p_shape RBRACK c3 0%N 0%N Erb3).
      reflexivity. }
    destruct (is_p COLON c3) eqn:Ecol3; [|discriminate H].
    destruct (pe 0 r5) as [[cp [|c4 r6]]|] eqn:Ecp; try discriminate H. apply HY in Ecp.
    destruct (is_p RBRACK c4) eqn:Erb4; [|discriminate H].
    apply IH in H. rewrite <- H. rewrite print_slice3_app.
    shn_in Elo. shn_in Ehi. shn_in Ecp. shn. rewrite Elo, Ehi, Ecp.
    rewrite (is_p_shape LBRACK t 0%N 0%N Elb), (is_p_shape COLON c 0%N 0%N Ecol),
      (is_p_shape COLON c3 0%N 0%N Ecol3), (is_p_shape RBRACK c4 0%N 0%N Erb4).
    reflexivity. }
  destruct (is_p LPAREN t) eqn:Elp; [|inversion H; subst; reflexivity].
  (* call *)
  destruct r as [|c r1]; [discriminate H|].
  destruct (is_p RPAREN c) eqn:Erp.
  { apply IH in H. rewrite <- H. rewrite print_call_app. unfold call_tail. cbn [print_args].
    shn.
    rewrite (is_p_shape LPAREN t 0%N 0%N Elp), (is_p_shape RPAREN c 0%N 0%N Erp). reflexivity. }
  destruct (parse_args pe (S (length (c :: r1))) (c :: r1) []) as [[args r2]|] eqn:Eargs; [|discriminate H].
  apply parse_args_yield in Eargs. destruct Eargs as (more & Ea & _ & Hs). cbn [rev app] in Ea. subst more.
  destruct (take_p ELLIPSIS r2) as [ell r3] eqn:Eell.
  change (match r2 with c2 :: r' => if is_p ELLIPSIS c2 then (true, r') else (false, r2) | [] => (false, r2) end)
    with (take_p ELLIPSIS r2) in H. rewrite Eell in H.
  destruct (take_p COMMA r3) as [cm r4] eqn:Ecm.
  change (match r3 with c2 :: r' => if is_p COMMA c2 then (true, r') else (false, r3) | [] => (false, r3) end)
    with (take_p COMMA r3) in H. rewrite Ecm in H.
  apply take_yield in Eell. apply take_yield in Ecm.
  destruct r4 as [|c3 r5]; [discriminate H|].
  destruct (is_p RPAREN c3) eqn:Erp3; [|discriminate H].
  apply IH in H. rewrite <- H. rewrite print_call_app. unfold call_tail.
  shn_in Hs. shn_in Eell. shn_in Ecm. shn. rewrite Hs, Eell, Ecm.
  rewrite (is_p_shape LPAREN t 0%N 0%N Elp), (is_p_shape RPAREN c3 0%N 0%N Erp3).
  destruct ell, cm; shn; reflexivity.
Qed.

Lemma after_yield p k1 k2 e r e' rest :
  after pe p k1 k2 e r = Some (e', rest) -> sh (print e ++ r) = sh (print e' ++ rest).
Proof.
  unfold after. intros H. destruct (postfix pe k1 e r) as [[e1 r1]|] eqn:E1; [|discriminate H].
  apply postfix_yield in E1. apply loop_yield in H. rewrite E1. exact H.
Qed.
End Companions.

(* ------------------------------------------------------------------------------------------ *)
(* parse_expr unfolded once, with the continuation named *)

Lemma parse_expr_S f p t ts' :
  parse_expr (S f) p (t :: ts') =
  let k := S (S (length ts')) in
  match e_kind t with
  | TIdent => after (parse_expr f) p k k (EName (e_text t) (e_line t) (e_col t)) ts'
  | TP q =>
    match q with
    | LPAREN =>
      match parse_expr f 0 ts' with
      | Some (e, c :: r) => if is_p RPAREN c then after (parse_expr f) p k k (EParen e) r else None
      | _ => None
      end
    | _ =>
      match unop_of q with
      | Some u =>
        match parse_expr f unary_operand_prec ts' with
        | Some (e, r) => loop (parse_expr f) p k (EUnary u e (e_line t) (e_col t)) r
        | None => None
        end
      | None => None
      end
    end
  | kd =>
    match lit_of kd with
    | Some lk => after (parse_expr f) p k k (ELit lk (e_text t) (e_line t) (e_col t)) ts'
    | None => None
    end
  end.
Proof. reflexivity. Qed.

Lemma parse_expr_Y f : Y (parse_expr f).
Proof.
  induction f as [|f IH]; intros p ts e rest H; [discriminate H|].
  destruct ts as [|t ts']; [discriminate H|].
  rewrite parse_expr_S in H. cbn zeta in H.
  assert (Hlit : forall lk, lit_of (e_kind t) = Some lk ->
            after (parse_expr f) p (S (S (length ts'))) (S (S (length ts'))) (ELit lk (e_text t) (e_line t) (e_col t)) ts'
              = Some (e, rest) ->
            sh (t :: ts') = sh (print e ++ rest)).
  { intros lk El Ha. apply (after_yield _ IH) in Ha. rewrite <- Ha. cbn [print app]. rewrite !sh_cons. f_equal.
    destruct (lit_of_inv _ _ El) as [Ek Hn]. unfold shape. cbn [e_kind e_text]. rewrite Ek.
    destruct (e_kind t); solve [reflexivity | discriminate El]. }
  destruct (e_kind t) as [| | |q| | | | | |] eqn:Ek;
    try (cbn [lit_of] in H; first [discriminate H | apply (Hlit _ eq_refl H)]).
  - (* identifier *)
    apply (after_yield _ IH) in H. rewrite <- H. cbn [print app]. rewrite !sh_cons. f_equal.
    unfold shape. cbn [e_kind e_text]. rewrite Ek. reflexivity.
  - (* punctuation: parenthesis or unary operator *)
    assert (Hun : forall u, unop_of q = Some u ->
              match parse_expr f unary_operand_prec ts' with
              | Some (e0, r) => loop (parse_expr f) p (S (S (length ts'))) (EUnary u e0 (e_line t) (e_col t)) r
              | None => None
              end = Some (e, rest) ->
              sh (t :: ts') = sh (print e ++ rest)).
    { intros u Eu Hl. destruct (parse_expr f unary_operand_prec ts') as [[e0 r]|] eqn:E0; [|discriminate Hl].
      apply IH in E0. apply (loop_yield _ IH) in Hl. rewrite <- Hl. rewrite print_unary_app.
      rewrite !sh_cons. rewrite E0. rewrite shape_ptok, (shape_tp t q Ek), (unop_of_inv q u Eu). reflexivity. }
    destruct q; cbn [unop_of] in H; try discriminate H; try (apply (Hun _ eq_refl H)).
    (* LPAREN *)
    destruct (parse_expr f 0 ts') as [[e0 [|c r]]|] eqn:E0; try discriminate H.
    destruct (is_p RPAREN c) eqn:Ec; [|discriminate H].
    apply IH in E0. apply (after_yield _ IH) in H. rewrite <- H. rewrite print_paren_app.
    shn_in E0. shn. rewrite E0.
    rewrite (shape_tp t LPAREN Ek), (is_p_shape RPAREN c 0%N 0%N Ec), !shape_ptok. reflexivity.
Qed.

Theorem parse_yield : forall f p ts e rest,
  parse_expr f p ts = Some (e, rest) -> map shape ts = map shape (print e ++ rest).
Proof. intros f p ts e rest H. exact (parse_expr_Y f p ts e rest H). Qed.

Theorem parse_code_whole : forall is_letter is_udigit s e, parse_code is_letter is_udigit s = Some e ->
  exists ts rest, lex is_letter is_udigit s = Some ts /\ map shape ts = map shape (print e ++ rest) /\ only_blank_eos rest = true.
Proof.
  intros is_letter is_udigit s e H. unfold parse_code in H.
  destruct (lex is_letter is_udigit s) as [ts|] eqn:El; [|discriminate H].
  destruct (open_comment ts) eqn:Eoc; [discriminate H|].
  destruct (parse_expr (2 * length ts + 2) 0 ts) as [[e0 rest]|] eqn:Ep; [|discriminate H].
  destruct (only_blank_eos rest) eqn:Eb; [|discriminate H].
  inversion H; subst. exists ts, rest. split; [reflexivity|]. split; [|exact Eb].
  apply (parse_yield _ _ _ _ _ Ep).
Qed.

(* an unterminated block comment (the lexer's fallback: '/' immediately followed by '*') is rejected *)
Theorem open_comment_rejected : forall is_letter is_udigit s ts, lex is_letter is_udigit s = Some ts ->
  open_comment ts = true -> parse_code is_letter is_udigit s = None.
Proof. intros is_letter is_udigit s ts El Ho. unfold parse_code. rewrite El, Ho. reflexivity. Qed.

Print Assumptions parse_yield.
Print Assumptions parse_code_whole.
