(* C01, last clause, structural form.  The filter statement of TagPrint.v ("equal after removing all
   white space") does not see white space inside quoted values and does not exclude that a blank
   moved from between two attributes into a name.  Here the source text of a tag is decomposed exactly:

     t_value t = "<" ++ t_name t ++ src_1 ++ ... ++ src_k ++ w ++ ">"
     src_i     = w1 ++ name_i                                   (attribute without value)
               | w1 ++ name_i ++ w2 ++ "=" ++ w3 ++ value_i     (attribute with value)

   with w, w1, w2, w3 white space only, the names free of white space, the attributes in order, and
   [print_tag] is the instance w1 = " ", w2 = w3 = w = "".  So the printed tag differs from the
   source tag exactly in those white-space runs, and in nothing else (names and values verbatim).
   Exceptions as in TagPrint.v: the synthetic else value ([fix_else]); and the close tag of a
   raw-text element, which may contain white space anywhere (even inside the name) and is described
   by [raw_close_like] instead. *)
From Coq Require Import List NArith Bool Lia Arith.
From Tpl Require Import Proofs.ScanSpec Proofs.ScanConcat Proofs.ScanPos Proofs.ScanAttrPos Proofs.ExecSpec Proofs.TagPrint.
Import ListNotations.
Open Scope N_scope.

Section P.
Variable is_space : rune -> bool.
Variable to_lower : rune -> rune.
Variable text_tags : list str.
Variable attr_prefix : str.
Variable compile : attr -> bool.
Hypothesis Hsp : is_space cSP = true.

Notation dispatch := (Scan.dispatch is_space to_lower text_tags attr_prefix compile).
Notation step := (Scan.step is_space to_lower text_tags attr_prefix compile).
Notation tag_step := (Scan.tag_step is_space attr_prefix compile).
Notation text_step := (Scan.text_step is_space to_lower).
Notation scan := (Scan.scan is_space to_lower text_tags attr_prefix compile).
Notation add_attr := (Scan.add_attr attr_prefix compile).
Notation fix_else := (Scan.fix_else attr_prefix).
Notation new_text := (Scan.new_text to_lower text_tags).
Notation lower := (Scan.lower to_lower).
Notation nsp := (TagPrint.nsp is_space).
Notation nonsp := (ScanAttrPos.nonsp is_space).

Definition allsp (w : str) : Prop := Forall (fun r => is_space r = true) w.

Lemma allsp_nil : allsp [].
Proof. constructor. Qed.
Lemma allsp_one r : is_space r = true -> allsp [r].
Proof. intros H. constructor; [exact H|constructor]. Qed.
Lemma allsp_snoc w r : allsp w -> is_space r = true -> allsp (w ++ [r]).
Proof. intros Hw Hr. apply Forall_app. split; [exact Hw|apply allsp_one; exact Hr]. Qed.
Lemma nonsp_nil : nonsp [].
Proof. constructor. Qed.
Lemma nonsp_one r : is_space r = false -> nonsp [r].
Proof. intros H. constructor; [exact H|constructor]. Qed.
Lemma nonsp_snoc n r : nonsp n -> is_space r = false -> nonsp (n ++ [r]).
Proof. intros Hn Hr. apply Forall_app. split; [exact Hn|apply nonsp_one; exact Hr]. Qed.

(* source text of one attribute *)
Definition attr_src (a : attr) (s : str) : Prop :=
  nonsp (a_name a) /\
  exists w1 w2 w3, allsp w1 /\ allsp w2 /\ allsp w3 /\
    s = w1 ++ a_name a ++ match a_value a with None => [] | Some v => w2 ++ [cEQ] ++ w3 ++ v end.

Definition shaped (t : token) : Prop :=
  exists l0 srcs w, t_attrs t = map fix_else l0 /\ Forall2 attr_src l0 srcs /\ allsp w /\
    nonsp (t_name t) /\
    t_value t = (cLT :: t_name t) ++ concat srcs ++ w ++ [cGT].

Definition shP (t : token) : Prop :=
  t_kind t = KTag -> shaped t \/ raw_close_like is_space to_lower text_tags t.

Lemma shP_nontag k v s e n a : k <> KTag -> shP (mkTok k v s e n a).
Proof. intros Hk H. contradiction (Hk H). Qed.

(* ---------- the buffer equation ---------- *)

Definition sh_eq (buf name : str) (attrs : list attr) (tail : str) : Prop :=
  exists l0 srcs, attrs = map fix_else l0 /\ Forall2 attr_src (rev l0) srcs /\ nonsp name /\
    buf = (cLT :: name) ++ concat srcs ++ tail.

Lemma sh_eq_name name : nonsp name -> sh_eq (cLT :: name) name [] [].
Proof.
  intros Hn. exists [], []. split; [reflexivity|]. split; [constructor|]. split; [exact Hn|].
  cbn [concat]. rewrite !app_nil_r. reflexivity.
Qed.

Lemma sh_eq_snoc buf name attrs tail r :
  sh_eq buf name attrs tail -> sh_eq (buf ++ [r]) name attrs (tail ++ [r]).
Proof.
  intros (l0 & srcs & Hl & F & Hn & Hb). exists l0, srcs. repeat split; try assumption.
  rewrite Hb, <- !app_assoc. reflexivity.
Qed.

Lemma sh_eq_tail buf name attrs tail tail' :
  sh_eq buf name attrs tail -> tail = tail' -> sh_eq buf name attrs tail'.
Proof. intros H <-. exact H. Qed.

Lemma sh_eq_add buf name attrs s rest a :
  sh_eq buf name attrs (s ++ rest) -> attr_src a s -> sh_eq buf name (fix_else a :: attrs) rest.
Proof.
  intros (l0 & srcs & Hl & F & Hn & Hb) Ha. exists (a :: l0), (srcs ++ [s]).
  split; [rewrite Hl; reflexivity|]. split.
  - cbn [rev]. apply Forall2_app; [exact F|]. constructor; [exact Ha|constructor].
  - split; [exact Hn|]. rewrite Hb, concat_app. cbn [concat]. rewrite app_nil_r, <- !app_assoc. reflexivity.
Qed.

Lemma sh_emit buf name attrs w s e :
  allsp w -> sh_eq buf name attrs (w ++ [cGT]) -> shaped (mkTok KTag buf s e name (rev attrs)).
Proof.
  intros Hw (l0 & srcs & Hl & F & Hn & Hb). exists (rev l0), srcs, w. cbn [t_attrs t_name t_value].
  split; [rewrite Hl, map_rev; reflexivity|]. repeat split; assumption.
Qed.

(* ---------- the pending attribute name ---------- *)

Definition an_tail (aname tail : str) : Prop :=
  exists w1 n ws, allsp w1 /\ nonsp n /\ allsp ws /\ tail = w1 ++ n ++ ws /\
    ((aname = n /\ ws = []) \/ aname = n ++ [cSP]).

Lemma an_trim aname tail :
  an_tail aname tail ->
  exists w1 n ws, allsp w1 /\ nonsp n /\ allsp ws /\ tail = w1 ++ n ++ ws /\ trim_sp aname = n.
Proof.
  intros (w1 & n & ws & H1 & Hn & H2 & Ht & Hsh). exists w1, n, ws. repeat split; try assumption.
  destruct Hsh as [[-> _] | ->]; [apply (nonsp_last is_space Hsp); exact Hn|apply sp_last].
Qed.

Lemma an_attr aname tail ns ne vs ve :
  an_tail aname tail ->
  exists s ws, tail = s ++ ws /\ allsp ws /\ attr_src (mkAttr (trim_sp aname) ns ne None vs ve) s.
Proof.
  intros H. apply an_trim in H as (w1 & n & ws & H1 & Hn & H2 & Ht & Htrim).
  exists (w1 ++ n), ws. split; [rewrite Ht, <- app_assoc; reflexivity|]. split; [exact H2|].
  unfold attr_src. cbn [a_name a_value]. rewrite Htrim. split; [exact Hn|].
  exists w1, [], []. repeat split; try assumption; try apply allsp_nil.
  rewrite app_nil_r. reflexivity.
Qed.

Lemma an_space aname tail r :
  an_tail aname tail -> is_space r = true ->
  an_tail (if ends_sp aname then aname else aname ++ [cSP]) (tail ++ [r]).
Proof.
  intros (w1 & n & ws & H1 & Hn & H2 & Ht & Hsh) Hr. exists w1, n, (ws ++ [r]).
  split; [exact H1|]. split; [exact Hn|]. split; [apply allsp_snoc; assumption|].
  split; [rewrite Ht, <- !app_assoc; reflexivity|]. right.
  destruct Hsh as [[-> _] | ->].
  - destruct (nonsp_last is_space Hsp n Hn) as [-> _]. reflexivity.
  - destruct (sp_last n) as [-> _]. reflexivity.
Qed.

Lemma an_append aname tail r :
  an_tail aname tail -> ends_sp aname = false -> is_space r = false ->
  an_tail (aname ++ [r]) (tail ++ [r]).
Proof.
  intros (w1 & n & ws & H1 & Hn & H2 & Ht & Hsh) Hends Hr.
  destruct Hsh as [[-> ->] | ->].
  - exists w1, (n ++ [r]), []. split; [exact H1|]. split; [apply nonsp_snoc; assumption|].
    split; [apply allsp_nil|]. split; [rewrite Ht, !app_nil_r, <- app_assoc; reflexivity|].
    left. split; reflexivity.
  - destruct (sp_last n) as [E _]. rewrite E in Hends. discriminate.
Qed.

Lemma an_fresh w r : allsp w -> is_space r = false -> an_tail [r] (w ++ [r]).
Proof.
  intros Hw Hr. exists w, [r], []. split; [exact Hw|]. split; [apply nonsp_one; exact Hr|].
  split; [apply allsp_nil|]. split; [rewrite app_nil_r; reflexivity|]. left. split; reflexivity.
Qed.

Lemma an_empty w : allsp w -> an_tail [] w.
Proof.
  intros Hw. exists w, [], []. split; [exact Hw|]. split; [apply nonsp_nil|].
  split; [apply allsp_nil|]. split; [rewrite !app_nil_r; reflexivity|]. left. split; reflexivity.
Qed.

(* ---------- the pending value ---------- *)

Definition av_tail (aname aval tail : str) : Prop :=
  exists w1 n w2 w3, allsp w1 /\ nonsp n /\ allsp w2 /\ allsp w3 /\ trim_sp aname = n /\
    tail = w1 ++ n ++ w2 ++ [cEQ] ++ w3 ++ aval.

Lemma an_eq aname tail : an_tail aname tail -> av_tail aname [] (tail ++ [cEQ]).
Proof.
  intros H. apply an_trim in H as (w1 & n & ws & H1 & Hn & H2 & Ht & Htrim).
  exists w1, n, ws, []. repeat split; try assumption; try apply allsp_nil.
  rewrite Ht, <- !app_assoc. reflexivity.
Qed.

Lemma av_space aname tail r :
  av_tail aname [] tail -> is_space r = true -> av_tail aname [] (tail ++ [r]).
Proof.
  intros (w1 & n & w2 & w3 & H1 & Hn & H2 & H3 & Htrim & Ht) Hr. exists w1, n, w2, (w3 ++ [r]).
  repeat split; try assumption; [apply allsp_snoc; assumption|].
  rewrite Ht, !app_nil_r, <- !app_assoc. reflexivity.
Qed.

Lemma av_snoc aname aval tail r :
  av_tail aname aval tail -> av_tail aname (aval ++ [r]) (tail ++ [r]).
Proof.
  intros (w1 & n & w2 & w3 & H1 & Hn & H2 & H3 & Htrim & Ht). exists w1, n, w2, w3.
  repeat split; try assumption. rewrite Ht, <- !app_assoc. reflexivity.
Qed.

Lemma av_attr aname aval tail ns ne vs ve :
  av_tail aname aval tail -> attr_src (mkAttr (trim_sp aname) ns ne (Some aval) vs ve) tail.
Proof.
  intros (w1 & n & w2 & w3 & H1 & Hn & H2 & H3 & Htrim & Ht).
  unfold attr_src. cbn [a_name a_value]. rewrite Htrim. split; [exact Hn|].
  exists w1, w2, w3. repeat split; assumption.
Qed.

(* ---------- the invariant ---------- *)

Definition sh_ok (g : tagst) : Prop :=
  match g_state g with
  | TName => g_attrs g = [] /\ g_buf g = cLT :: g_name g /\ nonsp (g_name g)
  | TSpace => exists w, allsp w /\ sh_eq (g_buf g) (g_name g) (g_attrs g) w
  | TAttrName => exists tail, an_tail (g_aname g) tail /\ sh_eq (g_buf g) (g_name g) (g_attrs g) tail
  | TAttrValue => exists tail, av_tail (g_aname g) (g_aval g) tail /\ sh_eq (g_buf g) (g_name g) (g_attrs g) tail
  | _ => True
  end.

Notation tx_ok := (TagPrint.tx_ok is_space to_lower text_tags).

Definition ainv (toks : list token) (m : mode) : Prop :=
  Forall shP toks /\
  match m with
  | MTag g => sh_ok g
  | MText x => tx_ok x
  | _ => True
  end.

Definition rinv (res : tres) : Prop :=
  match res with
  | TR toks m false => ainv toks m
  | TR toks m true => exists g, m = MTag g /\ g_state g = TAttrName /\ ainv toks m
  end.

Lemma finish_or_inv toks g r p1 :
  Forall shP toks ->
  (N.eqb r cGT = true -> exists w, allsp w /\ sh_eq (g_buf g) (g_name g) (g_attrs g) (w ++ [cGT])) ->
  (N.eqb r cGT = false -> sh_ok g) ->
  rinv (finish_or toks g r p1).
Proof.
  intros Htoks Hemit Hcont. unfold finish_or, emit_tag.
  destruct (N.eqb r cGT) eqn:Egt; cbn [rinv]; unfold ainv.
  - split; [|exact I]. constructor; [|exact Htoks]. intros _. left.
    destruct (Hemit eq_refl) as (w & Hw & He). apply (sh_emit _ _ _ w); assumption.
  - split; [exact Htoks|]. exact (Hcont eq_refl).
Qed.

Ltac absurd_gt Egt := let H := fresh in intros H; rewrite Egt in H; discriminate H.
Ltac gt_subst Egt r := apply N.eqb_eq in Egt; subst r.

Lemma tag_step_inv toks g r p0 p1 :
  Forall shP toks -> sh_ok g -> rinv (tag_step toks g r p0 p1).
Proof.
  intros Htoks Hsh. unfold Scan.tag_step.
  assert (Herr : forall e, ainv toks (MErr e)) by (intros e; exact (conj Htoks I)).
  unfold sh_ok in Hsh.
  destruct (g_state g) eqn:Est; tag_cbn.
  - (* TName *)
    destruct Hsh as (Hat0 & Hb0 & Hnn).
    assert (Hse : sh_eq (g_buf g) (g_name g) (g_attrs g) []) by (rewrite Hat0, Hb0; apply sh_eq_name; exact Hnn).
    destruct (N.eqb r cGT) eqn:Egt.
    + apply finish_or_inv; tag_cbn; [exact Htoks| |absurd_gt Egt].
      intros _. gt_subst Egt r. exists []. split; [apply allsp_nil|]. apply (sh_eq_snoc _ _ _ [] cGT). exact Hse.
    + destruct (is_space r) eqn:Esp.
      * cbn [rinv]; unfold ainv. split; [exact Htoks|]. unfold sh_ok; tag_cbn.
        exists [r]. split; [apply allsp_one; exact Esp|]. apply (sh_eq_snoc _ _ _ [] r). exact Hse.
      * apply finish_or_inv; tag_cbn; [exact Htoks|absurd_gt Egt|].
        intros _. unfold sh_ok; tag_cbn.
        destruct (str_eqb (g_name g ++ [r]) sBANGDD) eqn:E1; [exact I|].
        destruct (str_eqb (g_name g ++ [r]) sCDATA) eqn:E2; [exact I|].
        split; [exact Hat0|]. split; [rewrite Hb0; reflexivity|apply nonsp_snoc; assumption].
  - (* TCData *)
    destruct (suffixb sRRGT (g_cdata g ++ [r])) eqn:E; cbn [rinv]; unfold ainv.
    + split; [|exact I]. constructor; [apply shP_nontag; discriminate|exact Htoks].
    + split; [exact Htoks|]. unfold sh_ok; tag_cbn. exact I.
  - (* TComment *)
    set (ct := g_comment g ++ [r]).
    destruct (suffixb sDDGT ct) eqn:E.
    + destruct (prefixb [cGT] _ || prefixb [cDASH; cGT] _) eqn:Ebad; [apply Herr|].
      destruct (containsb sLTBDD _ || containsb sDDGT _ || containsb sDDBGT _) eqn:Ebad2; [apply Herr|].
      destruct (suffixb sLTBD _) eqn:Ebad3; [apply Herr|].
      cbn [rinv]; unfold ainv. split; [|exact I]. constructor; [apply shP_nontag; discriminate|exact Htoks].
    + destruct (prefixb [cGT] _ || prefixb [cDASH; cGT] _) eqn:Ebad; [apply Herr|].
      cbn [rinv]; unfold ainv. split; [exact Htoks|]. unfold sh_ok; tag_cbn. exact I.
  - (* TSpace *)
    destruct Hsh as (w & Hw & Hse).
    destruct (N.eqb r cGT) eqn:Egt.
    + apply finish_or_inv; tag_cbn; [exact Htoks| |absurd_gt Egt].
      intros _. gt_subst Egt r. exists w. split; [exact Hw|]. apply sh_eq_snoc. exact Hse.
    + destruct (is_space r) eqn:Esp; cbn [rinv].
      * unfold ainv. split; [exact Htoks|]. unfold sh_ok; tag_cbn.
        exists (w ++ [r]). split; [apply allsp_snoc; assumption|]. apply sh_eq_snoc. exact Hse.
      * eexists; split; [reflexivity|]. tag_cbn. split; [reflexivity|].
        unfold ainv. split; [exact Htoks|]. unfold sh_ok; tag_cbn.
        exists w. split; [apply an_empty; exact Hw|exact Hse].
  - (* TAttrName *)
    destruct Hsh as (tail & Han & Hse).
    destruct (is_space r) eqn:Esp.
    { cbn [rinv]; unfold ainv. split; [exact Htoks|]. unfold sh_ok; tag_cbn.
      exists (tail ++ [r]). split; [apply an_space; assumption|apply sh_eq_snoc; exact Hse]. }
    assert (Hadd : forall ns ne vs ve, exists ws, allsp ws /\
      sh_eq (g_buf g) (g_name g) (fix_else (mkAttr (trim_sp (g_aname g)) ns ne None vs ve) :: g_attrs g) ws).
    { intros ns ne vs ve. destruct (an_attr _ _ ns ne vs ve Han) as (s & ws & Ht & Hws & Hsrc).
      exists ws. split; [exact Hws|]. apply (sh_eq_add _ _ _ s); [rewrite <- Ht; exact Hse|exact Hsrc]. }
    destruct (N.eqb r cGT) eqn:Egt.
    + destruct (add_attr _ _ _) as [g'|e] eqn:Ea; [|apply Herr].
      apply add_attr_eq in Ea. tag_cbn_in Ea. subst g'.
      apply finish_or_inv; tag_cbn; [exact Htoks| |absurd_gt Egt].
      intros _. gt_subst Egt r.
      destruct (Hadd (g_anstart g) (g_anend g) (0,0) (0,0)) as (ws & Hws & Hse').
      exists ws. split; [exact Hws|]. apply sh_eq_snoc. exact Hse'.
    + destruct (N.eqb r cEQ) eqn:Eeq.
      { cbn [rinv]; unfold ainv. split; [exact Htoks|]. unfold sh_ok; tag_cbn. gt_subst Eeq r.
        exists (tail ++ [cEQ]). split; [apply an_eq; exact Han|apply sh_eq_snoc; exact Hse]. }
      destruct (ends_sp (g_aname g)) eqn:Eends.
      * destruct (add_attr _ _ _) as [g'|e] eqn:Ea; [|apply Herr].
        apply add_attr_eq in Ea. tag_cbn_in Ea. subst g'.
        cbn [rinv]; unfold ainv. split; [exact Htoks|]. unfold sh_ok; tag_cbn.
        destruct (Hadd (g_anstart g) (g_anend g) (0,0) (0,0)) as (ws & Hws & Hse').
        exists (ws ++ [r]). split; [apply an_fresh; assumption|apply sh_eq_snoc; exact Hse'].
      * cbn [rinv]; unfold ainv. split; [exact Htoks|]. unfold sh_ok; tag_cbn.
        exists (tail ++ [r]). split; [apply an_append; assumption|apply sh_eq_snoc; exact Hse].
  - (* TAttrValue *)
    destruct Hsh as (tail & Hav & Hse).
    destruct (g_aval g) as [|f av] eqn:Eav.
    + destruct (is_space r) eqn:Esp.
      { cbn [rinv]; unfold ainv. split; [exact Htoks|]. unfold sh_ok; tag_cbn.
        exists (tail ++ [r]). split; [apply av_space; assumption|apply sh_eq_snoc; exact Hse]. }
      destruct (N.eqb r cGT) eqn:Egt.
      * destruct (add_attr _ _ _) as [g'|e] eqn:Ea; [|apply Herr].
        apply add_attr_eq in Ea. tag_cbn_in Ea. subst g'.
        apply finish_or_inv; tag_cbn; [exact Htoks| |absurd_gt Egt].
        intros _. gt_subst Egt r. exists []. split; [apply allsp_nil|]. apply (sh_eq_snoc _ _ _ [] cGT).
        apply (sh_eq_add _ _ _ tail); [rewrite app_nil_r; exact Hse|apply av_attr; exact Hav].
      * cbn [rinv]; unfold ainv. split; [exact Htoks|]. unfold sh_ok; tag_cbn.
        exists (tail ++ [r]). split; [apply (av_snoc _ [] _ r); exact Hav|apply sh_eq_snoc; exact Hse].
    + destruct (N.eqb f cDQ || N.eqb f cSQ) eqn:Eq; cbn [andb negb orb].
      * destruct (N.eqb f r) eqn:Efr; cbn [orb].
        -- assert (Egt : N.eqb r cGT = false) by (apply (quote_not_gt f); assumption).
           destruct (add_attr _ _ _) as [g'|e] eqn:Ea; [|apply Herr].
           apply add_attr_eq in Ea. tag_cbn_in Ea. subst g'.
           apply finish_or_inv; tag_cbn; [exact Htoks|absurd_gt Egt|].
           intros _. unfold sh_ok; tag_cbn. exists []. split; [apply allsp_nil|].
           apply (sh_eq_add _ _ _ (tail ++ [r])); [rewrite app_nil_r; apply sh_eq_snoc; exact Hse|].
           apply av_attr. apply av_snoc. exact Hav.
        -- cbn [rinv]; unfold ainv. split; [exact Htoks|]. unfold sh_ok; tag_cbn.
           exists (tail ++ [r]). split; [apply av_snoc; exact Hav|apply sh_eq_snoc; exact Hse].
      * assert (Hadd : sh_eq (g_buf g) (g_name g)
                   (fix_else (mkAttr (trim_sp (g_aname g)) (g_anstart g) (g_anend g) (Some (f :: av)) (g_avstart g) (g_avend g))
                    :: g_attrs g) []).
        { apply (sh_eq_add _ _ _ tail); [rewrite app_nil_r; exact Hse|apply av_attr; exact Hav]. }
        destruct (is_space r || N.eqb r cGT) eqn:Efin.
        -- destruct (add_attr _ _ _) as [g'|e] eqn:Ea; [|apply Herr].
           apply add_attr_eq in Ea. tag_cbn_in Ea. subst g'.
           apply finish_or_inv; tag_cbn; [exact Htoks| |].
           ++ intros Egt. gt_subst Egt r. exists []. split; [apply allsp_nil|].
              apply (sh_eq_snoc _ _ _ [] cGT). exact Hadd.
           ++ intros Egt. rewrite Egt, orb_false_r in Efin. unfold sh_ok; tag_cbn.
              exists [r]. split; [apply allsp_one; exact Efin|]. apply (sh_eq_snoc _ _ _ [] r). exact Hadd.
        -- apply orb_false_iff in Efin as [Esp Egt].
           apply finish_or_inv; tag_cbn; [exact Htoks|absurd_gt Egt|].
           intros _. unfold sh_ok; tag_cbn.
           exists (tail ++ [r]). split; [apply av_snoc; exact Hav|apply sh_eq_snoc; exact Hse].
Qed.

Lemma new_tag_inv toks p0 : Forall shP toks -> ainv toks (MTag (new_tag p0)).
Proof.
  intros Htoks. unfold ainv, new_tag. split; [exact Htoks|]. unfold sh_ok; tag_cbn.
  split; [reflexivity|]. split; [reflexivity|apply nonsp_nil].
Qed.

Lemma text_step_inv toks x r p0 p1 :
  Forall shP toks -> tx_ok x -> rinv (text_step toks x r p0 p1).
Proof.
  intros Htoks Hx. unfold Scan.text_step. unfold TagPrint.tx_ok in Hx.
  assert (Hraw : forall (tb : str) s e (n : str), In n (map lower text_tags) ->
            prefixb (lower (nsp ((cLT :: tb) ++ [cGT]))) ([cLT; cSLASH] ++ n ++ [cGT]) = true ->
            shP (mkTok KTag ((cLT :: tb) ++ [cGT]) s e (written_close_name (nsp ((cLT :: tb) ++ [cGT]))) [])).
  { intros tb s e n Hin Hpre _. right.
    unfold raw_close_like; cbn [t_name t_attrs t_value]. split; [reflexivity|]. split; [reflexivity|].
    split; [exists tb; reflexivity|]. exists n. split; assumption. }
  destruct (x_raw x) eqn:Er.
  - destruct (Hx eq_refl) as (Hnb & Hcl & Hin & Hlt).
    destruct (N.eqb r cLT) eqn:Elt.
    + cbn [negb]. text_cbn.
      destruct (prefixb _ _) eqn:Ecl.
      * destruct (N.eqb r cGT) eqn:Egt.
        { apply N.eqb_eq in Elt, Egt. subst r. discriminate. }
        cbn [rinv]; unfold ainv. split; [exact Htoks|]. unfold TagPrint.tx_ok; text_cbn. intros _.
        split; [apply nsp_snoc_if; reflexivity|]. split; [exact Hcl|]. split; [exact Hin|].
        right. exists []. apply N.eqb_eq in Elt. rewrite Elt. reflexivity.
      * cbn [rinv]; unfold ainv. split; [exact Htoks|]. unfold TagPrint.tx_ok; text_cbn. intros _.
        split; [reflexivity|]. split; [exact Hcl|]. split; [exact Hin|]. left; reflexivity.
    + destruct (x_tagbuf x) as [|t0 tb] eqn:Etb.
      * cbn [negb rinv]; unfold ainv. split; [exact Htoks|]. unfold TagPrint.tx_ok; text_cbn. intros _.
        split; [exact Hnb|]. split; [exact Hcl|]. split; [exact Hin|]. left; reflexivity.
      * cbn [negb].
        assert (Et0 : t0 = cLT).
        { destruct Hlt as [Hlt|(rest & Hlt)]; [discriminate Hlt|]. injection Hlt as -> _. reflexivity. }
        subst t0.
        assert (Hnb' : (if is_space r then x_namebuf x else x_namebuf x ++ [r]) = nsp ((cLT :: tb) ++ [r]))
          by (apply nsp_snoc_if; exact Hnb).
        destruct (prefixb _ _) eqn:Ecl.
        -- destruct (N.eqb r cGT) eqn:Egt.
           ++ match type of Ecl with prefixb (lower ?e) _ = _ =>
                replace e with (nsp ((cLT :: tb) ++ [r])) in Ecl by (symmetry; exact Hnb') end.
              match goal with |- context [written_close_name ?e] =>
                replace e with (nsp ((cLT :: tb) ++ [r])) by (symmetry; exact Hnb') end.
              rewrite Hcl in Ecl. gt_subst Egt r.
              assert (Ht2 : forall s e, shP (mkTok KTag ((cLT :: tb) ++ [cGT]) s e
                                                 (written_close_name (nsp ((cLT :: tb) ++ [cGT]))) []))
                by (intros s e; apply (Hraw tb s e (x_rawname x)); [exact Hin|exact Ecl]).
              destruct (firstn _ _); cbn [rinv]; unfold ainv; (split; [|exact I]).
              ** constructor; [apply Ht2|exact Htoks].
              ** constructor; [apply Ht2|]. constructor; [apply shP_nontag; discriminate|exact Htoks].
           ++ cbn [rinv]; unfold ainv. split; [exact Htoks|]. unfold TagPrint.tx_ok; text_cbn. intros _.
              split; [exact Hnb'|]. split; [exact Hcl|]. split; [exact Hin|].
              right. exists (tb ++ [r]). reflexivity.
        -- cbn [rinv]; unfold ainv. split; [exact Htoks|]. unfold TagPrint.tx_ok; text_cbn. intros _.
           split; [reflexivity|]. split; [exact Hcl|]. split; [exact Hin|]. left; reflexivity.
  - destruct (N.eqb r cLT) eqn:Elt.
    + cbn [rinv]. apply new_tag_inv. constructor; [apply shP_nontag; discriminate|exact Htoks].
    + cbn [rinv]; unfold ainv. split; [exact Htoks|]. unfold TagPrint.tx_ok; text_cbn. intros H; discriminate H.
Qed.

Lemma new_text_in toks p0 : tx_ok (new_text toks p0).
Proof. apply new_text_ok. Qed.

Lemma dispatch_inv toks m r p0 p1 : ainv toks m -> rinv (dispatch toks m r p0 p1).
Proof.
  intros [Htoks H]. destruct m as [|x|g|e]; cbn [Scan.dispatch].
  - destruct (raw_tag_of_last _ _ _) as [n|]; [apply text_step_inv; [exact Htoks|apply new_text_in]|].
    destruct (N.eqb r cLT) eqn:Elt.
    + cbn [rinv]. apply new_tag_inv; assumption.
    + apply text_step_inv; [exact Htoks|apply new_text_in].
  - apply text_step_inv; assumption.
  - apply tag_step_inv; assumption.
  - exact (conj Htoks I).
Qed.

Definition sinv (s : sstate) : Prop := ainv (s_toks s) (s_mode s).

Lemma step_inv s r : sinv s -> sinv (step s r).
Proof.
  unfold sinv. intros H. unfold Scan.step.
  pose proof (dispatch_inv (s_toks s) (s_mode s) r (s_pos s) (adv (s_pos s) r) H) as D.
  destruct (dispatch _ _ _ _ _) as [toks m [|]] eqn:E1; cbn [rinv] in D.
  - destruct D as (g & -> & Hst & M).
    pose proof (dispatch_inv toks (MTag g) r (s_pos s) (adv (s_pos s) r) M) as D2.
    destruct (dispatch toks (MTag g) _ _ _) as [toks' m' u] eqn:E2.
    cbn [Scan.dispatch] in E2. apply attrname_no_unread in E2; [|exact Hst]. subst u.
    cbn [s_pos s_toks s_mode]. exact D2.
  - cbn [s_pos s_toks s_mode]. exact D.
Qed.

Lemma fold_inv src : forall s, sinv s -> sinv (fold_left step src s).
Proof.
  induction src as [|r src IH]; intros s H; cbn [fold_left]; [exact H|].
  apply IH. apply step_inv; exact H.
Qed.

Lemma scan_shP src toks : scan src = inl toks -> Forall shP toks.
Proof.
  unfold Scan.scan, finish. intros H.
  assert (I0 : sinv init) by (split; [constructor|exact I]).
  assert (Hall : forall l : list token, @inl _ serr (rev l) = inl toks -> Forall shP l -> Forall shP toks).
  { intros l E Hl. injection E as <-. apply Forall_rev. exact Hl. }
  pose proof (fold_inv src init I0) as [F _].
  destruct (s_mode (fold_left step src init)) as [|x|g|e] eqn:Em.
  - apply (Hall _ H). exact F.
  - apply (Hall _ H). constructor; [apply shP_nontag; discriminate|exact F].
  - discriminate.
  - discriminate.
Qed.

(* ================= the theorem ================= *)

Theorem tag_source_shape (src : str) (toks : list token) :
  scan src = inl toks ->
  forall t, In t toks -> t_kind t = KTag -> shaped t \/ raw_close_like is_space to_lower text_tags t.
Proof.
  intros H t Ht Hk. apply scan_shP in H. rewrite Forall_forall in H. exact (H t Ht Hk).
Qed.

(* the structural statement implies the filter statement of TagPrint.v *)
Lemma nsp_allsp w : allsp w -> nsp w = [].
Proof.
  induction 1 as [|r w Hr _ IH]; [reflexivity|].
  rewrite (nsp_cons is_space r w), (nsp_space is_space r Hr), IH. reflexivity.
Qed.

Lemma attr_src_nsp a s : attr_src a s -> nsp s = nsp (print_attr a).
Proof.
  intros (_ & w1 & w2 & w3 & H1 & H2 & H3 & ->).
  rewrite (nsp_print_attr is_space Hsp).
  destruct (a_value a) as [v|]; rewrite !nsp_app, (nsp_allsp w1 H1); [|reflexivity].
  rewrite (nsp_allsp w2 H2), (nsp_allsp w3 H3). reflexivity.
Qed.

Lemma shaped_emitted_like t : shaped t -> emitted_like is_space attr_prefix t.
Proof.
  intros (l0 & srcs & w & Hl & F & Hw & _ & Hv). exists l0. split; [exact Hl|].
  rewrite Hv, !nsp_app, (nsp_allsp w Hw). cbn [app]. f_equal. f_equal.
  clear -F Hsp. induction F as [|a s l0 srcs Ha _ IH]; [reflexivity|].
  cbn [concat pattrs flat_map]. fold (pattrs l0). rewrite !nsp_app, IH, (attr_src_nsp a s Ha). reflexivity.
Qed.

(* without the synthetic else value: the attribute list of the token itself is decomposed *)
Theorem tag_source_shape_exact (src : str) (toks : list token) :
  scan src = inl toks ->
  forall t, In t toks -> t_kind t = KTag ->
  no_synth_else attr_prefix t -> ~ raw_close_like is_space to_lower text_tags t ->
  exists srcs w, Forall2 attr_src (t_attrs t) srcs /\ allsp w /\ nonsp (t_name t) /\
    t_value t = (cLT :: t_name t) ++ concat srcs ++ w ++ [cGT].
Proof.
  intros H t Ht Hk Hn Hr. destruct (tag_source_shape src toks H t Ht Hk) as [Hs|Hc]; [|contradiction].
  destruct Hs as (l0 & srcs & w & Hl & F & Hw & Hnn & Hv).
  unfold no_synth_else in Hn. rewrite Hl in Hn. apply fix_else_id in Hn. rewrite Hn in Hl.
  exists srcs, w. rewrite Hl. repeat split; assumption.
Qed.

(* in particular every open tag (the clause of C01) *)
Corollary tag_source_shape_open (src : str) (toks : list token) :
  scan src = inl toks ->
  forall t, In t toks -> t_kind t = KTag ->
  prefixb [cSLASH] (t_name t) = false -> no_synth_else attr_prefix t ->
  exists srcs w, Forall2 attr_src (t_attrs t) srcs /\ allsp w /\ nonsp (t_name t) /\
    t_value t = (cLT :: t_name t) ++ concat srcs ++ w ++ [cGT].
Proof.
  intros H t Ht Hk Ho Hn. apply (tag_source_shape_exact src toks H t Ht Hk Hn).
  intros Hc. apply raw_close_like_slash in Hc. rewrite Hc in Ho. discriminate Ho.
Qed.
End P.

Check (tag_source_shape : forall (is_space : rune -> bool) (to_lower : rune -> rune) (text_tags : list str)
    (attr_prefix : str) (compile : attr -> bool), is_space cSP = true ->
  forall (src : str) (toks : list token),
  scan is_space to_lower text_tags attr_prefix compile src = inl toks ->
  forall t, In t toks -> t_kind t = KTag ->
  shaped is_space attr_prefix t \/ raw_close_like is_space to_lower text_tags t).
Check (tag_source_shape_exact : forall (is_space : rune -> bool) (to_lower : rune -> rune) (text_tags : list str)
    (attr_prefix : str) (compile : attr -> bool), is_space cSP = true ->
  forall (src : str) (toks : list token),
  scan is_space to_lower text_tags attr_prefix compile src = inl toks ->
  forall t, In t toks -> t_kind t = KTag ->
  no_synth_else attr_prefix t -> ~ raw_close_like is_space to_lower text_tags t ->
  exists srcs w, Forall2 (attr_src is_space) (t_attrs t) srcs /\ allsp is_space w /\
    ScanAttrPos.nonsp is_space (t_name t) /\
    t_value t = (cLT :: t_name t) ++ concat srcs ++ w ++ [cGT]).
Check (tag_source_shape_open : forall (is_space : rune -> bool) (to_lower : rune -> rune) (text_tags : list str)
    (attr_prefix : str) (compile : attr -> bool), is_space cSP = true ->
  forall (src : str) (toks : list token),
  scan is_space to_lower text_tags attr_prefix compile src = inl toks ->
  forall t, In t toks -> t_kind t = KTag ->
  prefixb [cSLASH] (t_name t) = false -> no_synth_else attr_prefix t ->
  exists srcs w, Forall2 (attr_src is_space) (t_attrs t) srcs /\ allsp is_space w /\
    ScanAttrPos.nonsp is_space (t_name t) /\
    t_value t = (cLT :: t_name t) ++ concat srcs ++ w ++ [cGT]).
Print Assumptions tag_source_shape.
Print Assumptions tag_source_shape_exact.
Print Assumptions tag_source_shape_open.
Print Assumptions shaped_emitted_like.
