(* attr_name_span: the reported name span of every named attribute lies inside its tag's text.

   CAVEAT.  The statement is FALSE for an arbitrary [is_space]: the scanner hard-codes rune 32 as
   the pending-blank marker in [g_aname] ([ends_sp]/[trim_sp]), so if [is_space 32 = false] a
   literal blank is taken as part of the name (advancing [a_nend]) and then trimmed off again.
   See [attr_name_span_needs_space] at the end of the file for the concrete counterexample.
   The theorem is therefore stated (and proved) under the hypothesis [is_space cSP = true]. *)
From Coq Require Import List NArith Bool Lia Arith.
From Tpl Require Import Proofs.ScanSpec Proofs.ScanConcat Proofs.ScanPos.
Import ListNotations.
Open Scope N_scope.

Lemma span_in_app start text e s ps pe :
  span_in start text s ps pe -> span_in start (text ++ e) s ps pe.
Proof.
  intros (pre & post & Ht & Hps & Hpe). exists pre, (post ++ e).
  split; [rewrite Ht, <- !app_assoc; reflexivity|]. split; assumption.
Qed.

Definition attr_ok (start : pos) (text : str) (a : attr) : Prop :=
  a_name a <> [] -> span_in start text (a_name a) (a_nstart a) (a_nend a).
Definition attrs_ok (start : pos) (text : str) (l : list attr) : Prop := Forall (attr_ok start text) l.
Definition tok_ok (t : token) : Prop := attrs_ok (t_start t) (t_value t) (t_attrs t).

Lemma attrs_ok_app start text e l : attrs_ok start text l -> attrs_ok start (text ++ e) l.
Proof.
  unfold attrs_ok. apply Forall_impl. intros a Ha Hne. apply span_in_app. exact (Ha Hne).
Qed.

Section P.
Variable is_space : rune -> bool.
Variable to_lower : rune -> rune.
Variable text_tags : list str.
Variable attr_prefix : str.
Variable compile : attr -> bool.
Hypothesis Hsp : is_space cSP = true.

Notation dispatch := (Scan.dispatch is_space to_lower text_tags attr_prefix compile).
Notation step := (Scan.step is_space to_lower text_tags attr_prefix compile).
Notation tag_step := (Scan.tag_step is_space attr_prefix compile).
Notation text_step := (Scan.text_step is_space to_lower).
Notation scan := (Scan.scan is_space to_lower text_tags attr_prefix compile).
Notation add_attr := (Scan.add_attr attr_prefix compile).
Notation fix_else := (Scan.fix_else attr_prefix).
Notation new_text := (Scan.new_text to_lower text_tags).

(* ---------- the pending attribute name ---------- *)

Definition nonsp (n : str) : Prop := Forall (fun r => is_space r = false) n.

Lemma nonsp_last n : nonsp n -> ends_sp n = false /\ trim_sp n = n.
Proof.
  intros Hn. unfold ends_sp, trim_sp. destruct (rev n) as [|c r'] eqn:Er; [split; reflexivity|].
  assert (Hc : is_space c = false).
  { unfold nonsp in Hn. rewrite Forall_forall in Hn. apply Hn. apply in_rev. rewrite Er. left; reflexivity. }
  destruct (N.eqb c cSP) eqn:Ec; [|split; reflexivity].
  apply N.eqb_eq in Ec. subst c. rewrite Hsp in Hc. discriminate.
Qed.

Lemma sp_last (n : str) : ends_sp (n ++ [cSP]) = true /\ trim_sp (n ++ [cSP]) = n.
Proof.
  unfold ends_sp, trim_sp. rewrite rev_unit, N.eqb_refl. split; [reflexivity|apply rev_involutive].
Qed.

(* buf = pre ++ n ++ ws where n is the name proper (blank-free), located at [ans, ane), and the
   pending g_aname is n or n followed by the blank marker.  In TAttrName (strict) a marker-free
   g_aname means the name is still growing at the end of the buffer. *)
Definition aname_ok (start : pos) (buf : str) (strict : bool) (aname : str) (ans ane : pos) : Prop :=
  exists pre n ws,
    buf = pre ++ n ++ ws /\ ans = pos_after start pre /\ (n <> [] -> ane = pos_after ans n) /\
    nonsp n /\ ((aname = n /\ (strict = true -> ws = [])) \/ aname = n ++ [cSP]).

Lemma aname_trim start buf strict aname ans ane :
  aname_ok start buf strict aname ans ane ->
  exists pre n ws, buf = pre ++ n ++ ws /\ ans = pos_after start pre /\
                   (n <> [] -> ane = pos_after ans n) /\ trim_sp aname = n.
Proof.
  intros (pre & n & ws & Hbuf & Hans & Hane & Hn & Hsh). exists pre, n, ws.
  repeat split; try assumption.
  destruct Hsh as [[-> _] | ->]; [apply nonsp_last; exact Hn|apply sp_last].
Qed.

Lemma aname_attr_span start buf strict aname ans ane e :
  aname_ok start buf strict aname ans ane ->
  trim_sp aname <> [] -> span_in start (buf ++ e) (trim_sp aname) ans ane.
Proof.
  intros Hok Hne. apply aname_trim in Hok as (pre & n & ws & Hbuf & Hans & Hane & Htrim).
  rewrite Htrim in *. exists pre, (ws ++ e).
  split; [rewrite Hbuf, <- !app_assoc; reflexivity|]. split; [exact Hans|exact (Hane Hne)].
Qed.

Lemma aname_weaken start buf strict aname ans ane e :
  aname_ok start buf strict aname ans ane -> aname_ok start (buf ++ e) false aname ans ane.
Proof.
  intros (pre & n & ws & Hbuf & Hans & Hane & Hn & Hsh). exists pre, n, (ws ++ e).
  split; [rewrite Hbuf, <- !app_assoc; reflexivity|]. repeat split; try assumption.
  destruct Hsh as [[Ha _] | Ha]; [left; split; [exact Ha|discriminate]|right; exact Ha].
Qed.

Lemma aname_space start buf aname ans ane r :
  aname_ok start buf true aname ans ane ->
  aname_ok start (buf ++ [r]) true (if ends_sp aname then aname else aname ++ [cSP]) ans ane.
Proof.
  intros (pre & n & ws & Hbuf & Hans & Hane & Hn & Hsh). exists pre, n, (ws ++ [r]).
  split; [rewrite Hbuf, <- !app_assoc; reflexivity|]. repeat split; try assumption.
  right. destruct Hsh as [[-> _] | ->].
  - destruct (nonsp_last n Hn) as [-> _]. reflexivity.
  - destruct (sp_last n) as [-> _]. reflexivity.
Qed.

Lemma aname_append start buf aname ans ane r :
  aname_ok start buf true aname ans ane -> ends_sp aname = false -> is_space r = false ->
  aname_ok start (buf ++ [r]) true (aname ++ [r]) ans (adv (pos_after start buf) r).
Proof.
  intros (pre & n & ws & Hbuf & Hans & Hane & Hn & Hsh) Hends Hr.
  destruct Hsh as [[-> Hws] | ->].
  - rewrite (Hws eq_refl), app_nil_r in Hbuf. exists pre, (n ++ [r]), [].
    split; [rewrite Hbuf, app_nil_r, <- app_assoc; reflexivity|].
    split; [exact Hans|]. split; [|split].
    + intros _. rewrite Hbuf, Hans, pos_after_app, pos_after_snoc. reflexivity.
    + apply Forall_app. split; [exact Hn|]. constructor; [exact Hr|constructor].
    + left. split; [reflexivity|reflexivity].
  - destruct (sp_last n) as [Ht _]. rewrite Ht in Hends. discriminate.
Qed.

Lemma aname_fresh start buf r :
  is_space r = false ->
  aname_ok start (buf ++ [r]) true [r] (pos_after start buf) (adv (pos_after start buf) r).
Proof.
  intros Hr. exists buf, [r], []. split; [rewrite app_nil_r; reflexivity|].
  split; [reflexivity|]. split; [intros _; reflexivity|].
  split; [constructor; [exact Hr|constructor]|]. left. split; reflexivity.
Qed.

Lemma aname_empty start buf ane : aname_ok start buf true [] (pos_after start buf) ane.
Proof.
  exists buf, [], []. split; [rewrite !app_nil_r; reflexivity|].
  split; [reflexivity|]. split; [intros Hne; contradiction Hne; reflexivity|].
  split; [constructor|]. left. split; reflexivity.
Qed.

(* ---------- add_attr ---------- *)

Lemma fix_else_fields a :
  a_name (fix_else a) = a_name a /\ a_nstart (fix_else a) = a_nstart a /\ a_nend (fix_else a) = a_nend a.
Proof.
  unfold Scan.fix_else. destruct (a_value a) as [v|] eqn:Ev; [auto|].
  destruct (str_eqb (a_name a) (else_name attr_prefix)) eqn:Ee; cbn [a_name a_nstart a_nend]; auto.
Qed.

Lemma attrs_ok_cons start text a l :
  attr_ok start text a -> attrs_ok start text l -> attrs_ok start text (fix_else a :: l).
Proof.
  intros Ha Hl. constructor; [|exact Hl]. unfold attr_ok in *.
  destruct (fix_else_fields a) as (-> & -> & ->). exact Ha.
Qed.

Lemma add_attr_fields b a g g' : add_attr b a g = inl g' ->
  g_buf g' = g_buf g /\ g_state g' = g_state g /\ g_start g' = g_start g /\
  g_attrs g' = fix_else a :: g_attrs g.
Proof.
  unfold Scan.add_attr. destruct (b && negb _); [discriminate|].
  destruct (has_attr _ _); [discriminate|]. intros H; inversion H; subst g'; tag_cbn; auto.
Qed.

(* ---------- the invariant: p is the current position ---------- *)

Definition st_ok (g : tagst) : Prop :=
  match g_state g with
  | TAttrName => aname_ok (g_start g) (g_buf g) true (g_aname g) (g_anstart g) (g_anend g)
  | TAttrValue => aname_ok (g_start g) (g_buf g) false (g_aname g) (g_anstart g) (g_anend g)
  | _ => True
  end.

Definition ainv (toks : list token) (m : mode) (p : pos) : Prop :=
  Forall tok_ok toks /\
  match m with
  | MTag g => p = pos_after (g_start g) (g_buf g) /\
              attrs_ok (g_start g) (g_buf g) (g_attrs g) /\ st_ok g
  | _ => True
  end.

Definition rinv (res : tres) (p0 p1 : pos) : Prop :=
  match res with
  | TR toks m false => ainv toks m p1
  | TR toks m true => exists g, m = MTag g /\ g_state g = TAttrName /\ ainv toks m p0
  end.

Lemma tok_ok_noattr k v s e n : tok_ok (mkTok k v s e n []).
Proof. constructor. Qed.

Lemma finish_or_inv toks g r p0 p1 :
  Forall tok_ok toks -> p1 = pos_after (g_start g) (g_buf g) ->
  attrs_ok (g_start g) (g_buf g) (g_attrs g) ->
  N.eqb r cGT = true \/ st_ok g ->
  rinv (finish_or toks g r p1) p0 p1.
Proof.
  intros Htoks Hp1 Hat Hst. unfold finish_or, emit_tag.
  destruct (N.eqb r cGT) eqn:Egt; cbn [rinv]; unfold ainv.
  - split; [|exact I]. constructor; [|exact Htoks].
    unfold tok_ok; cbn [t_start t_value t_attrs]. apply Forall_rev. exact Hat.
  - destruct Hst as [Hst|Hst]; [discriminate|]. repeat split; assumption.
Qed.

Ltac add_attr_inv Ea :=
  apply add_attr_fields in Ea as (Eb & Es & Est' & Eat);
  tag_cbn_in Eb; tag_cbn_in Es; tag_cbn_in Est'; tag_cbn_in Eat.

Lemma tag_step_inv toks g r p0 p1 :
  Forall tok_ok toks -> p0 = pos_after (g_start g) (g_buf g) -> p1 = adv p0 r ->
  attrs_ok (g_start g) (g_buf g) (g_attrs g) -> st_ok g ->
  rinv (tag_step toks g r p0 p1) p0 p1.
Proof.
  intros Htoks Hp0 Hp1 Hat Han. unfold Scan.tag_step.
  assert (Hp1' : p1 = pos_after (g_start g) (g_buf g ++ [r])) by (rewrite pos_after_snoc, <- Hp0; exact Hp1).
  assert (Hat' : attrs_ok (g_start g) (g_buf g ++ [r]) (g_attrs g)) by (apply attrs_ok_app; exact Hat).
  assert (Herr : forall e, ainv toks (MErr e) p1) by (intros e; exact (conj Htoks I)).
  unfold st_ok in Han.
  destruct (g_state g) eqn:Est; tag_cbn.
  - (* TName *)
    destruct (N.eqb r cGT) eqn:Egt.
    + apply finish_or_inv; tag_cbn; [exact Htoks|exact Hp1'|exact Hat'|left; exact Egt].
    + destruct (is_space r) eqn:Esp.
      * cbn [rinv]; unfold ainv; tag_cbn. repeat split; assumption.
      * apply finish_or_inv; tag_cbn; [exact Htoks|exact Hp1'|exact Hat'|right].
        unfold st_ok; tag_cbn.
        destruct (str_eqb (g_name g ++ [r]) sBANGDD) eqn:E1; [exact I|].
        destruct (str_eqb (g_name g ++ [r]) sCDATA) eqn:E2; exact I.
  - (* TCData *)
    destruct (suffixb sRRGT (g_cdata g ++ [r])) eqn:E; cbn [rinv]; unfold ainv.
    + split; [|exact I]. constructor; [apply tok_ok_noattr|exact Htoks].
    + tag_cbn. repeat split; assumption.
  - (* TComment *)
    set (ct := g_comment g ++ [r]).
    destruct (suffixb sDDGT ct) eqn:E.
    + destruct (prefixb [cGT] _ || prefixb [cDASH; cGT] _) eqn:Ebad; [apply Herr|].
      destruct (containsb sLTBDD _ || containsb sDDGT _ || containsb sDDBGT _) eqn:Ebad2; [apply Herr|].
      destruct (suffixb sLTBD _) eqn:Ebad3; [apply Herr|].
      cbn [rinv]; unfold ainv. split; [|exact I]. constructor; [apply tok_ok_noattr|exact Htoks].
    + destruct (prefixb [cGT] _ || prefixb [cDASH; cGT] _) eqn:Ebad; [apply Herr|].
      cbn [rinv]; unfold ainv; tag_cbn. repeat split; assumption.
  - (* TSpace *)
    destruct (N.eqb r cGT) eqn:Egt.
    + apply finish_or_inv; tag_cbn; [exact Htoks|exact Hp1'|exact Hat'|left; exact Egt].
    + destruct (is_space r) eqn:Esp; cbn [rinv].
      * unfold ainv; tag_cbn. repeat split; assumption.
      * eexists; split; [reflexivity|]. tag_cbn. split; [reflexivity|].
        unfold ainv; tag_cbn. split; [exact Htoks|]. split; [exact Hp0|]. split; [exact Hat|].
        unfold st_ok; tag_cbn. rewrite Hp0. apply aname_empty.
  - (* TAttrName *)
    destruct (is_space r) eqn:Esp.
    { cbn [rinv]; unfold ainv; tag_cbn. split; [exact Htoks|]. split; [exact Hp1'|]. split; [exact Hat'|].
      unfold st_ok; tag_cbn. apply aname_space. exact Han. }
    destruct (N.eqb r cGT) eqn:Egt.
    + destruct (add_attr _ _ _) as [g'|e] eqn:Ea; [|apply Herr].
      add_attr_inv Ea.
      apply finish_or_inv; [exact Htoks|rewrite Est', Eb; exact Hp1'| |left; exact Egt].
      rewrite Est', Eb, Eat. apply attrs_ok_cons; [|exact Hat'].
      unfold attr_ok; cbn [a_name a_nstart a_nend]. apply aname_attr_span with (strict := true). exact Han.
    + destruct (N.eqb r cEQ) eqn:Eeq.
      { cbn [rinv]; unfold ainv; tag_cbn. split; [exact Htoks|]. split; [exact Hp1'|]. split; [exact Hat'|].
        unfold st_ok; tag_cbn. apply aname_weaken with (strict := true). exact Han. }
      destruct (ends_sp (g_aname g)) eqn:Eends.
      * destruct (add_attr _ _ _) as [g'|e] eqn:Ea; [|apply Herr].
        add_attr_inv Ea.
        cbn [rinv]; unfold ainv; tag_cbn. rewrite Est', Eb, Eat.
        split; [exact Htoks|]. split; [exact Hp1'|]. split.
        -- apply attrs_ok_cons; [|exact Hat'].
           unfold attr_ok; cbn [a_name a_nstart a_nend]. apply aname_attr_span with (strict := true). exact Han.
        -- unfold st_ok; tag_cbn. rewrite ?Est', ?Eb, Hp1, Hp0. apply aname_fresh. exact Esp.
      * cbn [rinv]; unfold ainv; tag_cbn. split; [exact Htoks|]. split; [exact Hp1'|]. split; [exact Hat'|].
        unfold st_ok; tag_cbn. rewrite Hp1, Hp0. apply aname_append with (ane := g_anend g); assumption.
  - (* TAttrValue *)
    assert (Han' : aname_ok (g_start g) (g_buf g ++ [r]) false (g_aname g) (g_anstart g) (g_anend g))
      by (apply aname_weaken with (strict := false); exact Han).
    destruct (g_aval g) as [|f av] eqn:Eav.
    + destruct (is_space r) eqn:Esp.
      { cbn [rinv]; unfold ainv; tag_cbn. repeat split; assumption. }
      destruct (N.eqb r cGT) eqn:Egt.
      * destruct (add_attr _ _ _) as [g'|e] eqn:Ea; [|apply Herr].
        add_attr_inv Ea.
        apply finish_or_inv; [exact Htoks|rewrite Est', Eb; exact Hp1'| |left; exact Egt].
        rewrite Est', Eb, Eat. apply attrs_ok_cons; [|exact Hat'].
        unfold attr_ok; cbn [a_name a_nstart a_nend]. apply aname_attr_span with (strict := false). exact Han.
      * cbn [rinv]; unfold ainv; tag_cbn. repeat split; assumption.
    + destruct ((N.eqb f cDQ || N.eqb f cSQ) && N.eqb f r
                || negb (N.eqb f cDQ || N.eqb f cSQ) && (is_space r || N.eqb r cGT)) eqn:Efin.
      * destruct (add_attr _ _ _) as [g'|e] eqn:Ea; [|apply Herr].
        add_attr_inv Ea.
        apply finish_or_inv; tag_cbn; [exact Htoks|rewrite Est', Eb; exact Hp1'| |right; exact I].
        rewrite Est', Eb, Eat. apply attrs_ok_cons; [|exact Hat'].
        unfold attr_ok; cbn [a_name a_nstart a_nend]. apply aname_attr_span with (strict := false). exact Han.
      * destruct (N.eqb f cDQ || N.eqb f cSQ) eqn:Eq.
        -- cbn [rinv]; unfold ainv; tag_cbn. repeat split; assumption.
        -- apply finish_or_inv; tag_cbn; [exact Htoks|exact Hp1'|exact Hat'|right; exact Han'].
Qed.

Lemma new_tag_inv toks p0 p1 :
  Forall tok_ok toks -> p1 = adv p0 cLT -> ainv toks (MTag (new_tag p0)) p1.
Proof.
  intros Htoks Hp1. unfold ainv, new_tag; tag_cbn. split; [exact Htoks|].
  split; [exact Hp1|]. split; [constructor|exact I].
Qed.

Lemma text_step_inv toks x r p0 p1 :
  Forall tok_ok toks -> p1 = adv p0 r -> rinv (text_step toks x r p0 p1) p0 p1.
Proof.
  intros Htoks Hp1. unfold Scan.text_step.
  assert (Hnone : forall x', ainv toks (MText x') p1) by (intros x'; exact (conj Htoks I)).
  destruct (x_raw x) eqn:Er.
  - destruct (N.eqb r cLT) eqn:Elt.
    + cbn [negb]. destruct (prefixb _ _) eqn:Ecl; [|apply Hnone].
      destruct (N.eqb r cGT) eqn:Egt; [|apply Hnone].
      destruct (firstn _ _); cbn [rinv]; unfold ainv; (split; [|exact I]);
        repeat (constructor; [apply tok_ok_noattr|]); exact Htoks.
    + destruct (x_tagbuf x) as [|t0 tb] eqn:Etb; cbn [negb]; [apply Hnone|].
      destruct (prefixb _ _) eqn:Ecl; [|apply Hnone].
      destruct (N.eqb r cGT) eqn:Egt; [|apply Hnone].
      destruct (firstn _ _); cbn [rinv]; unfold ainv; (split; [|exact I]);
        repeat (constructor; [apply tok_ok_noattr|]); exact Htoks.
  - destruct (N.eqb r cLT) eqn:Elt; [|apply Hnone].
    apply N.eqb_eq in Elt; subst r. cbn [rinv]. apply new_tag_inv; [|exact Hp1].
    constructor; [apply tok_ok_noattr|exact Htoks].
Qed.

Lemma dispatch_inv toks m r p0 p1 :
  ainv toks m p0 -> p1 = adv p0 r -> rinv (dispatch toks m r p0 p1) p0 p1.
Proof.
  intros [Htoks H] Hp1. destruct m as [|x|g|e]; cbn [Scan.dispatch].
  - destruct (raw_tag_of_last _ _ _) as [n|]; [apply text_step_inv; assumption|].
    destruct (N.eqb r cLT) eqn:Elt.
    + apply N.eqb_eq in Elt; subst r. cbn [rinv]. apply new_tag_inv; assumption.
    + apply text_step_inv; assumption.
  - apply text_step_inv; assumption.
  - destruct H as (H1 & H2 & H3). apply tag_step_inv; assumption.
  - exact (conj Htoks I).
Qed.

Definition sinv (s : sstate) : Prop := ainv (s_toks s) (s_mode s) (s_pos s).

Lemma step_inv s r : sinv s -> sinv (step s r).
Proof.
  unfold sinv. intros H. unfold Scan.step.
  pose proof (dispatch_inv (s_toks s) (s_mode s) r (s_pos s) (adv (s_pos s) r) H eq_refl) as D.
  destruct (dispatch _ _ _ _ _) as [toks m [|]] eqn:E1; cbn [rinv] in D.
  - destruct D as (g & -> & Hst & M).
    pose proof (dispatch_inv toks (MTag g) r (s_pos s) (adv (s_pos s) r) M eq_refl) as D2.
    destruct (dispatch toks (MTag g) _ _ _) as [toks' m' u] eqn:E2.
    cbn [Scan.dispatch] in E2. apply attrname_no_unread in E2; [|exact Hst]. subst u.
    cbn [s_pos s_toks s_mode]. exact D2.
  - cbn [s_pos s_toks s_mode]. exact D.
Qed.

Lemma fold_inv src : forall s, sinv s -> sinv (fold_left step src s).
Proof.
  induction src as [|r src IH]; intros s H; cbn [fold_left]; [exact H|].
  apply IH. apply step_inv; exact H.
Qed.

Lemma scan_toks_ok src toks : scan src = inl toks -> Forall tok_ok toks.
Proof.
  unfold Scan.scan, finish. intros H.
  assert (I0 : sinv init) by (split; [constructor|exact I]).
  assert (Hall : forall l : list token, @inl _ serr (rev l) = inl toks -> Forall tok_ok l -> Forall tok_ok toks).
  { intros l E Hl. injection E as <-. apply Forall_rev. exact Hl. }
  pose proof (fold_inv src init I0) as [F _].
  destruct (s_mode (fold_left step src init)) as [|x|g|e] eqn:Em.
  - apply (Hall _ H). exact F.
  - apply (Hall _ H). constructor; [apply tok_ok_noattr|exact F].
  - discriminate.
  - discriminate.
Qed.

Theorem attr_name_span (src : str) (toks : list token) :
  scan src = inl toks ->
  forall t a, In t toks -> In a (t_attrs t) -> a_name a <> [] ->
  span_in (t_start t) (t_value t) (a_name a) (a_nstart a) (a_nend a).
Proof.
  intros H t a Ht Ha Hne. apply scan_toks_ok in H.
  rewrite Forall_forall in H. specialize (H t Ht). unfold tok_ok, attrs_ok in H.
  rewrite Forall_forall in H. exact (H a Ha Hne).
Qed.
End P.

Check (attr_name_span : forall (is_space : rune -> bool) (to_lower : rune -> rune) (text_tags : list str)
    (attr_prefix : str) (compile : attr -> bool), is_space cSP = true ->
  forall (src : str) (toks : list token),
  scan is_space to_lower text_tags attr_prefix compile src = inl toks ->
  forall t a, In t toks -> In a (t_attrs t) -> a_name a <> [] ->
  span_in (t_start t) (t_value t) (a_name a) (a_nstart a) (a_nend a)).
Print Assumptions attr_name_span.

(* ---------- the hypothesis [is_space cSP = true] is necessary ---------- *)
(* With only newline as white space, source "<p\na =x>" (a literal blank before '=') yields the
   attribute a with a_nstart = (2,1) and a_nend = (2,3), but pos_after (2,1) "a" = (2,2). *)
Definition cex_space (r : rune) : bool := N.eqb r cNL.
Definition cex_src : str := [60; 112; 10; 97; 32; 61; 120; 62].

Lemma attr_name_span_needs_space :
  exists toks t a,
    scan cex_space (fun r => r) [] [] (fun _ => true) cex_src = inl toks /\
    In t toks /\ In a (t_attrs t) /\ a_name a <> [] /\
    ~ span_in (t_start t) (t_value t) (a_name a) (a_nstart a) (a_nend a).
Proof.
  eexists; eexists; eexists. split; [vm_compute; reflexivity|].
  split; [left; reflexivity|]. split; [left; reflexivity|].
  split; [discriminate|].
  intros (pre & post & _ & Hps & Hpe). cbn [a_name a_nstart a_nend] in Hps, Hpe.
  vm_compute in Hpe. discriminate.
Qed.
Print Assumptions attr_name_span_needs_space.
