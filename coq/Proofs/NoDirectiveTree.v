(* C05, last clause, at the level of a whole render: EVERYTHING the renderer writes (also the partial
   output of a failing render) is a concatenation of pieces each of which is

     E_tok    the text of a text / CDATA / NOT hidden comment node of the source forest
              (this includes the blank text that separates the instances of a :range element);
     E_open   buf ++ ">"  with  tag_shape tok buf  for a tag node that is NOT a block tag: "<" name, then for
              some attributes of the token  print_attr a  (a plain) or  ' ' cmd '="' escape v '"'  (a = prefix++cmd
              dynamic, cmd not a directive name)  -- NoDirectiveOut.tag_shape;
     E_end    the end token of a tag node that is not a block tag;
     E_text   escape v  for an element of the forest that carries prefix++"text", v a value the evaluator
              returned for that attribute;
     E_raw    v  likewise for prefix++"raw".

   Hence: no hidden comment, no open or end tag of a block tag, and no attribute other than the ones allowed by
   tag_shape is ever written (exec_node_emitted, execute_emitted).  The source forest [K] is any set of nodes
   closed under children and containing the fragments of the manager; [reach] is the least such set. *)
From Tpl Require Import Html.Exec Proofs.ExecSpec Proofs.ChainProps Proofs.EmitProps Proofs.RenderPlain Proofs.NoDirectiveOut.
From Coq Require Import Lia.
Open Scope N_scope.

Definition out (x : R) : str := let '(o, _, _, _) := x in o.

Section Tree.
Variable is_space : rune -> bool.
Variable to_lower : rune -> rune.
Variable is_letter : rune -> bool.
Variable is_udigit : rune -> bool.
Variable methods : N -> bool -> list (str * N).
Variable call_fn : N -> list value -> fres.
Variable mgr : manager.
Notation pfx := (m_attr_prefix mgr).
Notation aeval := (attr_evaluate is_letter is_udigit methods call_fn mgr).
Notation enode := (exec_node is_space to_lower is_letter is_udigit methods call_fn mgr).
Notation ebody := (exec_body is_space to_lower is_letter is_udigit methods call_fn mgr).
Notation rattrs := (run_attrs is_space is_letter is_udigit methods call_fn mgr).
Notation rchild := (run_child is_space is_letter is_udigit methods call_fn mgr).
Notation ilstate := (init_lstate to_lower mgr).
Notation is_block := (is_block_tag to_lower mgr).

Section Forest.
Variable K : node -> Prop.

Inductive emitted : str -> Prop :=
| E_nil : emitted []
| E_app : forall x y, emitted x -> emitted y -> emitted (x ++ y)
| E_tok : forall n tok, K n -> n_tok n = Some tok -> t_kind tok <> KTag ->
    (t_kind tok = KComment -> is_hidden_comment is_space (t_value tok) = false) -> emitted (t_value tok)
| E_open : forall n tok buf, K n -> n_tok n = Some tok -> t_kind tok = KTag -> is_block tok = false ->
    tag_shape mgr tok buf -> emitted (buf ++ [cGT])
| E_end : forall n tok e, K n -> n_tok n = Some tok -> t_kind tok = KTag -> is_block tok = false ->
    n_end n = Some e -> emitted (t_value e)
| E_text : forall n tok a v, K n -> n_tok n = Some tok -> t_kind tok = KTag -> In a (t_attrs tok) ->
    a_name a = pfx ++ d_text -> (exists sc lg lg', aeval a sc lg = (AOk v, lg')) -> emitted (escape v)
| E_raw : forall n tok a v, K n -> n_tok n = Some tok -> t_kind tok = KTag -> In a (t_attrs tok) ->
    a_name a = pfx ++ d_raw -> (exists sc lg lg', aeval a sc lg = (AOk v, lg')) -> emitted v.

Hypothesis K_child : forall n c, K n -> In c (n_children n) -> K c.
Hypothesis K_tpl : forall name tp c, assoc name (m_templates mgr) = Some tp ->
  In c (tp_children tp) \/ In c (tp_ctx tp) -> K c.

(* ---------- outputs of the combinators ---------- *)
Lemma out_wr : forall top s t st, emitted s -> emitted (out (wr top s t st)).
Proof.
  intros top s t st Hs. unfold wr, write. destruct top; [|exact Hs].
  destruct (r_budget st) as [[|k]|]; cbn [out]; [constructor|exact Hs|exact Hs].
Qed.

Lemma out_seq2 : forall (a : R) (f : tbl -> rst -> R),
  emitted (out a) -> (forall t st, emitted (out (f t st))) -> emitted (out (seq2 a f)).
Proof.
  intros [[[o1 r1] t1] s1] f Ha Hf. cbn [out] in Ha. destruct r1; cbn [seq2 out]; try exact Ha.
  specialize (Hf t1 s1). destruct (f t1 s1) as [[[o2 r2] t2] s2]. cbn [out] in *. constructor; assumption.
Qed.

Section Step.
Variable exec : N -> list node -> node -> scope -> bool -> tbl -> rst -> R.
Hypothesis IH : forall mask ctx n sc top t st, K n -> (forall c, In c ctx -> K c) ->
  emitted (out (exec mask ctx n sc top t st)).

Lemma out_exec_list : forall ctx l sc top, (forall c, In c ctx -> K c) -> (forall c, In c l -> K c) ->
  forall t st, emitted (out (exec_list exec ctx l sc top t st)).
Proof.
  intros ctx l sc top Hctx. induction l as [|c r IHl]; intros Hl t st; cbn [exec_list].
  - constructor.
  - apply out_seq2.
    + apply IH; [apply Hl; left; reflexivity|exact Hctx].
    + intros t2 st2. apply IHl. intros x Hx. apply Hl. right. exact Hx.
Qed.

Lemma next_sibling_in : forall ctx id x, next_sibling ctx id = Some x -> In x ctx.
Proof.
  induction ctx as [|c r IHc]; intros id x H; cbn [next_sibling] in H; [discriminate H|].
  destruct (N.eqb (n_id c) id).
  - destruct r as [|y r']; [discriminate H|]. injection H as H. subst y. right. left. reflexivity.
  - right. exact (IHc id x H).
Qed.

Lemma nested_emitted : forall ctx n o, K n -> (forall c, In c ctx -> K c) ->
  nested is_space mgr exec ctx n o -> emitted o.
Proof.
  intros ctx n o Hn Hctx H. induction H as [|x y _ IHx _ IHy|m sc t st o t' st' _ He|x Hx Hb|name tp sc st o st' Ha Hr].
  - constructor.
  - constructor; assumption.
  - pose proof (IH m ctx n sc false t st Hn Hctx) as G. rewrite He in G. exact G.
  - pose proof (Hctx x (next_sibling_in _ _ _ Hx)) as Kx. unfold is_blank_text in Hb.
    destruct (n_tok x) as [tk|] eqn:Etk; [|discriminate Hb].
    destruct (t_kind tk) eqn:Ek; try discriminate Hb.
    apply (E_tok x tk Kx Etk); rewrite Ek; discriminate.
  - unfold run_template in Hr.
    pose proof (out_exec_list (tp_ctx tp) (tp_children tp) sc false
                  (fun c Hc => K_tpl name tp c Ha (or_intror Hc)) (fun c Hc => K_tpl name tp c Ha (or_introl Hc)) [] st) as G.
    destruct (exec_list exec (tp_ctx tp) (tp_children tp) sc false [] st) as [[[o1 r1] t1] s1].
    injection Hr as Ho _ _. subst o1. exact G.
Qed.

(* one node, given the claim for the nested renders *)
Lemma exec_body_emitted : forall mask ctx n sc top t st, K n -> (forall c, In c ctx -> K c) ->
  emitted (out (ebody exec mask ctx n sc top t st)).
Proof.
  intros mask ctx n sc top t st Hn Hctx.
  assert (Hch : forall c, In c (n_children n) -> K c) by (intros c Hc; exact (K_child n c Hn Hc)).
  destruct (n_tok n) as [tok|] eqn:Etok.
  2:{ unfold exec_body. rewrite Etok. apply out_seq2; [apply out_wr; constructor|].
      intros t2 st2. apply out_exec_list; assumption. }
  destruct (t_kind tok) eqn:Ek.
  - (* a tag *)
    pose proof (open_tag_written_shape is_space to_lower is_letter is_udigit methods call_fn mgr exec
                  mask ctx n tok sc top t st Etok Ek) as H.
    destruct (rattrs exec mask ctx n (t_attrs tok) (sorted_attrs pfx (t_attrs tok)) (ilstate mask tok sc) t st)
      as [[[ls|r] t'] st'] eqn:E.
    2:{ rewrite H. constructor. }
    destruct H as [Hfin Hb]. rewrite Hb. clear Hb.
    assert (Hblk : l_np ls = false -> is_block tok = false).
    { intros Hnp. destruct (is_block tok) eqn:Eb; [|reflexivity].
      pose proof (fs_np _ _ _ _ _ _ _ _ _ _ _ _ _ _ Hfin
                    (block_tag_np to_lower mgr mask tok sc Eb)) as Hc.
      rewrite Hc in Hnp. discriminate Hnp. }
    apply out_seq2; [apply out_wr|intros t2 st2; apply out_seq2].
    + (* the single Write: nested renders, own open tag, nested fragments *)
      constructor; [exact (nested_emitted ctx n _ Hn Hctx (fs_direct _ _ _ _ _ _ _ _ _ _ _ _ _ _ Hfin))|].
      unfold own_open. destruct (l_np ls) eqn:Enp; [constructor; constructor|].
      constructor.
      * exact (E_open n tok _ Hn Etok Ek (Hblk eq_refl) (fs_shape _ _ _ _ _ _ _ _ _ _ _ _ _ _ Hfin)).
      * exact (nested_emitted ctx n _ Hn Hctx (fs_content _ _ _ _ _ _ _ _ _ _ _ _ _ _ Hfin)).
    + (* the children part *)
      destruct (run_child_cases is_space is_letter is_udigit methods call_fn mgr exec n ls top t2 st2)
        as [Hc|[[sel [csc [Hsel Hc]]]|[[a [esc [v [lg (Hcl & Hev & Hc)]]]]|[r [lg [_ Hc]]]]]]; rewrite Hc.
      * constructor.
      * apply out_exec_list; [exact Hch|]. intros c Hin. apply Hch. apply Hsel. exact Hin.
      * pose proof (fs_child _ _ _ _ _ _ _ _ _ _ _ _ _ _ Hfin) as Hok. rewrite Hcl in Hok.
        cbn [child_ok] in Hok. destruct Hok as [Hin Hname].
        apply out_wr. destruct esc.
        -- exact (E_text n tok a v Hn Etok Ek Hin Hname (ex_intro _ _ (ex_intro _ _ (ex_intro _ _ Hev)))).
        -- exact (E_raw n tok a v Hn Etok Ek Hin Hname (ex_intro _ _ (ex_intro _ _ (ex_intro _ _ Hev)))).
      * constructor.
    + (* the end token *)
      intros t3 st3. unfold own_end. destruct (n_end n) as [e|] eqn:Ee; [|constructor].
      destruct (l_np ls) eqn:Enp; [constructor|].
      apply out_wr. exact (E_end n tok e Hn Etok Ek (Hblk eq_refl) Ee).
  - unfold exec_body. rewrite Etok, Ek. apply out_wr. apply (E_tok n tok Hn Etok); rewrite Ek; discriminate.
  - unfold exec_body. rewrite Etok, Ek.
    destruct (is_hidden_comment is_space (t_value tok)) eqn:Eh; apply out_wr; [constructor|].
    apply (E_tok n tok Hn Etok); [rewrite Ek; discriminate|intros _; exact Eh].
  - unfold exec_body. rewrite Etok, Ek. apply out_wr. apply (E_tok n tok Hn Etok); rewrite Ek; discriminate.
Qed.
End Step.

(* ---------- the renderer ---------- *)
Theorem exec_node_emitted : forall fuel mask ctx n sc top t st, K n -> (forall c, In c ctx -> K c) ->
  emitted (out (enode fuel mask ctx n sc top t st)).
Proof.
  induction fuel as [|f IHf]; intros mask ctx n sc top t st Hn Hctx; cbn [exec_node].
  - constructor.
  - apply exec_body_emitted; [exact IHf|exact Hn|exact Hctx].
Qed.

Corollary exec_node_output : forall fuel mask ctx n sc top t st o r t' st', K n -> (forall c, In c ctx -> K c) ->
  enode fuel mask ctx n sc top t st = (o, r, t', st') -> emitted o.
Proof.
  intros fuel mask ctx n sc top t st o r t' st' Hn Hctx H.
  pose proof (exec_node_emitted fuel mask ctx n sc top t st Hn Hctx) as G. rewrite H in G. exact G.
Qed.

(* htmlTemplate.Execute *)
Theorem execute_emitted : forall fuel tp data t st,
  (forall c, In c (tp_children tp) -> K c) -> (forall c, In c (tp_ctx tp) -> K c) ->
  emitted (out (execute is_space to_lower is_letter is_udigit methods call_fn mgr fuel tp data t st)).
Proof.
  intros fuel tp data t st Hc Hx. unfold execute. cbv zeta. destruct fuel as [|f]; cbn [exec_node]; [constructor|].
  unfold exec_body. cbn [n_tok n_children]. apply out_seq2; [apply out_wr; constructor|].
  intros t2 st2. apply out_exec_list; [|exact Hx|exact Hc].
  intros mask ctx n sc top t3 st3 Hn Hctx. apply exec_node_emitted; assumption.
Qed.
End Forest.

(* the least forest: the nodes of the rendered template and of the manager's fragments *)
Inductive reach (roots : list node) : node -> Prop :=
| R_root : forall c, In c roots -> reach roots c
| R_child : forall n c, reach roots n -> In c (n_children n) -> reach roots c
| R_tpl : forall name tp c, assoc name (m_templates mgr) = Some tp ->
    In c (tp_children tp) \/ In c (tp_ctx tp) -> reach roots c.

Theorem execute_output : forall fuel tp data t st o r t' st',
  execute is_space to_lower is_letter is_udigit methods call_fn mgr fuel tp data t st = (o, r, t', st') ->
  emitted (reach (tp_children tp ++ tp_ctx tp)) o.
Proof.
  intros fuel tp data t st o r t' st' H.
  pose proof (execute_emitted (reach (tp_children tp ++ tp_ctx tp)) (R_child _) (R_tpl _) fuel tp data t st) as G.
  rewrite H in G. apply G; intros c Hc; apply R_root; apply in_or_app; [left|right]; exact Hc.
Qed.
End Tree.

Print Assumptions exec_node_emitted.
Print Assumptions execute_output.
