(* C05 / C12, END TO END, from SOURCE TEXT to OUTPUT TEXT, FOR ALL DATA (continuation of Proofs/EndToEndDirectives.v: the
   same concrete ASCII tables bx_*, default raw-text tags and void elements, attribute prefix a colon, tag prefix t colon).
   Q below stands for the double quote.

   (A) WRITTEN ORDER OF THE ATTRIBUTES (C05)
         src_o1  <ul><li :with=Qw := ${p}Q :if=Q${c}Q :range=Qi, x : xsQ :title=Q${w}Q :text=Q${x}Q>y</li></ul>
         src_o2  <ul><li :range=Qi, x : xsQ :title=Q${w}Q :if=Q${c}Q :text=Q${x}Q :with=Qw := ${p}Q>y</li></ul>
       e2e_written_order_irrelevant: both load, and for EVERY manager with these prefixes (any registered templates, any
       global scope), EVERY data value, fuel, condition table and state the two loaded templates give the same
       (output, result, table, state).
       The two loaded trees are NOT related by OrderIrrelevant.reorder_eq: every attribute records the positions of its
       name and value, and the token of the tag records the raw text of the tag.  The proof goes through a middle tree
       (the tree of src_o1 with the attribute records of the li permuted into the order of src_o2):
         tree 1  -- reorder_eq (OrderIrrelevant.execute_order_irrelevant) --  middle
         middle  -- pos_eq     (PosIrrelevant.execute_pos_irrelevant)     --  tree 2
       (title and text have the same sort key: their relative order is kept, as reorder_eq requires.)
   (B) REMOVE MODES (C05)   <div :remove=QMODEQ> <b>1</b> <i>2</i> </div>!    for every data value
         all            !
         body           <div></div>!
         tag            BLANK<b>1</b> <i>2</i> !
         all-but-first  <div> <b>1</b> </div>!
       The value of the attribute INCLUDES its quotes: the model (as the Go code) compares it with QallQ and 'all';
       a mode written with single quotes INSIDE the double quotes is no mode at all (remove_quoted_twice_is_no_mode).
   (C) FAILURE PREFIX (C12)   <p>a</p><p :text=Q${s}Q>x</p><p :text=Q${zz}Q>y</p><p>b</p>
         e2e_failure_prefix            data binds s only: output <p>a</p><p> ++ escape s ++ </p><p> , no-such-value error
         e2e_failure_full              data binds s and zz: the whole page
         e2e_failure_output_is_prefix  the failing output is a prefix of the full one (and <p>b</p> is not printed)
   (D) BLOCK AND HIDDEN COMMENT (C05)   <t:block :if=Q${c}Q>A<b>B</b></t:block><!-- /+ hidden +/ -->C<!-- shown -->
         (the plus signs stand for stars) c a boolean: the children of the block or nothing, never its tags; the hidden
         comment is never printed; the ordinary comment is printed as written.
   No axiom of its own. *)
From Coq Require Import List NArith ZArith Bool Lia Arith String Ascii Permutation.
From Tpl Require Import Html.Exec Html.Manager Gen.Facts Proofs.ExecSpec Proofs.SortProps Proofs.FuelMono
  Proofs.ReadbackExample Proofs.EndToEnd Proofs.EndToEndDirectives Proofs.OrderIrrelevant Proofs.PosIrrelevant.
Import ListNotations.
Open Scope N_scope.

(* ------------------------------------------------------------------------------------------ *)
(* A. THE WRITTEN ORDER OF THE ATTRIBUTES                                                       *)
(* ------------------------------------------------------------------------------------------ *)
Definition src_o1 : str :=
  s2l "<ul><li :with=""w := ${p}"" :if=""${c}"" :range=""i, x : xs"" :title=""${w}"" :text=""${x}"">y</li></ul>".
Definition src_o2 : str :=
  s2l "<ul><li :range=""i, x : xs"" :title=""${w}"" :if=""${c}"" :text=""${x}"" :with=""w := ${p}"">y</li></ul>".
Definition root_o1 : node := Eval vm_compute in match bx_load src_o1 with inl r => r | inr _ => no_root end.
Definition root_o2 : node := Eval vm_compute in match bx_load src_o2 with inl r => r | inr _ => no_root end.
Lemma o1_loads : bx_load src_o1 = inl root_o1.
Proof. vm_compute. reflexivity. Qed.
Lemma o2_loads : bx_load src_o2 = inl root_o2.
Proof. vm_compute. reflexivity. Qed.

(* any manager with the two prefixes of the tables *)
Definition mgr_of (tps : list (str * template)) (gl : scope) : manager := mkM [116; 58] [58] tps gl.

Definition ul_o1 : node := Eval vm_compute in nth_child 0 root_o1.
Definition li_o1 : node := Eval vm_compute in nth_child 0 ul_o1.
Definition tok_o1 : token := Eval vm_compute in tok_or li_o1.
Definition a_with : attr := Eval vm_compute in nth 0 (t_attrs tok_o1) no_attr.
Definition a_if1 : attr := Eval vm_compute in nth 1 (t_attrs tok_o1) no_attr.
Definition a_rng : attr := Eval vm_compute in nth 2 (t_attrs tok_o1) no_attr.
Definition a_title : attr := Eval vm_compute in nth 3 (t_attrs tok_o1) no_attr.
Definition a_txt : attr := Eval vm_compute in nth 4 (t_attrs tok_o1) no_attr.
Definition attrs_o1 : list attr := [a_with; a_if1; a_rng; a_title; a_txt].
Definition attrs_mid : list attr := [a_rng; a_title; a_if1; a_txt; a_with].
Definition tok_with (tk : token) (l : list attr) : token := mkTok (t_kind tk) (t_value tk) (t_start tk) (t_end tk) (t_name tk) l.
Definition li_mid : node := Node (n_id li_o1) (Some (tok_with tok_o1 attrs_mid)) (n_children li_o1) (n_end li_o1).
Definition ul_mid : node := Node (n_id ul_o1) (n_tok ul_o1) [li_mid] (n_end ul_o1).
Definition root_mid : node := Node 0 None [ul_mid] None.

Lemma o1_shape : n_children root_o1 = [Node (n_id ul_o1) (n_tok ul_o1)
                   [Node (n_id li_o1) (Some (tok_with tok_o1 attrs_o1)) (n_children li_o1) (n_end li_o1)] (n_end ul_o1)].
Proof. vm_compute. reflexivity. Qed.

(* the sort keys: with, the conditions, range, then everything else that is prefixed *)
Lemma o_keys : forall tps gl,
  sort_key (mgr_of tps gl) a_with = (-14)%Z /\ sort_key (mgr_of tps gl) a_if1 = (-13)%Z /\
  sort_key (mgr_of tps gl) a_rng = (-12)%Z /\ sort_key (mgr_of tps gl) a_title = (-10)%Z /\
  sort_key (mgr_of tps gl) a_txt = (-10)%Z.
Proof. intros tps gl. vm_compute. repeat split; reflexivity. Qed.

Lemma o_attrs_reorder : forall tps gl, attrs_reorder (mgr_of tps gl) attrs_o1 attrs_mid.
Proof.
  intros tps gl. right. split; [|split].
  - intros a Hin Hp. unfold attrs_o1 in Hin. cbn [In] in Hin.
    destruct Hin as [E|[E|[E|[E|[E|E]]]]]; try contradiction; subst a; vm_compute in Hp; discriminate Hp.
  - unfold attrs_o1, attrs_mid.
    change (Permutation (a_with :: [a_if1; a_rng; a_title; a_txt]) ([a_rng; a_title; a_if1; a_txt] ++ a_with :: [])).
    apply Permutation_cons_app. cbn [app].
    change (Permutation (a_if1 :: [a_rng; a_title; a_txt]) ([a_rng; a_title] ++ a_if1 :: [a_txt])).
    apply Permutation_cons_app. apply Permutation_refl.
  - intros k. destruct (o_keys tps gl) as (K1 & K2 & K3 & K4 & K5).
    unfold attrs_o1, attrs_mid. cbn [filter]. rewrite K1, K2, K3, K4, K5.
    destruct (Z.eqb_spec (-14) k) as [E1|E1]; destruct (Z.eqb_spec (-13) k) as [E2|E2];
      destruct (Z.eqb_spec (-12) k) as [E3|E3]; destruct (Z.eqb_spec (-10) k) as [E4|E4]; try reflexivity; lia.
Qed.

(* tree 1 -- reorder_eq -- middle *)
Lemma o1_reorder_mid : forall tps gl, Forall2 (reorder_eq (mgr_of tps gl)) (n_children root_o1) (n_children root_mid).
Proof.
  intros tps gl. rewrite o1_shape. unfold root_mid, ul_mid, li_mid. cbn [n_children].
  constructor; [|constructor]. constructor; [apply otok_reorder_refl|].
  constructor; [|constructor]. constructor; [|apply reorder_eq_list_refl].
  cbn [otok_reorder]. unfold tok_reorder, tok_with. cbn [t_kind t_value t_start t_end t_name t_attrs].
  repeat (split; [reflexivity|]). apply o_attrs_reorder.
Qed.

(* middle -- pos_eq -- tree 2 : decided by computation, node by node *)
Ltac solve_attr_sim := unfold attr_sim; split; [reflexivity|split; [reflexivity|vm_compute; reflexivity]].
Ltac solve_attrs_sim := repeat (apply Forall2_cons; [solve_attr_sim|]); apply Forall2_nil.
Ltac solve_tok_sim :=
  unfold tok_sim; split; [reflexivity|split; [reflexivity|split; [solve_attrs_sim|first [left; reflexivity|right; reflexivity]]]].
Ltac solve_pos_eq :=
  apply PE_node; [cbn [otok_sim]; first [exact I|solve_tok_sim]|solve_pos_list|reflexivity]
with solve_pos_list := first [apply Forall2_nil|apply Forall2_cons; [solve_pos_eq|solve_pos_list]].

Lemma mid_pos_o2 : forall tps gl,
  Forall2 (pos_eq bx_letter bx_digit (mgr_of tps gl)) (n_children root_mid) (n_children root_o2).
Proof.
  intros tps gl.
  unfold root_mid, ul_mid, li_mid, root_o2, tok_with, attrs_mid, ul_o1, li_o1, tok_o1, a_with, a_if1, a_rng, a_title, a_txt.
  cbn [n_children n_id n_tok n_end t_kind t_value t_start t_end t_name].
  solve_pos_list.
Qed.

Theorem written_order_irrelevant : forall tps gl fuel data t st,
  bx_execute (mgr_of tps gl) fuel (tp_of root_o1) data t st = bx_execute (mgr_of tps gl) fuel (tp_of root_o2) data t st.
Proof.
  intros tps gl fuel data t st.
  rewrite (execute_order_irrelevant bx_space bx_lower bx_letter bx_digit bx_methods bx_call (mgr_of tps gl)
             fuel (tp_of root_o1) (tp_of root_mid) data t st (o1_reorder_mid tps gl) (o1_reorder_mid tps gl)).
  apply execute_pos_irrelevant; apply mid_pos_o2.
Qed.

(* the statement with the two source texts *)
Theorem e2e_written_order_irrelevant :
  exists root1 root2,
    bx_load (s2l "<ul><li :with=""w := ${p}"" :if=""${c}"" :range=""i, x : xs"" :title=""${w}"" :text=""${x}"">y</li></ul>") = inl root1 /\
    bx_load (s2l "<ul><li :range=""i, x : xs"" :title=""${w}"" :if=""${c}"" :text=""${x}"" :with=""w := ${p}"">y</li></ul>") = inl root2 /\
    forall (tps : list (str * template)) (gl : scope) (fuel : nat) (data : value) (t : tbl) (st : rst),
      bx_execute (mkM (s2l "t:") (s2l ":") tps gl) fuel (tp_of root1) data t st =
      bx_execute (mkM (s2l "t:") (s2l ":") tps gl) fuel (tp_of root2) data t st.
Proof.
  exists root_o1, root_o2. split; [exact o1_loads|]. split; [exact o2_loads|]. exact written_order_irrelevant.
Qed.

(* the two trees are different (the positions, the raw text of the tag), and the statement is not vacuous: the effects
   combine in the documented order with, if, range, then the attributes of the tag *)
Example o_trees_differ : root_o1 <> root_o2.
Proof. intros H. vm_compute in H. discriminate H. Qed.
Definition data_o (p : str) (c : bool) (xs : list value) : value :=
  VMap [(s2l "p", VStr p); (s2l "c", VBool c); (s2l "xs", VSeq false xs [])].
Example o_instances :
  (forall root, In root [root_o1; root_o2] ->
     bx_execute bx_mgr 10 (tp_of root) (data_o (s2l "P<") true [VStr (s2l "a"); VStr (s2l "b")]) [] (mkR [] None)
     = (s2l "<ul><li title=""P&lt;"">a</li><li title=""P&lt;"">b</li></ul>", ROk, [(2, true)], mkR [] None)) /\
  (forall root, In root [root_o1; root_o2] ->
     bx_execute bx_mgr 10 (tp_of root) (data_o (s2l "P") false [VStr (s2l "a")]) [] (mkR [] None)
     = (s2l "<ul></ul>", ROk, [(2, false)], mkR [] None)).
Proof.
  split; intros root Hin; cbn [In] in Hin; destruct Hin as [E|[E|E]]; try contradiction; subst root; vm_compute; reflexivity.
Qed.

(* ------------------------------------------------------------------------------------------ *)
(* B. THE REMOVE MODES                                                                          *)
(* ------------------------------------------------------------------------------------------ *)
Definition src_rm (mode : string) : str := s2l "<div :remove=""" ++ s2l mode ++ s2l """> <b>1</b> <i>2</i> </div>!".
Definition root_of (src : str) : node := match bx_load src with inl r => r | inr _ => no_root end.
Definition root_rm_all : node := Eval vm_compute in root_of (src_rm "all").
Definition root_rm_body : node := Eval vm_compute in root_of (src_rm "body").
Definition root_rm_tag : node := Eval vm_compute in root_of (src_rm "tag").
Definition root_rm_abf : node := Eval vm_compute in root_of (src_rm "all-but-first").
Lemma rm_loads :
  bx_load (src_rm "all") = inl root_rm_all /\ bx_load (src_rm "body") = inl root_rm_body /\
  bx_load (src_rm "tag") = inl root_rm_tag /\ bx_load (src_rm "all-but-first") = inl root_rm_abf.
Proof. repeat split; vm_compute; reflexivity. Qed.

Ltac all_data data := destruct data; vm_compute; reflexivity.

Theorem remove_all_end_to_end : forall (data : value) (t : tbl) (st : rst) (fuel : nat), r_budget st = None -> (4 <= fuel)%nat ->
  bx_execute bx_mgr fuel (tp_of root_rm_all) data t st = (s2l "!", ROk, t, st).
Proof.
  intros data t [lg b] fuel Hb Hf. cbn [r_budget] in Hb. subst b.
  apply (fuel_lift bx_mgr 4); [discriminate| |exact Hf]. all_data data.
Qed.
Theorem remove_body_end_to_end : forall (data : value) (t : tbl) (st : rst) (fuel : nat), r_budget st = None -> (4 <= fuel)%nat ->
  bx_execute bx_mgr fuel (tp_of root_rm_body) data t st = (s2l "<div></div>!", ROk, t, st).
Proof.
  intros data t [lg b] fuel Hb Hf. cbn [r_budget] in Hb. subst b.
  apply (fuel_lift bx_mgr 4); [discriminate| |exact Hf]. all_data data.
Qed.
Theorem remove_tag_end_to_end : forall (data : value) (t : tbl) (st : rst) (fuel : nat), r_budget st = None -> (4 <= fuel)%nat ->
  bx_execute bx_mgr fuel (tp_of root_rm_tag) data t st = (s2l " <b>1</b> <i>2</i> !", ROk, t, st).
Proof.
  intros data t [lg b] fuel Hb Hf. cbn [r_budget] in Hb. subst b.
  apply (fuel_lift bx_mgr 4); [discriminate| |exact Hf]. all_data data.
Qed.
Theorem remove_abf_end_to_end : forall (data : value) (t : tbl) (st : rst) (fuel : nat), r_budget st = None -> (4 <= fuel)%nat ->
  bx_execute bx_mgr fuel (tp_of root_rm_abf) data t st = (s2l "<div> <b>1</b> </div>!", ROk, t, st).
Proof.
  intros data t [lg b] fuel Hb Hf. cbn [r_budget] in Hb. subst b.
  apply (fuel_lift bx_mgr 4); [discriminate| |exact Hf]. all_data data.
Qed.

Theorem e2e_remove_modes :
  loads_and (s2l "<div :remove=""all""> <b>1</b> <i>2</i> </div>!") (fun tp =>
    forall data t st fuel, r_budget st = None -> (4 <= fuel)%nat ->
    bx_execute bx_mgr fuel tp data t st = (s2l "!", ROk, t, st)) /\
  loads_and (s2l "<div :remove=""body""> <b>1</b> <i>2</i> </div>!") (fun tp =>
    forall data t st fuel, r_budget st = None -> (4 <= fuel)%nat ->
    bx_execute bx_mgr fuel tp data t st = (s2l "<div></div>!", ROk, t, st)) /\
  loads_and (s2l "<div :remove=""tag""> <b>1</b> <i>2</i> </div>!") (fun tp =>
    forall data t st fuel, r_budget st = None -> (4 <= fuel)%nat ->
    bx_execute bx_mgr fuel tp data t st = (s2l " <b>1</b> <i>2</i> !", ROk, t, st)) /\
  loads_and (s2l "<div :remove=""all-but-first""> <b>1</b> <i>2</i> </div>!") (fun tp =>
    forall data t st fuel, r_budget st = None -> (4 <= fuel)%nat ->
    bx_execute bx_mgr fuel tp data t st = (s2l "<div> <b>1</b> </div>!", ROk, t, st)).
Proof.
  destruct rm_loads as (L1 & L2 & L3 & L4). split; [|split; [|split]].
  - exists root_rm_all. split; [exact L1|exact remove_all_end_to_end].
  - exists root_rm_body. split; [exact L2|exact remove_body_end_to_end].
  - exists root_rm_tag. split; [exact L3|exact remove_tag_end_to_end].
  - exists root_rm_abf. split; [exact L4|exact remove_abf_end_to_end].
Qed.

(* the mode may be written with single quotes INSTEAD of the double ones; the outputs are the same *)
Definition src_rm_sq (mode : string) : str := s2l "<div :remove='" ++ s2l mode ++ s2l "'> <b>1</b> <i>2</i> </div>!".
Theorem remove_single_quotes : forall (data : value) (t : tbl) (lg : log),
  bx_execute bx_mgr 4 (tp_of (root_of (src_rm_sq "all"))) data t (mkR lg None) = (s2l "!", ROk, t, mkR lg None) /\
  bx_execute bx_mgr 4 (tp_of (root_of (src_rm_sq "body"))) data t (mkR lg None) = (s2l "<div></div>!", ROk, t, mkR lg None) /\
  bx_execute bx_mgr 4 (tp_of (root_of (src_rm_sq "tag"))) data t (mkR lg None) = (s2l " <b>1</b> <i>2</i> !", ROk, t, mkR lg None) /\
  bx_execute bx_mgr 4 (tp_of (root_of (src_rm_sq "all-but-first"))) data t (mkR lg None)
    = (s2l "<div> <b>1</b> </div>!", ROk, t, mkR lg None).
Proof. intros data t lg. repeat split; all_data data. Qed.
(* single quotes INSIDE the double quotes: the value is neither of the two spellings, the element is printed whole *)
Theorem remove_quoted_twice_is_no_mode : forall (data : value) (t : tbl) (lg : log),
  bx_execute bx_mgr 4 (tp_of (root_of (src_rm "'all'"))) data t (mkR lg None)
  = (s2l "<div> <b>1</b> <i>2</i> </div>!", ROk, t, mkR lg None).
Proof. intros data t lg. all_data data. Qed.

(* ------------------------------------------------------------------------------------------ *)
(* C. THE OUTPUT OF A FAILING EXECUTION IS A PREFIX OF THE OUTPUT OF THE SUCCESSFUL ONE         *)
(* ------------------------------------------------------------------------------------------ *)
Definition src_fail : str := s2l "<p>a</p><p :text=""${s}"">x</p><p :text=""${zz}"">y</p><p>b</p>".
Definition root_fail : node := Eval vm_compute in root_of src_fail.
Lemma fail_loads : bx_load src_fail = inl root_fail.
Proof. vm_compute. reflexivity. Qed.
Definition s_zz : str := [122; 122].

Theorem e2e_failure_prefix : forall (s : str) (t : tbl) (st : rst) (fuel : nat), r_budget st = None -> (3 <= fuel)%nat ->
  bx_execute bx_mgr fuel (tp_of root_fail) (VMap [(s_s, VStr s)]) t st =
  (s2l "<p>a</p><p>" ++ escape s ++ s2l "</p><p>", RErr (RC CNoSuchValue), t, st).
Proof.
  intros s t [lg b] fuel Hb Hf. cbn [r_budget] in Hb. subst b.
  apply (fuel_lift bx_mgr 3); [discriminate| |exact Hf].
  vm_compute. refold_esc s. refold_app. norm_app. reflexivity.
Qed.
Theorem e2e_failure_full : forall (s u : str) (t : tbl) (st : rst) (fuel : nat), r_budget st = None -> (3 <= fuel)%nat ->
  bx_execute bx_mgr fuel (tp_of root_fail) (VMap [(s_s, VStr s); (s_zz, VStr u)]) t st =
  (s2l "<p>a</p><p>" ++ escape s ++ s2l "</p><p>" ++ escape u ++ s2l "</p><p>b</p>", ROk, t, st).
Proof.
  intros s u t [lg b] fuel Hb Hf. cbn [r_budget] in Hb. subst b.
  apply (fuel_lift bx_mgr 3); [discriminate| |exact Hf].
  vm_compute. refold_esc s. refold_esc u. refold_app. norm_app. reflexivity.
Qed.

Corollary e2e_failure_output_is_prefix : forall (s u : str) (t : tbl) (st : rst) (fuel : nat) out1 r1 t1 st1 out2 r2 t2 st2,
  r_budget st = None -> (3 <= fuel)%nat ->
  bx_execute bx_mgr fuel (tp_of root_fail) (VMap [(s_s, VStr s)]) t st = (out1, r1, t1, st1) ->
  bx_execute bx_mgr fuel (tp_of root_fail) (VMap [(s_s, VStr s); (s_zz, VStr u)]) t st = (out2, r2, t2, st2) ->
  r1 = RErr (RC CNoSuchValue) /\ r2 = ROk /\
  out2 = out1 ++ escape u ++ s2l "</p><p>b</p>" /\ length out1 = (18 + length (escape s))%nat.
Proof.
  intros s u t st fuel out1 r1 t1 st1 out2 r2 t2 st2 Hb Hf H1 H2.
  rewrite (e2e_failure_prefix s t st fuel Hb Hf) in H1. rewrite (e2e_failure_full s u t st fuel Hb Hf) in H2.
  injection H1 as <- <- _ _. injection H2 as <- <- _ _.
  split; [reflexivity|]. split; [reflexivity|]. split.
  - cbn [app]. rewrite <- app_assoc. reflexivity.
  - cbn [length]. rewrite app_length. cbn [length]. lia.
Qed.

Theorem e2e_failure_source_to_output : loads_and src_fail (fun tp =>
  forall (s : str) (t : tbl) (st : rst) (fuel : nat), r_budget st = None -> (3 <= fuel)%nat ->
  bx_execute bx_mgr fuel tp (VMap [(s2l "s", VStr s)]) t st =
    (s2l "<p>a</p><p>" ++ escape s ++ s2l "</p><p>", RErr (RC CNoSuchValue), t, st) /\
  forall u : str,
  bx_execute bx_mgr fuel tp (VMap [(s2l "s", VStr s); (s2l "zz", VStr u)]) t st =
    (s2l "<p>a</p><p>" ++ escape s ++ s2l "</p><p>" ++ escape u ++ s2l "</p><p>b</p>", ROk, t, st)).
Proof.
  exists root_fail. split; [exact fail_loads|]. intros s t st fuel Hb Hf. split.
  - exact (e2e_failure_prefix s t st fuel Hb Hf).
  - intros u. exact (e2e_failure_full s u t st fuel Hb Hf).
Qed.

(* ------------------------------------------------------------------------------------------ *)
(* D. THE BLOCK ELEMENT AND THE HIDDEN COMMENT                                                  *)
(* ------------------------------------------------------------------------------------------ *)
Definition src_block : str := s2l "<t:block :if=""${c}"">A<b>B</b></t:block><!-- /* hidden */ -->C<!-- shown -->".
Definition root_block : node := Eval vm_compute in root_of src_block.
Lemma block_loads : bx_load src_block = inl root_block.
Proof. vm_compute. reflexivity. Qed.
Definition s_c : str := [99].

Theorem e2e_block_hidden : forall (c : bool) (t : tbl) (st : rst) (fuel : nat), r_budget st = None -> (5 <= fuel)%nat ->
  bx_execute bx_mgr fuel (tp_of root_block) (VMap [(s_c, VBool c)]) t st =
  ((if c then s2l "A<b>B</b>" else []) ++ s2l "C<!-- shown -->", ROk, tbl_set t 1 c, st).
Proof.
  intros c t [lg b] fuel Hb Hf. cbn [r_budget] in Hb. subst b.
  apply (fuel_lift bx_mgr 5); [discriminate| |exact Hf].
  destruct c; vm_compute; reflexivity.
Qed.
Theorem e2e_block_source_to_output : loads_and src_block (fun tp =>
  forall (c : bool) (t : tbl) (st : rst) (fuel : nat), r_budget st = None -> (5 <= fuel)%nat ->
  bx_execute bx_mgr fuel tp (VMap [(s2l "c", VBool c)]) t st =
  ((if c then s2l "A<b>B</b>" else []) ++ s2l "C<!-- shown -->", ROk, tbl_set t 1 c, st)).
Proof. exists root_block. split; [exact block_loads|]. exact e2e_block_hidden. Qed.

Print Assumptions e2e_written_order_irrelevant.
Print Assumptions e2e_remove_modes.
Print Assumptions remove_quoted_twice_is_no_mode.
Print Assumptions e2e_failure_source_to_output.
Print Assumptions e2e_failure_output_is_prefix.
Print Assumptions e2e_block_source_to_output.
