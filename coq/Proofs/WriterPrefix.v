(* C12, render part: a failing writer.  The same render is run once with an unlimited top-level
   writer and once with a budget of k successful Write calls.  Either the budget is never
   exhausted and the two runs agree, or the budgeted run returns the writer's error, what it wrote
   is a prefix of what the unlimited run writes, and its call log is a suffix of the unlimited run's
   log (the log is most-recent-first): nothing was evaluated after the failure.

   Organisation (as in PureRender.v): the body of the renderer is parameterised by the recursive
   call [exec]; three invariants of [exec] are assumed, proved for [exec_body exec], and the knot is
   tied by induction on the fuel.
     A  (inv_A)  a call with top = false commutes with changing the budget (it never looks at it)
     B  (inv_B)  single run: the log only grows; a call with top = false, or one started with an
                 unlimited writer, leaves the budget alone and never returns the writer error
     C  (inv_C)  the two-run relation [brel] for calls with top = true *)
From Coq Require Import List NArith ZArith Bool Lia Arith.
From Tpl Require Import Html.Exec Proofs.EvalStrict.
Import ListNotations.
Open Scope N_scope.

Definition with_budget (st : rst) (b : option nat) : rst := mkR (r_log st) b.

Lemma with_budget_id st : with_budget st (r_budget st) = st.
Proof. destruct st; reflexivity. Qed.
Lemma wb_wb st b b' : with_budget (with_budget st b) b' = with_budget st b'.
Proof. reflexivity. Qed.
Lemma set_log_wb st b lg : set_log (with_budget st b) lg = with_budget (set_log st lg) b.
Proof. reflexivity. Qed.
Lemma wb_none st : r_budget st = None -> with_budget st None = st.
Proof. intros H. rewrite <- H. apply with_budget_id. Qed.

(* changing the budget of the final state of a result *)
Definition wbR (b : option nat) (x : R) : R :=
  match x with (o, r, t, s) => (o, r, t, with_budget s b) end.
Definition wbL {A} (b : option nat) (x : A * tbl * rst) : A * tbl * rst :=
  match x with (a, t, s) => (a, t, with_budget s b) end.
Definition wbT (b : option nat) (x : str * rres * rst) : str * rres * rst :=
  match x with (o, r, s) => (o, r, with_budget s b) end.

(* ---------- single-run invariant ---------- *)
Definition step (top : bool) (st s : rst) : Prop :=
  extends (r_log st) (r_log s) /\ (top = false \/ r_budget st = None -> r_budget s = r_budget st).
Definition nw (top : bool) (st : rst) (r : rres) : Prop :=
  top = false \/ r_budget st = None -> r <> RErr RWriter.
Definition P1 (top : bool) (st : rst) (x : R) : Prop :=
  step top st (snd x) /\ nw top st (snd (fst (fst x))).
Definition P1L {A} (st : rst) (x : (A + rres) * tbl * rst) : Prop :=
  step false st (snd x) /\ fst (fst x) <> inr (RErr RWriter).
Definition P1T (st : rst) (x : str * rres * rst) : Prop :=
  step false st (snd x) /\ snd (fst x) <> RErr RWriter.

Lemma step_refl top st : step top st st.
Proof. split; [apply extends_refl|reflexivity]. Qed.
Lemma step_trans top a b c : step top a b -> step top b c -> step top a c.
Proof.
  intros [E1 B1] [E2 B2]. split; [eapply extends_trans; eauto|].
  intros H. specialize (B1 H). rewrite <- B1. apply B2.
  destruct H as [H|H]; [left; exact H|right; congruence].
Qed.
Lemma step_false_any top a b : step false a b -> step top a b.
Proof. intros [E B]. split; [exact E|]. intros _. apply B. left; reflexivity. Qed.
Lemma step_set_log top st lg : extends (r_log st) lg -> step top st (set_log st lg).
Proof. intros H. split; [exact H|reflexivity]. Qed.
Lemma nw_step top st s r : step top st s -> nw top s r -> nw top st r.
Proof.
  intros [_ B] H C. apply H. destruct C as [C|C]; [left; exact C|right].
  rewrite B; [exact C|right; exact C].
Qed.
Lemma P1_pre top st s x : step top st s -> P1 top s x -> P1 top st x.
Proof. intros Hs [H1 H2]. split; [eapply step_trans; eauto|eapply nw_step; eauto]. Qed.
Lemma P1_ret top o t st : P1 top st (o, ROk, t, st).
Proof. split; cbn [fst snd]; [apply step_refl|intros _; discriminate]. Qed.
Lemma P1_none top st x : P1 top st x -> r_budget st = None -> r_budget (snd x) = None.
Proof. intros [[_ B] _] H. rewrite B; [exact H|right; exact H]. Qed.
Lemma P1L_pre {A} st s (x : (A + rres) * tbl * rst) : step false st s -> P1L s x -> P1L st x.
Proof. intros Hs [H1 H2]. split; [eapply step_trans; eauto|exact H2]. Qed.
Lemma P1L_none {A} st (x : (A + rres) * tbl * rst) : P1L st x -> r_budget (snd x) = r_budget st.
Proof. intros [[_ B] _]. apply B. left; reflexivity. Qed.

Lemma seq2_P1 top st a f :
  P1 top st a -> (forall t s, P1 top s (f t s)) -> P1 top st (seq2 a f).
Proof.
  destruct a as [[[o r] t] s]. intros Ha Hf. unfold seq2.
  destruct r; try exact Ha.
  specialize (Hf t s). destruct (f t s) as [[[o2 r2] t2] s2].
  destruct Ha as [Hs _]; cbn [fst snd] in Hs.
  eapply P1_pre; [exact Hs|]. exact Hf.
Qed.

Lemma wr_P1 top s t st : P1 top st (wr top s t st).
Proof.
  unfold wr, write. destruct top; [|apply P1_ret].
  destruct (r_budget st) as [[|k]|] eqn:E; [| |apply P1_ret].
  - split; cbn [fst snd]; [apply step_refl|]. intros [H|H]; congruence.
  - split; cbn [fst snd].
    + split; [apply extends_refl|]. intros [H|H]; congruence.
    + intros _; discriminate.
Qed.

(* ---------- two-run relation ---------- *)
Definition bdec (b b' : option nat) : Prop :=
  match b, b' with
  | None, None => True
  | Some k, Some k' => (k' <= k)%nat
  | _, _ => False
  end.
Lemma bdec_refl b : bdec b b.
Proof. destruct b; cbn; auto. Qed.
Lemma bdec_trans a b c : bdec a b -> bdec b c -> bdec a c.
Proof. destruct a, b, c; cbn; try tauto; lia. Qed.

(* x: the run with the unlimited writer; y: the run that started with budget b *)
Definition brel (b : option nat) (x y : R) : Prop :=
  (exists b', bdec b b' /\ y = wbR b' x) \/
  (exists o' t' s' rest,
      y = (o', RErr RWriter, t', s') /\ fst (fst (fst x)) = o' ++ rest /\
      extends (r_log s') (r_log (snd x)) /\ r_budget s' = Some O).

Lemma brel_same b x : brel b x (wbR b x).
Proof. left. exists b. split; [apply bdec_refl|reflexivity]. Qed.

Lemma seq2_brel b a a' f :
  brel b a a' -> r_budget (snd a) = None ->
  (forall t s, P1 true s (f t s)) ->
  (forall t s b', r_budget s = None -> brel b' (f t s) (f t (with_budget s b'))) ->
  brel b (seq2 a f) (seq2 a' f).
Proof.
  destruct a as [[[o r] t] s]; cbn [fst snd].
  intros [(b' & Hd & ->) | (o' & t' & s' & rest & -> & Ho & He & Hz)] Hnone HP Hf.
  - cbn [wbR seq2]. destruct r.
    + specialize (Hf t s b' Hnone). specialize (HP t s).
      destruct (f t s) as [[[o2 r2] t2] s2].
      destruct Hf as [(b2 & Hd2 & E2) | (o2' & t2' & s2' & rest2 & E2 & Ho2 & He2 & Hz2)]; rewrite E2.
      * left. exists b2. split; [eapply bdec_trans; eauto|reflexivity].
      * right. exists (o ++ o2'), t2', s2', rest2. cbn [fst snd] in *.
        split; [reflexivity|]. split; [rewrite Ho2, app_assoc; reflexivity|]. split; assumption.
    + left. exists b'. split; [exact Hd|reflexivity].
    + left. exists b'. split; [exact Hd|reflexivity].
  - cbn [seq2]. cbn [fst snd] in Ho, He. destruct r.
    + specialize (HP t s). destruct (f t s) as [[[o2 r2] t2] s2].
      destruct HP as [[He2 _] _]; cbn [fst snd] in He2.
      right. exists o', t', s', (rest ++ o2). cbn [fst snd].
      split; [reflexivity|]. split; [rewrite Ho, app_assoc; reflexivity|].
      split; [eapply extends_trans; eauto|exact Hz].
    + right. exists o', t', s', rest. cbn [fst snd]. auto.
    + right. exists o', t', s', rest. cbn [fst snd]. auto.
Qed.

Lemma wr_brel b s t st :
  r_budget st = None -> brel b (wr true s t st) (wr true s t (with_budget st b)).
Proof.
  intros H. unfold wr, write. cbn [with_budget r_budget r_log]. rewrite H.
  destruct b as [[|k]|].
  - right. exists [], t, (mkR (r_log st) (Some O)), s. cbn [fst snd r_log r_budget app].
    repeat split. apply extends_refl.
  - left. exists (Some k). split; [cbn; lia|reflexivity].
  - left. exists None. split; [exact I|reflexivity].
Qed.

Lemma seq2_A b a a' f :
  a' = wbR b a -> (forall t s, f t (with_budget s b) = wbR b (f t s)) ->
  seq2 a' f = wbR b (seq2 a f).
Proof.
  intros -> Hf. destruct a as [[[o r] t] s]. cbn [wbR seq2]. destruct r; try reflexivity.
  rewrite Hf. destruct (f t s) as [[[o2 r2] t2] s2]. reflexivity.
Qed.

Section WP.
Variable is_space : rune -> bool.
Variable to_lower : rune -> rune.
Variable is_letter : rune -> bool.
Variable is_udigit : rune -> bool.
Variable methods : N -> bool -> list (str * N).
Variable call_fn : N -> list value -> fres.
Variable mgr : manager.

Notation EXEC := (N -> list node -> node -> scope -> bool -> tbl -> rst -> R).
Notation ATTR_EVAL := (attr_evaluate is_letter is_udigit methods call_fn mgr).
Notation WITH_ASSIGN := (with_assign is_space is_letter is_udigit methods call_fn mgr).
Notation EVAL_TEXT := (eval_text is_letter is_udigit methods call_fn).

(* ---------- the evaluator pieces: the log only grows, no writer error ----------
   (the only place where eval_text / attr_evaluate / with_assign are unfolded) *)
Lemma eval_text_ext sc code lg r lg' : EVAL_TEXT sc code lg = (r, lg') -> extends lg lg'.
Proof.
  unfold eval_text. destruct (parse_code is_letter is_udigit code) as [e|]; intros H.
  - unfold extends. eapply eval_log_extends. exact H.
  - inversion H; subst. apply extends_refl.
Qed.

Lemma eval_block_ext sc code lg r lg' :
  eval_block is_letter is_udigit methods call_fn sc code lg = (r, lg') -> extends lg lg'.
Proof.
  unfold eval_block. destruct (EVAL_TEXT sc code lg) as [[v|c|] lg1] eqn:E;
    apply eval_text_ext in E; intros H; inversion H; subst; exact E.
Qed.

Lemma eval_ctoks_ext sc : forall l acc lg r lg',
  eval_ctoks is_letter is_udigit methods call_fn sc l acc lg = (r, lg') -> extends lg lg'.
Proof.
  induction l as [|t l IH]; intros acc lg r lg'; cbn [eval_ctoks].
  - intros H; inversion H; subst. apply extends_refl.
  - destruct (c_kind t); try apply IH.
    destruct (eval_block is_letter is_udigit methods call_fn sc (c_value t) lg) as [[s|c|] lg1] eqn:E;
      apply eval_block_ext in E; intros H.
    + eapply extends_trans; [exact E|]. eapply IH; exact H.
    + inversion H; subst; exact E.
    + inversion H; subst; exact E.
Qed.

Lemma attr_evaluate_spec a sc lg r lg' :
  ATTR_EVAL a sc lg = (r, lg') -> extends lg lg' /\ r <> AErr RWriter.
Proof.
  unfold attr_evaluate. intros H.
  destruct (a_value a); [|inversion H; subst; split; [apply extends_refl|discriminate]].
  destruct (ctoks_of is_letter is_udigit mgr a) as [|c0 l0];
    [inversion H; subst; split; [apply extends_refl|discriminate]|].
  destruct (eval_ctoks is_letter is_udigit methods call_fn sc (c0 :: l0) [] lg) as [[s'|c|] lg1] eqn:E;
    apply eval_ctoks_ext in E; inversion H; subst; split; auto; discriminate.
Qed.

Lemma with_eval_ext sc : forall names codes acc lg r lg',
  with_eval is_letter is_udigit methods call_fn sc names codes acc lg = (r, lg') -> extends lg lg'.
Proof.
  induction names as [|n ns IH]; intros codes acc lg r lg'; cbn [with_eval].
  - intros H; inversion H; subst. apply extends_refl.
  - destruct codes as [|c cs]; [intros H; inversion H; subst; apply extends_refl|].
    destruct (EVAL_TEXT sc (c_value c) lg) as [[v|e|] lg1] eqn:E; apply eval_text_ext in E; intros H.
    + eapply extends_trans; [exact E|]. eapply IH; exact H.
    + inversion H; subst; exact E.
    + inversion H; subst; exact E.
Qed.

Lemma with_assign_spec a sc lg r lg' :
  WITH_ASSIGN a sc lg = (r, lg') -> extends lg lg' /\ r <> inr (RErr RWriter).
Proof.
  unfold with_assign. intros H.
  destruct (a_value a); [|inversion H; subst; split; [apply extends_refl|discriminate]].
  destruct (with_collect is_space (ctoks_of is_letter is_udigit mgr a) [] []) as [[names codes]|];
    [|inversion H; subst; split; [apply extends_refl|discriminate]].
  destruct names as [|n0 ns]; [inversion H; subst; split; [apply extends_refl|discriminate]|].
  destruct (negb (Nat.eqb (length codes) (length (n0 :: ns))));
    [inversion H; subst; split; [apply extends_refl|discriminate]|].
  destruct (with_eval is_letter is_udigit methods call_fn sc (n0 :: ns) codes [] lg) as [[m|e|] lg1] eqn:E;
    apply with_eval_ext in E; inversion H; subst; split; auto; discriminate.
Qed.

(* ---------- the three invariants of the recursive call ---------- *)
Definition inv_A (exec : EXEC) : Prop :=
  forall mask ctx n sc t st b,
    exec mask ctx n sc false t (with_budget st b) = wbR b (exec mask ctx n sc false t st).
Definition inv_B (exec : EXEC) : Prop :=
  forall mask ctx n sc top t st, P1 top st (exec mask ctx n sc top t st).
Definition inv_C (exec : EXEC) : Prop :=
  forall mask ctx n sc t st b, r_budget st = None ->
    brel b (exec mask ctx n sc true t st) (exec mask ctx n sc true t (with_budget st b)).

Section Body.
Variable exec : EXEC.

Notation EVAL_COND := (eval_cond is_letter is_udigit methods call_fn mgr exec).
Notation COND_OWNER := (cond_owner is_letter is_udigit methods call_fn mgr exec).
Notation RANGE_OWNER := (range_owner is_space is_letter is_udigit methods call_fn exec).
Notation ATTR_STEP := (attr_step is_space is_letter is_udigit methods call_fn mgr exec).
Notation RUN_ATTRS := (run_attrs is_space is_letter is_udigit methods call_fn mgr exec).
Notation RUN_CHILD := (run_child is_space is_letter is_udigit methods call_fn mgr exec).
Notation EXEC_TAG := (exec_tag is_space to_lower is_letter is_udigit methods call_fn mgr exec).
Notation EXEC_BODY := (exec_body is_space to_lower is_letter is_udigit methods call_fn mgr exec).

(* ====================== A: nested calls ignore the budget ====================== *)
Section A.
Hypothesis HA : inv_A exec.

Lemma exec_list_A ctx sc : forall l t st b,
  exec_list exec ctx l sc false t (with_budget st b) = wbR b (exec_list exec ctx l sc false t st).
Proof.
  induction l as [|c r IH]; intros t st b; cbn [exec_list]; [reflexivity|].
  apply seq2_A; [apply HA|]. intros t1 s1. apply IH.
Qed.

Lemma run_template_A tp sc st b :
  run_template exec tp sc (with_budget st b) = wbT b (run_template exec tp sc st).
Proof.
  unfold run_template. rewrite exec_list_A.
  destruct (exec_list exec (tp_ctx tp) (tp_children tp) sc false [] st) as [[[o r] t'] s]. reflexivity.
Qed.

Lemma eval_cond_A mask ctx n a ls t st b :
  EVAL_COND mask ctx n a ls t (with_budget st b) = wbL b (EVAL_COND mask ctx n a ls t st).
Proof.
  unfold eval_cond. change (r_log (with_budget st b)) with (r_log st).
  destruct (ATTR_EVAL a (l_sc ls) (r_log st)) as [[s|c|] lg]; cbv zeta; try reflexivity.
  destruct (str_eqb s s_true); [|reflexivity].
  rewrite set_log_wb, HA.
  destruct (exec (N.lor mask 1) ctx n (l_sc ls) false (tbl_set t (n_id n) true) (set_log st lg)) as [[[o r] t2] s2].
  cbn [wbR]. destruct r; reflexivity.
Qed.

Lemma cond_owner_A mask ctx n a cmd ls t st b :
  COND_OWNER mask ctx n a cmd ls t (with_budget st b) = wbL b (COND_OWNER mask ctx n a cmd ls t st).
Proof.
  unfold cond_owner. destruct (str_eqb cmd d_if); [apply eval_cond_A|].
  destruct (match prev_tag ctx (n_id n) None with Some p => tbl_get t (n_id p) | None => None end) as [[|]|];
    [reflexivity|apply eval_cond_A|reflexivity].
Qed.

Lemma range_iter_A mask ctx n idx item sc0 sep : forall items first acc t st b,
  range_iter exec mask ctx n idx item sc0 sep items first acc t (with_budget st b) =
  wbL b (range_iter exec mask ctx n idx item sc0 sep items first acc t st).
Proof.
  induction items as [|[k v] more IH]; intros first acc t st b; cbn [range_iter]; [reflexivity|].
  rewrite HA.
  destruct (exec (N.lor mask 2) ctx n (range_scope idx item k v sc0) false t st) as [[[o r] t2] s2].
  cbn [wbR]. destruct r; try reflexivity. apply IH.
Qed.

Lemma range_owner_A mask ctx n av ls t st b :
  RANGE_OWNER mask ctx n av ls t (with_budget st b) = wbL b (RANGE_OWNER mask ctx n av ls t st).
Proof.
  unfold range_owner.
  destruct (extract_range is_space (strip_quotes av)) as [[idx item] obj].
  destruct (parse_code is_letter is_udigit obj); [|reflexivity].
  change (r_log (with_budget st b)) with (r_log st). cbv zeta.
  destruct (EVAL_TEXT (with_default (l_sc ls)) obj (r_log st)) as [[v|c|] lg]; try reflexivity.
  destruct (range_items v) as [items|]; [|reflexivity].
  rewrite set_log_wb, range_iter_A.
  match goal with |- context [wbL b ?X] => destruct X as [[[o|r] t2] s2] end; reflexivity.
Qed.

Lemma attr_step_A mask ctx n attrs a ls t st b :
  ATTR_STEP mask ctx n attrs a ls t (with_budget st b) = wbL b (ATTR_STEP mask ctx n attrs a ls t st).
Proof.
  unfold attr_step, prefix. cbv zeta.
  change (r_log (with_budget st b)) with (r_log st).
  destruct (prefixb (m_attr_prefix mgr) (a_name a)).
  2: { destruct (has_attr_named attrs (m_attr_prefix mgr ++ a_name a)); reflexivity. }
  set (cmd := skipn (length (m_attr_prefix mgr)) (a_name a)).
  destruct (str_eqb cmd d_with).
  { destruct (negb (N.eqb mask 0)); [reflexivity|].
    destruct (WITH_ASSIGN a (l_sc ls) (r_log st)) as [[sc'|e] lg]; reflexivity. }
  destruct (is_cond_name cmd).
  { destruct (a_value a); [|reflexivity].
    destruct (negb (N.eqb (N.land mask 1) 0)); [reflexivity|apply cond_owner_A]. }
  destruct (str_eqb cmd d_range).
  { destruct (a_value a) as [av|]; [|reflexivity].
    destruct (negb (N.eqb (N.land mask 2) 0)); [reflexivity|apply range_owner_A]. }
  destruct (str_eqb cmd d_remove); [reflexivity|].
  destruct (str_eqb cmd d_text || str_eqb cmd d_raw).
  { destruct (l_child ls); reflexivity. }
  destruct (str_eqb cmd d_define); [reflexivity|].
  destruct (str_eqb cmd d_replace || str_eqb cmd d_insert).
  { destruct (ATTR_EVAL a (l_sc ls) (r_log st)) as [[name|c|] lg]; try reflexivity.
    destruct (assoc name (m_templates mgr)) as [tp|]; [|reflexivity].
    rewrite set_log_wb, run_template_A.
    destruct (run_template exec tp (l_sc ls) (set_log st lg)) as [[o r] st2]. cbn [wbT].
    destruct r; reflexivity. }
  destruct (ATTR_EVAL a (l_sc ls) (r_log st)) as [[v|c|] lg]; reflexivity.
Qed.

Lemma run_attrs_A mask ctx n attrs : forall l ls t st b,
  RUN_ATTRS mask ctx n attrs l ls t (with_budget st b) = wbL b (RUN_ATTRS mask ctx n attrs l ls t st).
Proof.
  induction l as [|a rest IH]; intros ls t st b; cbn [run_attrs]; [reflexivity|].
  rewrite attr_step_A.
  destruct (ATTR_STEP mask ctx n attrs a ls t st) as [[[ls'|r] t'] s']; cbn [wbL]; [|reflexivity].
  destruct (is_owner mgr mask a); [reflexivity|apply IH].
Qed.

Lemma run_child_A n ls t st b :
  RUN_CHILD n ls false t (with_budget st b) = wbR b (RUN_CHILD n ls false t st).
Proof.
  unfold run_child. destruct (l_child ls) as [| |a esc|csc];
    [apply exec_list_A|reflexivity| |apply exec_list_A].
  change (r_log (with_budget st b)) with (r_log st).
  destruct (ATTR_EVAL a (l_sc ls) (r_log st)) as [[v|c|] lg]; reflexivity.
Qed.

Lemma exec_tag_A mask ctx n tok sc t st b :
  EXEC_TAG mask ctx n tok sc false t (with_budget st b) = wbR b (EXEC_TAG mask ctx n tok sc false t st).
Proof.
  unfold exec_tag. rewrite run_attrs_A.
  match goal with |- context [wbL b ?X] => destruct X as [[[ls|r] t'] s'] end; cbn [wbL]; [|reflexivity].
  apply seq2_A; [reflexivity|]. intros t2 s2.
  apply seq2_A; [apply run_child_A|]. intros t3 s3.
  destruct (n_end n); [destruct (l_np ls); reflexivity|reflexivity].
Qed.

Lemma exec_body_A : inv_A EXEC_BODY.
Proof.
  intros mask ctx n sc t st b. unfold exec_body.
  destruct (n_tok n) as [tok|].
  - destruct (t_kind tok); try reflexivity. apply exec_tag_A.
  - apply seq2_A; [reflexivity|]. intros t1 s1. apply exec_list_A.
Qed.
End A.

(* ====================== B: the log grows, the budget is left alone ====================== *)
Section B.
Hypothesis HB : inv_B exec.

Lemma exec_list_P1 ctx sc top : forall l t st, P1 top st (exec_list exec ctx l sc top t st).
Proof.
  induction l as [|c r IH]; intros t st; cbn [exec_list]; [apply P1_ret|].
  apply seq2_P1; [apply HB|]. intros t1 s1. apply IH.
Qed.

Lemma run_template_P1 tp sc st : P1T st (run_template exec tp sc st).
Proof.
  unfold run_template.
  pose proof (exec_list_P1 (tp_ctx tp) sc false (tp_children tp) [] st) as H.
  destruct (exec_list exec (tp_ctx tp) (tp_children tp) sc false [] st) as [[[o r] t'] s].
  destruct H as [Hs Hn]; cbn [fst snd] in *. split; cbn [fst snd]; [exact Hs|].
  apply Hn. left; reflexivity.
Qed.

Ltac err_ne := let X := fresh "X" in intros X; inversion X; subst; try discriminate; auto.

Lemma eval_cond_P1L mask ctx n a ls t st : P1L st (EVAL_COND mask ctx n a ls t st).
Proof.
  unfold eval_cond.
  destruct (ATTR_EVAL a (l_sc ls) (r_log st)) as [[s|c|] lg] eqn:E;
    apply attr_evaluate_spec in E as [Ee Ec]; cbv zeta.
  - destruct (str_eqb s s_true).
    + pose proof (HB (N.lor mask 1) ctx n (l_sc ls) false (tbl_set t (n_id n) true) (set_log st lg)) as H.
      destruct (exec (N.lor mask 1) ctx n (l_sc ls) false (tbl_set t (n_id n) true) (set_log st lg)) as [[[o r] t2] s2].
      destruct H as [Hs Hn]; cbn [fst snd] in Hs, Hn.
      assert (Hst : step false st s2) by (eapply step_trans; [apply step_set_log; exact Ee|exact Hs]).
      assert (Hr : r <> RErr RWriter) by (apply Hn; left; reflexivity).
      destruct r; (split; cbn [fst snd]; [exact Hst|]); try discriminate.
      intros X; inversion X; subst. apply Hr; reflexivity.
    + split; cbn [fst snd]; [apply step_set_log; exact Ee|discriminate].
  - split; cbn [fst snd]; [apply step_set_log; exact Ee|]. intros X; inversion X; subst. apply Ec; reflexivity.
  - split; cbn [fst snd]; [apply step_set_log; exact Ee|discriminate].
Qed.

Lemma P1L_ret {A} (x : A) t st : @P1L A st (inl x, t, st).
Proof. split; cbn [fst snd]; [apply step_refl|discriminate]. Qed.
Lemma P1L_err {A} c t st : c <> RWriter -> @P1L A st (inr (RErr c), t, st).
Proof. intros H. split; cbn [fst snd]; [apply step_refl|]. intros X; inversion X; subst. apply H; reflexivity. Qed.
Lemma P1L_unm {A} t st : @P1L A st (inr RUnmodelled, t, st).
Proof. split; cbn [fst snd]; [apply step_refl|discriminate]. Qed.

Lemma cond_owner_P1L mask ctx n a cmd ls t st : P1L st (COND_OWNER mask ctx n a cmd ls t st).
Proof.
  unfold cond_owner. destruct (str_eqb cmd d_if); [apply eval_cond_P1L|].
  destruct (match prev_tag ctx (n_id n) None with Some p => tbl_get t (n_id p) | None => None end) as [[|]|];
    [apply P1L_ret|apply eval_cond_P1L|apply P1L_err; discriminate].
Qed.

Lemma range_iter_P1L mask ctx n idx item sc0 sep : forall items first acc t st,
  P1L st (range_iter exec mask ctx n idx item sc0 sep items first acc t st).
Proof.
  induction items as [|[k v] more IH]; intros first acc t st; cbn [range_iter]; [apply P1L_ret|].
  pose proof (HB (N.lor mask 2) ctx n (range_scope idx item k v sc0) false t st) as H.
  destruct (exec (N.lor mask 2) ctx n (range_scope idx item k v sc0) false t st) as [[[o r] t2] s2].
  destruct H as [Hs Hn]; cbn [fst snd] in Hs, Hn.
  assert (Hr : r <> RErr RWriter) by (apply Hn; left; reflexivity).
  destruct r.
  - eapply P1L_pre; [exact Hs|apply IH].
  - split; cbn [fst snd]; [exact Hs|]. intros X; inversion X; subst. apply Hr; reflexivity.
  - split; cbn [fst snd]; [exact Hs|discriminate].
Qed.

Lemma range_owner_P1L mask ctx n av ls t st : P1L st (RANGE_OWNER mask ctx n av ls t st).
Proof.
  unfold range_owner.
  destruct (extract_range is_space (strip_quotes av)) as [[idx item] obj].
  destruct (parse_code is_letter is_udigit obj); [|apply P1L_err; discriminate]. cbv zeta.
  destruct (EVAL_TEXT (with_default (l_sc ls)) obj (r_log st)) as [[v|c|] lg] eqn:E; apply eval_text_ext in E.
  - destruct (range_items v) as [items|].
    + match goal with |- context [range_iter exec mask ctx n idx item ?sc0 ?sep items true [] t ?st'] =>
        pose proof (range_iter_P1L mask ctx n idx item sc0 sep items true [] t st') as H;
        destruct (range_iter exec mask ctx n idx item sc0 sep items true [] t st') as [[[o|r] t2] s2]
      end; destruct H as [Hs Hn]; cbn [fst snd] in Hs, Hn.
      * split; cbn [fst snd]; [|discriminate]. eapply step_trans; [apply step_set_log; exact E|exact Hs].
      * split; cbn [fst snd]; [eapply step_trans; [apply step_set_log; exact E|exact Hs]|].
        intros X; inversion X; subst. apply Hn; reflexivity.
    + split; cbn [fst snd]; [apply step_set_log; exact E|]. destruct v; discriminate.
  - split; cbn [fst snd]; [apply step_set_log; exact E|discriminate].
  - split; cbn [fst snd]; [apply step_set_log; exact E|discriminate].
Qed.

Lemma attr_step_P1L mask ctx n attrs a ls t st : P1L st (ATTR_STEP mask ctx n attrs a ls t st).
Proof.
  unfold attr_step, prefix. cbv zeta.
  destruct (prefixb (m_attr_prefix mgr) (a_name a)).
  2: { destruct (has_attr_named attrs (m_attr_prefix mgr ++ a_name a)); apply P1L_ret. }
  set (cmd := skipn (length (m_attr_prefix mgr)) (a_name a)).
  destruct (str_eqb cmd d_with).
  { destruct (negb (N.eqb mask 0)); [apply P1L_ret|].
    destruct (WITH_ASSIGN a (l_sc ls) (r_log st)) as [[sc'|e] lg] eqn:E; apply with_assign_spec in E as [Ee Ec];
      (split; cbn [fst snd]; [apply step_set_log; exact Ee|]); [discriminate|].
    intros X; inversion X; subst. apply Ec; reflexivity. }
  destruct (is_cond_name cmd).
  { destruct (a_value a); [|apply P1L_err; discriminate].
    destruct (negb (N.eqb (N.land mask 1) 0)); [apply P1L_ret|apply cond_owner_P1L]. }
  destruct (str_eqb cmd d_range).
  { destruct (a_value a) as [av|]; [|apply P1L_err; discriminate].
    destruct (negb (N.eqb (N.land mask 2) 0)); [apply P1L_ret|apply range_owner_P1L]. }
  destruct (str_eqb cmd d_remove); [apply P1L_ret|].
  destruct (str_eqb cmd d_text || str_eqb cmd d_raw).
  { destruct (l_child ls); apply P1L_ret. }
  destruct (str_eqb cmd d_define); [apply P1L_ret|].
  destruct (str_eqb cmd d_replace || str_eqb cmd d_insert).
  { destruct (ATTR_EVAL a (l_sc ls) (r_log st)) as [[name|c|] lg] eqn:E; apply attr_evaluate_spec in E as [Ee Ec].
    - destruct (assoc name (m_templates mgr)) as [tp|].
      + pose proof (run_template_P1 tp (l_sc ls) (set_log st lg)) as H.
        destruct (run_template exec tp (l_sc ls) (set_log st lg)) as [[o r] st2].
        destruct H as [Hs Hn]; cbn [fst snd] in Hs, Hn.
        assert (Hst : step false st st2) by (eapply step_trans; [apply step_set_log; exact Ee|exact Hs]).
        destruct r; (split; cbn [fst snd]; [exact Hst|]); try discriminate.
        intros X; inversion X; subst. apply Hn; reflexivity.
      + split; cbn [fst snd]; [apply step_set_log; exact Ee|discriminate].
    - split; cbn [fst snd]; [apply step_set_log; exact Ee|]. intros X; inversion X; subst. apply Ec; reflexivity.
    - split; cbn [fst snd]; [apply step_set_log; exact Ee|discriminate]. }
  destruct (ATTR_EVAL a (l_sc ls) (r_log st)) as [[v|c|] lg] eqn:E; apply attr_evaluate_spec in E as [Ee Ec];
    (split; cbn [fst snd]; [apply step_set_log; exact Ee|]); try discriminate.
  intros X; inversion X; subst. apply Ec; reflexivity.
Qed.

Lemma run_attrs_P1L mask ctx n attrs : forall l ls t st, P1L st (RUN_ATTRS mask ctx n attrs l ls t st).
Proof.
  induction l as [|a rest IH]; intros ls t st; cbn [run_attrs]; [apply P1L_ret|].
  pose proof (attr_step_P1L mask ctx n attrs a ls t st) as H.
  destruct (ATTR_STEP mask ctx n attrs a ls t st) as [[[ls'|r] t'] s']; [|exact H].
  destruct (is_owner mgr mask a); [exact H|].
  destruct H as [Hs _]; cbn [fst snd] in Hs. eapply P1L_pre; [exact Hs|apply IH].
Qed.

Lemma run_child_P1 n ls top t st : P1 top st (RUN_CHILD n ls top t st).
Proof.
  unfold run_child. destruct (l_child ls) as [| |a esc|csc];
    [apply exec_list_P1|apply P1_ret| |apply exec_list_P1].
  destruct (ATTR_EVAL a (l_sc ls) (r_log st)) as [[v|c|] lg] eqn:E; apply attr_evaluate_spec in E as [Ee Ec].
  - eapply P1_pre; [apply step_set_log; exact Ee|apply wr_P1].
  - split; cbn [fst snd]; [apply step_set_log; exact Ee|]. intros _ X; inversion X; subst. apply Ec; reflexivity.
  - split; cbn [fst snd]; [apply step_set_log; exact Ee|]. intros _; discriminate.
Qed.

Lemma tag_end_P1 n (ls : lstate) top t3 st3 :
  P1 top st3 (match n_end n with
              | Some e => if l_np ls then ([], ROk, t3, st3) else wr top (t_value e) t3 st3
              | None => ([], ROk, t3, st3)
              end).
Proof. destruct (n_end n); [destruct (l_np ls); [apply P1_ret|apply wr_P1]|apply P1_ret]. Qed.

Lemma tag_rest_P1 n ls top t2 st2 :
  P1 top st2 (seq2 (RUN_CHILD n ls top t2 st2)
                (fun t3 st3 => match n_end n with
                               | Some e => if l_np ls then ([], ROk, t3, st3) else wr top (t_value e) t3 st3
                               | None => ([], ROk, t3, st3)
                               end)).
Proof. apply seq2_P1; [apply run_child_P1|]. intros t3 s3. apply tag_end_P1. Qed.

Lemma exec_tag_P1 mask ctx n tok sc top t st : P1 top st (EXEC_TAG mask ctx n tok sc top t st).
Proof.
  unfold exec_tag.
  match goal with |- context [RUN_ATTRS mask ctx n ?ats ?l ?ls0 t st] =>
    pose proof (run_attrs_P1L mask ctx n ats l ls0 t st) as H;
    destruct (RUN_ATTRS mask ctx n ats l ls0 t st) as [[[ls|r] t'] s']
  end; destruct H as [Hs Hn]; cbn [fst snd] in Hs, Hn.
  - eapply P1_pre; [apply step_false_any; exact Hs|].
    apply seq2_P1; [apply wr_P1|]. intros t2 s2. apply tag_rest_P1.
  - split; cbn [fst snd]; [apply step_false_any; exact Hs|]. intros _ X; subst. apply Hn; reflexivity.
Qed.

Lemma exec_body_P1 : inv_B EXEC_BODY.
Proof.
  intros mask ctx n sc top t st. unfold exec_body.
  destruct (n_tok n) as [tok|].
  - destruct (t_kind tok); try apply wr_P1. apply exec_tag_P1.
  - apply seq2_P1; [apply wr_P1|]. intros t1 s1. apply exec_list_P1.
Qed.
End B.

(* ====================== C: the unlimited run against the budgeted run ====================== *)
Section C.
Hypothesis HA : inv_A exec.
Hypothesis HB : inv_B exec.
Hypothesis HC : inv_C exec.

Lemma exec_list_brel ctx sc : forall l t st b, r_budget st = None ->
  brel b (exec_list exec ctx l sc true t st) (exec_list exec ctx l sc true t (with_budget st b)).
Proof.
  induction l as [|c r IH]; intros t st b H; cbn [exec_list]; [apply (brel_same b ([], ROk, t, st))|].
  apply seq2_brel.
  - apply HC; exact H.
  - eapply P1_none; [apply HB|exact H].
  - intros t1 s1. apply exec_list_P1; exact HB.
  - intros t1 s1 b1 H1. apply IH; exact H1.
Qed.

Lemma run_child_brel n ls t st b : r_budget st = None ->
  brel b (RUN_CHILD n ls true t st) (RUN_CHILD n ls true t (with_budget st b)).
Proof.
  intros H. unfold run_child. destruct (l_child ls) as [| |a esc|csc].
  - apply exec_list_brel; exact H.
  - apply (brel_same b ([], ROk, t, st)).
  - change (r_log (with_budget st b)) with (r_log st).
    destruct (ATTR_EVAL a (l_sc ls) (r_log st)) as [[v|c|] lg].
    + rewrite set_log_wb. apply wr_brel. exact H.
    + apply (brel_same b ([], RErr c, t, set_log st lg)).
    + apply (brel_same b ([], RUnmodelled, t, set_log st lg)).
  - apply exec_list_brel; exact H.
Qed.

Lemma tag_end_brel n (ls : lstate) t3 st3 b : r_budget st3 = None ->
  brel b (match n_end n with
          | Some e => if l_np ls then ([], ROk, t3, st3) else wr true (t_value e) t3 st3
          | None => ([], ROk, t3, st3)
          end)
         (match n_end n with
          | Some e => if l_np ls then ([], ROk, t3, with_budget st3 b) else wr true (t_value e) t3 (with_budget st3 b)
          | None => ([], ROk, t3, with_budget st3 b)
          end).
Proof.
  intros H. destruct (n_end n); [destruct (l_np ls)|].
  - apply (brel_same b ([], ROk, t3, st3)).
  - apply wr_brel; exact H.
  - apply (brel_same b ([], ROk, t3, st3)).
Qed.

Lemma exec_tag_brel mask ctx n tok sc t st b : r_budget st = None ->
  brel b (EXEC_TAG mask ctx n tok sc true t st) (EXEC_TAG mask ctx n tok sc true t (with_budget st b)).
Proof.
  intros H. unfold exec_tag. rewrite (run_attrs_A HA).
  match goal with |- context [wbL b (RUN_ATTRS mask ctx n ?ats ?l ?ls0 t st)] =>
    pose proof (P1L_none _ _ (run_attrs_P1L HB mask ctx n ats l ls0 t st)) as Hb;
    destruct (RUN_ATTRS mask ctx n ats l ls0 t st) as [[[ls|r] t'] s']
  end; cbn [fst snd] in Hb; cbn [wbL].
  2: { apply (brel_same b ([], r, t', s')). }
  assert (H' : r_budget s' = None) by congruence.
  apply seq2_brel.
  - apply wr_brel; exact H'.
  - eapply P1_none; [apply wr_P1|exact H'].
  - intros t2 s2. apply tag_rest_P1; exact HB.
  - intros t2 s2 b2 H2. apply seq2_brel.
    + apply run_child_brel; exact H2.
    + eapply P1_none; [apply run_child_P1; exact HB|exact H2].
    + intros t3 s3. apply tag_end_P1.
    + intros t3 s3 b3 H3. apply tag_end_brel; exact H3.
Qed.

Lemma exec_body_brel : inv_C EXEC_BODY.
Proof.
  intros mask ctx n sc t st b H. unfold exec_body.
  destruct (n_tok n) as [tok|].
  - destruct (t_kind tok); try (apply wr_brel; exact H). apply exec_tag_brel; exact H.
  - apply seq2_brel.
    + apply wr_brel; exact H.
    + eapply P1_none; [apply wr_P1|exact H].
    + intros t1 s1. apply exec_list_P1; exact HB.
    + intros t1 s1 b1 H1. apply exec_list_brel; exact H1.
Qed.
End C.
End Body.

(* ====================== the knot ====================== *)
Notation EXEC_NODE := (exec_node is_space to_lower is_letter is_udigit methods call_fn mgr).
Notation EXECUTE := (execute is_space to_lower is_letter is_udigit methods call_fn mgr).

Lemma exec_node_A : forall fuel, inv_A (EXEC_NODE fuel).
Proof.
  induction fuel as [|f IH]; intros mask ctx n sc t st b; cbn [exec_node]; [reflexivity|].
  apply exec_body_A; exact IH.
Qed.

Lemma exec_node_B : forall fuel, inv_B (EXEC_NODE fuel).
Proof.
  induction fuel as [|f IH]; intros mask ctx n sc top t st; cbn [exec_node].
  - split; cbn [fst snd]; [apply step_refl|intros _; discriminate].
  - apply exec_body_P1; exact IH.
Qed.

Lemma exec_node_C : forall fuel, inv_C (EXEC_NODE fuel).
Proof.
  induction fuel as [|f IH]; intros mask ctx n sc t st b H; cbn [exec_node].
  - apply (brel_same b ([], RErr RFuel, t, st)).
  - apply exec_body_brel; [apply exec_node_A|apply exec_node_B|exact IH|exact H].
Qed.

(* ---------- (1) nested renders ignore the budget ---------- *)
Theorem nested_ignores_budget : forall fuel mask ctx n sc t st b b' o r t1 s1 o' r' t1' s1',
  EXEC_NODE fuel mask ctx n sc false t (with_budget st b) = (o, r, t1, s1) ->
  EXEC_NODE fuel mask ctx n sc false t (with_budget st b') = (o', r', t1', s1') ->
  o' = o /\ r' = r /\ t1' = t1 /\ r_log s1' = r_log s1 /\ r_budget s1 = b /\ r_budget s1' = b'.
Proof.
  intros fuel mask ctx n sc t st b b' o r t1 s1 o' r' t1' s1' E E'.
  rewrite exec_node_A in E, E'.
  destruct (EXEC_NODE fuel mask ctx n sc false t st) as [[[o0 r0] t0] s0].
  cbn [wbR] in E, E'. inversion E; inversion E'; subst. cbn [with_budget r_log r_budget]. auto 10.
Qed.

(* the same as an equation: the budget of the start state is passed through unchanged *)
Theorem nested_ignores_budget_eq : forall fuel mask ctx n sc t st b,
  EXEC_NODE fuel mask ctx n sc false t (with_budget st b) = wbR b (EXEC_NODE fuel mask ctx n sc false t st).
Proof. intros. apply exec_node_A. Qed.

Theorem nested_never_writer_error : forall fuel mask ctx n sc t st o r t1 s1,
  EXEC_NODE fuel mask ctx n sc false t st = (o, r, t1, s1) ->
  r <> RErr RWriter /\ r_budget s1 = r_budget st.
Proof.
  intros fuel mask ctx n sc t st o r t1 s1 E.
  pose proof (exec_node_B fuel mask ctx n sc false t st) as H. rewrite E in H.
  destruct H as [[_ Hb] Hn]; cbn [fst snd] in Hb, Hn. split; [apply Hn|apply Hb]; left; reflexivity.
Qed.

(* ---------- the log of a render only grows ---------- *)
Theorem exec_log_extends : forall fuel mask ctx n sc top t st o r t1 s1,
  EXEC_NODE fuel mask ctx n sc top t st = (o, r, t1, s1) -> exists later, r_log s1 = later ++ r_log st.
Proof.
  intros fuel mask ctx n sc top t st o r t1 s1 E.
  pose proof (exec_node_B fuel mask ctx n sc top t st) as H. rewrite E in H.
  destruct H as [[He _] _]; cbn [fst snd] in He. exact He.
Qed.

(* ---------- an unlimited writer never fails ---------- *)
Theorem writer_never_fails_unlimited : forall fuel mask ctx n sc top t st o r t1 s1,
  r_budget st = None ->
  EXEC_NODE fuel mask ctx n sc top t st = (o, r, t1, s1) -> r <> RErr RWriter /\ r_budget s1 = None.
Proof.
  intros fuel mask ctx n sc top t st o r t1 s1 Hb E.
  pose proof (exec_node_B fuel mask ctx n sc top t st) as H. rewrite E in H.
  destruct H as [[_ Hb'] Hn]; cbn [fst snd] in Hb', Hn.
  split; [apply Hn; right; exact Hb|rewrite Hb'; [exact Hb|right; exact Hb]].
Qed.

(* ---------- (3) the general theorem ---------- *)
(* with the budget bookkeeping: in the first case the budgeted run ends with a budget that is at
   most the initial one; in the second case the budget is exhausted *)
Theorem writer_prefix_strong : forall fuel mask ctx n sc t st k o r t1 s1 ok rk tk sk,
  EXEC_NODE fuel mask ctx n sc true t (with_budget st None) = (o, r, t1, s1) ->
  EXEC_NODE fuel mask ctx n sc true t (with_budget st (Some k)) = (ok, rk, tk, sk) ->
  (ok = o /\ rk = r /\ tk = t1 /\ r_log sk = r_log s1 /\ r <> RErr RWriter /\
   exists k', r_budget sk = Some k' /\ (k' <= k)%nat)
  \/
  (rk = RErr RWriter /\ r_budget sk = Some O /\
   exists rest, o = ok ++ rest /\ exists later, r_log s1 = later ++ r_log sk).
Proof.
  intros fuel mask ctx n sc t st k o r t1 s1 ok rk tk sk E Ek.
  pose proof (exec_node_C fuel mask ctx n sc t (with_budget st None) (Some k) eq_refl) as H.
  pose proof (writer_never_fails_unlimited _ _ _ _ _ _ _ _ _ _ _ _ (eq_refl : r_budget (with_budget st None) = None) E) as [Hr _].
  rewrite wb_wb, E, Ek in H.
  destruct H as [(b' & Hd & Ey) | (o' & t' & s' & rest & Ey & Ho & He & Hz)]; cbn [wbR fst snd] in *.
  - left. inversion Ey; subst. cbn [with_budget r_log r_budget].
    repeat (split; [reflexivity|]). split; [exact Hr|].
    destruct b' as [k'|]; cbn [bdec] in Hd; [|contradiction]. exists k'. split; [reflexivity|exact Hd].
  - right. inversion Ey; subst. split; [reflexivity|]. split; [exact Hz|].
    exists rest. split; [reflexivity|]. exact He.
Qed.

Theorem writer_prefix : forall fuel mask ctx n sc t st k o r t1 s1 ok rk tk sk,
  EXEC_NODE fuel mask ctx n sc true t (with_budget st None) = (o, r, t1, s1) ->
  EXEC_NODE fuel mask ctx n sc true t (with_budget st (Some k)) = (ok, rk, tk, sk) ->
  (ok = o /\ rk = r /\ tk = t1 /\ r_log sk = r_log s1)
  \/
  (rk = RErr RWriter /\ exists rest, o = ok ++ rest /\ exists later, r_log s1 = later ++ r_log sk).
Proof.
  intros fuel mask ctx n sc t st k o r t1 s1 ok rk tk sk E Ek.
  destruct (writer_prefix_strong _ _ _ _ _ _ _ _ _ _ _ _ _ _ _ _ E Ek)
    as [(H1 & H2 & H3 & H4 & _) | (H1 & _ & H2)]; [left; auto|right; auto].
Qed.

(* ---------- Execute ---------- *)
Theorem execute_writer_prefix : forall fuel tp data t st k o r t1 s1 ok rk tk sk,
  EXECUTE fuel tp data t (with_budget st None) = (o, r, t1, s1) ->
  EXECUTE fuel tp data t (with_budget st (Some k)) = (ok, rk, tk, sk) ->
  (ok = o /\ rk = r /\ tk = t1 /\ r_log sk = r_log s1)
  \/
  (rk = RErr RWriter /\ exists rest, o = ok ++ rest /\ exists later, r_log s1 = later ++ r_log sk).
Proof. intros fuel tp data t st k. unfold execute. apply writer_prefix. Qed.

Theorem execute_writer_prefix_strong : forall fuel tp data t st k o r t1 s1 ok rk tk sk,
  EXECUTE fuel tp data t (with_budget st None) = (o, r, t1, s1) ->
  EXECUTE fuel tp data t (with_budget st (Some k)) = (ok, rk, tk, sk) ->
  (ok = o /\ rk = r /\ tk = t1 /\ r_log sk = r_log s1 /\ r <> RErr RWriter /\
   exists k', r_budget sk = Some k' /\ (k' <= k)%nat)
  \/
  (rk = RErr RWriter /\ r_budget sk = Some O /\
   exists rest, o = ok ++ rest /\ exists later, r_log s1 = later ++ r_log sk).
Proof. intros fuel tp data t st k. unfold execute. apply writer_prefix_strong. Qed.

Theorem execute_never_fails_unlimited : forall fuel tp data t st o r t1 s1,
  r_budget st = None ->
  EXECUTE fuel tp data t st = (o, r, t1, s1) -> r <> RErr RWriter /\ r_budget s1 = None.
Proof. intros fuel tp data t st. unfold execute. apply writer_never_fails_unlimited. Qed.

Theorem execute_log_extends : forall fuel tp data t st o r t1 s1,
  EXECUTE fuel tp data t st = (o, r, t1, s1) -> exists later, r_log s1 = later ++ r_log st.
Proof. intros fuel tp data t st. unfold execute. apply exec_log_extends. Qed.
End WP.

Print Assumptions nested_ignores_budget.
Print Assumptions writer_never_fails_unlimited.
Print Assumptions exec_log_extends.
Print Assumptions writer_prefix.
Print Assumptions writer_prefix_strong.
Print Assumptions execute_writer_prefix.
Print Assumptions execute_never_fails_unlimited.

(* Non-vacuity: both cases of [writer_prefix] occur.  A root with two text children "a", "b" makes
   three Write calls (the root's empty write, then the two texts). *)
Definition x_txt (id : N) (c : rune) : node := Node id (Some (mkTok KText [c] (1, 1) (1, 2) [] [])) [] None.
Definition x_run (b : option nat) : R :=
  exec_node (fun _ => false) (fun r => r) (fun _ => false) (fun _ => false) (fun _ _ => []) (fun _ _ => FOk VNil)
    (mkM [] [] [] (SData VNil)) 3 0 [] (Node 0 None [x_txt 1 97; x_txt 2 98] None) (SData VNil) true []
    (with_budget (mkR [] None) b).
Example x_cut :
  x_run None = ([97; 98], ROk, [], mkR [] None) /\
  x_run (Some 2%nat) = ([97], RErr RWriter, [], mkR [] (Some 0%nat)) /\
  x_run (Some 3%nat) = ([97; 98], ROk, [], mkR [] (Some 0%nat)) /\
  x_run (Some 5%nat) = ([97; 98], ROk, [], mkR [] (Some 2%nat)).
Proof. vm_compute. repeat split. Qed.
