(* The catalogue of a template set (Sys/XtplCat.v): the fold that mirrors Save equals the closed specification
   cat_spec; one entry per key, header kept, references exact and complete, file order irrelevant. *)
From Tpl Require Import Sys.Xtpl Sys.XtplCat Proofs.XtplProps Proofs.EvalStrict.
From Coq Require Import Lia Permutation List Bool.
Import ListNotations.
Open Scope N_scope.

Definition ids_nonempty (es : list (str * entry)) : Prop := forall fe, In fe es -> en_id (snd fe) <> [].

(* ---------- boolean string equality ---------- *)
Lemma str_eqb_true_iff : forall a b : str, str_eqb a b = true <-> a = b.
Proof. intros a b. split; [apply str_eqb_eq|]. intros ->. apply str_eqb_refl. Qed.
Lemma str_eqb_false_iff : forall a b : str, str_eqb a b = false <-> a <> b.
Proof.
  intros a b. split.
  - intros E H. subst. rewrite str_eqb_refl in E. discriminate.
  - intros H. destruct (str_eqb a b) eqn:E; [|reflexivity]. apply str_eqb_eq in E. contradiction.
Qed.
Lemma str_eqb_sym : forall a b : str, str_eqb a b = str_eqb b a.
Proof.
  intros a b. destruct (str_eqb a b) eqn:E1; destruct (str_eqb b a) eqn:E2; try reflexivity.
  - apply str_eqb_eq in E1. subst. rewrite str_eqb_refl in E2. discriminate.
  - apply str_eqb_eq in E2. subst. rewrite str_eqb_refl in E1. discriminate.
Qed.

Notation mem k l := (existsb (str_eqb k) l).
Lemma mem_In : forall (k : str) l, mem k l = true <-> In k l.
Proof.
  intros k l. rewrite existsb_exists. split.
  - intros (x & Hx & E). apply str_eqb_eq in E. subst. exact Hx.
  - intros H. exists k. split; [exact H|apply str_eqb_refl].
Qed.
Lemma mem_false : forall (k : str) l, mem k l = false <-> ~ In k l.
Proof.
  intros k l. rewrite <- mem_In. destruct (mem k l); intuition congruence.
Qed.

(* ---------- keys ---------- *)
Definition ekey (fe : str * entry) : str := en_key (snd fe).
Definition eref (fe : str * entry) : cref := en_ref (fst fe) (snd fe).
Definition keys (es : list (str * entry)) : list str := map ekey es.

Lemma keys_In : forall es k, In k (keys es) <-> exists fe, In fe es /\ ekey fe = k.
Proof.
  intros es k. unfold keys. rewrite in_map_iff. split; intros (fe & H1 & H2); exists fe; auto.
Qed.

Lemma first_keys_In : forall es seen k, In k (first_keys seen es) <-> ~ In k seen /\ In k (keys es).
Proof.
  induction es as [|fe r IH]; intros seen k; cbn [first_keys keys map In].
  - tauto.
  - fold (ekey fe). fold (keys r). destruct (mem (ekey fe) seen) eqn:E.
    + rewrite IH. apply mem_In in E. split.
      * intros [H1 H2]. split; [exact H1|right; exact H2].
      * intros [H1 [H2|H2]]; [subst; contradiction|split; assumption].
    + cbn [In]. rewrite IH. cbn [In]. apply mem_false in E. split.
      * intros [H|[H1 H2]]; [subst; split; [exact E|left; reflexivity]|].
        split; [intros H; apply H1; right; exact H|right; exact H2].
      * intros [H1 [H2|H2]]; [left; exact H2|].
        destruct (str_eqb (ekey fe) k) eqn:E2; [left; apply str_eqb_eq; exact E2|].
        apply str_eqb_false_iff in E2. right. split; [|exact H2].
        intros [H|H]; contradiction.
Qed.

Lemma first_keys_nodup : forall es seen, NoDup (first_keys seen es).
Proof.
  induction es as [|fe r IH]; intros seen; cbn [first_keys]; [constructor|].
  fold (ekey fe). destruct (mem (ekey fe) seen); [apply IH|].
  constructor; [|apply IH]. rewrite first_keys_In. intros [H _]. apply H. left. reflexivity.
Qed.

Lemma first_keys_app : forall es seen fe,
  first_keys seen (es ++ [fe]) =
  first_keys seen es ++ (if mem (ekey fe) seen || mem (ekey fe) (keys es) then [] else [ekey fe]).
Proof.
  induction es as [|fe0 r IH]; intros seen fe.
  - cbn [app first_keys keys map existsb]. fold (ekey fe). rewrite orb_false_r.
    destruct (mem (ekey fe) seen); reflexivity.
  - cbn [app first_keys keys map existsb]. fold (ekey fe0). fold (keys r).
    destruct (mem (ekey fe0) seen) eqn:E0.
    + rewrite IH. f_equal.
      destruct (str_eqb (ekey fe) (ekey fe0)) eqn:E1; [|reflexivity].
      apply str_eqb_eq in E1. rewrite E1, E0. reflexivity.
    + rewrite IH. cbn [app existsb]. f_equal. f_equal.
      destruct (str_eqb (ekey fe) (ekey fe0)), (mem (ekey fe) seen), (mem (ekey fe) (keys r)); reflexivity.
Qed.

(* ---------- cat_find / cat_put on a list of entries indexed by their keys ---------- *)
Lemma cat_find_map : forall (g : str -> centry) ks k,
  (forall k', In k' ks -> ce_key (g k') = k') ->
  cat_find k (map g ks) = if mem k ks then Some (g k) else None.
Proof.
  induction ks as [|a ks IH]; intros k H; cbn [map cat_find existsb]; [reflexivity|].
  rewrite (H a) by (left; reflexivity). rewrite (str_eqb_sym a k).
  destruct (str_eqb k a) eqn:E; cbn [orb].
  - apply str_eqb_eq in E. subst. reflexivity.
  - apply IH. intros k' Hk'. apply H. right. exact Hk'.
Qed.

Lemma cat_put_map_in : forall (g : str -> centry) e ks,
  (forall k', In k' ks -> ce_key (g k') = k') -> NoDup ks -> In (ce_key e) ks ->
  cat_put e (map g ks) = map (fun k' => if str_eqb k' (ce_key e) then e else g k') ks.
Proof.
  induction ks as [|a ks IH]; intros H Hnd Hin; [destruct Hin|].
  cbn [map cat_put]. rewrite (H a) by (left; reflexivity).
  inversion Hnd as [|a' ks' Hna Hnd']; subst.
  destruct (str_eqb a (ce_key e)) eqn:E.
  - apply str_eqb_eq in E. f_equal. apply map_ext_in. intros k' Hk'.
    destruct (str_eqb k' (ce_key e)) eqn:E2; [|reflexivity].
    apply str_eqb_eq in E2. subst. contradiction.
  - f_equal. apply IH; [intros k' Hk'; apply H; right; exact Hk'|exact Hnd'|].
    destruct Hin as [Hin|Hin]; [|exact Hin]. subst. rewrite str_eqb_refl in E. discriminate.
Qed.

Lemma cat_put_map_notin : forall (g : str -> centry) e ks,
  (forall k', In k' ks -> ce_key (g k') = k') -> ~ In (ce_key e) ks ->
  cat_put e (map g ks) = map g ks ++ [e].
Proof.
  induction ks as [|a ks IH]; intros H Hnin; [reflexivity|].
  cbn [map cat_put app]. rewrite (H a) by (left; reflexivity).
  destruct (str_eqb a (ce_key e)) eqn:E.
  - apply str_eqb_eq in E. exfalso. apply Hnin. left. exact E.
  - f_equal. apply IH; [intros k' Hk'; apply H; right; exact Hk'|].
    intros Hin. apply Hnin. right. exact Hin.
Qed.

(* ---------- the specification entry ---------- *)
Lemma spec_entry_snoc : forall es k occ fe, filter (has_key k) es = occ ++ [fe] ->
  spec_entry es k = mkCe false (en_ctxt (snd fe)) (en_id (snd fe)) (en_id2 (snd fe)) (map eref (occ ++ [fe])).
Proof.
  intros es k occ fe H. unfold spec_entry. rewrite H. rewrite (map_app (fun fe0 => Some (snd fe0))).
  cbn [map]. rewrite last_last. reflexivity.
Qed.

Lemma filter_key_In : forall es k fe, In fe (filter (has_key k) es) <-> In fe es /\ ekey fe = k.
Proof.
  intros es k fe. rewrite filter_In. unfold has_key. fold (ekey fe). rewrite str_eqb_true_iff. tauto.
Qed.

Lemma filter_none : forall es k, ~ In k (keys es) -> filter (has_key k) es = [].
Proof.
  intros es k H. destruct (filter (has_key k) es) as [|fe l] eqn:E; [reflexivity|].
  exfalso. apply H. apply keys_In. exists fe. apply filter_key_In. rewrite E. left. reflexivity.
Qed.

Lemma filter_some : forall es k, In k (keys es) -> exists occ fe, filter (has_key k) es = occ ++ [fe].
Proof.
  intros es k H. apply keys_In in H as (fe & H1 & H2).
  assert (Hin : In fe (filter (has_key k) es)) by (apply filter_key_In; split; assumption).
  destruct (exists_last (l := filter (has_key k) es)) as (occ & fe' & E).
  - intros E. rewrite E in Hin. destruct Hin.
  - exists occ, fe'. exact E.
Qed.

Lemma spec_entry_props : forall es k, In k (keys es) ->
  ce_hdr (spec_entry es k) = false /\ ce_key (spec_entry es k) = k /\
  ce_refs (spec_entry es k) = map eref (filter (has_key k) es) /\ ce_refs (spec_entry es k) <> [] /\
  exists fe, In fe es /\ ekey fe = k /\ ce_ctxt (spec_entry es k) = en_ctxt (snd fe) /\
             ce_id (spec_entry es k) = en_id (snd fe) /\ ce_id2 (spec_entry es k) = en_id2 (snd fe).
Proof.
  intros es k H. destruct (filter_some es k H) as (occ & fe & E).
  assert (Hfe : In fe es /\ ekey fe = k).
  { apply filter_key_In. rewrite E. apply in_or_app. right. left. reflexivity. }
  rewrite (spec_entry_snoc es k occ fe E). cbn [ce_hdr ce_refs ce_ctxt ce_id ce_id2]. rewrite E.
  split; [reflexivity|]. split; [exact (proj2 Hfe)|]. split; [reflexivity|]. split.
  - rewrite map_app. cbn [map]. intros C. apply app_eq_nil in C as [_ C]. discriminate.
  - exists fe. destruct Hfe as [H1 H2]. repeat split; assumption.
Qed.

(* the header's key is never the key of an entry with a msgid *)
Lemma en_key_not_hdr : forall en, en_id en <> [] -> en_key en <> ce_key cat_header.
Proof.
  intros en Hid. unfold en_key, ce_key, ckey. cbn [cat_header ce_ctxt ce_id app].
  destruct (en_ctxt en) as [|y [|z c]]; cbn [app]; intros H; inversion H; congruence.
Qed.

(* ---------- MAIN ---------- *)
Lemma cat_add_spec : forall es fe, en_id (snd fe) <> [] -> cat_add (cat_spec es) fe = cat_spec (es ++ [fe]).
Proof.
  intros es [file en] Hid. cbn [snd] in Hid.
  set (k := en_key en).
  assert (Hg : forall k', In k' (first_keys [] es) -> ce_key (spec_entry es k') = k').
  { intros k' Hk'. apply first_keys_In in Hk' as [_ Hk']. apply (spec_entry_props es k' Hk'). }
  assert (Hks : forall k', In k' (first_keys [] es) <-> In k' (keys es)).
  { intros k'. rewrite first_keys_In. cbn [In]. tauto. }
  assert (Hh : str_eqb (ce_key cat_header) k = false).
  { apply str_eqb_false_iff. intros C. apply (en_key_not_hdr en Hid). symmetry. exact C. }
  (* filters over the extended list *)
  assert (Hfk : filter (has_key k) (es ++ [(file, en)]) = filter (has_key k) es ++ [(file, en)]).
  { rewrite filter_app. cbn [filter]. unfold has_key at 2. cbn [snd]. fold k. rewrite str_eqb_refl. reflexivity. }
  assert (Hfo : forall k', k' <> k -> spec_entry (es ++ [(file, en)]) k' = spec_entry es k').
  { intros k' Hne.
    assert (E : str_eqb k k' = false) by (apply str_eqb_false_iff; intros C; apply Hne; symmetry; exact C).
    assert (F : filter (has_key k') (es ++ [(file, en)]) = filter (has_key k') es).
    { rewrite filter_app. cbn [filter]. unfold has_key at 2. cbn [snd]. fold k. rewrite E. apply app_nil_r. }
    unfold spec_entry. rewrite F. reflexivity. }
  unfold cat_add, cat_spec. fold k. cbn [cat_find]. rewrite Hh.
  rewrite (cat_find_map (spec_entry es) (first_keys [] es) k Hg).
  rewrite first_keys_app. cbn [existsb orb]. change (ekey (file, en)) with k.
  destruct (mem k (keys es)) eqn:Em.
  - (* the key is already present *)
    assert (Hin : In k (keys es)) by (apply mem_In; exact Em).
    assert (Em' : mem k (first_keys [] es) = true) by (apply mem_In, Hks; exact Hin).
    rewrite Em'. destruct (filter_some es k Hin) as (occ & fe0 & Eocc).
    rewrite (spec_entry_snoc es k occ fe0 Eocc). cbn [ce_hdr ce_refs].
    set (ne := mkCe false (en_ctxt en) (en_id en) (en_id2 en) (map eref (occ ++ [fe0]) ++ [en_ref file en])).
    assert (Hne : ce_key ne = k) by reflexivity.
    cbn [cat_put]. rewrite Hne, Hh. rewrite app_nil_r. f_equal.
    rewrite (cat_put_map_in (spec_entry es) ne (first_keys [] es) Hg (first_keys_nodup es []))
      by (rewrite Hne; apply Hks; exact Hin).
    apply map_ext_in. intros k' Hk'. rewrite Hne.
    destruct (str_eqb k' k) eqn:E.
    + apply str_eqb_eq in E. subst k'.
      rewrite Eocc in Hfk. rewrite (spec_entry_snoc _ k (occ ++ [fe0]) (file, en) Hfk).
      unfold ne. cbn [snd]. f_equal. rewrite (map_app eref (occ ++ [fe0])). reflexivity.
    + apply str_eqb_false_iff in E. symmetry. apply Hfo. exact E.
  - (* a new key *)
    assert (Hnin : ~ In k (keys es)) by (apply mem_false; exact Em).
    assert (Em' : mem k (first_keys [] es) = false) by (apply mem_false; rewrite Hks; exact Hnin).
    rewrite Em'. cbn [app].
    set (ne := mkCe false (en_ctxt en) (en_id en) (en_id2 en) [en_ref file en]).
    assert (Hne : ce_key ne = k) by reflexivity.
    cbn [cat_put]. rewrite Hne, Hh. f_equal.
    rewrite (cat_put_map_notin (spec_entry es) ne (first_keys [] es) Hg)
      by (rewrite Hne, Hks; exact Hnin).
    rewrite map_app. cbn [map]. f_equal.
    + apply map_ext_in. intros k' Hk'. symmetry. apply Hfo. intros C. subst k'. apply Hnin, Hks. exact Hk'.
    + f_equal. rewrite (filter_none es k Hnin) in Hfk. cbn [app] in Hfk.
      rewrite (spec_entry_snoc _ k [] (file, en) Hfk). reflexivity.
Qed.

Theorem cat_is_spec : forall es, ids_nonempty es -> cat_of es = cat_spec es.
Proof.
  induction es as [|fe es IH] using rev_ind; intros Hne; [reflexivity|].
  unfold cat_of. rewrite fold_left_app. cbn [fold_left]. fold (cat_of es).
  rewrite IH.
  - apply cat_add_spec. apply Hne. apply in_or_app. right. left. reflexivity.
  - intros fe' Hfe'. apply Hne. apply in_or_app. left. exact Hfe'.
Qed.

(* ---------- the entries of the specification ---------- *)
Lemma cat_spec_In : forall es ce,
  In ce (cat_spec es) <-> ce = cat_header \/ exists k, In k (keys es) /\ ce = spec_entry es k.
Proof.
  intros es ce. unfold cat_spec. cbn [In]. rewrite in_map_iff. split.
  - intros [H|(k & H1 & H2)]; [left; symmetry; exact H|].
    right. exists k. apply first_keys_In in H2 as [_ H2]. split; [exact H2|symmetry; exact H1].
  - intros [H|(k & H1 & H2)]; [left; symmetry; exact H|].
    right. exists k. split; [symmetry; exact H2|]. apply first_keys_In. split; [intros []|exact H1].
Qed.

Lemma keys_not_hdr : forall es k, ids_nonempty es -> In k (keys es) -> k <> ce_key cat_header.
Proof.
  intros es k Hne Hk. apply keys_In in Hk as (fe & H1 & H2). subst k. apply en_key_not_hdr. apply Hne. exact H1.
Qed.

Lemma cat_spec_keys : forall es, map ce_key (cat_spec es) = ce_key cat_header :: first_keys [] es.
Proof.
  intros es. unfold cat_spec. cbn [map]. f_equal. rewrite map_map.
  rewrite <- (map_id (first_keys [] es)) at 2. apply map_ext_in. intros k Hk.
  apply first_keys_In in Hk as [_ Hk]. apply (spec_entry_props es k Hk).
Qed.

Theorem cat_keys_nodup : forall es, ids_nonempty es -> NoDup (map ce_key (cat_of es)).
Proof.
  intros es Hne. rewrite (cat_is_spec es Hne), cat_spec_keys. constructor; [|apply first_keys_nodup].
  intros Hin. apply first_keys_In in Hin as [_ Hin]. exact (keys_not_hdr es _ Hne Hin eq_refl).
Qed.

Theorem cat_header_kept : forall es, ids_nonempty es ->
  exists rest, cat_of es = cat_header :: rest /\ forall ce, In ce rest -> ce_hdr ce = false.
Proof.
  intros es Hne. rewrite (cat_is_spec es Hne). exists (map (spec_entry es) (first_keys [] es)).
  split; [reflexivity|]. intros ce Hce. apply in_map_iff in Hce as (k & H1 & H2). subst ce.
  apply first_keys_In in H2 as [_ H2]. apply (spec_entry_props es k H2).
Qed.

Theorem cat_complete : forall es f en, ids_nonempty es -> In (f, en) es ->
  exists ce, In ce (cat_of es) /\ ce_hdr ce = false /\ ce_key ce = en_key en /\ In (en_ref f en) (ce_refs ce).
Proof.
  intros es f en Hne Hin. rewrite (cat_is_spec es Hne).
  assert (Hk : In (en_key en) (keys es)) by (apply keys_In; exists (f, en); split; [exact Hin|reflexivity]).
  destruct (spec_entry_props es (en_key en) Hk) as (P1 & P2 & P3 & _).
  exists (spec_entry es (en_key en)). split; [apply cat_spec_In; right; exists (en_key en); split; [exact Hk|reflexivity]|].
  split; [exact P1|]. split; [exact P2|]. rewrite P3.
  change (en_ref f en) with (eref (f, en)). apply in_map. apply filter_key_In. split; [exact Hin|reflexivity].
Qed.

Lemma hdr_true : ce_hdr cat_header = true. Proof. reflexivity. Qed.

Theorem cat_refs_exact : forall es ce, ids_nonempty es -> In ce (cat_of es) -> ce_hdr ce = false ->
  ce_refs ce = map (fun fe => en_ref (fst fe) (snd fe)) (filter (has_key (ce_key ce)) es) /\ ce_refs ce <> [] /\
  exists f en, In (f, en) es /\ en_key en = ce_key ce /\ ce_ctxt ce = en_ctxt en /\ ce_id ce = en_id en /\ ce_id2 ce = en_id2 en.
Proof.
  intros es ce Hne Hin Hh. rewrite (cat_is_spec es Hne) in Hin. apply cat_spec_In in Hin as [Hin|(k & Hk & Hin)].
  - subst ce. discriminate.
  - subst ce. destruct (spec_entry_props es k Hk) as (P1 & P2 & P3 & P4 & (fe & Q1 & Q2 & Q3 & Q4 & Q5)).
    rewrite P2. split; [exact P3|]. split; [exact P4|].
    destruct fe as [f en]. exists f, en. cbn [snd] in *. repeat split; assumption.
Qed.

(* ---------- keys are injective on pairs whose context has no EOT ---------- *)
Theorem ckey_inj : forall c1 i1 c2 i2, ~ In cEOT c1 -> ~ In cEOT c2 -> ckey c1 i1 = ckey c2 i2 -> c1 = c2 /\ i1 = i2.
Proof.
  unfold ckey. induction c1 as [|x c1 IH]; intros i1 [|y c2] i2 H1 H2 E; cbn [app] in E.
  - injection E as E. split; [reflexivity|exact E].
  - injection E as E1 E2. exfalso. apply H2. left. symmetry. exact E1.
  - injection E as E1 E2. exfalso. apply H1. left. exact E1.
  - injection E as E1 E2. subst y.
    destruct (IH i1 c2 i2) as [Hc Hi]; [intros C; apply H1; right; exact C|intros C; apply H2; right; exact C|exact E2|].
    subst. split; reflexivity.
Qed.

Theorem cat_one_entry_per_pair : forall es, ids_nonempty es ->
  (forall fe, In fe es -> ~ In cEOT (en_ctxt (snd fe))) ->
  NoDup (map (fun ce => (ce_ctxt ce, ce_id ce)) (cat_of es)) /\
  forall f en, In (f, en) es ->
    exists ce, In ce (cat_of es) /\ ce_hdr ce = false /\ ce_ctxt ce = en_ctxt en /\ ce_id ce = en_id en /\
               ce_refs ce = map (fun fe => en_ref (fst fe) (snd fe))
                                (filter (fun fe => str_eqb (en_ctxt (snd fe)) (en_ctxt en) && str_eqb (en_id (snd fe)) (en_id en)) es).
Proof.
  intros es Hne Heot. split.
  - apply (NoDup_map_inv (fun p : str * str => ckey (fst p) (snd p))). rewrite map_map.
    exact (cat_keys_nodup es Hne).
  - intros f en Hin.
    assert (Hk : In (en_key en) (keys es)) by (apply keys_In; exists (f, en); split; [exact Hin|reflexivity]).
    destruct (spec_entry_props es (en_key en) Hk) as (P1 & P2 & P3 & P4 & (fe & Q1 & Q2 & Q3 & Q4 & Q5)).
    exists (spec_entry es (en_key en)). rewrite (cat_is_spec es Hne).
    split; [apply cat_spec_In; right; exists (en_key en); split; [exact Hk|reflexivity]|].
    split; [exact P1|].
    destruct (ckey_inj (en_ctxt (snd fe)) (en_id (snd fe)) (en_ctxt en) (en_id en)) as [Hc Hi];
      [apply Heot; exact Q1|apply (Heot (f, en)); exact Hin|exact Q2|].
    split; [rewrite Q3; exact Hc|]. split; [rewrite Q4; exact Hi|].
    rewrite P3. f_equal. apply filter_ext_in. intros fe' Hfe'. unfold has_key.
    destruct (str_eqb (en_key (snd fe')) (en_key en)) eqn:E.
    + apply str_eqb_eq in E.
      destruct (ckey_inj (en_ctxt (snd fe')) (en_id (snd fe')) (en_ctxt en) (en_id en)) as [Hc' Hi'];
        [apply Heot; exact Hfe'|apply (Heot (f, en)); exact Hin|exact E|].
      rewrite Hc', Hi', !str_eqb_refl. reflexivity.
    + destruct (str_eqb (en_ctxt (snd fe')) (en_ctxt en)) eqn:E1; [|reflexivity].
      destruct (str_eqb (en_id (snd fe')) (en_id en)) eqn:E2; [|reflexivity].
      apply str_eqb_eq in E1. apply str_eqb_eq in E2. unfold en_key in E. rewrite E1, E2, str_eqb_refl in E. discriminate.
Qed.

(* necessity of the EOT hypothesis: ("\x04", "\x05") and ("", "\x04\x05") are merged into one entry *)
Example eot_collision : exists es, ids_nonempty es /\ length es = 2%nat /\ length (cat_of es) = 2%nat.
Proof.
  exists [([1], mkEn [4] [5] [] 1 1); ([1], mkEn [] [4; 5] [] 1 2)].
  split; [|split; vm_compute; reflexivity].
  intros fe [H|[H|[]]]; subst fe; cbn; discriminate.
Qed.
Example eot_collision_pairs_differ :
  (en_ctxt (mkEn [4] [5] [] 1 1), en_id (mkEn [4] [5] [] 1 1)) <> (en_ctxt (mkEn [] [4; 5] [] 1 2), en_id (mkEn [] [4; 5] [] 1 2)).
Proof. cbn. discriminate. Qed.

(* necessity of ids_nonempty: an entry with empty context and msgid replaces the header *)
Example empty_id_loses_header : exists es, ~ In cat_header (cat_of es).
Proof.
  exists [([1], mkEn [] [] [] 1 1)]. vm_compute. intros [H|[]]. discriminate.
Qed.

(* ---------- the order of the files does not matter ---------- *)
Lemma Permutation_filter' : forall (A : Type) (p : A -> bool) (l l' : list A),
  Permutation l l' -> Permutation (filter p l) (filter p l').
Proof.
  intros A p l l' H. induction H as [|x l l' H IH|x y l|l l' l'' H1 IH1 H2 IH2]; cbn [filter].
  - constructor.
  - destruct (p x); [constructor; exact IH|exact IH].
  - destruct (p x), (p y); try apply Permutation_refl. apply perm_swap.
  - eapply Permutation_trans; eassumption.
Qed.

Theorem cat_order_irrelevant : forall es es', ids_nonempty es -> Permutation es es' ->
  forall ce, In ce (cat_of es) -> exists ce', In ce' (cat_of es') /\ ce_key ce' = ce_key ce /\ ce_hdr ce' = ce_hdr ce /\
                                          Permutation (ce_refs ce) (ce_refs ce').
Proof.
  intros es es' Hne Hp ce Hin.
  assert (Hne' : ids_nonempty es').
  { intros fe Hfe. apply Hne. apply (Permutation_in fe (Permutation_sym Hp)). exact Hfe. }
  rewrite (cat_is_spec es Hne) in Hin. rewrite (cat_is_spec es' Hne').
  apply cat_spec_In in Hin as [Hin|(k & Hk & Hin)]; subst ce.
  - exists cat_header. split; [apply cat_spec_In; left; reflexivity|]. repeat split. apply Permutation_refl.
  - assert (Hk' : In k (keys es')).
    { apply keys_In in Hk as (fe & H1 & H2). apply keys_In. exists fe. split; [|exact H2].
      apply (Permutation_in fe Hp). exact H1. }
    destruct (spec_entry_props es k Hk) as (P1 & P2 & P3 & _).
    destruct (spec_entry_props es' k Hk') as (P1' & P2' & P3' & _).
    exists (spec_entry es' k). split; [apply cat_spec_In; right; exists k; split; [exact Hk'|reflexivity]|].
    split; [rewrite P2, P2'; reflexivity|]. split; [rewrite P1, P1'; reflexivity|].
    rewrite P3, P3'. apply Permutation_map. apply Permutation_filter'. exact Hp.
Qed.

(* ---------- lifted to template sets ---------- *)
Definition kws_have_id (kws : list keyword) : Prop := forall kw, In kw kws -> kw_id kw <> O.

Theorem extract_expr_ids : forall kws e en, kws_have_id kws -> In en (extract_expr kws e) -> en_id en <> [].
Proof.
  intros kws e en Hk. revert en.
  induction e as [k t l c|s l c|a IHa|op a l c IHa|op a b l c IHa IHb|c a b IHc IHa IHb|a s n IHa|a i IHa IHi
                 |a lo hi IHa IHlo IHhi|a lo hi cp IHa IHlo IHhi IHcp|f args ell cm IHf IHargs] using expr_ind';
    intros en Hin; cbn [extract_expr] in Hin.
  - destruct Hin.
  - destruct Hin.
  - apply IHa. exact Hin.
  - apply IHa. exact Hin.
  - apply in_app_or in Hin as [Hin|Hin]; [apply IHa|apply IHb]; exact Hin.
  - apply in_app_or in Hin as [Hin|Hin]; [apply IHc; exact Hin|].
    apply in_app_or in Hin as [Hin|Hin]; [apply IHa|apply IHb]; exact Hin.
  - apply IHa. exact Hin.
  - apply in_app_or in Hin as [Hin|Hin]; [apply IHa|apply IHi]; exact Hin.
  - apply in_app_or in Hin as [Hin|Hin]; [apply IHa; exact Hin|].
    apply in_app_or in Hin as [Hin|Hin].
    + destruct lo as [x|]; [apply IHlo; exact Hin|destruct Hin].
    + destruct hi as [x|]; [apply IHhi; exact Hin|destruct Hin].
  - apply in_app_or in Hin as [Hin|Hin]; [apply IHa; exact Hin|].
    apply in_app_or in Hin as [Hin|Hin]; [destruct lo as [x|]; [apply IHlo; exact Hin|destruct Hin]|].
    apply in_app_or in Hin as [Hin|Hin]; [apply IHhi|apply IHcp]; exact Hin.
  - apply in_app_or in Hin as [Hin|Hin].
    + destruct (fn_name f) as [name|]; [|destruct Hin]. destruct args as [|a0 args0]; [destruct Hin|].
      apply in_flat_map in Hin as (kw & Hkw & Hin). exact (header_kept kw name _ en (Hk kw Hkw) Hin).
    + apply in_app_or in Hin as [Hin|Hin]; [apply IHf; exact Hin|].
      apply in_flat_map in Hin as (a & Ha & Hin). rewrite Forall_forall in IHargs. exact (IHargs a Ha en Hin).
Qed.

Section Set_.
Variable is_letter : rune -> bool.
Variable is_udigit : rune -> bool.
Variable attr_prefix : str.

Lemma extract_ctok_ids : forall kws c en, kws_have_id kws ->
  In en (extract_ctok is_letter is_udigit kws c) -> en_id en <> [].
Proof.
  intros kws c en Hk Hin. unfold extract_ctok in Hin.
  destruct (c_kind c); try (destruct Hin; fail).
  destruct (parse_code is_letter is_udigit (c_value c)) as [e|]; [|destruct Hin].
  apply in_map_iff in Hin as (en0 & H1 & H2). subst en.
  destruct (pos_add (c_start c) (en_line en0) (en_col en0)) as [l co]. cbn [en_id].
  exact (extract_expr_ids kws e en0 Hk H2).
Qed.

Lemma extract_attr_ids : forall kws a en, kws_have_id kws ->
  In en (extract_attr is_letter is_udigit attr_prefix kws a) -> en_id en <> [].
Proof.
  intros kws a en Hk Hin. unfold extract_attr in Hin.
  destruct (attr_ctoks attr_prefix (pok' is_letter is_udigit) a) as [l|x]; [|destruct Hin].
  apply in_flat_map in Hin as (c & _ & Hin). exact (extract_ctok_ids kws c en Hk Hin).
Qed.

Theorem extract_node_ids : forall fuel kws n en, kws_have_id kws ->
  In en (extract_node is_letter is_udigit attr_prefix fuel kws n) -> en_id en <> [].
Proof.
  induction fuel as [|fuel IH]; intros kws n en Hk Hin; cbn [extract_node] in Hin; [destruct Hin|].
  apply in_app_or in Hin as [Hin|Hin].
  - destruct (n_tok n) as [t|]; [|destruct Hin].
    destruct (t_kind t); try (destruct Hin; fail).
    apply in_flat_map in Hin as (a & _ & Hin). exact (extract_attr_ids kws a en Hk Hin).
  - apply in_flat_map in Hin as (ch & _ & Hin). exact (IH kws ch en Hk Hin).
Qed.

Lemma set_entries_In : forall fuel kws files fe,
  In fe (set_entries is_letter is_udigit attr_prefix fuel kws files) <->
  exists root, In (fst fe, root) files /\ In (snd fe) (extract_node is_letter is_udigit attr_prefix fuel kws root).
Proof.
  intros fuel kws files fe. unfold set_entries. rewrite in_flat_map. split.
  - intros ([f root] & H1 & H2). cbn [fst snd] in H2. apply in_map_iff in H2 as (en & H2 & H3). subst fe.
    exists root. cbn [fst snd]. split; assumption.
  - intros (root & H1 & H2). exists (fst fe, root). split; [exact H1|]. cbn [fst snd].
    apply in_map_iff. exists (snd fe). split; [destruct fe; reflexivity|exact H2].
Qed.

Theorem set_entries_ids : forall fuel kws files, kws_have_id kws ->
  ids_nonempty (set_entries is_letter is_udigit attr_prefix fuel kws files).
Proof.
  intros fuel kws files Hk fe Hfe. apply set_entries_In in Hfe as (root & _ & H).
  exact (extract_node_ids fuel kws root (snd fe) Hk H).
Qed.

Theorem catalogue_is_spec : forall fuel kws files, kws_have_id kws ->
  catalogue is_letter is_udigit attr_prefix fuel kws files =
  cat_spec (set_entries is_letter is_udigit attr_prefix fuel kws files).
Proof. intros fuel kws files Hk. apply cat_is_spec. apply set_entries_ids. exact Hk. Qed.

Theorem catalogue_header_kept : forall fuel kws files, kws_have_id kws ->
  exists rest, catalogue is_letter is_udigit attr_prefix fuel kws files = cat_header :: rest /\
               forall ce, In ce rest -> ce_hdr ce = false.
Proof. intros fuel kws files Hk. apply cat_header_kept. apply set_entries_ids. exact Hk. Qed.

Theorem catalogue_complete : forall fuel kws files f root en, kws_have_id kws -> In (f, root) files ->
  In en (extract_node is_letter is_udigit attr_prefix fuel kws root) ->
  exists ce, In ce (catalogue is_letter is_udigit attr_prefix fuel kws files) /\ ce_hdr ce = false /\
             ce_key ce = en_key en /\ In (en_ref f en) (ce_refs ce).
Proof.
  intros fuel kws files f root en Hk Hf Hen. apply cat_complete; [apply set_entries_ids; exact Hk|].
  apply set_entries_In. exists root. cbn [fst snd]. split; assumption.
Qed.

Theorem catalogue_sound : forall fuel kws files ce r, kws_have_id kws ->
  In ce (catalogue is_letter is_udigit attr_prefix fuel kws files) -> ce_hdr ce = false -> In r (ce_refs ce) ->
  exists f root en, In (f, root) files /\ In en (extract_node is_letter is_udigit attr_prefix fuel kws root) /\
                    en_key en = ce_key ce /\ r = en_ref f en.
Proof.
  intros fuel kws files ce r Hk Hce Hh Hr.
  destruct (cat_refs_exact _ ce (set_entries_ids fuel kws files Hk) Hce Hh) as (P & _ & _).
  rewrite P in Hr. apply in_map_iff in Hr as ([f en] & H1 & H2). cbn [fst snd] in H1.
  apply filter_key_In in H2 as [H2 H3]. apply set_entries_In in H2 as (root & H4 & H5). cbn [fst snd] in H4, H5.
  exists f, root, en. split; [exact H4|]. split; [exact H5|]. split; [exact H3|symmetry; exact H1].
Qed.

Theorem catalogue_keys_nodup : forall fuel kws files, kws_have_id kws ->
  NoDup (map ce_key (catalogue is_letter is_udigit attr_prefix fuel kws files)).
Proof. intros fuel kws files Hk. apply cat_keys_nodup. apply set_entries_ids. exact Hk. Qed.
End Set_.

Print Assumptions cat_is_spec.
Print Assumptions catalogue_complete.
Print Assumptions cat_order_irrelevant.
Print Assumptions catalogue_sound.
Print Assumptions cat_one_entry_per_pair.
