(* C01, last clause ("rendering the output again yields the same output"), part 1:
   invariants of the tag automaton about the NAMES and RAW VALUES it produces.

   For every tag token cut out by the tag automaton (not the close tag of a raw-text element):
     - the tag name contains no white space and no '>', and does not start with "!--" / "![CDATA[";
     - every attribute name contains no white space, no '>' and no '=';
     - attribute names are pairwise different;
     - an attribute without value has a non-empty name different from prefix++"else";
     - an attribute with an EMPTY NAME ( <p =x> ) has a value and is not preceded by a value-less attribute;
     - a raw value is  quoted (closing quote last, none inside)  or  unquoted (no white space, no '>',
       not starting with a quote)  -- its first rune is never white space or '>' --  or  EMPTY, and then it belongs to the last attribute ( <p a=> );
     - every valued attribute was accepted by the attribute compiler, or is the synthetic prefix++else="true".
   These are exactly the facts needed to re-scan the re-printed tag (IdemRescan.v). *)
From Coq Require Import List NArith Bool Lia Arith.
From Tpl Require Import Html.Scan Proofs.ScanConcat Proofs.PrintScanDefs Proofs.PrintScanSteps Proofs.TagPrint.
Import ListNotations.
Open Scope N_scope.

Definition ash := (str * option str)%type.

(* reversed attribute list (head = latest): the latest attribute is not value-less *)
Definition not_none (l : list ash) : Prop := match l with (_, None) :: _ => False | _ => True end.
Definition nonempty_val (x : ash) : Prop := snd x <> Some [].

Lemma prefixb_snoc_false (p n : str) (r : rune) :
  prefixb p n = false -> str_eqb (n ++ [r]) p = false -> prefixb p (n ++ [r]) = false.
Proof.
  intros H1 H2. destruct (prefixb p (n ++ [r])) eqn:E; [|reflexivity]. exfalso.
  apply prefixb_spec in E as [t Et].
  destruct t as [|y t0].
  - rewrite app_nil_r in Et. rewrite Et, str_eqb_refl in H2. discriminate.
  - destruct (@exists_last _ (y :: t0)) as (t' & x & E); [discriminate|].
    rewrite E, app_assoc in Et. apply app_inj_tail in Et as [Et _].
    rewrite Et, prefixb_app in H1. discriminate.
Qed.

Section P.
Variable is_space : rune -> bool.
Variable attr_prefix : str.
Variable compile : attr -> bool.
Hypothesis Hsp : is_space cSP = true.
Hypothesis Hdq : is_space cDQ = false.

Notation plain := (PrintScanDefs.plain is_space).
Notation aplain := (PrintScanDefs.aplain is_space).
Notation else_name := (Scan.else_name attr_prefix).
Notation tag_step := (Scan.tag_step is_space attr_prefix compile).
Notation add_attr := (Scan.add_attr attr_prefix compile).
Notation fix_else := (Scan.fix_else attr_prefix).

Definition val_ok (v : option str) : Prop :=
  match v with Some (f :: t) => plain f = true /\ value_okb is_space (f :: t) = true | _ => True end.

(* attribute shapes, reversed (head = latest) *)
Fixpoint rwf (l : list ash) : Prop :=
  match l with
  | [] => True
  | (an, v) :: r =>
      ~ In an (map fst r) /\ forallb aplain an = true /\
      (an = [] -> v <> None /\ not_none r) /\
      (v = None -> str_eqb an else_name = false) /\
      val_ok v /\ Forall nonempty_val r /\ rwf r
  end.

Definition name_ok (n : str) : Prop :=
  forallb plain n = true /\ prefixb sBANGDD n = false /\ prefixb sCDATA n = false.

(* accepted by the compiler, or not subject to it *)
Definition cfact (a : attr) : Prop :=
  a_value a = None \/ compile a = true \/ (a_name a = else_name /\ a_value a = Some true_q).

Definition cs (g : tagst) : list ash := map ashape (g_attrs g).
Definition Ecore (g : tagst) : Prop := name_ok (g_name g) /\ rwf (cs g) /\ Forall cfact (g_attrs g).

Definition part_val (v : str) : Prop :=
  match v with
  | [] => True
  | f :: t => plain f = true /\
              if is_quote f then forallb (fun c => negb (N.eqb c f)) t = true else forallb plain (f :: t) = true
  end.

(* the invariant of the states in which the automaton rests between two runes *)
Definition G (g : tagst) : Prop :=
  match g_state g with
  | TComment | TCData => True
  | TName => Ecore g /\ g_attrs g = []
  | TSpace => Ecore g /\ Forall nonempty_val (cs g) /\ not_none (cs g)
  | TAttrName => Ecore g /\ Forall nonempty_val (cs g) /\
                 exists n, n <> [] /\ forallb aplain n = true /\ (g_aname g = n \/ g_aname g = n ++ [cSP])
  | TAttrValue => Ecore g /\ Forall nonempty_val (cs g) /\
                  forallb aplain (trim_sp (g_aname g)) = true /\
                  (trim_sp (g_aname g) = [] -> not_none (cs g)) /\ part_val (g_aval g)
  end.
(* the transient state after an unread (the rune is dispatched again at once) *)
Definition G0 (g : tagst) : Prop :=
  g_state g = TAttrName /\ Ecore g /\ Forall nonempty_val (cs g) /\ g_aname g = [] /\ not_none (cs g).

(* what is known of an emitted tag token *)
Definition twf (t : token) : Prop :=
  name_ok (t_name t) /\ rwf (map ashape (rev (t_attrs t))) /\ Forall cfact (t_attrs t).
Definition tokfacts (t : token) : Prop :=
  (t_kind t = KTag -> twf t) /\ (t_kind t <> KTag -> t_name t = [] /\ t_attrs t = []).

Definition res_ok (toks : list token) (res : tres) (r : rune) : Prop :=
  match res with
  | TR toks' (MTag g') false => toks' = toks /\ G g'
  | TR toks' (MTag g') true => toks' = toks /\ G0 g' /\ is_space r = false /\ N.eqb r cGT = false
  | TR toks' MInit false => exists t, toks' = t :: toks /\ tokfacts t
  | TR toks' (MErr _) false => toks' = toks
  | _ => False
  end.

(* ---------- small facts ---------- *)
Lemma plain_intro r : is_space r = false -> N.eqb r cGT = false -> plain r = true.
Proof. intros H1 H2. unfold PrintScanDefs.plain. rewrite H1, H2. reflexivity. Qed.
Lemma aplain_intro r : is_space r = false -> N.eqb r cGT = false -> N.eqb r cEQ = false -> aplain r = true.
Proof. intros H1 H2 H3. unfold PrintScanDefs.aplain. rewrite plain_intro, H3 by assumption. reflexivity. Qed.

Lemma forallb_snoc {A} (f : A -> bool) l x : forallb f l = true -> f x = true -> forallb f (l ++ [x]) = true.
Proof. intros H1 H2. rewrite forallb_app, H1. cbn [forallb]. rewrite H2. reflexivity. Qed.

Lemma aplain_nosp (n : str) : forallb aplain n = true -> ends_sp n = false /\ trim_sp n = n.
Proof.
  intros H. unfold ends_sp, trim_sp. destruct (rev n) as [|c r'] eqn:Er; [split; reflexivity|].
  assert (Hc : aplain c = true).
  { rewrite forallb_forall in H. apply H. apply in_rev. rewrite Er. left; reflexivity. }
  unfold PrintScanDefs.aplain, PrintScanDefs.plain in Hc.
  destruct (N.eqb c cSP) eqn:Ec; [|split; reflexivity].
  apply N.eqb_eq in Ec. subst c. rewrite Hsp in Hc. discriminate.
Qed.

Lemma trim_snoc_sp (n : str) : ends_sp (n ++ [cSP]) = true /\ trim_sp (n ++ [cSP]) = n.
Proof. unfold ends_sp, trim_sp. rewrite rev_unit, N.eqb_refl. split; [reflexivity|apply rev_involutive]. Qed.

Lemma has_attr_notin an l : has_attr an l = false -> ~ In an (map fst (map ashape l)).
Proof.
  unfold has_attr. intros H Hi. rewrite map_map in Hi. apply in_map_iff in Hi as (a & Ha & Hi).
  cbn [ashape fst] in Ha. assert (E : existsb (fun a0 => str_eqb (a_name a0) an) l = true).
  { apply existsb_exists. exists a. split; [exact Hi|]. rewrite Ha. apply str_eqb_refl. }
  rewrite E in H. discriminate.
Qed.

Lemma fix_else_name a : a_name (fix_else a) = a_name a.
Proof. unfold Scan.fix_else. destruct (a_value a); [reflexivity|]. destruct (str_eqb _ _); reflexivity. Qed.

Lemma true_q_ok : val_ok (Some true_q).
Proof.
  split; [|reflexivity]. unfold PrintScanDefs.plain. pose proof Hdq as H. unfold cDQ in H. rewrite H. reflexivity.
Qed.

Lemma add_attr_inv b a g g' : add_attr b a g = inl g' ->
  (b = true -> compile (fix_else a) = true) /\ has_attr (a_name a) (g_attrs g) = false /\
  g' = mkTag (g_state g) (g_buf g) (g_start g) (fix_else a :: g_attrs g) (g_name g) (g_comment g) (g_cdata g)
             (g_aname g) (g_anstart g) (g_anend g) (g_aval g) (g_avstart g) (g_avend g).
Proof.
  intros H. pose proof (add_attr_eq attr_prefix compile b a g g' H) as E. split; [|split; [|exact E]].
  - intros ->. unfold Scan.add_attr in H. cbn [andb] in H. destruct (compile (fix_else a)); [reflexivity|discriminate].
  - unfold Scan.add_attr in H. destruct (b && negb _); [discriminate|]. rewrite fix_else_name in H.
    destruct (has_attr _ _); [discriminate|reflexivity].
Qed.

(* committing an attribute *)
Lemma add_ok b a g g' :
  add_attr b a g = inl g' -> Ecore g -> Forall nonempty_val (cs g) ->
  forallb aplain (a_name a) = true ->
  (a_name a = [] -> a_value a <> None /\ not_none (cs g)) ->
  val_ok (a_value a) -> (b = false -> a_value a = None) ->
  g' = mkTag (g_state g) (g_buf g) (g_start g) (fix_else a :: g_attrs g) (g_name g) (g_comment g) (g_cdata g)
             (g_aname g) (g_anstart g) (g_anend g) (g_aval g) (g_avstart g) (g_avend g) /\
  Ecore g' /\ (a_value a <> Some [] -> Forall nonempty_val (cs g')) /\
  (a_value a <> None -> not_none (cs g')).
Proof.
  intros Ha (Hn & Hr & Hc) Hne Hpl Hem Hv Hb.
  apply add_attr_inv in Ha as (Hcomp & Hdup & ->). split; [reflexivity|].
  assert (Hsh : ashape (fix_else a) = (a_name a, a_value a) \/
                (a_value a = None /\ str_eqb (a_name a) else_name = true /\ ashape (fix_else a) = (a_name a, Some true_q))).
  { unfold ashape, Scan.fix_else. destruct (a_value a) as [v|] eqn:Ev; [left; rewrite Ev; reflexivity|].
    destruct (str_eqb (a_name a) else_name) eqn:Ee; [right; auto|left; cbn [a_name a_value]; rewrite Ev; reflexivity]. }
  unfold Ecore, cs. cbn [g_name g_attrs map].
  split; [split; [exact Hn|split]|split].
  - destruct Hsh as [E|(Ev & Ee & E)]; rewrite E; cbn [rwf].
    + split; [apply has_attr_notin; exact Hdup|]. split; [exact Hpl|]. split; [exact Hem|].
      split; [|split; [exact Hv|split; [exact Hne|exact Hr]]].
      intros Ev. unfold Scan.fix_else in E. unfold ashape in E. rewrite Ev in E.
      destruct (str_eqb (a_name a) else_name); [cbn [a_name a_value] in E; discriminate E|reflexivity].
    + split; [apply has_attr_notin; exact Hdup|]. split; [exact Hpl|].
      split; [intros En; destruct (Hem En) as [H _]; contradiction|].
      split; [discriminate|]. split; [exact true_q_ok|split; [exact Hne|exact Hr]].
  - constructor; [|exact Hc]. unfold cfact.
    destruct b.
    + right; left. apply Hcomp. reflexivity.
    + specialize (Hb eq_refl). unfold Scan.fix_else. rewrite Hb.
      destruct (str_eqb (a_name a) else_name) eqn:Ee; cbn [a_name a_value].
      * right; right. split; [apply str_eqb_eq; exact Ee|reflexivity].
      * left. exact Hb.
  - intros Hv0. constructor; [|exact Hne]. unfold nonempty_val.
    destruct Hsh as [E|(_ & _ & E)]; rewrite E; cbn [snd]; [exact Hv0|discriminate].
  - intros Hv0. destruct Hsh as [E|(Ev & _)]; [rewrite E|contradiction]. cbn [not_none].
    destruct (a_value a); [exact I|contradiction].
Qed.

Lemma name_ok_snoc (n : str) (r : rune) : name_ok n -> is_space r = false -> N.eqb r cGT = false ->
  str_eqb (n ++ [r]) sBANGDD = false -> str_eqb (n ++ [r]) sCDATA = false -> name_ok (n ++ [r]).
Proof.
  intros (H1 & H2 & H3) Hs Hg E1 E2. split; [|split].
  - apply forallb_snoc; [exact H1|apply plain_intro; assumption].
  - apply prefixb_snoc_false; assumption.
  - apply prefixb_snoc_false; assumption.
Qed.

Lemma emit_facts toks g p1 : Ecore g ->
  exists t, emit_tag toks g p1 = t :: toks /\ tokfacts t.
Proof.
  intros (Hn & Hr & Hc). eexists. split; [reflexivity|]. split.
  - intros _. unfold twf. cbn [t_name t_attrs]. rewrite rev_involutive. split; [exact Hn|]. split; [exact Hr|].
    apply Forall_rev. exact Hc.
  - intros H. contradiction H. reflexivity.
Qed.

Lemma finish_or_ok toks g r p1 :
  (N.eqb r cGT = true -> Ecore g) -> (N.eqb r cGT = false -> G g) ->
  res_ok toks (finish_or toks g r p1) r.
Proof.
  intros H1 H2. unfold finish_or. destruct (N.eqb r cGT) eqn:E; cbn [res_ok].
  - apply emit_facts. exact (H1 eq_refl).
  - split; [reflexivity|exact (H2 eq_refl)].
Qed.

Ltac absurd_gt Egt := let H := fresh in intros H; rewrite Egt in H; discriminate H.

Lemma quote_eq f : (N.eqb f cDQ || N.eqb f cSQ) = is_quote f.
Proof. reflexivity. Qed.

(* ---------- one rune in a resting state ---------- *)
Lemma tag_step_ok toks g r p0 p1 : G g -> res_ok toks (tag_step toks g r p0 p1) r.
Proof.
  intros HG. unfold Scan.tag_step. unfold G in HG.
  destruct (g_state g) eqn:Est; tag_cbn.
  - (* TName *)
    destruct HG as (HE & Hat). pose proof HE as (Hn & Hr & Hc).
    assert (HE' : forall st b an ans ane av avs ave,
               Ecore (mkTag st b (g_start g) (g_attrs g) (g_name g) (g_comment g) (g_cdata g) an ans ane av avs ave)).
    { intros. exact HE. }
    destruct (N.eqb r cGT) eqn:Egt.
    + apply finish_or_ok; [intros _; apply HE'|absurd_gt Egt].
    + destruct (is_space r) eqn:Esp.
      * cbn [res_ok]. split; [reflexivity|]. unfold G; tag_cbn. split; [apply HE'|].
        unfold cs; tag_cbn. rewrite Hat. split; [constructor|exact I].
      * apply finish_or_ok; [absurd_gt Egt|]. intros _. unfold G; tag_cbn.
        destruct (str_eqb (g_name g ++ [r]) sBANGDD) eqn:E1; [exact I|].
        destruct (str_eqb (g_name g ++ [r]) sCDATA) eqn:E2; [exact I|].
        split; [|exact Hat]. unfold Ecore, cs; tag_cbn. split; [apply name_ok_snoc; assumption|]. split; assumption.
  - (* TCData *)
    destruct (suffixb sRRGT (g_cdata g ++ [r])); cbn [res_ok].
    + eexists. split; [reflexivity|]. split; [intros H; discriminate H|intros _; split; reflexivity].
    + split; [reflexivity|]. unfold G; tag_cbn. exact I.
  - (* TComment *)
    destruct (suffixb sDDGT (g_comment g ++ [r])).
    + destruct (prefixb [cGT] _ || prefixb [cDASH; cGT] _); [reflexivity|].
      destruct (containsb sLTBDD _ || containsb sDDGT _ || containsb sDDBGT _); [reflexivity|].
      destruct (suffixb sLTBD _); [reflexivity|]. cbn [res_ok].
      eexists. split; [reflexivity|]. split; [intros H; discriminate H|intros _; split; reflexivity].
    + destruct (prefixb [cGT] _ || prefixb [cDASH; cGT] _); [reflexivity|]. cbn [res_ok].
      split; [reflexivity|]. unfold G; tag_cbn. exact I.
  - (* TSpace *)
    destruct HG as (HE & Hne & Hnn).
    assert (HE' : forall st b an ans ane av avs ave,
               Ecore (mkTag st b (g_start g) (g_attrs g) (g_name g) (g_comment g) (g_cdata g) an ans ane av avs ave)).
    { intros. exact HE. }
    destruct (N.eqb r cGT) eqn:Egt.
    + apply finish_or_ok; [intros _; apply HE'|absurd_gt Egt].
    + destruct (is_space r) eqn:Esp; cbn [res_ok].
      * split; [reflexivity|]. unfold G; tag_cbn. split; [apply HE'|]. split; assumption.
      * split; [reflexivity|]. split; [|split; [exact Esp|exact Egt]].
        unfold G0; tag_cbn. split; [reflexivity|]. split; [apply HE'|]. split; [exact Hne|]. split; [reflexivity|exact Hnn].
  - (* TAttrName *)
    destruct HG as (HE & Hne & n & Hn0 & Hnp & Han).
    assert (HE' : forall st b an ans ane av avs ave,
               Ecore (mkTag st b (g_start g) (g_attrs g) (g_name g) (g_comment g) (g_cdata g) an ans ane av avs ave)).
    { intros. exact HE. }
    destruct (aplain_nosp n Hnp) as [Hends Htrim]. destruct (trim_snoc_sp n) as [Hends2 Htrim2].
    assert (Htr : trim_sp (g_aname g) = n) by (destruct Han as [E|E]; rewrite E; assumption).
    destruct (is_space r) eqn:Esp.
    { cbn [res_ok]. split; [reflexivity|]. unfold G; tag_cbn. split; [apply HE'|]. split; [exact Hne|].
      exists n. split; [exact Hn0|]. split; [exact Hnp|]. right.
      destruct Han as [E|E]; rewrite E; [rewrite Hends|rewrite Hends2]; reflexivity. }
    destruct (N.eqb r cGT) eqn:Egt.
    + destruct (add_attr _ _ _) as [g'|e] eqn:Ea; [|reflexivity].
      eapply add_ok in Ea as (-> & HEa & _ & _); tag_cbn; cbn [a_name a_value];
        [| apply HE' | exact Hne | rewrite Htr; exact Hnp | rewrite Htr; intros H; contradiction | exact I | reflexivity].
      apply finish_or_ok; [intros _; exact HEa|absurd_gt Egt].
    + destruct (N.eqb r cEQ) eqn:Eeq.
      { cbn [res_ok]. split; [reflexivity|]. unfold G; tag_cbn. split; [apply HE'|]. split; [exact Hne|].
        rewrite Htr. split; [exact Hnp|]. split; [intros H; contradiction|exact I]. }
      destruct (ends_sp (g_aname g)) eqn:Eends.
      * destruct (add_attr _ _ _) as [g'|e] eqn:Ea; [|reflexivity].
        eapply add_ok in Ea as (-> & HEa & Hne' & _); tag_cbn; cbn [a_name a_value];
          [| apply HE' | exact Hne | rewrite Htr; exact Hnp | rewrite Htr; intros H; contradiction | exact I | reflexivity].
        cbn [res_ok]. split; [reflexivity|]. unfold G; tag_cbn. split; [exact HEa|].
        split; [apply Hne'; discriminate|].
        exists [r]. split; [discriminate|]. split; [|left; reflexivity].
        cbn [forallb]. rewrite aplain_intro by assumption. reflexivity.
      * cbn [res_ok]. split; [reflexivity|]. unfold G; tag_cbn. split; [apply HE'|]. split; [exact Hne|].
        destruct Han as [E|E]; [|rewrite E, Hends2 in Eends; discriminate].
        exists (n ++ [r]). split; [destruct n; discriminate|]. split; [|left; rewrite E; reflexivity].
        apply forallb_snoc; [exact Hnp|apply aplain_intro; assumption].
  - (* TAttrValue *)
    destruct HG as (HE & Hne & Hnp & Hem & Hpv).
    assert (HE' : forall st b an ans ane av avs ave,
               Ecore (mkTag st b (g_start g) (g_attrs g) (g_name g) (g_comment g) (g_cdata g) an ans ane av avs ave)).
    { intros. exact HE. }
    destruct (g_aval g) as [|f av] eqn:Eav.
    + destruct (is_space r) eqn:Esp.
      { cbn [res_ok]. split; [reflexivity|]. unfold G; tag_cbn. split; [apply HE'|]. split; [exact Hne|].
        split; [exact Hnp|]. split; [exact Hem|exact I]. }
      destruct (N.eqb r cGT) eqn:Egt.
      * destruct (add_attr _ _ _) as [g'|e] eqn:Ea; [|reflexivity].
        eapply add_ok in Ea as (-> & HEa & _ & _); tag_cbn; cbn [a_name a_value];
          [| apply HE' | exact Hne | exact Hnp | intros H; split; [discriminate|exact (Hem H)] | exact I | discriminate].
        apply finish_or_ok; [intros _; exact HEa|absurd_gt Egt].
      * cbn [res_ok]. split; [reflexivity|]. unfold G; tag_cbn. split; [apply HE'|]. split; [exact Hne|].
        split; [exact Hnp|]. split; [exact Hem|]. unfold part_val.
        split; [apply plain_intro; assumption|].
        destruct (is_quote r); [reflexivity|]. cbn [forallb]. rewrite plain_intro by assumption. reflexivity.
    + rewrite quote_eq. unfold part_val in Hpv. destruct Hpv as [Hpf Hpv].
      destruct (is_quote f) eqn:Eq; cbn [andb negb orb].
      * destruct (N.eqb f r) eqn:Efr; cbn [orb].
        -- assert (Egt : N.eqb r cGT = false) by (apply (quote_not_gt f); assumption).
           apply N.eqb_eq in Efr. subst r.
           destruct (add_attr _ _ _) as [g'|e] eqn:Ea; [|reflexivity].
           eapply add_ok in Ea as (-> & HEa & Hne' & Hnn'); tag_cbn; cbn [a_name a_value];
             [| apply HE' | exact Hne | exact Hnp | intros H; split; [discriminate|exact (Hem H)] | | discriminate].
           ++ apply finish_or_ok; [absurd_gt Egt|]. intros _. unfold G; tag_cbn.
              split; [exact HEa|]. split; [apply Hne'; destruct av; discriminate|apply Hnn'; discriminate].
           ++ unfold val_ok. cbn [app]. split; [exact Hpf|]. cbn [value_okb]. rewrite Eq, rev_unit, N.eqb_refl. cbn [andb].
              rewrite forallb_forall in Hpv |- *. intros x Hx. apply Hpv. apply in_rev. exact Hx.
        -- cbn [res_ok]. split; [reflexivity|]. unfold G; tag_cbn. split; [apply HE'|]. split; [exact Hne|].
           split; [exact Hnp|]. split; [exact Hem|]. unfold part_val. cbn [app]. rewrite Eq. split; [exact Hpf|].
           apply forallb_snoc; [exact Hpv|]. rewrite N.eqb_sym, Efr. reflexivity.
      * destruct (is_space r || N.eqb r cGT) eqn:Efin.
        -- destruct (add_attr _ _ _) as [g'|e] eqn:Ea; [|reflexivity].
           eapply add_ok in Ea as (-> & HEa & Hne' & Hnn'); tag_cbn; cbn [a_name a_value];
             [| apply HE' | exact Hne | exact Hnp | intros H; split; [discriminate|exact (Hem H)] | | discriminate].
           ++ apply finish_or_ok; [intros _; exact HEa|]. intros _. unfold G; tag_cbn.
              split; [exact HEa|]. split; [apply Hne'; discriminate|apply Hnn'; discriminate].
           ++ unfold val_ok. split; [exact Hpf|]. cbn [value_okb]. rewrite Eq. exact Hpv.
        -- apply orb_false_iff in Efin as [Esp Egt].
           apply finish_or_ok; [absurd_gt Egt|]. intros _. unfold G; tag_cbn.
           split; [apply HE'|]. split; [exact Hne|]. split; [exact Hnp|]. split; [exact Hem|].
           unfold part_val. cbn [app]. rewrite Eq. split; [exact Hpf|]. change (f :: av ++ [r]) with ((f :: av) ++ [r]).
           apply forallb_snoc; [exact Hpv|apply plain_intro; assumption].
Qed.

(* ---------- the second dispatch of an unread rune ---------- *)
Lemma tag_step_ok0 toks g r p0 p1 : G0 g -> is_space r = false -> N.eqb r cGT = false ->
  match tag_step toks g r p0 p1 with
  | TR toks' (MTag g') false => toks' = toks /\ G g'
  | _ => False
  end.
Proof.
  intros (Est & HE & Hne & Han & Hnn) Esp Egt. unfold Scan.tag_step. tag_cbn. rewrite Est, Esp, Egt, Han.
  assert (HE' : forall st b an ans ane av avs ave,
             Ecore (mkTag st b (g_start g) (g_attrs g) (g_name g) (g_comment g) (g_cdata g) an ans ane av avs ave)).
  { intros. exact HE. }
  destruct (N.eqb r cEQ) eqn:Eeq.
  - split; [reflexivity|]. unfold G; tag_cbn. split; [apply HE'|]. split; [exact Hne|].
    change (trim_sp []) with (@nil rune). split; [reflexivity|]. split; [intros _; exact Hnn|exact I].
  - cbn [ends_sp rev]. split; [reflexivity|]. unfold G; tag_cbn. split; [apply HE'|]. split; [exact Hne|].
    exists [r]. split; [discriminate|]. split; [|left; reflexivity].
    cbn [forallb app]. rewrite aplain_intro by assumption. reflexivity.
Qed.

Lemma new_tag_G p0 : G (new_tag p0).
Proof.
  unfold G, new_tag; tag_cbn. split; [|reflexivity]. unfold Ecore, cs; tag_cbn.
  split; [repeat split|split; [exact I|constructor]].
Qed.

End P.

Print Assumptions tag_step_ok.
Print Assumptions tag_step_ok0.
