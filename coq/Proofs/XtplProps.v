(* C20: what xtpl extracts from one keyword call. *)
From Tpl Require Import Sys.Xtpl Exp.Eval.
From Coq Require Import Lia.
Open Scope N_scope.

(* soundness: an extracted entry comes from a keyword of that name with enough arguments whose msgid
   argument is a non-empty string literal; its text is the decoded literal *)
Lemma str_eqb_eq : forall a b : str, str_eqb a b = true -> a = b.
Proof. induction a as [|x s IH]; intros [|y t] E; try discriminate; [reflexivity|]. cbn in E. apply andb_prop in E as [E1 E2]. apply N.eqb_eq in E1. subst. f_equal. apply IH. exact E2. Qed.
Lemma str_eqb_refl : forall a : str, str_eqb a a = true.
Proof. induction a as [|x r IH]; [reflexivity|]. cbn. rewrite N.eqb_refl. exact IH. Qed.

Theorem entry_sound : forall kw name args en, In en (do_extract kw name args) -> kw_id kw <> O ->
  kw_name kw = name /\ (max_index kw <= length args)%nat /\
  exists a t l c, nth_error args (kw_id kw - 1) = Some a /\ a = ELit LStr t l c /\
                  en_id en <> [] /\ unquote_lit t = Ok (en_id en) /\ en_line en = l /\ en_col en = c.
Proof.
  intros kw name args en Hin Hid. unfold do_extract in Hin.
  destruct (str_eqb (kw_name kw) name) eqn:En; cbn [negb] in Hin; [|contradiction].
  destruct (Nat.ltb (length args) (max_index kw)) eqn:El; [contradiction|].
  destruct (kw_id kw) as [|k] eqn:Ek; [congruence|].
  destruct (arg_lit args (S k)) as [[[s l] c]|] eqn:Ea; [|contradiction].
  destruct s as [|x s]; [contradiction|]. destruct Hin as [<-|[]]. cbn [en_id en_line en_col].
  split; [apply str_eqb_eq; exact En|].
  split; [apply Nat.ltb_ge in El; exact El|].
  unfold arg_lit in Ea. destruct (nth_error args k) as [a|] eqn:Eargs; [|discriminate].
  unfold str_lit in Ea. destruct a as [lk t l' c'| | | | | | | | | |]; try discriminate.
  destruct lk; try discriminate.
  destruct (unquote_lit t) as [s'|cc|] eqn:Eu; injection Ea as E1 E2 E3; try discriminate; subst.
  exists (ELit LStr t l c), t, l, c. replace (S k - 1)%nat with k by lia.
  repeat split; try assumption; try reflexivity. discriminate.
Qed.

(* completeness: such a call site always yields the entry *)
Theorem entry_complete : forall kw args t l c s,
  (max_index kw <= length args)%nat -> kw_id kw <> O ->
  nth_error args (kw_id kw - 1) = Some (ELit LStr t l c) -> unquote_lit t = Ok s -> s <> [] ->
  exists en, do_extract kw (kw_name kw) args = [en] /\ en_id en = s /\ en_line en = l /\ en_col en = c.
Proof.
  intros kw args t l c s Hm Hid Hn Hu Hs. unfold do_extract.
  rewrite str_eqb_refl. cbn [negb].
  assert (El : Nat.ltb (length args) (max_index kw) = false) by (apply Nat.ltb_ge; exact Hm). rewrite El.
  destruct (kw_id kw) as [|k] eqn:Ek; [congruence|].
  replace (S k - 1)%nat with k in Hn by lia.
  assert (Ha : arg_lit args (S k) = Some (s, l, c)).
  { unfold arg_lit. rewrite Hn. cbn [str_lit]. rewrite Hu. reflexivity. }
  rewrite Ha.
  destruct s as [|x s]; [congruence|]. eexists. split; [reflexivity|]. cbn. repeat split.
Qed.

(* too few arguments, a msgid that is not a bare string literal, or an empty msgid add nothing *)
Theorem too_few_args_nothing : forall kw name args, (length args < max_index kw)%nat -> do_extract kw name args = [].
Proof.
  intros kw name args H. unfold do_extract. destruct (negb _); [reflexivity|].
  apply Nat.ltb_lt in H. rewrite H. reflexivity.
Qed.
Theorem non_literal_msgid_nothing : forall kw name args a, kw_id kw <> O ->
  nth_error args (kw_id kw - 1) = Some a -> (forall t l c, a <> ELit LStr t l c) -> do_extract kw name args = [].
Proof.
  intros kw name args a Hid Hn Hl. unfold do_extract. destruct (negb _); [reflexivity|].
  destruct (Nat.ltb _ _); [reflexivity|]. destruct (kw_id kw) as [|k] eqn:Ek; [congruence|].
  replace (S k - 1)%nat with k in Hn by lia.
  assert (Ha : arg_lit args (S k) = None).
  { unfold arg_lit. rewrite Hn. destruct a as [lk t l c| | | | | | | | | |]; try reflexivity.
    destruct lk; try reflexivity. exfalso. eapply Hl. reflexivity. }
  rewrite Ha. reflexivity.
Qed.
(* hence no extracted entry can collide with the header entry (msgid "") *)
Theorem header_kept : forall kw name args en, kw_id kw <> O -> In en (do_extract kw name args) -> en_id en <> [].
Proof. intros kw name args en Hid Hin. destruct (entry_sound kw name args en Hin Hid) as (_ & _ & a & t & l & c & _ & _ & H & _). exact H. Qed.

(* the extracted msgid is the string the evaluator passes to the function at run time *)
Theorem extracted_is_runtime_value : forall methods call_fn sc t l c lg,
  eval methods call_fn sc (ELit LStr t l c) lg = (match unquote_lit t with Ok s => Ok (VStr s) | Err e => Err e | Unmodelled => Unmodelled end, lg).
Proof. intros. cbn [eval]. destruct (unquote_lit t); reflexivity. Qed.

Theorem pos_add_spec : forall p line col, pos_add p line col = (fst p + line - 1, snd p + col).
Proof. reflexivity. Qed.

Print Assumptions entry_sound.
Print Assumptions entry_complete.
Print Assumptions extracted_is_runtime_value.
