(* The fuel of the renderer is invisible: more fuel never changes a result that did not run out of
   fuel.  No piece of [Section Body] invents [RErr RFuel]; a result is a fuel error only when some
   recursive call on the evaluated path returned one.  Hence, when the whole result is not a fuel
   error, every recursive call that was made can be replaced by a refined call. *)
From Tpl Require Import Html.Exec.
From Coq Require Import Lia.
Open Scope N_scope.

Definition no_fuel_err (x : R) : Prop := let '(_, r, _, _) := x in r <> RErr RFuel.
(* the analogue for results [(A + rres) * tbl * rst] (LR, range_iter) and for [run_template] *)
Definition no_fuel_s {A : Type} (x : (A + rres) * tbl * rst) : Prop :=
  match x with (inl _, _, _) => True | (inr r, _, _) => r <> RErr RFuel end.
Definition no_fuel3 (x : str * rres * rst) : Prop := let '(_, r, _) := x in r <> RErr RFuel.

(* refinement between two candidate recursive calls *)
Definition refines (e e' : N -> list node -> node -> scope -> bool -> tbl -> rst -> R) : Prop :=
  forall m c n s tp t st, no_fuel_err (e m c n s tp t st) -> e' m c n s tp t st = e m c n s tp t st.

Ltac nf_done := cbn [no_fuel_err no_fuel_s no_fuel3]; intros; congruence.
Ltac triv := intros _; reflexivity.

Lemma seq2_mono : forall (a a' : R) (f f' : tbl -> rst -> R),
  (no_fuel_err a -> a' = a) ->
  (forall t s, no_fuel_err (f t s) -> f' t s = f t s) ->
  no_fuel_err (seq2 a f) -> seq2 a' f' = seq2 a f.
Proof.
  intros a a' f f' Ha Hf.
  destruct a as [[[o r] t] s]. destruct r as [|c|]; cbn [seq2].
  - intros H. rewrite Ha by nf_done. cbn [seq2].
    rewrite Hf; [reflexivity|].
    revert H. destruct (f t s) as [[[o2 r2] t2] s2]. nf_done.
  - intros H. rewrite (Ha H). reflexivity.
  - intros H. rewrite (Ha H). reflexivity.
Qed.

Lemma seq2_nf_l : forall (a : R) f, no_fuel_err (seq2 a f) -> no_fuel_err a.
Proof.
  intros a f. destruct a as [[[o r] t] s]. destruct r as [|c|]; cbn [seq2]; try nf_done.
Qed.

Lemma seq2_nf_r : forall o t s f, no_fuel_err (seq2 (o, ROk, t, s) f) -> no_fuel_err (f t s).
Proof.
  intros o t s f. cbn [seq2]. destruct (f t s) as [[[o2 r2] t2] s2]. nf_done.
Qed.

Section FuelMono.
Variable is_space : rune -> bool.
Variable to_lower : rune -> rune.
Variable is_letter : rune -> bool.
Variable is_udigit : rune -> bool.
Variable methods : N -> bool -> list (str * N).
Variable call_fn : N -> list value -> fres.
Variable mgr : manager.

Notation eval_condN := (eval_cond is_letter is_udigit methods call_fn mgr).
Notation cond_ownerN := (cond_owner is_letter is_udigit methods call_fn mgr).
Notation range_ownerN := (range_owner is_space is_letter is_udigit methods call_fn).
Notation attr_stepN := (attr_step is_space is_letter is_udigit methods call_fn mgr).
Notation run_attrsN := (run_attrs is_space is_letter is_udigit methods call_fn mgr).
Notation run_childN := (run_child is_space is_letter is_udigit methods call_fn mgr).
Notation exec_tagN := (exec_tag is_space to_lower is_letter is_udigit methods call_fn mgr).
Notation exec_bodyN := (exec_body is_space to_lower is_letter is_udigit methods call_fn mgr).
Notation exec_nodeN := (exec_node is_space to_lower is_letter is_udigit methods call_fn mgr).

Section Pieces.
Variables e e' : N -> list node -> node -> scope -> bool -> tbl -> rst -> R.
Hypothesis Href : refines e e'.

Lemma exec_list_mono : forall ctx l sc top t st,
  no_fuel_err (exec_list e ctx l sc top t st) ->
  exec_list e' ctx l sc top t st = exec_list e ctx l sc top t st.
Proof.
  intros ctx l sc top. induction l as [|c r IH]; intros t st; cbn [exec_list].
  - triv.
  - apply seq2_mono.
    + apply Href.
    + exact IH.
Qed.

Lemma run_template_mono : forall tp sc st,
  no_fuel3 (run_template e tp sc st) ->
  run_template e' tp sc st = run_template e tp sc st.
Proof.
  intros tp sc st. unfold run_template.
  intros H. rewrite exec_list_mono; [reflexivity|].
  revert H. destruct (exec_list e (tp_ctx tp) (tp_children tp) sc false [] st) as [[[o r] t2] st2].
  nf_done.
Qed.

Lemma eval_cond_mono : forall mask ctx n a ls t st,
  no_fuel_s (eval_condN e mask ctx n a ls t st) ->
  eval_condN e' mask ctx n a ls t st = eval_condN e mask ctx n a ls t st.
Proof.
  intros mask ctx n a ls t st. unfold eval_cond. cbv zeta.
  destruct (attr_evaluate is_letter is_udigit methods call_fn mgr a (l_sc ls) (r_log st)) as [[s|c|] lg];
    try triv.
  destruct (str_eqb s s_true); [|triv].
  intros H. rewrite Href; [reflexivity|].
  revert H.
  destruct (e (N.lor mask 1) ctx n (l_sc ls) false (tbl_set t (n_id n) true) (set_log st lg)) as [[[o r] t2] st2].
  destruct r as [|c|]; nf_done.
Qed.

Lemma cond_owner_mono : forall mask ctx n a cmd ls t st,
  no_fuel_s (cond_ownerN e mask ctx n a cmd ls t st) ->
  cond_ownerN e' mask ctx n a cmd ls t st = cond_ownerN e mask ctx n a cmd ls t st.
Proof.
  intros mask ctx n a cmd ls t st. unfold cond_owner.
  destruct (str_eqb cmd d_if); [apply eval_cond_mono|].
  destruct (match prev_tag ctx (n_id n) None with Some p => tbl_get t (n_id p) | None => None end) as [[|]|].
  - triv.
  - apply eval_cond_mono.
  - triv.
Qed.

Lemma range_iter_mono : forall mask ctx n idx item scope0 sep items first acc t st,
  no_fuel_s (range_iter e mask ctx n idx item scope0 sep items first acc t st) ->
  range_iter e' mask ctx n idx item scope0 sep items first acc t st
  = range_iter e mask ctx n idx item scope0 sep items first acc t st.
Proof.
  intros mask ctx n idx item scope0 sep items.
  induction items as [|[k v] more IH]; intros first acc t st; cbn [range_iter]; cbv zeta.
  - triv.
  - intros H. rewrite Href.
    + revert H.
      destruct (e (N.lor mask 2) ctx n (range_scope idx item k v scope0) false t st) as [[[o r] t2] st2].
      destruct r as [|c|]; [apply IH|triv|triv].
    + revert H.
      destruct (e (N.lor mask 2) ctx n (range_scope idx item k v scope0) false t st) as [[[o r] t2] st2].
      destruct r as [|c|]; nf_done.
Qed.

Lemma range_owner_mono : forall mask ctx n av ls t st,
  no_fuel_s (range_ownerN e mask ctx n av ls t st) ->
  range_ownerN e' mask ctx n av ls t st = range_ownerN e mask ctx n av ls t st.
Proof.
  intros mask ctx n av ls t st. unfold range_owner.
  destruct (extract_range is_space (strip_quotes av)) as [[idx item] obj].
  destruct (parse_code is_letter is_udigit obj) as [pc|]; [|triv].
  cbv zeta.
  destruct (eval_text is_letter is_udigit methods call_fn (with_default (l_sc ls)) obj (r_log st)) as [[v|c|] lg];
    try triv.
  destruct (range_items v) as [items|]; [|triv].
  intros H. rewrite range_iter_mono; [reflexivity|].
  revert H.
  match goal with |- context [range_iter e ?a1 ?a2 ?a3 ?a4 ?a5 ?a6 ?a7 ?a8 ?a9 ?a10 ?a11 ?a12] =>
    destruct (range_iter e a1 a2 a3 a4 a5 a6 a7 a8 a9 a10 a11 a12) as [[[o|r] t2] st2] end; nf_done.
Qed.

Lemma attr_step_mono : forall mask ctx n attrs a ls t st,
  no_fuel_s (attr_stepN e mask ctx n attrs a ls t st) ->
  attr_stepN e' mask ctx n attrs a ls t st = attr_stepN e mask ctx n attrs a ls t st.
Proof.
  intros mask ctx n attrs a ls t st. unfold attr_step. cbv zeta.
  destruct (prefixb (prefix mgr) (a_name a)).
  2: { destruct (has_attr_named attrs (prefix mgr ++ a_name a)); triv. }
  destruct (str_eqb (skipn (length (prefix mgr)) (a_name a)) d_with).
  { destruct (negb (N.eqb mask 0)); [triv|].
    destruct (with_assign is_space is_letter is_udigit methods call_fn mgr a (l_sc ls) (r_log st)) as [[sc'|r] lg]; triv. }
  destruct (is_cond_name (skipn (length (prefix mgr)) (a_name a))).
  { destruct (a_value a) as [av|]; [|triv].
    destruct (negb (N.eqb (N.land mask 1) 0)); [triv|]. apply cond_owner_mono. }
  destruct (str_eqb (skipn (length (prefix mgr)) (a_name a)) d_range).
  { destruct (a_value a) as [av|]; [|triv].
    destruct (negb (N.eqb (N.land mask 2) 0)); [triv|]. apply range_owner_mono. }
  destruct (str_eqb (skipn (length (prefix mgr)) (a_name a)) d_remove); [triv|].
  destruct (str_eqb (skipn (length (prefix mgr)) (a_name a)) d_text
            || str_eqb (skipn (length (prefix mgr)) (a_name a)) d_raw)%bool.
  { destruct (l_child ls); triv. }
  destruct (str_eqb (skipn (length (prefix mgr)) (a_name a)) d_define); [triv|].
  destruct (str_eqb (skipn (length (prefix mgr)) (a_name a)) d_replace
            || str_eqb (skipn (length (prefix mgr)) (a_name a)) d_insert)%bool.
  { destruct (attr_evaluate is_letter is_udigit methods call_fn mgr a (l_sc ls) (r_log st)) as [[name|c|] lg];
      try triv.
    destruct (assoc name (m_templates mgr)) as [tp|]; [|triv].
    intros H. rewrite run_template_mono; [reflexivity|].
    revert H. destruct (run_template e tp (l_sc ls) (set_log st lg)) as [[o r] st2].
    destruct r as [|c|]; nf_done. }
  destruct (attr_evaluate is_letter is_udigit methods call_fn mgr a (l_sc ls) (r_log st)) as [[v|c|] lg]; triv.
Qed.

Lemma run_attrs_mono : forall mask ctx n attrs l ls t st,
  no_fuel_s (run_attrsN e mask ctx n attrs l ls t st) ->
  run_attrsN e' mask ctx n attrs l ls t st = run_attrsN e mask ctx n attrs l ls t st.
Proof.
  intros mask ctx n attrs l. induction l as [|a rest IH]; intros ls t st; cbn [run_attrs].
  - triv.
  - intros H. rewrite attr_step_mono.
    + revert H. destruct (attr_stepN e mask ctx n attrs a ls t st) as [[[ls'|r] t'] st'].
      * destruct (is_owner mgr mask a); [triv|apply IH].
      * triv.
    + revert H. destruct (attr_stepN e mask ctx n attrs a ls t st) as [[[ls'|r] t'] st'].
      * intros _. exact I.
      * nf_done.
Qed.

Lemma run_child_mono : forall n ls top t st,
  no_fuel_err (run_childN e n ls top t st) ->
  run_childN e' n ls top t st = run_childN e n ls top t st.
Proof.
  intros n ls top t st. unfold run_child.
  destruct (l_child ls) as [| |a esc|csc].
  - apply exec_list_mono.
  - triv.
  - destruct (attr_evaluate is_letter is_udigit methods call_fn mgr a (l_sc ls) (r_log st)) as [[v|c|] lg]; triv.
  - apply exec_list_mono.
Qed.

Lemma exec_tag_mono : forall mask ctx n tok sc top t st,
  no_fuel_err (exec_tagN e mask ctx n tok sc top t st) ->
  exec_tagN e' mask ctx n tok sc top t st = exec_tagN e mask ctx n tok sc top t st.
Proof.
  intros mask ctx n tok sc top t st. unfold exec_tag.
  intros H. rewrite run_attrs_mono.
  - revert H.
    destruct (run_attrsN e mask ctx n (t_attrs tok) (sorted_attrs (prefix mgr) (t_attrs tok))
                (init_lstate to_lower mgr mask tok sc) t st) as [[[ls|r] t'] st']; [|triv].
    apply seq2_mono.
    + triv.
    + intros t2 st2. apply seq2_mono.
      * apply run_child_mono.
      * intros t3 st3. triv.
  - revert H.
    destruct (run_attrsN e mask ctx n (t_attrs tok) (sorted_attrs (prefix mgr) (t_attrs tok))
                (init_lstate to_lower mgr mask tok sc) t st) as [[[ls|r] t'] st'].
    + intros _. exact I.
    + nf_done.
Qed.

Lemma exec_body_mono_pieces : forall mask ctx n sc top t st,
  no_fuel_err (exec_bodyN e mask ctx n sc top t st) ->
  exec_bodyN e' mask ctx n sc top t st = exec_bodyN e mask ctx n sc top t st.
Proof.
  intros mask ctx n sc top t st. unfold exec_body.
  destruct (n_tok n) as [tok|].
  - destruct (t_kind tok); try triv. apply exec_tag_mono.
  - apply seq2_mono.
    + triv.
    + intros t2 st2. apply exec_list_mono.
Qed.
End Pieces.

Theorem exec_body_mono : forall e e', refines e e' -> refines (exec_bodyN e) (exec_bodyN e').
Proof.
  intros e e' Href m c n s tp t st H. apply exec_body_mono_pieces; assumption.
Qed.

Lemma exec_node_refines : forall f, refines (exec_nodeN f) (exec_nodeN (S f)).
Proof.
  induction f as [|f IH].
  - intros m c n s tp t st H. cbn [exec_node no_fuel_err] in H. congruence.
  - change (exec_nodeN (S (S f))) with (exec_bodyN (exec_nodeN (S f))).
    change (exec_nodeN (S f)) with (exec_bodyN (exec_nodeN f)) at 1.
    apply exec_body_mono. exact IH.
Qed.

Theorem exec_fuel_mono : forall f m c n s tp t st,
  no_fuel_err (exec_nodeN f m c n s tp t st) ->
  exec_nodeN (S f) m c n s tp t st = exec_nodeN f m c n s tp t st.
Proof. intros f. exact (exec_node_refines f). Qed.

Corollary exec_fuel_mono_le : forall f f', (f <= f')%nat -> forall m c n s tp t st,
  no_fuel_err (exec_nodeN f m c n s tp t st) ->
  exec_nodeN f' m c n s tp t st = exec_nodeN f m c n s tp t st.
Proof.
  intros f f' Hle. induction Hle as [|f' Hle IH]; intros m c n s tp t st H.
  - reflexivity.
  - rewrite exec_fuel_mono.
    + apply IH. exact H.
    + rewrite IH by exact H. exact H.
Qed.

(* the same for the entry point *)
Corollary execute_fuel_mono_le : forall f f' tp data t st, (f <= f')%nat ->
  no_fuel_err (execute is_space to_lower is_letter is_udigit methods call_fn mgr f tp data t st) ->
  execute is_space to_lower is_letter is_udigit methods call_fn mgr f' tp data t st
  = execute is_space to_lower is_letter is_udigit methods call_fn mgr f tp data t st.
Proof.
  intros f f' tp data t st Hle. unfold execute. cbv zeta. apply exec_fuel_mono_le. exact Hle.
Qed.
End FuelMono.

Print Assumptions exec_body_mono.
Print Assumptions exec_fuel_mono.
Print Assumptions exec_fuel_mono_le.
Print Assumptions execute_fuel_mono_le.
