(* C01, last clause: "... and rendering the output again yields the same output."  Main statements.

   [render_idempotent_gen]: for every scanned document whose VALUED attributes the attribute compiler accepts
   wherever they stand ([accepted_anywhere]), the printed tree  out = print_plain (build toks)
     - scans again,
     - to tokens of the same kinds, names, attribute names and raw values (text, comments, CDATA and element-closing
       tags byte for byte; the other tags re-printed: [rel3]),
     - and printing the tree of these tokens gives [out] again.
   Instances:
   [render_idempotent_np]: the compiler ignores source positions and no tag carries the synthetic
                           prefix++else="true" value;
   [render_idempotent_plain]: directive-free document (no attribute named with the prefix), compiler arbitrary on
                           directive attributes -- in particular the compiler of the real pipeline
                           ([render_idempotent_pipeline], Html/Pipeline.v: compile_attr reads a_vstart). *)
From Coq Require Import List NArith Bool Lia Arith.
From Tpl Require Import Html.Scan Html.Tree Html.Pipeline Proofs.ScanSpec Proofs.PrintScanDefs Proofs.TagPrint Proofs.ExecSpec
  Proofs.TagPrintTree Proofs.IdemTagWf Proofs.IdemRescan Proofs.Idempotent Proofs.IdemCompile.
Import ListNotations.
Open Scope N_scope.

(* every valued attribute of the document is accepted by the compiler at any source position *)
Definition accepted_anywhere (compile : attr -> bool) (toks : list token) : Prop :=
  forall t a, In t toks -> In a (t_attrs t) -> a_value a <> None ->
  forall a', a_name a' = a_name a -> a_value a' = a_value a -> compile a' = true.

Lemma rel3_in toks outs toks2 t2 : rel3 toks outs toks2 -> In t2 toks2 -> exists t, In t toks /\ tsame t t2.
Proof.
  induction 1 as [|t o t2' l lo l2 Hs _ _ IH]; intros Hi; [contradiction|].
  destruct Hi as [->|Hi]; [exists t; split; [left; reflexivity|exact Hs]|].
  destruct (IH Hi) as (t0 & H1 & H2). exists t0. split; [right; exact H1|exact H2].
Qed.

Lemma same_attr (l1 l2 : list attr) a2 : map ashape l2 = map ashape l1 -> In a2 l2 ->
  exists a, In a l1 /\ a_name a2 = a_name a /\ a_value a2 = a_value a.
Proof.
  intros H Hi. apply (in_map ashape) in Hi. rewrite H in Hi. apply in_map_iff in Hi as (a & Ha & Hi).
  exists a. split; [exact Hi|]. unfold ashape in Ha. injection Ha as H1 H2. auto.
Qed.

Section Main.
Variable is_space : rune -> bool.
Variable to_lower : rune -> rune.
Variable text_tags : list str.
Variable attr_prefix : str.
Hypothesis Hsp : is_space cSP = true.
Hypothesis Hgt : is_space cGT = false.
Hypothesis Heq : is_space cEQ = false.
Hypothesis Hdq : is_space cDQ = false.
Hypothesis Hlt : is_space cLT = false.
Hypothesis Hsl : forall c, to_lower c = cSLASH -> c = cSLASH.

Definition cT : attr -> bool := fun _ => true.
Lemma cT_np : forall a1 a2 : attr, a_name a1 = a_name a2 -> a_value a1 = a_value a2 -> cT a1 = cT a2.
Proof. reflexivity. Qed.

Lemma to_cT compile (src : str) toks :
  scan is_space to_lower text_tags attr_prefix compile src = inl toks ->
  scan is_space to_lower text_tags attr_prefix cT src = inl toks.
Proof. intros H. apply (scan_same _ _ _ _ compile cT src toks H). reflexivity. Qed.

Lemma cT_prem toks : Forall (fun t => t_kind t = KTag -> ccond cT t) toks.
Proof. apply Forall_forall. intros t _ _ a v _ _ a' _ _. reflexivity. Qed.

Lemma from_cT compile (src0 : str) toks outs (out : str) toks2 :
  scan is_space to_lower text_tags attr_prefix cT src0 = inl toks ->
  accepted_anywhere compile toks -> rel3 toks outs toks2 ->
  scan is_space to_lower text_tags attr_prefix cT out = inl toks2 ->
  scan is_space to_lower text_tags attr_prefix compile out = inl toks2.
Proof.
  intros Hs0 Hacc R Hs2. apply (scan_same _ _ _ _ cT compile out toks2 Hs2).
  intros t2 a2 Ht2 Ha2 Hv2. destruct (rel3_in _ _ _ t2 R Ht2) as (t & Ht & (_ & _ & Hsh)).
  destruct (same_attr _ _ a2 Hsh Ha2) as (a & Ha & Hn & Hv).
  apply (Hacc t a Ht Ha); [rewrite <- Hv; exact Hv2|exact Hn|exact Hv].
Qed.

(* ---------- general form ---------- *)
Theorem rescan_pieces_gen (compile : attr -> bool) (src : str) (toks : list token) (outs : list str) :
  scan is_space to_lower text_tags attr_prefix compile src = inl toks ->
  accepted_anywhere compile toks -> Forall2 printed_as toks outs ->
  exists toks2, scan is_space to_lower text_tags attr_prefix compile (concat outs) = inl toks2 /\ rel3 toks outs toks2.
Proof.
  intros Hs Hacc F. pose proof (to_cT compile src toks Hs) as Hs'.
  destruct (rescan_pieces is_space to_lower text_tags attr_prefix cT Hsp Hgt Heq Hdq Hlt Hsl cT_np src toks outs Hs' (cT_prem toks) F)
    as (toks2 & Hs2 & R).
  exists toks2. split; [exact (from_cT compile src toks outs _ toks2 Hs' Hacc R Hs2)|exact R].
Qed.

Theorem render_idempotent_gen (compile : attr -> bool) (tree_lower : rune -> rune) (void_elements : list str)
    (src : str) (toks : list token) :
  scan is_space to_lower text_tags attr_prefix compile src = inl toks ->
  accepted_anywhere compile toks ->
  let out := print_plain (build tree_lower void_elements toks) in
  exists toks2,
    scan is_space to_lower text_tags attr_prefix compile out = inl toks2 /\
    rel3 toks (ptoks tree_lower void_elements 0 toks) toks2 /\
    map shape_of toks2 = map shape_of toks /\
    print_plain (build tree_lower void_elements toks2) = out.
Proof.
  intros Hs Hacc out. pose proof (to_cT compile src toks Hs) as Hs'.
  destruct (render_idempotent is_space to_lower text_tags attr_prefix cT Hsp Hgt Heq Hdq Hlt Hsl cT_np
              tree_lower void_elements src toks Hs' (cT_prem toks)) as (toks2 & Hs2 & R & Hsh & Hp).
  exists toks2. split; [exact (from_cT compile src toks _ _ toks2 Hs' Hacc R Hs2)|]. auto.
Qed.

(* ---------- (b) names and raw values of the tags of any successful scan (whatever the compiler) ---------- *)
Theorem scan_names_values_gen (compile : attr -> bool) (src : str) (toks : list token) :
  scan is_space to_lower text_tags attr_prefix compile src = inl toks ->
  forall t, In t toks ->
    (t_kind t = KTag ->
       (name_ok is_space (t_name t) /\ rwf is_space attr_prefix (map ashape (rev (t_attrs t)))) \/
       raw_close_like is_space to_lower text_tags t) /\
    (t_kind t <> KTag -> t_attrs t = []).
Proof.
  intros Hs t Ht. pose proof (to_cT compile src toks Hs) as Hs'.
  destruct (scan_names_values is_space to_lower text_tags attr_prefix cT Hsp Hgt Heq Hdq Hlt Hsl cT_np src toks Hs' t Ht)
    as [Htag Hnt].
  split; [|exact Hnt]. intros Hk. destruct (Htag Hk) as [(Hn & Hw & _)|Hc]; [left; split; assumption|right; exact Hc].
Qed.

(* ---------- instance 1: a compiler that ignores source positions, no synthetic else value ---------- *)
Lemma np_accepted (compile : attr -> bool) (src : str) toks :
  (forall a1 a2, a_name a1 = a_name a2 -> a_value a1 = a_value a2 -> compile a1 = compile a2) ->
  scan is_space to_lower text_tags attr_prefix compile src = inl toks ->
  (forall t, In t toks -> t_kind t = KTag -> no_synth_else attr_prefix t) ->
  accepted_anywhere compile toks.
Proof.
  intros Hnp Hs Hns t a Ht Ha Hv a' Hn' Hv'.
  destruct (scan_names_values is_space to_lower text_tags attr_prefix compile Hsp Hgt Heq Hdq Hlt Hsl Hnp src toks Hs t Ht)
    as [Htag Hnt].
  destruct (t_kind t) eqn:Ek; try (rewrite (Hnt ltac:(discriminate)) in Ha; contradiction).
  destruct (Htag eq_refl) as [Hw|(Hat & _)]; [|rewrite Hat in Ha; contradiction].
  destruct (a_value a) as [v|] eqn:Eva; [|contradiction Hv; reflexivity].
  exact (twf_ccond is_space attr_prefix compile Hnp t Hw (Hns t Ht Ek) a v Ha Eva a' Hn' Hv').
Qed.

Theorem render_idempotent_np (compile : attr -> bool) (tree_lower : rune -> rune) (void_elements : list str)
    (src : str) (toks : list token) :
  (forall a1 a2, a_name a1 = a_name a2 -> a_value a1 = a_value a2 -> compile a1 = compile a2) ->
  scan is_space to_lower text_tags attr_prefix compile src = inl toks ->
  (forall t, In t toks -> t_kind t = KTag -> no_synth_else attr_prefix t) ->
  let out := print_plain (build tree_lower void_elements toks) in
  exists toks2,
    scan is_space to_lower text_tags attr_prefix compile out = inl toks2 /\
    rel3 toks (ptoks tree_lower void_elements 0 toks) toks2 /\
    map shape_of toks2 = map shape_of toks /\
    print_plain (build tree_lower void_elements toks2) = out.
Proof.
  intros Hnp Hs Hns.
  exact (render_idempotent_gen compile tree_lower void_elements src toks Hs (np_accepted compile src toks Hnp Hs Hns)).
Qed.

(* ---------- instance 2: a directive-free document; the compiler is arbitrary on directive attributes ---------- *)
Definition directive_free (toks : list token) : Prop :=
  forall t a, In t toks -> In a (t_attrs t) -> prefixb attr_prefix (a_name a) = false.

Theorem render_idempotent_plain (compile : attr -> bool) (tree_lower : rune -> rune) (void_elements : list str)
    (src : str) (toks : list token) :
  (forall a, prefixb attr_prefix (a_name a) = false -> compile a = true) ->
  scan is_space to_lower text_tags attr_prefix compile src = inl toks ->
  directive_free toks ->
  let out := print_plain (build tree_lower void_elements toks) in
  exists toks2,
    scan is_space to_lower text_tags attr_prefix compile out = inl toks2 /\
    rel3 toks (ptoks tree_lower void_elements 0 toks) toks2 /\
    map shape_of toks2 = map shape_of toks /\
    print_plain (build tree_lower void_elements toks2) = out /\
    directive_free toks2.
Proof.
  intros Hc Hs Hdf out.
  assert (Hacc : accepted_anywhere compile toks).
  { intros t a Ht Ha _ a' Hn' _. apply Hc. rewrite Hn'. exact (Hdf t a Ht Ha). }
  destruct (render_idempotent_gen compile tree_lower void_elements src toks Hs Hacc) as (toks2 & Hs2 & R & Hsh & Hp).
  exists toks2. repeat (split; [assumption|]).
  intros t2 a2 Ht2 Ha2. destruct (rel3_in _ _ _ t2 R Ht2) as (t & Ht & (_ & _ & Hsh')).
  destruct (same_attr _ _ a2 Hsh' Ha2) as (a & Ha & Hn & _). rewrite Hn. exact (Hdf t a Ht Ha).
Qed.

End Main.

(* the real pipeline: its attribute compiler passes the position of a directive's value to the expression parser *)
Theorem render_idempotent_pipeline :
  forall (is_space : rune -> bool) (to_lower : rune -> rune) (text_tags void_elements : list str) (attr_prefix : str)
         (parse_ok : pos -> str -> bool),
  is_space cSP = true -> is_space cGT = false -> is_space cEQ = false -> is_space cDQ = false -> is_space cLT = false ->
  (forall c, to_lower c = cSLASH -> c = cSLASH) ->
  forall (src : str) (toks : list token),
  scan_html is_space to_lower text_tags attr_prefix parse_ok src = inl toks ->
  directive_free attr_prefix toks ->
  let out := print_plain (build to_lower void_elements toks) in
  exists toks2,
    scan_html is_space to_lower text_tags attr_prefix parse_ok out = inl toks2 /\
    rel3 toks (ptoks to_lower void_elements 0 toks) toks2 /\
    map shape_of toks2 = map shape_of toks /\
    print_plain (build to_lower void_elements toks2) = out /\
    directive_free attr_prefix toks2.
Proof.
  intros is_space to_lower text_tags void_elements attr_prefix parse_ok H1 H2 H3 H4 H5 H6 src toks Hs Hdf.
  unfold scan_html in *.
  apply (render_idempotent_plain is_space to_lower text_tags attr_prefix H1 H2 H3 H4 H5 H6
           (compile_attr attr_prefix parse_ok) to_lower void_elements src toks); [|exact Hs|exact Hdf].
  intros a Ha. unfold compile_attr, attr_ctoks. rewrite Ha. destruct (a_value a); reflexivity.
Qed.

(* ---------- closed statements ---------- *)
Check (render_idempotent_gen : forall (is_space : rune -> bool) (to_lower : rune -> rune) (text_tags : list str) (attr_prefix : str),
  is_space cSP = true -> is_space cGT = false -> is_space cEQ = false -> is_space cDQ = false -> is_space cLT = false ->
  (forall c, to_lower c = cSLASH -> c = cSLASH) ->
  forall (compile : attr -> bool) (tree_lower : rune -> rune) (void_elements : list str) (src : str) (toks : list token),
  scan is_space to_lower text_tags attr_prefix compile src = inl toks ->
  accepted_anywhere compile toks ->
  let out := print_plain (build tree_lower void_elements toks) in
  exists toks2,
    scan is_space to_lower text_tags attr_prefix compile out = inl toks2 /\
    rel3 toks (ptoks tree_lower void_elements 0 toks) toks2 /\
    map shape_of toks2 = map shape_of toks /\
    print_plain (build tree_lower void_elements toks2) = out).
Check (rescan_pieces_gen : forall (is_space : rune -> bool) (to_lower : rune -> rune) (text_tags : list str) (attr_prefix : str),
  is_space cSP = true -> is_space cGT = false -> is_space cEQ = false -> is_space cDQ = false -> is_space cLT = false ->
  (forall c, to_lower c = cSLASH -> c = cSLASH) ->
  forall (compile : attr -> bool) (src : str) (toks : list token) (outs : list str),
  scan is_space to_lower text_tags attr_prefix compile src = inl toks ->
  accepted_anywhere compile toks -> Forall2 printed_as toks outs ->
  exists toks2, scan is_space to_lower text_tags attr_prefix compile (concat outs) = inl toks2 /\ rel3 toks outs toks2).
Check (render_idempotent_np : forall (is_space : rune -> bool) (to_lower : rune -> rune) (text_tags : list str) (attr_prefix : str),
  is_space cSP = true -> is_space cGT = false -> is_space cEQ = false -> is_space cDQ = false -> is_space cLT = false ->
  (forall c, to_lower c = cSLASH -> c = cSLASH) ->
  forall (compile : attr -> bool) (tree_lower : rune -> rune) (void_elements : list str) (src : str) (toks : list token),
  (forall a1 a2, a_name a1 = a_name a2 -> a_value a1 = a_value a2 -> compile a1 = compile a2) ->
  scan is_space to_lower text_tags attr_prefix compile src = inl toks ->
  (forall t, In t toks -> t_kind t = KTag -> no_synth_else attr_prefix t) ->
  let out := print_plain (build tree_lower void_elements toks) in
  exists toks2,
    scan is_space to_lower text_tags attr_prefix compile out = inl toks2 /\
    rel3 toks (ptoks tree_lower void_elements 0 toks) toks2 /\
    map shape_of toks2 = map shape_of toks /\
    print_plain (build tree_lower void_elements toks2) = out).
Check (render_idempotent_plain : forall (is_space : rune -> bool) (to_lower : rune -> rune) (text_tags : list str) (attr_prefix : str),
  is_space cSP = true -> is_space cGT = false -> is_space cEQ = false -> is_space cDQ = false -> is_space cLT = false ->
  (forall c, to_lower c = cSLASH -> c = cSLASH) ->
  forall (compile : attr -> bool) (tree_lower : rune -> rune) (void_elements : list str) (src : str) (toks : list token),
  (forall a, prefixb attr_prefix (a_name a) = false -> compile a = true) ->
  scan is_space to_lower text_tags attr_prefix compile src = inl toks ->
  directive_free attr_prefix toks ->
  let out := print_plain (build tree_lower void_elements toks) in
  exists toks2,
    scan is_space to_lower text_tags attr_prefix compile out = inl toks2 /\
    rel3 toks (ptoks tree_lower void_elements 0 toks) toks2 /\
    map shape_of toks2 = map shape_of toks /\
    print_plain (build tree_lower void_elements toks2) = out /\
    directive_free attr_prefix toks2).
Print Assumptions scan_names_values_gen.
Print Assumptions render_idempotent_gen.
Print Assumptions rescan_pieces_gen.
Print Assumptions render_idempotent_np.
Print Assumptions render_idempotent_plain.
Print Assumptions render_idempotent_pipeline.
