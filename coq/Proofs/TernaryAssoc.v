(* The conditional operator groups to the LEFT in the generated parser:
   a ? b : c ? d : e   is parsed as   (a ? b : c) ? d : e. *)
From Tpl Require Import Proofs.ParseSpec.
Open Scope N_scope.

Lemma ternary_right_assoc_refuted : exists a b c d e toks,
  toks = print (ECond a b (ECond c d e)) /\ parse_expr 50 0 toks = Some (ECond (ECond a b c) d e, []).
Proof.
  exists (EName [97] 1 0), (EName [98] 1 4), (EName [99] 1 8), (EName [100] 1 12), (EName [101] 1 16).
  eexists. split; [reflexivity|]. vm_compute. reflexivity.
Qed.

(* the five names are pairwise distinct, so the two groupings are different trees *)
Lemma ternary_groupings_differ :
  ECond (EName [97] 1 0) (EName [98] 1 4) (ECond (EName [99] 1 8) (EName [100] 1 12) (EName [101] 1 16))
  <> ECond (ECond (EName [97] 1 0) (EName [98] 1 4) (EName [99] 1 8)) (EName [100] 1 12) (EName [101] 1 16).
Proof. discriminate. Qed.

Print Assumptions ternary_right_assoc_refuted.
Print Assumptions ternary_groupings_differ.
