(* Member / index / slice access of the evaluator model agrees with the value, and reports an
   error (never a zero value) for everything that is not there. *)
From Tpl Require Import Exp.Eval.
From Coq Require Import Lia.
Open Scope N_scope.

(* ---------- decimal printing followed by decimal parsing is the identity ---------- *)
Lemma digit_val_dec : forall d, d < 10 -> digit_val (48 + d) = Some (Z.of_N d).
Proof.
  intros d Hd. unfold digit_val, in_range.
  assert (E1 : N.leb 48 (48 + d) = true) by (apply N.leb_le; lia).
  assert (E2 : N.leb (48 + d) 57 = true) by (apply N.leb_le; lia).
  rewrite E1, E2. cbn [andb].
  f_equal. f_equal. lia.
Qed.

Lemma digits_val_app : forall base s t a,
  digits_val base (s ++ t) a = match digits_val base s a with Some v => digits_val base t v | None => None end.
Proof.
  intros base s. induction s as [| c s IH]; intros t a.
  - reflexivity.
  - cbn [app digits_val]. destruct (digit_val c) as [d|]; [| reflexivity].
    destruct (d <? base)%Z; [| reflexivity]. apply IH.
Qed.

Definition is_dec_digit (c : rune) : Prop := 48 <= c <= 57.

Lemma dec_digits_spec : forall fuel n acc, (0 < fuel)%nat -> n < 10 ^ N.of_nat fuel ->
  exists ds, dec_digits fuel n acc = ds ++ acc /\ ds <> [] /\ Forall is_dec_digit ds /\
             forall a, digits_val 10 ds a = Some (a * 10 ^ Z.of_nat (length ds) + Z.of_N n)%Z.
Proof.
  induction fuel as [| f IH]; intros n acc Hpos Hn.
  - inversion Hpos.
  - cbn [dec_digits]. cbv zeta.
    assert (Hm : n mod 10 < 10) by (apply N.mod_lt; discriminate).
    pose proof (N.div_mod' n 10) as Hdm.
    rewrite Nat2N.inj_succ, N.pow_succ_r' in Hn.
    set (m := n mod 10) in *. set (q := n / 10) in *. clearbody m q.
    set (X := 10 ^ N.of_nat f) in *.
    assert (Hd : is_dec_digit (48 + m)) by (unfold is_dec_digit; lia).
    assert (E : (Z.of_N m <? 10)%Z = true) by (apply Z.ltb_lt; lia).
    destruct (N.ltb_spec n 10) as [Hlt | Hge].
    + exists [48 + m]. split; [reflexivity|]. split; [discriminate|]. split.
      * constructor; [exact Hd | constructor].
      * intros a. cbn [digits_val]. rewrite (digit_val_dec _ Hm). rewrite E.
        cbn [length]. change (Z.of_nat 1) with 1%Z. rewrite Z.pow_1_r. f_equal. lia.
    + assert (Hq : q < X) by lia.
      assert (Hf : (0 < f)%nat).
      { destruct f as [| f']; [| apply Nat.lt_0_succ].
        exfalso. unfold X in Hq. change (10 ^ N.of_nat 0) with 1 in Hq. lia. }
      destruct (IH q ((48 + m) :: acc) Hf Hq) as [ds' [Eds [Hne [Hall Hval]]]].
      exists (ds' ++ [48 + m]). split; [| split; [| split]].
      * rewrite Eds. rewrite <- app_assoc. reflexivity.
      * intros E0. apply app_eq_nil in E0. destruct E0 as [_ E0]. discriminate E0.
      * apply Forall_app. split; [exact Hall|]. constructor; [exact Hd | constructor].
      * intros a. rewrite digits_val_app, Hval. cbn [digits_val]. rewrite (digit_val_dec _ Hm).
        rewrite E. f_equal.
        rewrite app_length. cbn [length]. rewrite Nat2Z.inj_add. change (Z.of_nat 1) with 1%Z.
        rewrite Z.pow_add_r by lia. rewrite Z.pow_1_r.
        assert (Hz : Z.of_N n = (10 * Z.of_N q + Z.of_N m)%Z) by lia.
        rewrite Hz. ring.
Qed.

Lemma str_of_N_spec : forall n, n < 10 ^ 80 ->
  exists c t, str_of_N n = c :: t /\ is_dec_digit c /\ digits_val 10 (c :: t) 0 = Some (Z.of_N n).
Proof.
  intros n Hn. unfold str_of_N.
  assert (H80 : (0 < 80)%nat) by (apply Nat.lt_0_succ).
  destruct (dec_digits_spec 80 n [] H80 Hn) as [ds [Eds [Hne [Hall Hval]]]].
  rewrite app_nil_r in Eds.
  destruct ds as [| c t]; [congruence|].
  exists c, t. split; [exact Eds|]. split.
  - inversion Hall; assumption.
  - rewrite Hval. rewrite Z.mul_0_l, Z.add_0_l. reflexivity.
Qed.

Theorem digits_val_str_of_N : forall n, n < 10 ^ 80 -> digits_val 10 (str_of_N n) 0 = Some (Z.of_N n).
Proof.
  intros n Hn. destruct (str_of_N_spec n Hn) as [c [t [E [_ Hv]]]]. rewrite E. exact Hv.
Qed.

Lemma int64_fits_fuel : forall p, (Zpos p <= two63)%Z -> Npos p < 10 ^ 80.
Proof.
  intros p Hp.
  apply N.lt_trans with 9223372036854775809.
  - unfold two63 in Hp. lia.
  - reflexivity.
Qed.

Section Access.
Variable methods : N -> bool -> list (str * N).

Notation get := (get_value methods).

(* the text of an int64 parses back to it *)
Theorem parse_index_str_of_Z : forall i, (- two63 <= i < two63)%Z -> parse_index (str_of_Z i) = Some i.
Proof.
  intros i Hi. destruct i as [| p | p].
  - reflexivity.
  - assert (Hp : Npos p < 10 ^ 80) by (apply int64_fits_fuel; lia).
    destruct (str_of_N_spec _ Hp) as [c [t [E [Hc Hv]]]].
    unfold str_of_Z. rewrite E. unfold parse_index. unfold is_dec_digit in Hc.
    destruct (N.eqb_spec c 45) as [E45 | _]; [lia|].
    destruct (N.eqb_spec c 43) as [E43 | _]; [lia|].
    cbv beta iota zeta. rewrite Hv. change (Z.of_N (N.pos p)) with (Z.pos p).
    assert (Hr : ((- two63 <=? Z.pos p) && (Z.pos p <? two63))%Z = true).
    { apply andb_true_intro. split; [apply Z.leb_le | apply Z.ltb_lt]; lia. }
    rewrite Hr. reflexivity.
  - assert (Hp : Npos p < 10 ^ 80) by (apply int64_fits_fuel; lia).
    destruct (str_of_N_spec _ Hp) as [c [t [E [Hc Hv]]]].
    unfold str_of_Z. rewrite E. unfold parse_index.
    change (N.eqb cDASH 45) with true.
    cbv beta iota zeta. rewrite Hv. change (Z.of_N (N.pos p)) with (Z.pos p).
    change (- Z.pos p)%Z with (Z.neg p).
    assert (Hr : ((- two63 <=? Z.neg p) && (Z.neg p <? two63))%Z = true).
    { apply andb_true_intro. split; [apply Z.leb_le | apply Z.ltb_lt]; lia. }
    rewrite Hr. reflexivity.
Qed.

(* ---------- member access ---------- *)
Lemma assoc_nil : forall A (k : str), assoc k (@nil (str * A)) = None.
Proof. reflexivity. Qed.

Theorem get_nil : forall name, get name VNil = Absent.
Proof. reflexivity. Qed.

Theorem get_map : forall m name, methods_of methods (VMap m) = [] ->
  get name (VMap m) = match assoc name m with Some v => Found v | None => Absent end.
Proof. intros m name _. reflexivity. Qed.

(* present-with-nil is Found, not Absent *)
Theorem get_map_present_nil : forall m name, assoc name m = Some VNil -> get name (VMap m) = Found VNil.
Proof. intros m name H. rewrite (get_map m name eq_refl). rewrite H. reflexivity. Qed.

Theorem get_struct_field : forall ty fs name, assoc name (methods ty false) = None ->
  get name (VStruct ty fs) =
  match assoc name fs with Some (true, v) => Found v | Some (false, _) => Failed | None => Absent end.
Proof.
  intros ty fs name H. unfold get_value. cbn [methods_of]. rewrite H. reflexivity.
Qed.

(* lookup in the value itself: no method table, no dereference *)
Definition direct_get (name : str) (t : value) : lookup :=
  match t with
  | VStruct _ fs => match assoc name fs with Some (true, v) => Found v | Some (false, _) => Failed | None => Absent end
  | VMap m => match assoc name m with Some v => Found v | None => Absent end
  | VSeq _ l _ =>
    match parse_index name with
    | None => Failed
    | Some i => let i := if (i <? 0)%Z then (Z.of_nat (length l) + i)%Z else i in
                if ((0 <=? i) && (i <? Z.of_nat (length l)))%Z
                then match nth_error l (Z.to_nat i) with Some v => Found v | None => Failed end
                else Failed
    end
  | _ => Absent
  end.

(* a pointer is dereferenced exactly once; the pointee's own method table is not consulted *)
Theorem get_through_pointer_direct : forall a ty t name, assoc name (methods ty true) = None ->
  get name (VPtr a ty (Some t)) = direct_get name t.
Proof.
  intros a ty t name H. unfold get_value. cbn [methods_of]. rewrite H.
  destruct t; reflexivity.
Qed.

Theorem get_pointer_to_pointer : forall a ty a' ty' t' name, assoc name (methods ty true) = None ->
  get name (VPtr a ty (Some (VPtr a' ty' t'))) = Absent.
Proof. intros. rewrite get_through_pointer_direct by assumption. reflexivity. Qed.

(* the statement as first written (with [| _ => get_value (fun _ _ => []) name t]) needs the pointee
   not to be a non-nil pointer: on a pointer the right-hand side would dereference a second time *)
Theorem get_through_pointer : forall a ty t name, assoc name (methods ty true) = None ->
  (forall a' ty' t', t <> VPtr a' ty' (Some t')) ->
  get name (VPtr a ty (Some t)) =
  match t with
  | VStruct _ fs => (match assoc name fs with Some (true, v) => Found v | Some (false, _) => Failed | None => Absent end)
  | VMap m => (match assoc name m with Some v => Found v | None => Absent end)
  | _ => get_value (fun _ _ => []) name t
  end.
Proof.
  intros a ty t name H Hnp. rewrite get_through_pointer_direct by assumption.
  destruct t; try reflexivity.
  destruct target as [t'|]; [| reflexivity].
  exfalso. eapply Hnp. reflexivity.
Qed.

Lemma str_eqb_refl : forall s, str_eqb s s = true.
Proof. induction s as [| c s IH]; [reflexivity|]. cbn [str_eqb]. rewrite N.eqb_refl. exact IH. Qed.

(* witness that the extra hypothesis is needed *)
Theorem get_through_pointer_needs_hypothesis : forall a ty a' ty' name v,
  assoc name (methods ty true) = None ->
  let t := VPtr a' ty' (Some (VMap [(name, v)])) in
  get name (VPtr a ty (Some t)) = Absent /\ get_value (fun _ _ => []) name t = Found v.
Proof.
  intros a ty a' ty' name v H t. split.
  - apply get_pointer_to_pointer. exact H.
  - unfold t, get_value. cbn [methods_of]. rewrite assoc_nil.
    unfold assoc. cbn [find fst snd]. rewrite str_eqb_refl. reflexivity.
Qed.

Theorem get_nil_pointer : forall ty name, assoc name (methods ty true) = None -> get name (VPtr 0 ty None) = Absent.
Proof. intros ty name H. unfold get_value. cbn [methods_of]. rewrite H. reflexivity. Qed.

Theorem get_method : forall v name fid, v <> VNil -> assoc name (methods_of methods v) = Some fid ->
  get name v = Found (VFunc fid [v]).
Proof.
  intros v name fid Hn H.
  destruct v; try (exfalso; apply Hn; reflexivity); unfold get_value; rewrite H; reflexivity.
Qed.

(* ---------- indexing a sequence by decimal text ---------- *)
Lemma get_seq_eq : forall arr l ex name,
  get name (VSeq arr l ex) =
  match parse_index name with
  | None => Failed
  | Some i => let i := if (i <? 0)%Z then (Z.of_nat (length l) + i)%Z else i in
              if ((0 <=? i) && (i <? Z.of_nat (length l)))%Z
              then match nth_error l (Z.to_nat i) with Some v => Found v | None => Failed end
              else Failed
  end.
Proof. reflexivity. Qed.

(* CHANGED: the int64 hypothesis is added (a Coq list may be longer than 2^63; Go slices are not) *)
Theorem get_seq_index : forall arr l ex (i : Z), (- Z.of_nat (length l) <= i < Z.of_nat (length l))%Z ->
  (- two63 <= i < two63)%Z ->
  get (str_of_Z i) (VSeq arr l ex) =
    match nth_error l (Z.to_nat (if (i <? 0)%Z then Z.of_nat (length l) + i else i)) with Some v => Found v | None => Failed end
  /\ nth_error l (Z.to_nat (if (i <? 0)%Z then Z.of_nat (length l) + i else i)) <> None.
Proof.
  intros arr l ex i Hi H64.
  rewrite get_seq_eq, (parse_index_str_of_Z i H64). cbv zeta.
  set (i' := (if (i <? 0)%Z then (Z.of_nat (length l) + i)%Z else i)).
  assert (Hi' : (0 <= i' < Z.of_nat (length l))%Z).
  { unfold i'. destruct (Z.ltb_spec i 0); lia. }
  assert (Hc : ((0 <=? i') && (i' <? Z.of_nat (length l)))%Z = true).
  { apply andb_true_intro. split; [apply Z.leb_le | apply Z.ltb_lt]; lia. }
  rewrite Hc. split; [reflexivity|].
  apply nth_error_Some. lia.
Qed.

Theorem get_seq_out_of_range : forall arr l ex (i : Z),
  (i < - Z.of_nat (length l) \/ Z.of_nat (length l) <= i)%Z -> (- two63 <= i < two63)%Z ->
  get (str_of_Z i) (VSeq arr l ex) = Failed.
Proof.
  intros arr l ex i Hi H64.
  rewrite get_seq_eq, (parse_index_str_of_Z i H64). cbv zeta.
  set (i' := (if (i <? 0)%Z then (Z.of_nat (length l) + i)%Z else i)).
  assert (Hi' : (i' < 0 \/ Z.of_nat (length l) <= i')%Z).
  { unfold i'. destruct (Z.ltb_spec i 0); lia. }
  destruct (Z.leb_spec 0 i') as [H0 | H0]; [| reflexivity].
  destruct (Z.ltb_spec i' (Z.of_nat (length l))) as [H1 | H1]; [lia | reflexivity].
Qed.

(* a name that is not an int64 in decimal never selects an element *)
Theorem get_seq_not_index : forall arr l ex name, parse_index name = None -> get name (VSeq arr l ex) = Failed.
Proof. intros arr l ex name H. rewrite get_seq_eq, H. reflexivity. Qed.

(* ---------- slicing ---------- *)
Theorem slice_ok : forall l ex lo hi, (0 <= lo <= hi)%Z -> (hi <= Z.of_nat (length l + length ex))%Z ->
  slice_seq l ex lo hi None =
  Ok (VSeq false (firstn (Z.to_nat (hi - lo)) (skipn (Z.to_nat lo) (l ++ ex))) (skipn (Z.to_nat hi) (l ++ ex))).
Proof.
  intros l ex lo hi Hlo Hhi. rewrite <- app_length in Hhi.
  unfold slice_seq. cbv zeta.
  set (all := l ++ ex) in *.
  assert (Hc : ((0 <=? lo) && (lo <=? hi) && (hi <=? Z.of_nat (length all)) && (Z.of_nat (length all) <=? Z.of_nat (length all)))%Z = true).
  { repeat (apply andb_true_intro; split); apply Z.leb_le; lia. }
  rewrite Hc. f_equal. f_equal.
  apply firstn_all2. rewrite skipn_length. lia.
Qed.

Theorem slice_bad : forall l ex lo hi, (lo < 0 \/ hi < lo \/ Z.of_nat (length l + length ex) < hi)%Z ->
  slice_seq l ex lo hi None = Err COther.
Proof.
  intros l ex lo hi H. rewrite <- app_length in H.
  unfold slice_seq. cbv zeta.
  set (all := l ++ ex) in *.
  destruct (Z.leb_spec 0 lo) as [H0 | H0]; [| reflexivity].
  destruct (Z.leb_spec lo hi) as [H1 | H1]; [| reflexivity].
  destruct (Z.leb_spec hi (Z.of_nat (length all))) as [H2 | H2]; [| reflexivity].
  lia.
Qed.

(* ---------- combined scopes ---------- *)
Theorem combine_get : forall s p n,
  sget methods (SCombine s p) n = match sget methods s n with Absent => sget methods p n | r => r end.
Proof. reflexivity. Qed.

End Access.

Print Assumptions digits_val_str_of_N.
Print Assumptions parse_index_str_of_Z.
Print Assumptions get_nil.
Print Assumptions get_map.
Print Assumptions get_map_present_nil.
Print Assumptions get_struct_field.
Print Assumptions get_through_pointer_direct.
Print Assumptions get_pointer_to_pointer.
Print Assumptions get_through_pointer.
Print Assumptions get_through_pointer_needs_hypothesis.
Print Assumptions get_nil_pointer.
Print Assumptions get_method.
Print Assumptions get_seq_index.
Print Assumptions get_seq_out_of_range.
Print Assumptions get_seq_not_index.
Print Assumptions slice_ok.
Print Assumptions slice_bad.
Print Assumptions combine_get.
