(* Specification-side definitions for the renderer theorems (no proofs here). *)
From Tpl Require Export Html.Exec Html.Manager.
From Coq Require Export Permutation.
Open Scope N_scope.

(* ---------- C02: the five-entity unescape (what an HTML consumer reads back) ---------- *)
Fixpoint unescape5_f (fuel : nat) (s : str) : str :=
  match fuel with
  | O => s
  | S f =>
    match s with
    | [] => []
    | c :: t =>
      if N.eqb c cAMP then
        if prefixb (tl s_amp) t then cAMP :: unescape5_f f (skipn 4 t)
        else if prefixb (tl s_sq) t then cSQ :: unescape5_f f (skipn 4 t)
        else if prefixb (tl s_lt) t then cLT :: unescape5_f f (skipn 3 t)
        else if prefixb (tl s_gt) t then cGT :: unescape5_f f (skipn 3 t)
        else if prefixb (tl s_dq) t then cDQ :: unescape5_f f (skipn 4 t)
        else c :: unescape5_f f t
      else c :: unescape5_f f t
    end
  end.
Definition unescape5 (s : str) : str := unescape5_f (length s) s.

(* ---------- C01: printing a tree whose tags carry no directive ---------- *)
Definition print_attr (a : attr) : str := [cSP] ++ a_name a ++ match a_value a with Some v => cEQ :: v | None => [] end.
Definition print_tag (t : token) : str := (cLT :: t_name t) ++ flat_map print_attr (t_attrs t) ++ [cGT].
Fixpoint print_plain (n : node) : str :=
  let 'Node _ tok ch e := n in
  (match tok with
   | None => []
   | Some t => match t_kind t with KTag => print_tag t | _ => t_value t end
   end) ++ flat_map print_plain ch ++ (match e with Some x => t_value x | None => [] end).
Fixpoint height (n : node) : nat :=
  let 'Node _ _ ch _ := n in S (fold_right (fun c m => Nat.max (height c) m) O ch).

Section Spec.
Variable is_space : rune -> bool.
Variable to_lower : rune -> rune.
Variable mgr : manager.
Notation prefix := (m_attr_prefix mgr).

(* no directive attribute, no block tag, no hidden comment anywhere in the tree *)
Definition plain_tok (t : token) : Prop :=
  match t_kind t with
  | KTag => (forall a, In a (t_attrs t) -> prefixb prefix (a_name a) = false) /\
            str_eqb (block_key to_lower (t_name t)) (m_tag_prefix mgr ++ d_block) = false
  | KComment => is_hidden_comment is_space (t_value t) = false
  | _ => True
  end.
Fixpoint plain (n : node) : Prop :=
  let 'Node _ tok ch _ := n in
  (match tok with Some t => plain_tok t | None => True end) /\
  (fix all (l : list node) : Prop := match l with [] => True | c :: r => plain c /\ all r end) ch.

(* ---------- C05: the sort key of Tag.SortedAttr ---------- *)
(* directive attributes first, ordered by weight; plain attributes after them *)
Definition sort_key (a : attr) : Z :=
  if prefixb prefix (a_name a) then (weight (skipn (length prefix) (a_name a)) - 10)%Z else 0%Z.
(* the comparison is a strict weak order exactly when no PLAIN attribute is named like a weighted directive *)
Definition no_plain_directive_name (l : list attr) : Prop :=
  forall a, In a l -> prefixb prefix (a_name a) = false -> weight (a_name a) = 0%Z.
End Spec.
