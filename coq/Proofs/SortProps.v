(* C05: Tag.SortedAttr is a stable sort by the documented key. *)
From Tpl Require Import Proofs.ExecSpec.
From Coq Require Import Lia ZArith Sorting.Sorted.
Open Scope N_scope.

(* ---------- the weights ---------- *)
Lemma weight_range : forall n, (-4 <= weight n <= 0)%Z.
Proof.
  intros n. unfold weight.
  destruct (str_eqb n d_with); [lia|]. destruct (is_cond_name n); [lia|].
  destruct (str_eqb n d_range); [lia|]. destruct (str_eqb n d_remove); lia.
Qed.

Theorem with_before_cond_before_range :
  (forall c, In c cond_names -> (weight d_with < weight c /\ weight c < weight d_range)%Z) /\
  (weight d_range < weight d_remove /\ weight d_remove < 0)%Z.
Proof.
  split.
  - intros c Hin. unfold cond_names in Hin. cbn [In] in Hin.
    repeat (destruct Hin as [Hin|Hin]; [subst c; vm_compute; split; reflexivity|]). contradiction.
  - vm_compute. split; reflexivity.
Qed.

(* the remaining names have weight 0 *)
Theorem weight_other : forall n,
  str_eqb n d_with = false -> is_cond_name n = false -> str_eqb n d_range = false -> str_eqb n d_remove = false ->
  weight n = 0%Z.
Proof. intros n H1 H2 H3 H4. unfold weight. rewrite H1, H2, H3, H4. reflexivity. Qed.

(* ---------- permutation ---------- *)
Lemma insert_perm : forall p a acc, Permutation (insert_sorted p a acc) (a :: acc).
Proof.
  intros p a acc. induction acc as [|b r IH]; cbn [insert_sorted].
  - apply Permutation_refl.
  - destruct (attr_less p (a_name a) (a_name b)).
    + eapply Permutation_trans; [apply perm_skip; exact IH|apply perm_swap].
    + apply Permutation_refl.
Qed.

Lemma fold_insert_perm : forall p l acc,
  Permutation (fold_left (fun acc a => insert_sorted p a acc) l acc) (rev l ++ acc).
Proof.
  intros p l. induction l as [|a l IH]; intros acc; cbn [fold_left rev].
  - apply Permutation_refl.
  - eapply Permutation_trans; [apply IH|]. rewrite <- app_assoc. cbn [app].
    apply Permutation_app_head. apply insert_perm.
Qed.

Theorem sorted_perm : forall p l, Permutation (sorted_attrs p l) l.
Proof.
  intros p l. unfold sorted_attrs.
  eapply Permutation_trans; [apply Permutation_sym; apply Permutation_rev|].
  eapply Permutation_trans; [apply fold_insert_perm|]. rewrite app_nil_r.
  apply Permutation_sym. apply Permutation_rev.
Qed.

(* ---------- the comparison is "<" on sort_key ---------- *)
Section Key.
Variable mgr : manager.
Notation prefix := (m_attr_prefix mgr).
Notation key := (sort_key mgr).

Definition ok_attr (a : attr) : Prop := prefixb prefix (a_name a) = false -> weight (a_name a) = 0%Z.

Lemma attr_less_key : forall a b, ok_attr a -> ok_attr b ->
  attr_less prefix (a_name a) (a_name b) = (key a <? key b)%Z.
Proof.
  intros a b Ha Hb. unfold attr_less, sort_key, ok_attr in *.
  pose proof (weight_range (skipn (length prefix) (a_name a))) as Wa.
  pose proof (weight_range (skipn (length prefix) (a_name b))) as Wb.
  destruct (prefixb prefix (a_name a)) eqn:Pa; destruct (prefixb prefix (a_name b)) eqn:Pb; cbn [andb negb].
  - destruct (Z.ltb_spec (weight (skipn (length prefix) (a_name a))) (weight (skipn (length prefix) (a_name b))));
      symmetry; [apply Z.ltb_lt|apply Z.ltb_ge]; lia.
  - symmetry. apply Z.ltb_lt. lia.
  - rewrite (Ha eq_refl). transitivity false; [apply Z.ltb_ge|symmetry; apply Z.ltb_ge]; lia.
  - reflexivity.
Qed.

Lemma no_plain_ok : forall l, no_plain_directive_name mgr l -> forall a, In a l -> ok_attr a.
Proof. intros l H a Hin. unfold ok_attr. apply H. exact Hin. Qed.

(* ---------- sortedness ---------- *)
Definition ge_key (x y : attr) : Prop := (key y <= key x)%Z.
Definition le_key (x y : attr) : Prop := (key x <= key y)%Z.

Lemma insert_in : forall p a acc x, In x (insert_sorted p a acc) -> x = a \/ In x acc.
Proof.
  intros p a acc x Hin. apply (Permutation_in x (insert_perm p a acc)) in Hin.
  destruct Hin as [H|H]; [left; symmetry; exact H|right; exact H].
Qed.

Lemma insert_sorted_ge : forall a acc, ok_attr a -> (forall b, In b acc -> ok_attr b) ->
  StronglySorted ge_key acc -> StronglySorted ge_key (insert_sorted prefix a acc).
Proof.
  intros a acc Ha. induction acc as [|b r IH]; intros Hok Hs; cbn [insert_sorted].
  - constructor; constructor.
  - inversion Hs as [|b' r' Hsr Hall]; subst b' r'.
    rewrite attr_less_key by (auto using in_eq).
    destruct (Z.ltb_spec (key a) (key b)) as [Hlt|Hge].
    + constructor.
      * apply IH; [intros x Hx; apply Hok; right; exact Hx|exact Hsr].
      * apply Forall_forall. intros x Hx. apply insert_in in Hx. destruct Hx as [Hx|Hx].
        -- subst x. unfold ge_key. lia.
        -- rewrite Forall_forall in Hall. apply Hall. exact Hx.
    + constructor; [exact Hs|]. constructor; [exact Hge|].
      rewrite Forall_forall in Hall |- *. intros x Hx. specialize (Hall x Hx). unfold ge_key in *. lia.
Qed.

Lemma fold_in : forall p l acc x, In x (fold_left (fun acc a => insert_sorted p a acc) l acc) -> In x l \/ In x acc.
Proof.
  intros p l acc x Hin. apply (Permutation_in x (fold_insert_perm p l acc)) in Hin.
  apply in_app_or in Hin. destruct Hin as [H|H]; [left; apply in_rev; exact H|right; exact H].
Qed.

Lemma fold_sorted_ge : forall l acc, (forall a, In a l -> ok_attr a) -> (forall b, In b acc -> ok_attr b) ->
  StronglySorted ge_key acc -> StronglySorted ge_key (fold_left (fun acc a => insert_sorted prefix a acc) l acc).
Proof.
  induction l as [|a l IH]; intros acc Hl Hacc Hs; cbn [fold_left].
  - exact Hs.
  - apply IH.
    + intros x Hx. apply Hl. right. exact Hx.
    + intros x Hx. apply insert_in in Hx. destruct Hx as [Hx|Hx]; [subst x; apply Hl; left; reflexivity|apply Hacc; exact Hx].
    + apply insert_sorted_ge; [apply Hl; left; reflexivity|exact Hacc|exact Hs].
Qed.

Lemma sorted_snoc : forall l x, StronglySorted le_key l -> Forall (fun y => le_key y x) l -> StronglySorted le_key (l ++ [x]).
Proof.
  induction l as [|y l IH]; intros x Hs Hall; cbn [app].
  - constructor; constructor.
  - inversion Hs as [|y' l' Hsl Hy]; subst y' l'. inversion Hall as [|y' l' Hyx Hall']; subst y' l'.
    constructor; [apply IH; assumption|].
    apply Forall_app. split; [exact Hy|constructor; [exact Hyx|constructor]].
Qed.

Lemma sorted_rev_le : forall l, StronglySorted ge_key l -> StronglySorted le_key (rev l).
Proof.
  induction l as [|x l IH]; intros Hs; cbn [rev].
  - constructor.
  - inversion Hs as [|x' l' Hsl Hx]; subst x' l'. apply sorted_snoc; [apply IH; exact Hsl|].
    rewrite Forall_forall in Hx |- *. intros y Hy. apply in_rev in Hy. apply Hx. exact Hy.
Qed.

(* ---------- stability ---------- *)
Lemma filter_rev' : forall (A : Type) (f : A -> bool) l, filter f (rev l) = rev (filter f l).
Proof.
  intros A f l. induction l as [|x l IH]; cbn [rev filter]; [reflexivity|].
  rewrite filter_app, IH. cbn [filter]. destruct (f x); cbn [rev]; [reflexivity|apply app_nil_r].
Qed.

Lemma insert_filter : forall k a acc, ok_attr a -> (forall b, In b acc -> ok_attr b) ->
  filter (fun x => Z.eqb (key x) k) (insert_sorted prefix a acc) = filter (fun x => Z.eqb (key x) k) (a :: acc).
Proof.
  intros k a acc Ha. induction acc as [|b r IH]; intros Hok; cbn [insert_sorted].
  - reflexivity.
  - rewrite attr_less_key by (auto using in_eq).
    destruct (Z.ltb_spec (key a) (key b)) as [Hlt|Hge]; [|reflexivity].
    cbn [filter]. rewrite IH by (intros x Hx; apply Hok; right; exact Hx). cbn [filter].
    destruct (Z.eqb_spec (key b) k) as [Hb|Hb]; [|reflexivity].
    destruct (Z.eqb_spec (key a) k) as [Ha'|Ha']; [lia|reflexivity].
Qed.

Lemma fold_filter : forall k l acc, (forall a, In a l -> ok_attr a) -> (forall b, In b acc -> ok_attr b) ->
  filter (fun x => Z.eqb (key x) k) (fold_left (fun acc a => insert_sorted prefix a acc) l acc)
  = rev (filter (fun x => Z.eqb (key x) k) l) ++ filter (fun x => Z.eqb (key x) k) acc.
Proof.
  intros k. induction l as [|a l IH]; intros acc Hl Hacc; cbn [fold_left].
  - reflexivity.
  - rewrite IH.
    + rewrite insert_filter by (auto using in_eq). cbn [filter].
      destruct (Z.eqb (key a) k); cbn [rev]; [rewrite <- app_assoc|]; reflexivity.
    + intros x Hx. apply Hl. right. exact Hx.
    + intros x Hx. apply insert_in in Hx. destruct Hx as [Hx|Hx]; [subst x; apply Hl; left; reflexivity|apply Hacc; exact Hx].
Qed.
End Key.

Theorem sorted_by_key : forall mgr l, no_plain_directive_name mgr l ->
  StronglySorted (fun a b => (sort_key mgr a <= sort_key mgr b)%Z) (sorted_attrs (m_attr_prefix mgr) l).
Proof.
  intros mgr l H. unfold sorted_attrs. apply (sorted_rev_le mgr).
  apply fold_sorted_ge; [exact (no_plain_ok mgr l H)|intros b []|constructor].
Qed.

Theorem sorted_stable : forall mgr l k, no_plain_directive_name mgr l ->
  filter (fun a => Z.eqb (sort_key mgr a) k) (sorted_attrs (m_attr_prefix mgr) l) = filter (fun a => Z.eqb (sort_key mgr a) k) l.
Proof.
  intros mgr l k H. unfold sorted_attrs. rewrite filter_rev'.
  rewrite fold_filter; [|exact (no_plain_ok mgr l H)|intros b []].
  cbn [filter]. rewrite app_nil_r. apply rev_involutive.
Qed.

(* remark (not proved here): sorted_perm + sorted_by_key + sorted_stable determine the result uniquely *)

(* ---------- without directives the order is unchanged ---------- *)
Lemma attr_less_plain : forall p x y, prefixb p x = false -> prefixb p y = false -> attr_less p x y = false.
Proof. intros p x y Hx Hy. unfold attr_less. rewrite Hx, Hy. reflexivity. Qed.

Lemma fold_plain : forall p l acc, (forall a, In a l -> prefixb p (a_name a) = false) ->
  (forall a, In a acc -> prefixb p (a_name a) = false) ->
  fold_left (fun acc a => insert_sorted p a acc) l acc = rev l ++ acc.
Proof.
  intros p. induction l as [|a l IH]; intros acc Hl Hacc; cbn [fold_left rev].
  - reflexivity.
  - assert (Hins : insert_sorted p a acc = a :: acc).
    { destruct acc as [|b r]; cbn [insert_sorted]; [reflexivity|].
      rewrite attr_less_plain; [reflexivity|apply Hl; left; reflexivity|apply Hacc; left; reflexivity]. }
    rewrite Hins, IH.
    + rewrite <- app_assoc. reflexivity.
    + intros x Hx. apply Hl. right. exact Hx.
    + intros x [Hx|Hx]; [subst x; apply Hl; left; reflexivity|apply Hacc; exact Hx].
Qed.

Theorem sorted_plain_id : forall p l, (forall a, In a l -> prefixb p (a_name a) = false) -> sorted_attrs p l = l.
Proof.
  intros p l H. unfold sorted_attrs. rewrite fold_plain; [|exact H|intros a []].
  rewrite app_nil_r. apply rev_involutive.
Qed.

Print Assumptions sorted_perm.
Print Assumptions sorted_by_key.
Print Assumptions sorted_stable.
Print Assumptions sorted_plain_id.
Print Assumptions with_before_cond_before_range.
Print Assumptions weight_other.
