(* C02, structure clause: a string inserted in text position (no '<') or inside a quoted
   attribute value (no closing quote) never changes how the surrounding document is tokenised.

   ASSUMPTIONS (stated as hypotheses of the theorems):
   - Hcomp: the attribute compiler oracle [compile] does not look at source positions
     (it may depend on the attribute name and value).  Needed in both theorems because every
     position after the hole shifts.  It is implied by [forall a, compile a = true].
   - attribute theorem only, Hhole: for attributes carrying the NAME of the attribute that contains
     the hole, [compile] does not depend on the value either (e.g. the attribute is not a directive). *)
From Coq Require Import List NArith Bool Lia Arith.
From Tpl Require Import Html.Scan Proofs.ScanConcat Proofs.PrintScanDefs Proofs.PrintScanSteps Proofs.HoleSim.
Import ListNotations.
Open Scope N_scope.
Local Arguments adv : simpl never.
Local Arguments Scan.step : simpl never.

(* ---------- what is compared ---------- *)
Definition is_tag (t : token) : bool := match t_kind t with KTag => true | _ => false end.
Definition is_text_tok (t : token) : bool := match t_kind t with KText => true | _ => false end.

(* the sequence of tags with their attribute names *)
Definition tag_struct (toks : list token) : list (str * list str) :=
  map (fun t => (t_name t, map a_name (t_attrs t))) (filter is_tag toks).

(* position-free content with the value of text tokens erased *)
Definition shape_no_text (t : token) : tkind * str * str * list (str * option str) :=
  (t_kind t, match t_kind t with KText => [] | _ => t_value t end, t_name t, map ashape (t_attrs t)).

(* position-free content with attribute values and the raw text of tags erased *)
Definition shape_names (t : token) : tkind * str * str * list str :=
  (t_kind t, match t_kind t with KTag => [] | _ => t_value t end, t_name t, map a_name (t_attrs t)).

(* the part of s before the first occurrence of q *)
Fixpoint upto (q : rune) (s : str) : str :=
  match s with
  | [] => []
  | c :: t => if N.eqb c q then [] else c :: upto q t
  end.

Lemma upto_notin q s : ~ In q (upto q s).
Proof.
  induction s as [|c t IH]; cbn [upto]; [intros []|].
  destruct (N.eqb c q) eqn:E; [intros []|]. apply N.eqb_neq in E.
  intros [H|H]; [congruence|exact (IH H)].
Qed.

Lemma upto_split q s : s = upto q s \/ exists rest, s = upto q s ++ q :: rest.
Proof.
  induction s as [|c t IH]; cbn [upto]; [left; reflexivity|].
  destruct (N.eqb c q) eqn:E.
  - apply N.eqb_eq in E; subst c. right. exists t. reflexivity.
  - destruct IH as [IH|[rest IH]]; [left|right; exists rest]; cbn [app]; f_equal; exact IH.
Qed.

Lemma notin_app (q : rune) (a b : str) : ~ In q a -> ~ In q b -> ~ In q (a ++ b).
Proof. intros Ha Hb H. apply in_app_or in H as [H|H]; auto. Qed.

Lemma notin_cons (q c : rune) (s : str) : ~ In q (c :: s) -> N.eqb q c = false /\ N.eqb c q = false /\ ~ In q s.
Proof.
  intros H. split; [|split].
  - apply N.eqb_neq. intros E. apply H. left. auto.
  - apply N.eqb_neq. intros E. apply H. left. auto.
  - intros Hi. apply H. right. exact Hi.
Qed.

(* ---------- consequences of equality up to positions ---------- *)
Lemma np_fields t1 t2 : tok_np t1 = tok_np t2 ->
  t_kind t1 = t_kind t2 /\ t_value t1 = t_value t2 /\ t_name t1 = t_name t2 /\
  map ashape (t_attrs t1) = map ashape (t_attrs t2).
Proof. unfold tok_np. intros H. repeat split; congruence. Qed.

Lemma tag_struct_app a b : tag_struct (a ++ b) = tag_struct a ++ tag_struct b.
Proof. unfold tag_struct. rewrite filter_app, map_app. reflexivity. Qed.

Lemma np_struct r1 : forall r2, map tok_np r1 = map tok_np r2 ->
  tag_struct r1 = tag_struct r2 /\ map shape_no_text r1 = map shape_no_text r2 /\
  map shape_names r1 = map shape_names r2 /\
  map tok_np (filter (fun t => negb (is_text_tok t)) r1) = map tok_np (filter (fun t => negb (is_text_tok t)) r2).
Proof.
  induction r1 as [|t1 r1 IH]; intros [|t2 r2] H; try discriminate; [repeat split|].
  cbn [map] in H. assert (Ht : tok_np t1 = tok_np t2) by congruence.
  assert (Hr : map tok_np r1 = map tok_np r2) by congruence.
  destruct (IH _ Hr) as (I1 & I2 & I3 & I4). destruct (np_fields _ _ Ht) as (Hk & Hv & Hn & Ha).
  pose proof (ashape_names _ _ Ha) as Han.
  assert (Etag : is_tag t1 = is_tag t2) by (unfold is_tag; rewrite Hk; reflexivity).
  assert (Etxt : is_text_tok t1 = is_text_tok t2) by (unfold is_text_tok; rewrite Hk; reflexivity).
  assert (Esnt : shape_no_text t1 = shape_no_text t2) by (unfold shape_no_text; rewrite Hk, Hv, Hn, Ha; reflexivity).
  assert (Esn : shape_names t1 = shape_names t2) by (unfold shape_names; rewrite Hk, Hv, Hn, Han; reflexivity).
  repeat split.
  - unfold tag_struct in *. cbn [filter]. rewrite Etag. destruct (is_tag t2); cbn [map]; rewrite ?Hn, ?Han, I1; reflexivity.
  - cbn [map]. rewrite Esnt, I2. reflexivity.
  - cbn [map]. rewrite Esn, I3. reflexivity.
  - cbn [filter]. rewrite Etxt. destruct (is_text_tok t2); cbn [negb map]; rewrite ?Ht, I4; reflexivity.
Qed.

Lemma text_tok_struct v st en : tag_struct [mkTok KText v st en [] []] = [].
Proof. reflexivity. Qed.

Section Hole.
Variable is_space : rune -> bool.
Variable to_lower : rune -> rune.
Variable text_tags : list str.
Variable attr_prefix : str.
Variable compile : attr -> bool.
(* ASSUMPTION: the attribute compiler does not look at source positions *)
Hypothesis Hcomp : forall a1 a2, a_name a1 = a_name a2 -> a_value a1 = a_value a2 -> compile a1 = compile a2.

Notation step := (Scan.step is_space to_lower text_tags attr_prefix compile).
Notation run := (@fold_left sstate rune (Scan.step is_space to_lower text_tags attr_prefix compile)).
Notation scan := (Scan.scan is_space to_lower text_tags attr_prefix compile).
Notation raw_tag_of_last := (Scan.raw_tag_of_last to_lower text_tags).
Notation run_app := (HoleSim.run_app is_space to_lower text_tags attr_prefix compile).
Notation run_err := (HoleSim.run_err is_space to_lower text_tags attr_prefix compile).
Notation simB := (HoleSim.simB to_lower text_tags).

(* ================= text context ================= *)

(* the scanner is in text context, not inside a raw-text element *)
Definition text_ctx (S : sstate) : Prop :=
  match s_mode S with
  | MInit => raw_tag_of_last (s_toks S) = None
  | MText x => x_raw x = false
  | _ => False
  end.
(* the text read so far that has not been emitted yet *)
Definition pending (S : sstate) : str := match s_mode S with MText x => x_buf x | _ => [] end.
(* the text token that the pending text will become when the text ends at the current position *)
Definition hole_toks (S : sstate) : list token :=
  match s_mode S with
  | MText x => [mkTok KText (x_buf x) (x_start x) (s_pos S) [] []]
  | _ => []
  end.

Lemma run_text (s : str) : ~ In cLT s -> forall S, text_ctx S ->
  text_ctx (run s S) /\ s_toks (run s S) = s_toks S /\ pending (run s S) = pending S ++ s /\
  (s_mode (run s S) = MInit <-> s_mode S = MInit /\ s = []).
Proof.
  induction s as [|c s IH]; intros Hs S HS.
  - cbn [fold_left]. rewrite app_nil_r. repeat split; tauto.
  - apply notin_cons in Hs as (_ & Hc & Hs). cbn [fold_left].
    assert (H1 : text_ctx (step S c) /\ s_toks (step S c) = s_toks S /\ pending (step S c) = pending S ++ [c] /\
                 s_mode (step S c) <> MInit).
    { destruct S as [toks p m]. unfold text_ctx in HS. cbn [s_mode s_toks] in HS.
      destruct m as [|x|g|e]; try contradiction.
      - rewrite (init_char is_space to_lower text_tags attr_prefix compile toks p c HS Hc).
        unfold text_ctx, pending. cbn [s_mode s_toks x_raw x_buf app]. repeat split. discriminate.
      - destruct x as [buf st raw a b c0 d e]. cbn [x_raw] in HS. subst raw.
        rewrite (text_char is_space to_lower text_tags attr_prefix compile toks p buf st a b c0 d e c Hc).
        unfold text_ctx, pending. cbn [s_mode s_toks x_raw x_buf]. repeat split. discriminate. }
    destruct H1 as (T1 & T2 & T3 & T4).
    destruct (IH Hs _ T1) as (I1 & I2 & I3 & I4).
    split; [exact I1|]. split; [congruence|]. split; [rewrite I3, T3, <- app_assoc; reflexivity|].
    split; [intros H; apply I4 in H as [H _]; contradiction|intros [_ H]; discriminate].
Qed.

Lemma text_finish S : text_ctx S -> finish S = inl (rev (s_toks S) ++ hole_toks S).
Proof.
  destruct S as [toks p m]. unfold text_ctx, finish, hole_toks. cbn [s_mode s_toks s_pos].
  destruct m as [|x|g|e]; try contradiction; intros _; [rewrite app_nil_r|]; reflexivity.
Qed.

Lemma text_lt_step S : text_ctx S ->
  step S cLT = mkS (hole_toks S ++ s_toks S) (adv (s_pos S) cLT) (MTag (new_tag (s_pos S))).
Proof.
  destruct S as [toks p m]. unfold text_ctx, hole_toks. cbn [s_mode s_toks s_pos].
  destruct m as [|x|g|e]; try contradiction; intros H.
  - apply init_lt. exact H.
  - destruct x as [buf st raw a b c d e]. cbn [x_raw] in H. subst raw. apply text_lt.
Qed.

(* description of the text token that contains the hole: v = inserted string ++ text up to the next '<' *)
Definition hole_desc (S0 : sstate) (v : str) (h : list token) : Prop :=
  (h = [] /\ s_mode S0 = MInit /\ v = []) \/
  (exists st en, h = [mkTok KText (pending S0 ++ v) st en [] []] /\ (s_mode S0 = MInit -> v <> [])).

Lemma hole_toks_desc S0 (v : str) : ~ In cLT v -> text_ctx S0 -> hole_desc S0 v (hole_toks (run v S0)).
Proof.
  intros Hv H0. destruct (run_text v Hv S0 H0) as (T1 & T2 & T3 & T4).
  unfold hole_desc, hole_toks. unfold pending in T3 at 1. unfold text_ctx in T1.
  destruct (s_mode (run v S0)) as [|x|g|e]; try contradiction.
  - left. destruct T4 as [T4 _]. destruct (T4 eq_refl). auto.
  - right. exists (x_start x), (s_pos (run v S0)). rewrite T3. split; [reflexivity|].
    intros E Ev. destruct T4 as [_ T4]. specialize (T4 (conj E Ev)). discriminate.
Qed.

Lemma hole_rev S : rev (hole_toks S) = hole_toks S.
Proof. unfold hole_toks. destruct (s_mode S); reflexivity. Qed.

Lemma new_tag_mode p1 p2 : mode_rel (MTag (new_tag p1)) (MTag (new_tag p2)).
Proof. constructor. unfold new_tag. constructor; [apply buf_rel_refl|apply attrs_rel_0|reflexivity]. Qed.

(* Core statement, from any state S0 in text context.  The two results are
     l ++ h1 ++ r1   and   l ++ h2 ++ r2
   with l the tokens emitted before the hole (identical, positions included), h_i empty or the one
   text token that contains the hole, and r1, r2 equal up to positions. *)
Theorem text_hole_core S0 (s1 s2 post : str) :
  text_ctx S0 -> ~ In cLT s1 -> ~ In cLT s2 ->
  exists h1 h2,
    hole_desc S0 (s1 ++ upto cLT post) h1 /\ hole_desc S0 (s2 ++ upto cLT post) h2 /\
    ((exists e, finish (run (s1 ++ post) S0) = inr e /\ finish (run (s2 ++ post) S0) = inr e) \/
     (exists r1 r2,
        finish (run (s1 ++ post) S0) = inl (rev (s_toks S0) ++ h1 ++ r1) /\
        finish (run (s2 ++ post) S0) = inl (rev (s_toks S0) ++ h2 ++ r2) /\
        map tok_np r1 = map tok_np r2)).
Proof.
  intros H0 Hs1 Hs2. set (t := upto cLT post).
  assert (Ht : ~ In cLT t) by apply upto_notin.
  pose proof (notin_app _ _ _ Hs1 Ht) as Hv1. pose proof (notin_app _ _ _ Hs2 Ht) as Hv2.
  exists (hole_toks (run (s1 ++ t) S0)), (hole_toks (run (s2 ++ t) S0)).
  split; [apply hole_toks_desc; assumption|]. split; [apply hole_toks_desc; assumption|].
  destruct (run_text _ Hv1 S0 H0) as (A1 & A2 & _). destruct (run_text _ Hv2 S0 H0) as (B1 & B2 & _).
  destruct (upto_split cLT post) as [E|[rest E]]; fold t in E.
  - right. exists [], []. rewrite E, !app_nil_r.
    rewrite (text_finish _ A1), (text_finish _ B1), A2, B2. auto.
  - rewrite E. rewrite !(app_assoc _ t). rewrite (run_app (s1 ++ t)), (run_app (s2 ++ t)). cbn [fold_left].
    rewrite (text_lt_step _ A1), (text_lt_step _ B1), A2, B2.
    set (h1 := hole_toks (run (s1 ++ t) S0)). set (h2 := hole_toks (run (s2 ++ t) S0)).
    assert (SIM : simB (h1 ++ s_toks S0) (h2 ++ s_toks S0)
                    (mkS (h1 ++ s_toks S0) (adv (s_pos (run (s1 ++ t) S0)) cLT) (MTag (new_tag (s_pos (run (s1 ++ t) S0)))))
                    (mkS (h2 ++ s_toks S0) (adv (s_pos (run (s2 ++ t) S0)) cLT) (MTag (new_tag (s_pos (run (s2 ++ t) S0)))))).
    { apply (SB to_lower text_tags (h1 ++ s_toks S0) (h2 ++ s_toks S0) [] []); [reflexivity|apply new_tag_mode|discriminate]. }
    apply (runB is_space to_lower text_tags attr_prefix compile Hcomp _ _ rest) in SIM.
    apply finishB in SIM. destruct SIM as [L|(r1 & r2 & E1 & E2 & Hr)]; [left; exact L|].
    right. exists r1, r2. rewrite E1, E2, !rev_app_distr. unfold h1, h2. rewrite !hole_rev, <- !app_assoc. auto.
Qed.

(* both holes produce a token, or neither does *)
Definition same_presence (S0 : sstate) (s1 s2 post : str) : Prop :=
  (s1 = [] <-> s2 = []) \/ s_mode S0 <> MInit \/ upto cLT post <> [].

Lemma hole_struct S0 v h : hole_desc S0 v h -> tag_struct h = [] /\ filter (fun t => negb (is_text_tok t)) h = [].
Proof. intros [(-> & _)|(st & en & -> & _)]; split; reflexivity. Qed.

Lemma app_nil_iff (a b : str) : a ++ b = [] <-> a = [] /\ b = [].
Proof. split; [apply app_eq_nil|intros [-> ->]; reflexivity]. Qed.

Lemma hole_same S0 s1 s2 post h1 h2 :
  same_presence S0 s1 s2 post ->
  hole_desc S0 (s1 ++ upto cLT post) h1 -> hole_desc S0 (s2 ++ upto cLT post) h2 ->
  map shape_no_text h1 = map shape_no_text h2 /\ length h1 = length h2.
Proof.
  intros HP [(-> & M1 & V1)|(st1 & en1 & -> & N1)] [(-> & M2 & V2)|(st2 & en2 & -> & N2)]; try (split; reflexivity).
  - exfalso. apply app_nil_iff in V1 as [V1 V1']. specialize (N2 M1).
    destruct HP as [HP|[HP|HP]]; [|contradiction|contradiction].
    apply N2. apply app_nil_iff. split; [apply HP; exact V1|exact V1'].
  - exfalso. apply app_nil_iff in V2 as [V2 V2']. specialize (N1 M2).
    destruct HP as [HP|[HP|HP]]; [|contradiction|contradiction].
    apply N1. apply app_nil_iff. split; [apply HP; exact V2|exact V2'].
Qed.

(* The result in terms of whole scans of  pre ++ s_i ++ post. *)
Theorem text_hole_decompose (pre s1 s2 post : str) :
  text_ctx (run pre init) -> ~ In cLT s1 -> ~ In cLT s2 ->
  (exists e, scan (pre ++ s1 ++ post) = inr e /\ scan (pre ++ s2 ++ post) = inr e) \/
  (exists l h1 h2 r1 r2,
     scan (pre ++ s1 ++ post) = inl (l ++ h1 ++ r1) /\
     scan (pre ++ s2 ++ post) = inl (l ++ h2 ++ r2) /\
     l = rev (s_toks (run pre init)) /\
     hole_desc (run pre init) (s1 ++ upto cLT post) h1 /\
     hole_desc (run pre init) (s2 ++ upto cLT post) h2 /\
     map tok_np r1 = map tok_np r2).
Proof.
  intros H0 Hs1 Hs2. unfold Scan.scan. rewrite !(run_app pre).
  destruct (text_hole_core _ s1 s2 post H0 Hs1 Hs2) as (h1 & h2 & D1 & D2 & [L|(r1 & r2 & E1 & E2 & Hr)]); [left; exact L|].
  right. exists (rev (s_toks (run pre init))), h1, h2, r1, r2. auto 10.
Qed.

Theorem text_hole_invariant (pre s1 s2 post : str) :
  text_ctx (run pre init) -> ~ In cLT s1 -> ~ In cLT s2 ->
  (exists e, scan (pre ++ s1 ++ post) = inr e /\ scan (pre ++ s2 ++ post) = inr e) \/
  (exists toks1 toks2,
     scan (pre ++ s1 ++ post) = inl toks1 /\ scan (pre ++ s2 ++ post) = inl toks2 /\
     tag_struct toks1 = tag_struct toks2 /\
     (* all tokens other than text tokens are equal up to positions *)
     map tok_np (filter (fun t => negb (is_text_tok t)) toks1) =
     map tok_np (filter (fun t => negb (is_text_tok t)) toks2) /\
     (* when both holes give a token or neither does: the token lists agree up to positions and text values *)
     (same_presence (run pre init) s1 s2 post ->
        map shape_no_text toks1 = map shape_no_text toks2 /\ length toks1 = length toks2)).
Proof.
  intros H0 Hs1 Hs2.
  destruct (text_hole_decompose pre s1 s2 post H0 Hs1 Hs2) as [L|(l & h1 & h2 & r1 & r2 & E1 & E2 & _ & D1 & D2 & Hr)];
    [left; exact L|].
  right. exists (l ++ h1 ++ r1), (l ++ h2 ++ r2). split; [exact E1|]. split; [exact E2|].
  destruct (np_struct _ _ Hr) as (R1 & R2 & _ & R4).
  destruct (hole_struct _ _ _ D1) as [K1 K1']. destruct (hole_struct _ _ _ D2) as [K2 K2'].
  split; [rewrite !tag_struct_app, K1, K2, R1; reflexivity|].
  split; [rewrite !filter_app, K1', K2', !map_app, R4; reflexivity|].
  intros HP. destruct (hole_same _ _ _ _ _ _ HP D1 D2) as [S1 S2].
  split; [rewrite !map_app, S1, R2; reflexivity|].
  rewrite !app_length, S2. apply (f_equal (@length _)) in Hr. rewrite !map_length in Hr. lia.
Qed.

Corollary text_hole_success_iff (pre s1 s2 post : str) :
  text_ctx (run pre init) -> ~ In cLT s1 -> ~ In cLT s2 ->
  ((exists toks, scan (pre ++ s1 ++ post) = inl toks) <-> (exists toks, scan (pre ++ s2 ++ post) = inl toks)).
Proof.
  intros H0 Hs1 Hs2.
  destruct (text_hole_invariant pre s1 s2 post H0 Hs1 Hs2) as [(e & E1 & E2)|(t1 & t2 & E1 & E2 & _)]; rewrite E1, E2.
  - split; intros [t H]; discriminate.
  - split; intros _; eauto.
Qed.

(* ================= quoted attribute value ================= *)

Lemma quote_facts q : is_quote q = true -> N.eqb q cGT = false /\ (N.eqb q cDQ || N.eqb q cSQ) = true.
Proof.
  intros H. split; [|exact H]. unfold is_quote in H.
  apply orb_true_iff in H as [H|H]; apply N.eqb_eq in H; subst q; reflexivity.
Qed.

(* inside a quoted value, a string without the quote only extends the raw tag text and the value *)
Lemma run_qval (s : str) q : is_quote q = true -> ~ In q s ->
  forall toks p (buf : str) gs attrs (name cm cd an : str) ans ane (v : str) avs ave,
  exists p' ave',
    run s (mkS toks p (MTag (mkTag TAttrValue buf gs attrs name cm cd an ans ane (q :: v) avs ave))) =
    mkS toks p' (MTag (mkTag TAttrValue (buf ++ s) gs attrs name cm cd an ans ane (q :: v ++ s) avs ave')).
Proof.
  intros Hq. induction s as [|c s IH]; intros Hs toks p buf gs attrs name cm cd an ans ane v avs ave.
  - exists p, ave. cbn [fold_left]. rewrite !app_nil_r. reflexivity.
  - apply notin_cons in Hs as (Hc & _ & Hs). cbn [fold_left].
    rewrite (aval_q_char is_space to_lower text_tags attr_prefix compile toks p buf gs attrs name cm cd an ans ane q v avs ave c Hq Hc).
    cbn [app].
    destruct (IH Hs toks (adv p c) (buf ++ [c]) gs attrs name cm cd an ans ane (v ++ [c]) avs (adv p c)) as (p' & ave' & E).
    exists p', ave'. rewrite E, <- !app_assoc. reflexivity.
Qed.

(* the closing quote *)
Lemma q_close q toks p (buf : str) gs attrs (name cm cd an : str) ans ane (v : str) avs ave :
  is_quote q = true ->
  step (mkS toks p (MTag (mkTag TAttrValue buf gs attrs name cm cd an ans ane (q :: v) avs ave))) q =
  let A := mkAttr (trim_sp an) ans ane (Some ((q :: v) ++ [q])) avs (adv p q) in
  if negb (compile A) then mkS toks (adv p q) (MErr ECompile)
  else if has_attr (trim_sp an) attrs then mkS toks (adv p q) (MErr EDupAttr)
  else mkS toks (adv p q) (MTag (mkTag TSpace (buf ++ [q]) gs (A :: attrs) name cm cd an ans ane ((q :: v) ++ [q]) avs (adv p q))).
Proof.
  intros Hq. destruct (quote_facts q Hq) as [Hgt Hq'].
  unfold Scan.step. cbn [s_toks s_pos s_mode Scan.dispatch]. unfold Scan.tag_step. tag_cbn.
  rewrite Hq', N.eqb_refl. cbn [andb orb].
  unfold Scan.add_attr, Scan.fix_else. cbn [a_value a_name]. tag_cbn. cbn [andb].
  destruct (compile _); cbn [negb]; [|reflexivity].
  destruct (has_attr _ _); [reflexivity|].
  tag_cbn. unfold finish_or. rewrite Hgt. reflexivity.
Qed.

(* the scanner is inside an attribute value opened by the quote q *)
Definition attr_ctx (q : rune) (S : sstate) : Prop :=
  is_quote q = true /\
  exists g v0, s_mode S = MTag g /\ g_state g = TAttrValue /\ g_aval g = q :: v0.
Definition hole_aname (S : sstate) : str :=
  match s_mode S with MTag g => trim_sp (g_aname g) | _ => [] end.
Definition hole_aval0 (S : sstate) : str :=
  match s_mode S with MTag g => g_aval g | _ => [] end.
Definition hole_attrs0 (S : sstate) : list attr :=
  match s_mode S with MTag g => rev (g_attrs g) | _ => [] end.
Definition hole_buf0 (S : sstate) : str :=
  match s_mode S with MTag g => g_buf g | _ => [] end.
Definition hole_tname (S : sstate) : str :=
  match s_mode S with MTag g => g_name g | _ => [] end.

(* Core statement, from any state S0 inside a quoted attribute value.  The two results are
     l ++ T1 :: r1   and   l ++ T2 :: r2
   with l the tokens emitted before the tag (identical), T_i the tag that contains the hole, whose
   attributes are  la ++ A_i :: ra_i : la identical, A_i the attribute with the hole (same name, value
   = opening quote, value read so far, inserted string, rest up to the closing quote, closing quote),
   ra1 and ra2 equal up to positions; r1 and r2 equal up to positions. *)
Theorem attr_hole_core q S0 (s1 s2 post : str) :
  attr_ctx q S0 -> ~ In q s1 -> ~ In q s2 ->
  (forall a1 a2, a_name a1 = hole_aname S0 -> a_name a2 = hole_aname S0 -> compile a1 = compile a2) ->
  (exists e, finish (run (s1 ++ post) S0) = inr e /\ finish (run (s2 ++ post) S0) = inr e) \/
  (exists nb st1 st2 en1 en2 ns1 ns2 ne1 ne2 vs1 vs2 ve1 ve2 ra1 ra2 r1 r2,
     finish (run (s1 ++ post) S0) =
       inl (rev (s_toks S0) ++
            mkTok KTag (hole_buf0 S0 ++ s1 ++ upto q post ++ [q] ++ nb) st1 en1 (hole_tname S0)
              (hole_attrs0 S0 ++
               mkAttr (hole_aname S0) ns1 ne1 (Some (hole_aval0 S0 ++ s1 ++ upto q post ++ [q])) vs1 ve1 :: ra1) :: r1) /\
     finish (run (s2 ++ post) S0) =
       inl (rev (s_toks S0) ++
            mkTok KTag (hole_buf0 S0 ++ s2 ++ upto q post ++ [q] ++ nb) st2 en2 (hole_tname S0)
              (hole_attrs0 S0 ++
               mkAttr (hole_aname S0) ns2 ne2 (Some (hole_aval0 S0 ++ s2 ++ upto q post ++ [q])) vs2 ve2 :: ra2) :: r2) /\
     map ashape ra1 = map ashape ra2 /\ map tok_np r1 = map tok_np r2).
Proof.
  intros (Hq & g & v0 & Hm & Hst & Hav) Hs1 Hs2 Hhole.
  destruct S0 as [toks p m]. cbn [s_mode] in Hm. subst m.
  destruct g as [st buf gs attrs name cm cd an ans ane av avs ave]. cbn [g_state g_aval] in Hst, Hav. subst st av.
  unfold hole_aname, hole_aval0, hole_attrs0, hole_buf0, hole_tname in *. cbn [s_mode s_toks g_aname g_aval g_attrs g_buf g_name] in *.
  set (u := upto q post).
  assert (Hu : ~ In q u) by apply upto_notin.
  pose proof (notin_app _ _ _ Hs1 Hu) as Hv1. pose proof (notin_app _ _ _ Hs2 Hu) as Hv2.
  destruct (run_qval _ q Hq Hv1 toks p buf gs attrs name cm cd an ans ane v0 avs ave) as (p1 & ave1 & R1).
  destruct (run_qval _ q Hq Hv2 toks p buf gs attrs name cm cd an ans ane v0 avs ave) as (p2 & ave2 & R2).
  destruct (upto_split q post) as [E|[rest E]]; fold u in E.
  - (* no closing quote: end of input inside the tag *)
    left. exists EUnexpectedEOF. rewrite E, R1, R2. split; reflexivity.
  - rewrite E. rewrite !(app_assoc _ u). rewrite (run_app (s1 ++ u)), (run_app (s2 ++ u)), R1, R2. cbn [fold_left].
    rewrite !q_close by exact Hq. cbv zeta.
    set (A1 := mkAttr (trim_sp an) ans ane (Some ((q :: v0 ++ s1 ++ u) ++ [q])) avs (adv p1 q)).
    set (A2 := mkAttr (trim_sp an) ans ane (Some ((q :: v0 ++ s2 ++ u) ++ [q])) avs (adv p2 q)).
    rewrite (Hhole A1 A2 eq_refl eq_refl).
    destruct (compile A2); cbn [negb].
    2:{ left. destruct (run_err rest toks (adv p1 q) ECompile) as [p1' ->].
        destruct (run_err rest toks (adv p2 q) ECompile) as [p2' ->]. exists ECompile. split; reflexivity. }
    destruct (has_attr (trim_sp an) attrs).
    { left. destruct (run_err rest toks (adv p1 q) EDupAttr) as [p1' ->].
      destruct (run_err rest toks (adv p2 q) EDupAttr) as [p2' ->]. exists EDupAttr. split; reflexivity. }
    (* phase A: the rest of the tag *)
    set (B1 := (buf ++ s1 ++ u) ++ [q]). set (B2 := (buf ++ s2 ++ u) ++ [q]).
    assert (HA : simA (A1 :: attrs) (A2 :: attrs) B1 B2 toks toks name
              (mkS toks (adv p1 q) (MTag (mkTag TSpace B1 gs (A1 :: attrs) name cm cd an ans ane ((q :: v0 ++ s1 ++ u) ++ [q]) avs (adv p1 q))))
              (mkS toks (adv p2 q) (MTag (mkTag TSpace B2 gs (A2 :: attrs) name cm cd an ans ane ((q :: v0 ++ s2 ++ u) ++ [q]) avs (adv p2 q))))).
    { constructor; [|reflexivity|reflexivity]. constructor; [apply buf_rel_0|apply attrs_rel_0|discriminate]. }
    assert (Hnames : map a_name (A1 :: attrs) = map a_name (A2 :: attrs)) by reflexivity.
    destruct (runA is_space to_lower text_tags attr_prefix compile Hcomp _ _ B1 B2 Hnames toks toks name rest _ _ HA)
      as [L|(pre' & rest' & T1 & T2 & q1 & q2 & Er & Ht & Hk & Hn & E1 & E2)]; [left; exact L|].
    rewrite Er, !run_app, E1, E2.
    (* phase B: after the tag *)
    assert (SIM : simB (T1 :: toks) (T2 :: toks) (mkS (T1 :: toks) q1 MInit) (mkS (T2 :: toks) q2 MInit)).
    { apply (SB to_lower text_tags (T1 :: toks) (T2 :: toks) [] []); [reflexivity|constructor|].
      intros _. cbn [app]. destruct Ht; reflexivity. }
    apply (runB is_space to_lower text_tags attr_prefix compile Hcomp _ _ rest') in SIM.
    apply finishB in SIM. destruct SIM as [L|(r1 & r2 & F1 & F2 & Hr)]; [left; exact L|].
    right. rewrite F1, F2. cbn [rev]. rewrite <- !app_assoc. cbn [app].
    destruct Ht as [b1 b2 st1 st2 e1 e2 name' a1 a2 Hb Ha|k v st1 st2 e1 e2 Hne]; [|cbn [t_kind] in Hk; contradiction].
    cbn [t_name] in Hn. subst name'.
    destruct Hb as [nb]. destruct Ha as [n1 n2 Hn12].
    exists nb, st1, st2, e1, e2, ans, ans, ane, ane, avs, avs, (adv p1 q), (adv p2 q), (rev n1), (rev n2), r1, r2.
    rewrite !rev_app_distr. cbn [rev]. unfold B1, B2, A1, A2. rewrite <- !app_assoc. cbn [app].
    rewrite <- !app_assoc. cbn [app].
    split; [reflexivity|]. split; [reflexivity|]. split; [rewrite !map_rev, Hn12; reflexivity|exact Hr].
Qed.

Lemma tag_tok_struct b st en name (attrs : list attr) :
  tag_struct [mkTok KTag b st en name attrs] = [(name, map a_name attrs)].
Proof. reflexivity. Qed.

Lemma tag_tok_names b st en name (attrs : list attr) :
  shape_names (mkTok KTag b st en name attrs) = (KTag, [], name, map a_name attrs).
Proof. reflexivity. Qed.

Theorem attr_hole_invariant q (pre s1 s2 post : str) :
  attr_ctx q (run pre init) -> ~ In q s1 -> ~ In q s2 ->
  (forall a1 a2, a_name a1 = hole_aname (run pre init) -> a_name a2 = hole_aname (run pre init) -> compile a1 = compile a2) ->
  (exists e, scan (pre ++ s1 ++ post) = inr e /\ scan (pre ++ s2 ++ post) = inr e) \/
  (exists toks1 toks2,
     scan (pre ++ s1 ++ post) = inl toks1 /\ scan (pre ++ s2 ++ post) = inl toks2 /\
     tag_struct toks1 = tag_struct toks2 /\
     (* kinds, names, attribute names of all tokens, values of all tokens other than tags *)
     map shape_names toks1 = map shape_names toks2 /\ length toks1 = length toks2 /\
     (* all tokens but one equal up to positions; in that one (a tag) all attributes but one equal up to
        positions, and that one has the same name *)
     exists l T1 T2 r1 r2 la A1 A2 ra1 ra2,
       toks1 = l ++ T1 :: r1 /\ toks2 = l ++ T2 :: r2 /\ map tok_np r1 = map tok_np r2 /\
       t_kind T1 = KTag /\ t_kind T2 = KTag /\ t_name T1 = t_name T2 /\
       t_attrs T1 = la ++ A1 :: ra1 /\ t_attrs T2 = la ++ A2 :: ra2 /\ map ashape ra1 = map ashape ra2 /\
       a_name A1 = a_name A2 /\
       a_value A1 = Some (hole_aval0 (run pre init) ++ s1 ++ upto q post ++ [q]) /\
       a_value A2 = Some (hole_aval0 (run pre init) ++ s2 ++ upto q post ++ [q])).
Proof.
  intros H0 Hs1 Hs2 Hhole. unfold Scan.scan. rewrite !(run_app pre).
  destruct (attr_hole_core q _ s1 s2 post H0 Hs1 Hs2 Hhole)
    as [L|(nb & st1 & st2 & en1 & en2 & ns1 & ns2 & ne1 & ne2 & vs1 & vs2 & ve1 & ve2 & ra1 & ra2 & r1 & r2 & E1 & E2 & Hra & Hr)];
    [left; exact L|].
  right. eexists. eexists. split; [exact E1|]. split; [exact E2|].
  destruct (np_struct _ _ Hr) as (R1 & _ & R3 & _).
  pose proof (ashape_names _ _ Hra) as Hran.
  split.
  { rewrite !tag_struct_app.
    change (?x :: r1) with ([x] ++ r1). change (?x :: r2) with ([x] ++ r2).
    rewrite !tag_struct_app, !tag_tok_struct, R1, !map_app. cbn [map a_name]. rewrite Hran. reflexivity. }
  split.
  { rewrite !map_app. cbn [map]. rewrite R3, !tag_tok_names.
    rewrite !map_app. cbn [map a_name]. rewrite Hran. reflexivity. }
  split.
  { rewrite !app_length. cbn [length]. apply (f_equal (@length _)) in Hr. rewrite !map_length in Hr. lia. }
  do 10 eexists. split; [reflexivity|]. split; [reflexivity|]. split; [exact Hr|].
  cbn [t_kind t_name t_attrs]. split; [reflexivity|]. split; [reflexivity|]. split; [reflexivity|].
  split; [reflexivity|]. split; [reflexivity|]. split; [exact Hra|].
  cbn [a_name a_value]. auto.
Qed.

Corollary attr_hole_success_iff q (pre s1 s2 post : str) :
  attr_ctx q (run pre init) -> ~ In q s1 -> ~ In q s2 ->
  (forall a1 a2, a_name a1 = hole_aname (run pre init) -> a_name a2 = hole_aname (run pre init) -> compile a1 = compile a2) ->
  ((exists toks, scan (pre ++ s1 ++ post) = inl toks) <-> (exists toks, scan (pre ++ s2 ++ post) = inl toks)).
Proof.
  intros H0 Hs1 Hs2 Hhole.
  destruct (attr_hole_invariant q pre s1 s2 post H0 Hs1 Hs2 Hhole) as [(e & E1 & E2)|(t1 & t2 & E1 & E2 & _)]; rewrite E1, E2.
  - split; intros [t H]; discriminate.
  - split; intros _; eauto.
Qed.

End Hole.

(* ================= non-vacuity ================= *)
Definition hx_space (r : rune) : bool := N.eqb r 32 || N.eqb r 10 || N.eqb r 9.
Notation hx_scan := (Scan.scan hx_space (fun r => r) [[115;99;114;105;112;116]] [58] (fun _ => true)).
Notation hx_run := (@fold_left sstate rune (Scan.step hx_space (fun r => r) [[115;99;114;105;112;116]] [58] (fun _ => true))).
Lemma hx_comp : forall a1 a2 : attr, a_name a1 = a_name a2 -> a_value a1 = a_value a2 -> (fun _ : attr => true) a1 = (fun _ : attr => true) a2.
Proof. reflexivity. Qed.

Ltac notin := let H := fresh in intros H; cbn [In] in H; repeat (destruct H as [H|H]; [discriminate H|]); exact H.

(* text context, pending text non-empty:  <p>a | x&lt;y  or  nothing | b<i>c</i></p> *)
Definition hx_pre1 : str := [60;112;62;97].
Definition hx_s1 : str := [120;38;108;116;59;121].
Definition hx_post1 : str := [98;60;105;62;99;60;47;105;62;60;47;112;62].

Example text_ctx_example : text_ctx (fun r => r) [[115;99;114;105;112;116]] (hx_run hx_pre1 init).
Proof. vm_compute. reflexivity. Qed.

Example text_hole_example :
  exists toks1 toks2,
    hx_scan (hx_pre1 ++ hx_s1 ++ hx_post1) = inl toks1 /\ hx_scan (hx_pre1 ++ [] ++ hx_post1) = inl toks2 /\
    tag_struct toks1 = [([112], []); ([105], []); ([47;105], []); ([47;112], [])] /\
    tag_struct toks2 = tag_struct toks1 /\
    map shape_no_text toks1 = map shape_no_text toks2 /\ length toks1 = 6%nat /\ length toks2 = 6%nat /\
    map t_value (filter is_text_tok toks1) = [[97;120;38;108;116;59;121;98]; [99]] /\
    map t_value (filter is_text_tok toks2) = [[97;98]; [99]].
Proof. eexists. eexists. split; [vm_compute; reflexivity|]. split; [vm_compute; reflexivity|]. repeat split. Qed.

(* the same through the theorem: its hypotheses are satisfiable *)
Example text_hole_example_thm :
  (exists e, hx_scan (hx_pre1 ++ hx_s1 ++ hx_post1) = inr e /\ hx_scan (hx_pre1 ++ [] ++ hx_post1) = inr e) \/
  (exists toks1 toks2,
     hx_scan (hx_pre1 ++ hx_s1 ++ hx_post1) = inl toks1 /\ hx_scan (hx_pre1 ++ [] ++ hx_post1) = inl toks2 /\
     tag_struct toks1 = tag_struct toks2 /\
     map tok_np (filter (fun t => negb (is_text_tok t)) toks1) = map tok_np (filter (fun t => negb (is_text_tok t)) toks2) /\
     (same_presence (hx_run hx_pre1 init) hx_s1 [] hx_post1 ->
        map shape_no_text toks1 = map shape_no_text toks2 /\ length toks1 = length toks2)).
Proof.
  apply (text_hole_invariant hx_space (fun r => r) [[115;99;114;105;112;116]] [58] (fun _ => true) hx_comp);
    [exact text_ctx_example|notin|notin].
Qed.
Example same_presence_example : same_presence (hx_run hx_pre1 init) hx_s1 [] hx_post1.
Proof. right; left. vm_compute. discriminate. Qed.

(* text context right after a tag (mode MInit), hole followed by '<': the empty string gives no text token,
   so the lengths differ (same_presence fails) while the tag structure is the same *)
Example text_hole_example_init :
  text_ctx (fun r => r) [[115;99;114;105;112;116]] (hx_run [60;112;62] init) /\
  exists toks1 toks2,
    hx_scan ([60;112;62] ++ hx_s1 ++ [60;47;112;62]) = inl toks1 /\ hx_scan ([60;112;62] ++ [] ++ [60;47;112;62]) = inl toks2 /\
    tag_struct toks1 = tag_struct toks2 /\ length toks1 = 3%nat /\ length toks2 = 2%nat.
Proof. split; [vm_compute; reflexivity|]. eexists. eexists. split; [vm_compute; reflexivity|]. split; [vm_compute; reflexivity|]. repeat split. Qed.

(* sharpness: an inserted '<' does change the structure *)
Example text_hole_needs_nolt :
  exists toks1 toks2,
    hx_scan ([60;112;62] ++ [60;98;62] ++ [60;47;112;62]) = inl toks1 /\ hx_scan ([60;112;62] ++ [] ++ [60;47;112;62]) = inl toks2 /\
    tag_struct toks1 <> tag_struct toks2.
Proof. eexists. eexists. split; [vm_compute; reflexivity|]. split; [vm_compute; reflexivity|]. vm_compute. discriminate. Qed.

(* attribute value:  <p a=" | x&lt;y  or  nothing | " b>t</p> *)
Definition hx_pre2 : str := [60;112;32;97;61;34].
Definition hx_post2 : str := [34;32;98;62;116;60;47;112;62].

Example attr_ctx_example : attr_ctx cDQ (hx_run hx_pre2 init).
Proof. split; [reflexivity|]. eexists. eexists. split; [vm_compute; reflexivity|]. split; reflexivity. Qed.

Example attr_hole_example :
  exists toks1 toks2,
    hx_scan (hx_pre2 ++ hx_s1 ++ hx_post2) = inl toks1 /\ hx_scan (hx_pre2 ++ [] ++ hx_post2) = inl toks2 /\
    tag_struct toks1 = [([112], [[97]; [98]]); ([47;112], [])] /\
    tag_struct toks2 = tag_struct toks1 /\
    map shape_names toks1 = map shape_names toks2 /\ length toks1 = 3%nat /\
    map (fun t => map a_value (t_attrs t)) toks1 = [[Some [34;120;38;108;116;59;121;34]; None]; []; []] /\
    map (fun t => map a_value (t_attrs t)) toks2 = [[Some [34;34]; None]; []; []].
Proof. eexists. eexists. split; [vm_compute; reflexivity|]. split; [vm_compute; reflexivity|]. repeat split. Qed.

Example attr_hole_example_thm :
  (exists toks, hx_scan (hx_pre2 ++ hx_s1 ++ hx_post2) = inl toks) <-> (exists toks, hx_scan (hx_pre2 ++ [] ++ hx_post2) = inl toks).
Proof.
  apply (attr_hole_success_iff hx_space (fun r => r) [[115;99;114;105;112;116]] [58] (fun _ => true) hx_comp cDQ);
    [exact attr_ctx_example|notin|notin|reflexivity].
Qed.

(* sharpness: an inserted closing quote does change the attribute names *)
Example attr_hole_needs_noquote :
  exists toks1 toks2,
    hx_scan (hx_pre2 ++ [34;32;122;61;34] ++ hx_post2) = inl toks1 /\ hx_scan (hx_pre2 ++ [] ++ hx_post2) = inl toks2 /\
    tag_struct toks1 <> tag_struct toks2.
Proof. eexists. eexists. split; [vm_compute; reflexivity|]. split; [vm_compute; reflexivity|]. vm_compute. discriminate. Qed.

(* ---------- closed statements ---------- *)
Check (text_hole_invariant : forall (is_space : rune -> bool) (to_lower : rune -> rune) (text_tags : list str)
    (attr_prefix : str) (compile : attr -> bool),
  (forall a1 a2, a_name a1 = a_name a2 -> a_value a1 = a_value a2 -> compile a1 = compile a2) ->
  forall pre s1 s2 post : str,
  text_ctx to_lower text_tags (fold_left (Scan.step is_space to_lower text_tags attr_prefix compile) pre init) ->
  ~ In cLT s1 -> ~ In cLT s2 ->
  (exists e, Scan.scan is_space to_lower text_tags attr_prefix compile (pre ++ s1 ++ post) = inr e /\
             Scan.scan is_space to_lower text_tags attr_prefix compile (pre ++ s2 ++ post) = inr e) \/
  (exists toks1 toks2,
     Scan.scan is_space to_lower text_tags attr_prefix compile (pre ++ s1 ++ post) = inl toks1 /\
     Scan.scan is_space to_lower text_tags attr_prefix compile (pre ++ s2 ++ post) = inl toks2 /\
     tag_struct toks1 = tag_struct toks2 /\
     map tok_np (filter (fun t => negb (is_text_tok t)) toks1) =
     map tok_np (filter (fun t => negb (is_text_tok t)) toks2) /\
     (same_presence (fold_left (Scan.step is_space to_lower text_tags attr_prefix compile) pre init) s1 s2 post ->
        map shape_no_text toks1 = map shape_no_text toks2 /\ length toks1 = length toks2))).

Print Assumptions text_hole_core.
Print Assumptions text_hole_decompose.
Print Assumptions text_hole_invariant.
Print Assumptions text_hole_success_iff.
Print Assumptions attr_hole_core.
Print Assumptions attr_hole_invariant.
Print Assumptions attr_hole_success_iff.
Print Assumptions text_hole_example_thm.
Print Assumptions attr_hole_example_thm.
