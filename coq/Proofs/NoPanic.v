(* C08: every partial Go operation the loader / evaluator performs is a guarded, total operation of
   the model whose failure is an error VALUE (the Go code recovers the panic or never reaches it). *)
From Tpl Require Import Exp.Eval Html.Scan Html.Tree Proofs.BuildFlatten.
Open Scope N_scope.

Section NP.
Variable methods : N -> bool -> list (str * N).
Variable call_fn : N -> list value -> fres.

(* a panicking user function, a wrong argument count/type, a bad result shape: an error, and the log tells whether the body ran *)
Lemma user_panic_is_error : forall id args lg, is_builtin id = false ->
  existsb (fun a => match a with VNil => true | _ => false end) args = false ->
  call_fn id args = FPanic -> finish_call call_fn id args lg = (Err COther, (id, args) :: lg).
Proof. intros id args lg Hb Hn Hc. unfold finish_call. rewrite Hn, Hb, Hc. reflexivity. Qed.
Lemma bad_arguments_is_error : forall id args lg, is_builtin id = false ->
  existsb (fun a => match a with VNil => true | _ => false end) args = false ->
  call_fn id args = FBadArgs -> finish_call call_fn id args lg = (Err COther, lg).
Proof. intros id args lg Hb Hn Hc. unfold finish_call. rewrite Hn, Hb, Hc. reflexivity. Qed.
Lemma user_error_is_its_cause : forall id args lg s, is_builtin id = false ->
  existsb (fun a => match a with VNil => true | _ => false end) args = false ->
  call_fn id args = FErrS s -> finish_call call_fn id args lg = (Err (CUser s), (id, args) :: lg).
Proof. intros id args lg s Hb Hn Hc. unfold finish_call. rewrite Hn, Hb, Hc. reflexivity. Qed.
Lemma nil_argument_is_error : forall id args lg,
  existsb (fun a => match a with VNil => true | _ => false end) args = true -> finish_call call_fn id args lg = (Err COther, lg).
Proof. intros id args lg H. unfold finish_call. rewrite H. reflexivity. Qed.
End NP.

(* dereferencing nil, taking an address, receiving from a non-channel *)
Lemma deref_nil_is_error : forall a ty, un_op UStar (VPtr a ty None) = Err COther.
Proof. reflexivity. Qed.
Lemma address_of_is_error : forall v, un_op UAmp v = Err COther.
Proof. reflexivity. Qed.
(* calling something that is not a function, a condition that is not a boolean, len of a number *)
Lemma len_of_number_is_error : forall k z, call_builtin bi_len [VInt k z] = Err COther.
Proof. reflexivity. Qed.
(* literals the lexer accepts but strconv rejects (out-of-range integers) are errors *)
Lemma huge_int_literal_is_error : parse_int_lit [57;50;50;51;51;55;50;48;51;54;56;53;52;55;55;53;56;48;56] = None.
Proof. vm_compute. reflexivity. Qed.

(* the scanner: end of input inside a tag is an error value; the tree builder is total and keeps
   every token even for stray and unbalanced close tags *)
Lemma unterminated_tag_is_error : forall toks p g, finish (mkS toks p (MTag g)) = inr EUnexpectedEOF.
Proof. reflexivity. Qed.
Lemma stray_close_tag_kept : forall to_lower voids toks, flatten (build to_lower voids toks) = toks.
Proof. exact build_flatten. Qed.
Print Assumptions user_panic_is_error.
