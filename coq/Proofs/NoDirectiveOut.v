(* C05, last clause: "... and no directive attribute, block tag or hidden comment ever appears in the output."

   A GENERAL account of what ONE node of the tree writes itself, for ANY set of attributes on an
   element (any directives, in any order), any mask, scope, table, writer, and ANY behaviour [exec]
   of the nested renders (so every statement lifts to exec_node (S fuel) by  cbn [exec_node]).

   1. tag_shape / run_attrs_frame / run_attrs_tag_shape
        the tag buffer after the attribute loop is   "<" name part_1 ... part_k   where every part is
          print_attr a                       a PLAIN attribute a of the token (not prefixed), or
          ' ' cmd '="' escape v '"'          for a DYNAMIC attribute  prefix++cmd  of the token
                                             (cmd is none of the 13 directive names), v a string
        (attr_step_frame: one step leaves the buffer, appends one such part, or fails).
        Stronger (run_attrs_frame): the printed attributes are a SUBSEQUENCE of the processed list
        (each attribute at most once, in Tag.SortedAttr order), a plain attribute is printed only when
        no attribute  prefix++name  exists, and v IS a value the evaluator returned for the attribute.
   2. open_tag_written_shape
        exec_body of a tag node = nothing (failed attribute loop), or ONE Write of
          l_direct ++ (if l_np then [] else  l_tagbuf ++ ">" ++ l_content)
        then run_child, then the end token (unless l_np), where l_tagbuf has tag_shape and l_direct /
        l_content are concatenations of outputs of NESTED renders ([nested]: re-executions of the
        element by its if/else/range owner, range separators, :insert/:replace fragments).
   3. no_directive_attr_printed / printed_name_prefixed / no_prefixed_name_printed
        every printed attribute NAME is the name of a plain attribute of the token, or cmd for an
        attribute prefix++cmd with cmd not a directive.  A printed name starts with the prefix only
        for a source attribute  prefix++prefix++...  (e.g. "::x" prints as ":x").
   4. block_tag_prints_no_tag / np_prints_no_tag / hidden_comment_prints_nothing.
   The final state also records where a :text / :raw insertion comes from (child_ok, fs_child).
   Proofs/NoDirectiveTree.v lifts all of this to the whole render (exec_node_emitted, execute_output).

   MODEL FACTS (see NoDirectiveOutExp.v / NoDirectiveOutExample.v):
   - :replace does not "redirect" the tag buffer: it appends the fragment's output to l_direct (written
     BEFORE / instead of the tag) and sets l_replace; once l_replace is set, a later :insert also
     appends to l_direct instead of l_content.  The element's own tag is suppressed by the pre-check of
     init_lstate (l_np := true when the tag has :define or :replace), not by the step itself.
   - l_np is monotone over the loop (np_monotone): nothing ever re-enables the printing of the tag.
   - a dynamic attribute "::x" prints the name ":x"; the attribute ":" (empty command) prints an EMPTY
     name:  ' ="v"'.  So "no printed name starts with the prefix" needs the side condition of
     no_prefixed_name_printed.
   - the block-tag test is an exact comparison of the lower-cased token name; "<t:block/>" (token name
     "t:block/") is not a block tag and is printed. *)
From Tpl Require Import Html.Exec Proofs.ExecSpec Proofs.ChainProps Proofs.EmitProps Proofs.RenderPlain.
From Coq Require Import Lia.
Open Scope N_scope.

(* ------------------------------------------------------------------------------------------ *)
(* generic list facts                                                                          *)
(* ------------------------------------------------------------------------------------------ *)
Inductive subseq {A : Type} : list A -> list A -> Prop :=
| ss_nil : forall l, subseq [] l
| ss_skip : forall x s l, subseq s l -> subseq s (x :: l)
| ss_take : forall x s l, subseq s l -> subseq (x :: s) (x :: l).

Lemma subseq_in : forall (A : Type) (s l : list A) x, subseq s l -> In x s -> In x l.
Proof.
  intros A s l x H. induction H as [l|y s l _ IH|y s l _ IH]; intros Hin.
  - destruct Hin.
  - right. apply IH. exact Hin.
  - destruct Hin as [Hin|Hin]; [left; exact Hin|right; apply IH; exact Hin].
Qed.

Lemma subseq_nodup : forall (A : Type) (s l : list A), subseq s l -> NoDup l -> NoDup s.
Proof.
  intros A s l H. induction H as [l|y s l _ IH|y s l Hs IH]; intros Hnd.
  - constructor.
  - inversion Hnd; subst. apply IH. assumption.
  - inversion Hnd as [|y' l' Hy Hl]; subst. constructor; [|apply IH; exact Hl].
    intro Hin. apply Hy. exact (subseq_in _ _ _ _ Hs Hin).
Qed.

Lemma prefixb_split : forall p s, prefixb p s = true -> s = p ++ skipn (length p) s.
Proof.
  induction p as [|x p IH]; intros s H; [reflexivity|]. destruct s as [|y s]; [discriminate H|].
  cbn [prefixb] in H. apply andb_true_iff in H. destruct H as [H1 H2]. apply N.eqb_eq in H1. subst y.
  cbn [length skipn app]. f_equal. apply IH. exact H2.
Qed.

Lemma prefixb_app_cancel : forall p q s, prefixb (p ++ q) (p ++ s) = prefixb q s.
Proof. induction p as [|x p IH]; intros q s; [reflexivity|]. cbn [app prefixb]. rewrite N.eqb_refl. apply IH. Qed.

Lemma seq2_nil_tail : forall (a : R) (K : tbl -> rst -> R), (forall t st, K t st = ([], ROk, t, st)) -> seq2 a K = a.
Proof.
  intros [[[o r] t] st] K HK. destruct r; cbn [seq2]; try reflexivity. rewrite HK, app_nil_r. reflexivity.
Qed.

(* a command that passed every directive test of attr_step is not a directive name *)
Lemma not_directive_intro : forall cmd,
  str_eqb cmd d_with = false -> is_cond_name cmd = false -> str_eqb cmd d_range = false ->
  str_eqb cmd d_remove = false -> str_eqb cmd d_text || str_eqb cmd d_raw = false ->
  str_eqb cmd d_define = false -> str_eqb cmd d_replace || str_eqb cmd d_insert = false ->
  is_directive cmd = false.
Proof.
  intros cmd H1 H2 H3 H4 H5 H6 H7.
  unfold is_cond_name, cond_names in H2. cbn [existsb] in H2.
  repeat (apply orb_false_elim in H2; destruct H2 as [? H2]).
  apply orb_false_elim in H5. destruct H5 as [H5 H5'].
  apply orb_false_elim in H7. destruct H7 as [H7 H7'].
  unfold is_directive, directive_names. cbn [existsb].
  repeat match goal with H : str_eqb cmd _ = false |- _ => rewrite H; clear H end. reflexivity.
Qed.

(* ------------------------------------------------------------------------------------------ *)
(* the printed parts of an open tag                                                            *)
(* ------------------------------------------------------------------------------------------ *)
(* PPlain a: the plain attribute a, printed as written;  PDyn a cmd v: the dynamic attribute a
   (named prefix++cmd) printed with the value v *)
Inductive part := PPlain (a : attr) | PDyn (a : attr) (cmd v : str).
Definition dyn_print (cmd v : str) : str := [cSP] ++ cmd ++ [cEQ; cDQ] ++ escape v ++ [cDQ].
Definition part_print (p : part) : str :=
  match p with PPlain a => print_attr a | PDyn _ cmd v => dyn_print cmd v end.
Definition part_attr (p : part) : attr := match p with PPlain a => a | PDyn a _ _ => a end.
(* the printed attribute NAME, and what follows it inside the part *)
Definition part_name (p : part) : str := match p with PPlain a => a_name a | PDyn _ cmd _ => cmd end.
Definition part_tail (p : part) : str :=
  match p with
  | PPlain a => match a_value a with Some v => cEQ :: v | None => [] end
  | PDyn _ _ v => [cEQ; cDQ] ++ escape v ++ [cDQ]
  end.
Definition opt_print (d : option part) : str := match d with Some p => part_print p | None => [] end.

Lemma part_print_name : forall p, part_print p = cSP :: part_name p ++ part_tail p.
Proof. intros [a|a cmd v]; reflexivity. Qed.

Lemma part_tail_cases : forall p, part_tail p = [] \/ exists w, part_tail p = cEQ :: w.
Proof.
  intros [a|a cmd v]; cbn [part_tail].
  - destruct (a_value a) as [v|]; [right; exists v; reflexivity|left; reflexivity].
  - right. eexists. reflexivity.
Qed.

Section NoDir.
Variable is_space : rune -> bool.
Variable to_lower : rune -> rune.
Variable is_letter : rune -> bool.
Variable is_udigit : rune -> bool.
Variable methods : N -> bool -> list (str * N).
Variable call_fn : N -> list value -> fres.
Variable mgr : manager.
Notation pfx := (m_attr_prefix mgr).
Notation aeval := (attr_evaluate is_letter is_udigit methods call_fn mgr).

(* ---------- 1. the specification of a printed open tag ---------- *)
Definition part_ok (tok : token) (p : part) : Prop :=
  match p with
  | PPlain a => In a (t_attrs tok) /\ prefixb pfx (a_name a) = false
  | PDyn a cmd v => In a (t_attrs tok) /\ a_name a = pfx ++ cmd /\ is_directive cmd = false
  end.
Definition tag_shape (tok : token) (buf : str) : Prop :=
  exists parts, Forall (part_ok tok) parts /\ buf = cLT :: t_name tok ++ flat_map part_print parts.

(* the same, phrased on strings *)
Definition part_str (tok : token) (s : str) : Prop :=
  (exists a, In a (t_attrs tok) /\ prefixb pfx (a_name a) = false /\ s = print_attr a) \/
  (exists a cmd v, In a (t_attrs tok) /\ a_name a = pfx ++ cmd /\ is_directive cmd = false /\
                   s = [cSP] ++ cmd ++ [cEQ; cDQ] ++ escape v ++ [cDQ]).

Lemma tag_shape_concat : forall tok buf,
  tag_shape tok buf <-> exists strs, Forall (part_str tok) strs /\ buf = cLT :: t_name tok ++ concat strs.
Proof.
  intros tok buf. split.
  - intros [parts [Hok Hbuf]]. exists (map part_print parts). split.
    + apply Forall_forall. intros s Hs. apply in_map_iff in Hs. destruct Hs as [p [Hp Hin]].
      rewrite Forall_forall in Hok. specialize (Hok p Hin). subst s.
      destruct p as [a|a cmd v]; cbn [part_ok part_print] in *.
      * left. exists a. destruct Hok as [H1 H2]. auto.
      * right. exists a, cmd, v. destruct Hok as (H1 & H2 & H3). unfold dyn_print. auto.
    + rewrite <- flat_map_concat_map. exact Hbuf.
  - intros [strs [Hok Hbuf]]. subst buf.
    assert (H : exists parts, Forall (part_ok tok) parts /\ concat strs = flat_map part_print parts).
    { induction Hok as [|s strs Hs _ IH].
      - exists []. split; [constructor|reflexivity].
      - destruct IH as [parts [Hp Hc]].
        destruct Hs as [[a (H1 & H2 & H3)]|[a [cmd [v (H1 & H2 & H3 & H4)]]]].
        + exists (PPlain a :: parts). split; [constructor; [split; assumption|exact Hp]|].
          cbn [concat flat_map part_print]. rewrite Hc, H3. reflexivity.
        + exists (PDyn a cmd v :: parts). split; [constructor; [cbn [part_ok]; auto|exact Hp]|].
          cbn [concat flat_map part_print]. rewrite Hc, H4. reflexivity. }
    destruct H as [parts [Hp Hc]]. exists parts. split; [exact Hp|]. rewrite Hc. reflexivity.
Qed.

(* what the loop knows about a part it printed while processing attribute list [attrs] *)
Definition part_wf (attrs : list attr) (p : part) : Prop :=
  match p with
  | PPlain a => prefixb pfx (a_name a) = false /\ has_attr_named attrs (pfx ++ a_name a) = false
  | PDyn a cmd v => a_name a = pfx ++ cmd /\ is_directive cmd = false /\
                    exists sc lg lg', aeval a sc lg = (AOk v, lg')
  end.

Lemma part_wf_ok : forall tok p, part_wf (t_attrs tok) p -> In (part_attr p) (t_attrs tok) -> part_ok tok p.
Proof.
  intros tok [a|a cmd v] Hwf Hin; cbn [part_wf part_ok part_attr] in *.
  - destruct Hwf as [H1 _]. auto.
  - destruct Hwf as (H1 & H2 & _). auto.
Qed.

(* where a recorded :text / :raw insertion comes from: an attribute of [src] named prefix++"text" / prefix++"raw" *)
Definition child_ok (src : list attr) (c : child_action) : Prop :=
  match c with
  | CText a esc => In a src /\ a_name a = pfx ++ (if esc then d_text else d_raw)
  | _ => True
  end.

Section Body.
Variable exec : N -> list node -> node -> scope -> bool -> tbl -> rst -> R.
Notation astep := (attr_step is_space is_letter is_udigit methods call_fn mgr exec).
Notation rattrs := (run_attrs is_space is_letter is_udigit methods call_fn mgr exec).
Notation rchild := (run_child is_space is_letter is_udigit methods call_fn mgr exec).
Notation ebody := (exec_body is_space to_lower is_letter is_udigit methods call_fn mgr exec).
Notation etag := (exec_tag is_space to_lower is_letter is_udigit methods call_fn mgr exec).
Notation ilstate := (init_lstate to_lower mgr).
Notation elist := (exec_list exec).
Notation econd := (eval_cond is_letter is_udigit methods call_fn mgr exec).
Notation cowner := (cond_owner is_letter is_udigit methods call_fn mgr exec).
Notation rowner := (range_owner is_space is_letter is_udigit methods call_fn exec).
Notation riter := (range_iter exec).
Notation rtemplate := (run_template exec).

(* ---------- the outputs of nested renders that end up in l_direct / l_content ---------- *)
Inductive nested (ctx : list node) (n : node) : str -> Prop :=
| N_nil : nested ctx n []
| N_app : forall x y, nested ctx n x -> nested ctx n y -> nested ctx n (x ++ y)
(* a re-execution of the element itself (mask 1: condition satisfied, mask 2: one range item) *)
| N_exec : forall m sc t st o t' st', m <> 0 ->
    exec m ctx n sc false t st = (o, ROk, t', st') -> nested ctx n o
(* the blank text behind a :range element, written between two instances *)
| N_sep : forall x, next_sibling ctx (n_id n) = Some x -> is_blank_text is_space x = true ->
    nested ctx n (match n_tok x with Some tk => t_value tk | None => [] end)
(* a fragment rendered for :insert / :replace *)
| N_tpl : forall name tp sc st o st', assoc name (m_templates mgr) = Some tp ->
    rtemplate tp sc st = (o, ROk, st') -> nested ctx n o.

(* what one step / the loop does to the state: l_np only grows, the tag buffer grows by d, l_direct and
   l_content grow by nested outputs *)
Record frame (ctx : list node) (n : node) (src : list attr) (ls ls' : lstate) (d : str) : Prop := mkFrame {
  fr_np : l_np ls = true -> l_np ls' = true;
  fr_tag : l_tagbuf ls' = l_tagbuf ls ++ d;
  fr_direct : exists o, l_direct ls' = l_direct ls ++ o /\ nested ctx n o;
  fr_content : exists o, l_content ls' = l_content ls ++ o /\ nested ctx n o;
  fr_child : child_ok src (l_child ls) -> child_ok src (l_child ls') }.

(* the recorded child action is kept, or becomes one that needs no source *)
Definition child_kept (ls ls' : lstate) : Prop :=
  l_child ls' = l_child ls \/ l_child ls' = CNop \/ exists sc, l_child ls' = CAllButFirst sc.
Lemma child_kept_ok : forall src ls ls', child_kept ls ls' -> child_ok src (l_child ls) -> child_ok src (l_child ls').
Proof. intros src ls ls' [H|[H|[sc H]]] Hc; rewrite H; [exact Hc|exact I|exact I]. Qed.

Lemma frame_same : forall ctx n src ls ls',
  (l_np ls = true -> l_np ls' = true) -> l_tagbuf ls' = l_tagbuf ls -> l_direct ls' = l_direct ls ->
  l_content ls' = l_content ls -> child_kept ls ls' -> frame ctx n src ls ls' [].
Proof.
  intros ctx n src ls ls' H1 H2 H3 H4 H5. constructor.
  - exact H1.
  - rewrite H2, app_nil_r. reflexivity.
  - exists []. rewrite H3, app_nil_r. split; [reflexivity|constructor].
  - exists []. rewrite H4, app_nil_r. split; [reflexivity|constructor].
  - apply child_kept_ok. exact H5.
Qed.

Lemma frame_refl : forall ctx n src ls, frame ctx n src ls ls [].
Proof. intros ctx n src ls. apply frame_same; auto. left. reflexivity. Qed.

Lemma frame_direct : forall ctx n src ls ls' o,
  (l_np ls = true -> l_np ls' = true) -> l_tagbuf ls' = l_tagbuf ls -> l_direct ls' = l_direct ls ++ o ->
  nested ctx n o -> l_content ls' = l_content ls -> child_kept ls ls' -> frame ctx n src ls ls' [].
Proof.
  intros ctx n src ls ls' o H1 H2 H3 Hn H4 H5. constructor.
  - exact H1.
  - rewrite H2, app_nil_r. reflexivity.
  - exists o. split; assumption.
  - exists []. rewrite H4, app_nil_r. split; [reflexivity|constructor].
  - apply child_kept_ok. exact H5.
Qed.

Lemma frame_trans : forall ctx n src a b c d1 d2,
  frame ctx n src a b d1 -> frame ctx n src b c d2 -> frame ctx n src a c (d1 ++ d2).
Proof.
  intros ctx n src a b c d1 d2 [A1 A2 [oa [A3 A3']] [ca [A4 A4']] A5] [B1 B2 [ob [B3 B3']] [cb [B4 B4']] B5]. constructor.
  - auto.
  - rewrite B2, A2, app_assoc. reflexivity.
  - exists (oa ++ ob). split; [rewrite B3, A3, app_assoc; reflexivity|constructor; assumption].
  - exists (ca ++ cb). split; [rewrite B4, A4, app_assoc; reflexivity|constructor; assumption].
  - auto.
Qed.

(* [child_kept] goals after  cbn [set_child l_child]  *)
Ltac kept := unfold child_kept; cbn [set_child add_direct add_tagbuf l_child]; eauto.

(* ---------- the directive steps that call the nested renderer ---------- *)
Lemma eval_cond_frame : forall src mask ctx n a ls t st ls' t' st',
  econd mask ctx n a ls t st = (inl ls', t', st') -> frame ctx n src ls ls' [].
Proof.
  intros src mask ctx n a ls t st ls' t' st' H. unfold eval_cond in H.
  destruct (aeval a (l_sc ls) (r_log st)) as [[s|c|] lg]; [|discriminate H|discriminate H].
  cbv zeta in H. destruct (str_eqb s s_true).
  - destruct (exec (N.lor mask 1) ctx n (l_sc ls) false (tbl_set t (n_id n) true) (set_log st lg))
      as [[[o r] t2] st2] eqn:E.
    destruct r; [|discriminate H|discriminate H].
    injection H as Hls Ht Hst. subst ls'.
    apply (frame_direct ctx n src ls _ o); cbn [add_direct set_child l_np l_tagbuf l_direct l_content]; auto; [|kept].
    apply (N_exec ctx n (N.lor mask 1) _ _ _ _ _ _) with (2 := E).
    intro H0. apply N.lor_eq_0_iff in H0. destruct H0 as [_ H0]. discriminate H0.
  - injection H as Hls Ht Hst. subst ls'.
    apply frame_same; cbn [set_child l_np l_tagbuf l_direct l_content]; auto. kept.
Qed.

Lemma cond_owner_frame : forall src mask ctx n a cmd ls t st ls' t' st',
  cowner mask ctx n a cmd ls t st = (inl ls', t', st') -> frame ctx n src ls ls' [].
Proof.
  intros src mask ctx n a cmd ls t st ls' t' st' H. unfold cond_owner in H.
  destruct (str_eqb cmd d_if); [exact (eval_cond_frame src _ _ _ _ _ _ _ _ _ _ H)|].
  destruct (match prev_tag ctx (n_id n) None with Some p => tbl_get t (n_id p) | None => None end) as [[|]|].
  - injection H as Hls Ht Hst. subst ls'.
    apply frame_same; cbn [set_child l_np l_tagbuf l_direct l_content]; auto. kept.
  - exact (eval_cond_frame src _ _ _ _ _ _ _ _ _ _ H).
  - discriminate H.
Qed.

Lemma range_iter_nested : forall mask ctx n idx item scope0 sep,
  (forall x, sep = Some x -> next_sibling ctx (n_id n) = Some x /\ is_blank_text is_space x = true) ->
  forall items first acc t st o t' st',
  riter mask ctx n idx item scope0 sep items first acc t st = (inl o, t', st') ->
  exists o', o = acc ++ o' /\ nested ctx n o'.
Proof.
  intros mask ctx n idx item scope0 sep Hsep items.
  induction items as [|[k v] more IH]; intros first acc t st o t' st' H; cbn [range_iter] in H.
  - injection H as Ho Ht Hst. subst o. exists []. rewrite app_nil_r. split; [reflexivity|constructor].
  - cbv zeta in H.
    destruct (exec (N.lor mask 2) ctx n (range_scope idx item k v scope0) false t st) as [[[o1 r] t2] st2] eqn:E.
    destruct r; [|discriminate H|discriminate H].
    apply IH in H. destruct H as [o' [Ho Hn]]. subst o.
    eexists. split; [rewrite <- !app_assoc; reflexivity|].
    constructor; [|constructor; [|exact Hn]].
    + destruct sep as [x|]; [|constructor]. destruct first; [constructor|].
      destruct (Hsep x eq_refl) as [H1 H2]. apply N_sep; assumption.
    + apply (N_exec ctx n (N.lor mask 2) _ _ _ _ _ _) with (2 := E).
      intro H0. apply N.lor_eq_0_iff in H0. destruct H0 as [_ H0]. discriminate H0.
Qed.

Lemma range_owner_frame : forall src mask ctx n av ls t st ls' t' st',
  rowner mask ctx n av ls t st = (inl ls', t', st') -> frame ctx n src ls ls' [].
Proof.
  intros src mask ctx n av ls t st ls' t' st' H. unfold range_owner in H.
  destruct (extract_range is_space (strip_quotes av)) as [[idx item] obj].
  destruct (parse_code is_letter is_udigit obj) as [e|]; [|discriminate H].
  cbv zeta in H.
  destruct (eval_text is_letter is_udigit methods call_fn (with_default (l_sc ls)) obj (r_log st)) as [[v|c|] lg];
    [|discriminate H|discriminate H].
  destruct (range_items v) as [items|]; [|discriminate H].
  match type of H with (match ?X with _ => _ end) = _ => destruct X as [[[o|r] t2] st2] eqn:E end; [|discriminate H].
  injection H as Hls Ht Hst. subst ls'.
  apply range_iter_nested in E.
  - destruct E as [o' [Ho Hn]]. cbn [app] in Ho. subst o'.
    apply (frame_direct ctx n src ls _ o); cbn [add_direct l_np l_tagbuf l_direct l_content]; auto. kept.
  - intros x Hx. destruct (next_sibling ctx (n_id n)) as [y|]; [|discriminate Hx].
    destruct (is_blank_text is_space y) eqn:Eb; [|discriminate Hx].
    injection Hx as Hx. subst y. auto.
Qed.

Lemma remove_step_frame : forall ctx n src a ls, frame ctx n src ls (remove_step a ls) [].
Proof.
  intros ctx n src a ls. unfold remove_step. cbv zeta.
  destruct (existsb (str_eqb match a_value a with Some v => v | None => [] end) (remove_values s_all));
    [apply frame_same; cbn [l_np l_tagbuf l_direct l_content]; auto; kept|].
  destruct (existsb (str_eqb match a_value a with Some v => v | None => [] end) (remove_values s_body));
    [apply frame_same; cbn [set_child l_np l_tagbuf l_direct l_content]; auto; kept|].
  destruct (existsb (str_eqb match a_value a with Some v => v | None => [] end) (remove_values s_tag));
    [apply frame_same; cbn [l_np l_tagbuf l_direct l_content]; auto; kept|].
  destruct (existsb (str_eqb match a_value a with Some v => v | None => [] end) (remove_values s_abf));
    [|apply frame_refl].
  destruct (l_child ls); try apply frame_refl.
  apply frame_same; cbn [set_child l_np l_tagbuf l_direct l_content]; auto. kept.
Qed.

(* ---------- ONE STEP of the attribute loop ---------- *)
(* what the step printed: nothing, or one part for the attribute a *)
Definition step_part (attrs : list attr) (a : attr) (d : option part) : Prop :=
  match d with None => True | Some p => part_attr p = a /\ part_wf attrs p end.

Theorem attr_step_frame : forall src mask ctx n attrs a ls t st ls' t' st',
  In a src ->
  astep mask ctx n attrs a ls t st = (inl ls', t', st') ->
  exists d, frame ctx n src ls ls' (opt_print d) /\ step_part attrs a d.
Proof.
  intros src mask ctx n attrs a ls t st ls' t' st' Hsrc H. unfold attr_step in H. cbv zeta in H. unfold prefix in H.
  destruct (prefixb pfx (a_name a)) eqn:Ep.
  - (* a prefixed attribute *)
    pose proof (prefixb_split _ _ Ep) as Hname.
    remember (skipn (length pfx) (a_name a)) as cmd eqn:Hcmd. clear Hcmd.
    destruct (str_eqb cmd d_with) eqn:E1.
    { exists None. split; [|exact I]. cbn [opt_print].
      destruct (negb (N.eqb mask 0)).
      - injection H as Hls Ht Hst. subst ls'. apply frame_refl.
      - destruct (with_assign is_space is_letter is_udigit methods call_fn mgr a (l_sc ls) (r_log st)) as [[sc'|e] lg];
          [|discriminate H].
        injection H as Hls Ht Hst. subst ls'. apply frame_same; cbn [l_np l_tagbuf l_direct l_content]; auto. kept. }
    destruct (is_cond_name cmd) eqn:E2.
    { exists None. split; [|exact I]. cbn [opt_print].
      destruct (a_value a) as [v|]; [|discriminate H].
      destruct (negb (N.eqb (N.land mask 1) 0)).
      - injection H as Hls Ht Hst. subst ls'. apply frame_refl.
      - exact (cond_owner_frame src _ _ _ _ _ _ _ _ _ _ _ H). }
    destruct (str_eqb cmd d_range) eqn:E3.
    { exists None. split; [|exact I]. cbn [opt_print].
      destruct (a_value a) as [v|]; [|discriminate H].
      destruct (negb (N.eqb (N.land mask 2) 0)).
      - injection H as Hls Ht Hst. subst ls'. apply frame_refl.
      - exact (range_owner_frame src _ _ _ _ _ _ _ _ _ _ H). }
    destruct (str_eqb cmd d_remove) eqn:E4.
    { exists None. split; [|exact I]. cbn [opt_print].
      injection H as Hls Ht Hst. subst ls'. apply remove_step_frame. }
    destruct (str_eqb cmd d_text || str_eqb cmd d_raw) eqn:E5.
    { exists None. split; [|exact I]. cbn [opt_print].
      destruct (l_child ls) eqn:Ech; injection H as Hls Ht Hst; subst ls'; try apply frame_refl.
      constructor; cbn [set_child l_np l_tagbuf l_direct l_content l_child].
      - auto.
      - rewrite app_nil_r. reflexivity.
      - exists []. rewrite app_nil_r. split; [reflexivity|constructor].
      - exists []. rewrite app_nil_r. split; [reflexivity|constructor].
      - intros _. split; [exact Hsrc|]. rewrite Hname. f_equal.
        destruct (str_eqb cmd d_text) eqn:Et; [exact (seqb_eq _ _ Et)|].
        cbn [orb] in E5. exact (seqb_eq _ _ E5). }
    destruct (str_eqb cmd d_define) eqn:E6.
    { exists None. split; [|exact I]. cbn [opt_print].
      injection H as Hls Ht Hst. subst ls'. apply frame_refl. }
    destruct (str_eqb cmd d_replace || str_eqb cmd d_insert) eqn:E7.
    { exists None. split; [|exact I]. cbn [opt_print].
      destruct (aeval a (l_sc ls) (r_log st)) as [[name|c|] lg]; [|discriminate H|discriminate H].
      destruct (assoc name (m_templates mgr)) as [tp|] eqn:Ea; [|discriminate H].
      destruct (rtemplate tp (l_sc ls) (set_log st lg)) as [[o r] st2] eqn:Er.
      destruct r; [|discriminate H|discriminate H].
      injection H as Hls Ht Hst. subst ls'.
      pose proof (N_tpl ctx n name tp _ _ _ _ Ea Er) as Hn.
      destruct (l_replace ls || str_eqb cmd d_replace).
      - apply (frame_direct ctx n src ls _ o); cbn [l_np l_tagbuf l_direct l_content]; auto.
        left. reflexivity.
      - constructor; cbn [l_np l_tagbuf l_direct l_content l_child].
        + auto.
        + rewrite app_nil_r. reflexivity.
        + exists []. rewrite app_nil_r. split; [reflexivity|constructor].
        + exists o. split; [reflexivity|exact Hn].
        + auto. }
    (* a dynamic attribute *)
    destruct (aeval a (l_sc ls) (r_log st)) as [[v|c|] lg] eqn:Ev; [|discriminate H|discriminate H].
    injection H as Hls Ht Hst. subst ls'.
    exists (Some (PDyn a cmd v)). split.
    + constructor; cbn [add_tagbuf l_np l_tagbuf l_direct l_content l_child opt_print part_print].
      * auto.
      * reflexivity.
      * exists []. rewrite app_nil_r. split; [reflexivity|constructor].
      * exists []. rewrite app_nil_r. split; [reflexivity|constructor].
      * auto.
    + cbn [step_part part_attr part_wf]. split; [reflexivity|]. split; [exact Hname|].
      split; [apply not_directive_intro; assumption|].
      exists (l_sc ls), (r_log st), lg. exact Ev.
  - (* a plain attribute *)
    destruct (has_attr_named attrs (pfx ++ a_name a)) eqn:Eh.
    + injection H as Hls Ht Hst. subst ls'. exists None. split; [apply frame_refl|exact I].
    + injection H as Hls Ht Hst. subst ls'. exists (Some (PPlain a)). split.
      * constructor; cbn [add_tagbuf l_np l_tagbuf l_direct l_content l_child opt_print part_print].
        -- auto.
        -- reflexivity.
        -- exists []. rewrite app_nil_r. split; [reflexivity|constructor].
        -- exists []. rewrite app_nil_r. split; [reflexivity|constructor].
        -- auto.
      * cbn [step_part part_attr part_wf]. auto.
Qed.

(* the same, read on the tag buffer only: the step leaves it, appends the print of the plain attribute a, or
   appends the print of the dynamic attribute a (the other outcome is a failure  inr _ ) *)
Corollary attr_step_tagbuf_cases : forall mask ctx n attrs a ls t st ls' t' st',
  astep mask ctx n attrs a ls t st = (inl ls', t', st') ->
  l_tagbuf ls' = l_tagbuf ls \/
  (prefixb pfx (a_name a) = false /\ has_attr_named attrs (pfx ++ a_name a) = false /\
   l_tagbuf ls' = l_tagbuf ls ++ print_attr a) \/
  (exists cmd v, a_name a = pfx ++ cmd /\ is_directive cmd = false /\
     (exists sc lg lg', aeval a sc lg = (AOk v, lg')) /\
     l_tagbuf ls' = l_tagbuf ls ++ [cSP] ++ cmd ++ [cEQ; cDQ] ++ escape v ++ [cDQ]).
Proof.
  intros mask ctx n attrs a ls t st ls' t' st' H.
  apply (attr_step_frame [a]) in H; [|left; reflexivity]. destruct H as [d [Hf Hd]].
  pose proof (fr_tag _ _ _ _ _ _ Hf) as Ht. destruct d as [[b|b cmd v]|]; cbn [opt_print part_print step_part part_attr part_wf] in *.
  - destruct Hd as [Hb [H1 H2]]. subst b. right; left. auto.
  - destruct Hd as [Hb (H1 & H2 & H3)]. subst b. right; right. exists cmd, v. auto.
  - left. rewrite Ht, app_nil_r. reflexivity.
Qed.

(* ---------- THE LOOP over any attribute list ---------- *)
Theorem run_attrs_frame : forall src mask ctx n attrs l ls t st ls' t' st',
  incl l src ->
  rattrs mask ctx n attrs l ls t st = (inl ls', t', st') ->
  exists parts, frame ctx n src ls ls' (flat_map part_print parts) /\
                subseq (map part_attr parts) l /\ Forall (part_wf attrs) parts.
Proof.
  intros src mask ctx n attrs l. induction l as [|a rest IH]; intros ls t st ls' t' st' Hincl H; cbn [run_attrs] in H.
  - injection H as Hls Ht Hst. subst ls'. exists []. split; [apply frame_refl|]. split; constructor.
  - destruct (astep mask ctx n attrs a ls t st) as [[[ls1|e] t1] st1] eqn:Es; [|discriminate H].
    apply (attr_step_frame src) in Es; [|apply Hincl; left; reflexivity]. destruct Es as [d [Hf Hd]].
    assert (Hrest : incl rest src) by (intros x Hx; apply Hincl; right; exact Hx).
    assert (Hhere : exists parts, frame ctx n src ls ls1 (flat_map part_print parts) /\
                      subseq (map part_attr parts) [a] /\ Forall (part_wf attrs) parts).
    { destruct d as [p|]; cbn [opt_print step_part] in *.
      - destruct Hd as [Hpa Hwf]. exists [p]. cbn [flat_map map]. rewrite app_nil_r. split; [exact Hf|].
        split; [rewrite Hpa; apply ss_take; apply ss_nil|constructor; [exact Hwf|constructor]].
      - exists []. split; [exact Hf|]. split; constructor. }
    destruct Hhere as [p1 (Hf1 & Hs1 & Hw1)].
    assert (Hgrow : forall p2, subseq (map part_attr p2) rest -> subseq (map part_attr (p1 ++ p2)) (a :: rest)).
    { intros p2 Hs2. rewrite map_app. inversion Hs1 as [l0 E0|x s0 l0 Hs0 E0|x s0 l0 Hs0 E0]; subst.
      - cbn [app]. apply ss_skip. exact Hs2.
      - inversion Hs0; subst. cbn [app]. apply ss_skip. exact Hs2.
      - inversion Hs0; subst. cbn [app]. apply ss_take. exact Hs2. }
    destruct (is_owner mgr mask a).
    + injection H as Hls Ht Hst. subst ls1. exists p1. split; [exact Hf1|]. split; [|exact Hw1].
      rewrite <- (app_nil_r p1). apply Hgrow. apply ss_nil.
    + apply IH in H; [|exact Hrest]. destruct H as [p2 (Hf2 & Hs2 & Hw2)]. exists (p1 ++ p2).
      split; [rewrite flat_map_app; exact (frame_trans _ _ _ _ _ _ _ _ Hf1 Hf2)|].
      split; [apply Hgrow; exact Hs2|apply Forall_app; split; assumption].
Qed.

(* 1. the invariant: starting from init_lstate, after the loop over ANY list of attributes of the token,
      the tag buffer has tag_shape *)
Theorem run_attrs_tag_shape : forall mask ctx n tok l sc t st ls t' st',
  incl l (t_attrs tok) ->
  rattrs mask ctx n (t_attrs tok) l (ilstate mask tok sc) t st = (inl ls, t', st') ->
  tag_shape tok (l_tagbuf ls).
Proof.
  intros mask ctx n tok l sc t st ls t' st' Hincl H.
  apply (run_attrs_frame (t_attrs tok)) in H; [|exact Hincl]. destruct H as [parts (Hf & Hs & Hw)].
  exists parts. split.
  - apply Forall_forall. intros p Hp. rewrite Forall_forall in Hw. apply part_wf_ok; [exact (Hw p Hp)|].
    apply Hincl. apply (subseq_in _ _ _ _ Hs). apply in_map. exact Hp.
  - rewrite (fr_tag _ _ _ _ _ _ Hf). reflexivity.
Qed.

(* an intermediate state of the loop as well: the invariant is preserved by every prefix of the loop *)
Corollary run_attrs_tag_shape_inv : forall mask ctx n tok l ls t st ls' t' st',
  incl l (t_attrs tok) -> tag_shape tok (l_tagbuf ls) ->
  rattrs mask ctx n (t_attrs tok) l ls t st = (inl ls', t', st') ->
  tag_shape tok (l_tagbuf ls').
Proof.
  intros mask ctx n tok l ls t st ls' t' st' Hincl [p0 [Hp0 Hb0]] H.
  apply (run_attrs_frame (t_attrs tok)) in H; [|exact Hincl]. destruct H as [parts (Hf & Hs & Hw)].
  exists (p0 ++ parts). split.
  - apply Forall_app. split; [exact Hp0|].
    apply Forall_forall. intros p Hp. rewrite Forall_forall in Hw. apply part_wf_ok; [exact (Hw p Hp)|].
    apply Hincl. apply (subseq_in _ _ _ _ Hs). apply in_map. exact Hp.
  - rewrite (fr_tag _ _ _ _ _ _ Hf), Hb0, flat_map_app. cbn [app]. rewrite <- app_assoc. reflexivity.
Qed.

Lemma init_tag_shape : forall mask tok sc, tag_shape tok (l_tagbuf (ilstate mask tok sc)).
Proof. intros mask tok sc. exists []. split; [constructor|]. cbn [init_lstate l_tagbuf flat_map]. rewrite app_nil_r. reflexivity. Qed.

Lemma np_monotone : forall mask ctx n attrs l ls t st ls' t' st',
  rattrs mask ctx n attrs l ls t st = (inl ls', t', st') -> l_np ls = true -> l_np ls' = true.
Proof.
  intros mask ctx n attrs l ls t st ls' t' st' H. apply (run_attrs_frame l) in H; [|apply incl_refl].
  destruct H as [parts (Hf & _)]. exact (fr_np _ _ _ _ _ _ Hf).
Qed.

(* ---------- 2. what exec_body writes for a tag node ---------- *)
(* the element's own open tag, as written *)
Definition own_open (ls : lstate) : str := if l_np ls then [] else l_tagbuf ls ++ [cGT].
Definition own_end (n : node) (ls : lstate) (top : bool) (t : tbl) (st : rst) : R :=
  match n_end n with
  | Some e => if l_np ls then ([], ROk, t, st) else wr top (t_value e) t st
  | None => ([], ROk, t, st)
  end.

Lemma token_buf_own : forall ls,
  token_buf ls = l_direct ls ++ own_open ls ++ (if l_np ls then [] else l_content ls).
Proof. intros ls. unfold token_buf, own_open. destruct (l_np ls); [reflexivity|]. rewrite <- app_assoc. reflexivity. Qed.

(* the final state of the loop of exec_tag: everything that is known about it *)
Record final_state (ctx : list node) (n : node) (tok : token) (mask : N) (sc : scope) (ls : lstate) : Prop := mkFinal {
  fs_shape : tag_shape tok (l_tagbuf ls);
  fs_parts : exists parts, l_tagbuf ls = cLT :: t_name tok ++ flat_map part_print parts /\
               subseq (map part_attr parts) (sorted_attrs pfx (t_attrs tok)) /\
               Forall (part_wf (t_attrs tok)) parts;
  fs_np : l_np (ilstate mask tok sc) = true -> l_np ls = true;
  fs_direct : nested ctx n (l_direct ls);
  fs_content : nested ctx n (l_content ls);
  fs_child : child_ok (t_attrs tok) (l_child ls) }.

Theorem exec_tag_final_state : forall mask ctx n tok sc t st ls t' st',
  rattrs mask ctx n (t_attrs tok) (sorted_attrs pfx (t_attrs tok)) (ilstate mask tok sc) t st = (inl ls, t', st') ->
  final_state ctx n tok mask sc ls.
Proof.
  intros mask ctx n tok sc t st ls t' st' H.
  assert (Hincl : incl (sorted_attrs pfx (t_attrs tok)) (t_attrs tok)).
  { intros x Hx. apply in_sorted_attrs in Hx. exact Hx. }
  pose proof (run_attrs_tag_shape _ _ _ _ _ _ _ _ _ _ _ Hincl H) as Hshape.
  apply (run_attrs_frame (t_attrs tok)) in H; [|exact Hincl]. destruct H as [parts (Hf & Hs & Hw)].
  destruct Hf as [F1 F2 [od [F3 F3']] [oc [F4 F4']] F5].
  constructor.
  - exact Hshape.
  - exists parts. split; [rewrite F2; reflexivity|]. split; assumption.
  - exact F1.
  - rewrite F3. cbn [init_lstate l_direct app]. exact F3'.
  - rewrite F4. cbn [init_lstate l_content app]. exact F4'.
  - apply F5. unfold init_lstate. cbv zeta. cbn [l_child].
    destruct (_ || _ || _ || _); exact I.
Qed.

Theorem open_tag_written_shape : forall mask ctx n tok sc top t st,
  n_tok n = Some tok -> t_kind tok = KTag ->
  match rattrs mask ctx n (t_attrs tok) (sorted_attrs pfx (t_attrs tok)) (ilstate mask tok sc) t st with
  | (inr r, t', st') =>
      (* the attribute loop failed: nothing is written, not even an empty Write *)
      ebody mask ctx n sc top t st = ([], r, t', st')
  | (inl ls, t', st') =>
      final_state ctx n tok mask sc ls /\
      ebody mask ctx n sc top t st =
        seq2 (wr top (l_direct ls ++ own_open ls ++ (if l_np ls then [] else l_content ls)) t' st')
          (fun t2 st2 => seq2 (rchild n ls top t2 st2) (own_end n ls top))
  end.
Proof.
  intros mask ctx n tok sc top t st Htok Hkind.
  destruct (rattrs mask ctx n (t_attrs tok) (sorted_attrs pfx (t_attrs tok)) (ilstate mask tok sc) t st)
    as [[[ls|r] t'] st'] eqn:E.
  - split; [exact (exec_tag_final_state _ _ _ _ _ _ _ _ _ _ E)|].
    unfold exec_body. rewrite Htok, Hkind. unfold exec_tag, prefix. rewrite E, token_buf_own. reflexivity.
  - unfold exec_body. rewrite Htok, Hkind. unfold exec_tag, prefix. rewrite E. reflexivity.
Qed.

Lemma write_ok_data : forall top s st o st1, write top s st = (o, ROk, st1) -> o = s.
Proof.
  intros top s st o st1 H. unfold write in H.
  destruct top; [destruct (r_budget st) as [[|k]|]|]; inversion H; reflexivity.
Qed.

(* as an explicit output: when the render of the element succeeds, its output is
     nested renders ++ own open tag ++ nested fragments ++ children part ++ end token *)
Corollary open_tag_written_out : forall mask ctx n tok sc top t st ls t' st' o tf stf,
  n_tok n = Some tok -> t_kind tok = KTag ->
  rattrs mask ctx n (t_attrs tok) (sorted_attrs pfx (t_attrs tok)) (ilstate mask tok sc) t st = (inl ls, t', st') ->
  ebody mask ctx n sc top t st = (o, ROk, tf, stf) ->
  exists st1 oc t3 st3 oe,
    final_state ctx n tok mask sc ls /\
    rchild n ls top t' st1 = (oc, ROk, t3, st3) /\
    own_end n ls top t3 st3 = (oe, ROk, tf, stf) /\
    (oe = [] \/ exists e, n_end n = Some e /\ l_np ls = false /\ oe = t_value e) /\
    o = l_direct ls ++ own_open ls ++ (if l_np ls then [] else l_content ls) ++ oc ++ oe.
Proof.
  intros mask ctx n tok sc top t st ls t' st' o tf stf Htok Hkind E Hres.
  pose proof (open_tag_written_shape mask ctx n tok sc top t st Htok Hkind) as H.
  rewrite E in H. destruct H as [Hfin Hb]. rewrite Hb in Hres. clear Hb.
  unfold wr in Hres.
  destruct (write top (l_direct ls ++ own_open ls ++ (if l_np ls then [] else l_content ls)) st') as [[o1 r1] st1] eqn:Ew.
  destruct r1; cbn [seq2] in Hres; [|discriminate Hres|discriminate Hres].
  destruct (rchild n ls top t' st1) as [[[oc rc] t3] st3] eqn:Ec.
  destruct rc; cbn [seq2] in Hres; [|discriminate Hres|discriminate Hres].
  destruct (own_end n ls top t3 st3) as [[[oe re] t4] st4] eqn:Ee.
  injection Hres as Ho Hr Ht Hst. subst re t4 st4.
  apply write_ok_data in Ew. subst o1.
  exists st1, oc, t3, st3, oe.
  split; [exact Hfin|]. split; [exact Ec|]. split; [exact Ee|]. split.
  - unfold own_end in Ee. destruct (n_end n) as [e|]; [|left; injection Ee as <- _ _; reflexivity].
    destruct (l_np ls) eqn:Enp; [left; injection Ee as <- _ _; reflexivity|].
    right. exists e. split; [reflexivity|]. split; [reflexivity|].
    unfold wr in Ee. destruct (write top (t_value e) st3) as [[o2 r2] st5] eqn:Ew2.
    injection Ee as Ho2 Hr2 _ _. subst r2 o2. exact (write_ok_data _ _ _ _ _ Ew2).
  - subst o. rewrite <- !app_assoc. reflexivity.
Qed.

(* what the children part is: nothing; a selection of the children rendered by [exec]; the value of :text
   (escaped) / :raw (verbatim); or a failure that writes nothing *)
Lemma run_child_cases : forall n ls top t st,
  rchild n ls top t st = ([], ROk, t, st) \/
  (exists sel csc, (forall c, In c sel -> In c (n_children n)) /\
     rchild n ls top t st = elist (n_children n) sel csc top t st) \/
  (exists a esc v lg, l_child ls = CText a esc /\ aeval a (l_sc ls) (r_log st) = (AOk v, lg) /\
     rchild n ls top t st = wr top (if esc then escape v else v) t (set_log st lg)) \/
  (exists r lg, r <> ROk /\ rchild n ls top t st = ([], r, t, set_log st lg)).
Proof.
  intros n ls top t st. unfold run_child. destruct (l_child ls) as [| |a esc|csc].
  - right; left. exists (n_children n), (l_sc ls). split; [auto|reflexivity].
  - left. reflexivity.
  - destruct (aeval a (l_sc ls) (r_log st)) as [[v|c|] lg] eqn:Ev.
    + right; right; left. exists a, esc, v, lg. auto.
    + right; right; right. exists (RErr c), lg. split; [discriminate|reflexivity].
    + right; right; right. exists RUnmodelled, lg. split; [discriminate|reflexivity].
  - right; left. exists (abf_children is_space (n_children n)), csc. split; [|reflexivity].
    intros c Hc. exact (abf_children_in is_space _ c Hc).
Qed.

(* ---------- 4. block tags and the other suppressed tags ---------- *)
(* whenever the pre-checks of processTagStart suppress the tag (block tag; :define / :replace; the invocation that
   owns an if/else or a :range), no open tag and no end tag is written for the element: one Write with the
   outputs of the nested renders, then the children part *)
Theorem np_prints_no_tag : forall mask ctx n tok sc top t st,
  n_tok n = Some tok -> t_kind tok = KTag -> l_np (ilstate mask tok sc) = true ->
  ebody mask ctx n sc top t st =
    match rattrs mask ctx n (t_attrs tok) (sorted_attrs pfx (t_attrs tok)) (ilstate mask tok sc) t st with
    | (inr r, t', st') => ([], r, t', st')
    | (inl ls, t', st') => seq2 (wr top (l_direct ls) t' st') (rchild n ls top)
    end.
Proof.
  intros mask ctx n tok sc top t st Htok Hkind Hnp.
  pose proof (open_tag_written_shape mask ctx n tok sc top t st Htok Hkind) as H.
  destruct (rattrs mask ctx n (t_attrs tok) (sorted_attrs pfx (t_attrs tok)) (ilstate mask tok sc) t st)
    as [[[ls|r] t'] st'] eqn:E; [|exact H].
  destruct H as [Hfin Hb]. rewrite Hb. pose proof (fs_np _ _ _ _ _ _ Hfin Hnp) as Hnp'.
  unfold own_open, own_end. rewrite Hnp'. cbn [app]. rewrite app_nil_r.
  apply seq2_ext. intros t2 st2. apply seq2_nil_tail. intros t3 st3. destruct (n_end n); reflexivity.
Qed.

Definition is_block_tag (tok : token) : bool := str_eqb (block_key to_lower (t_name tok)) (m_tag_prefix mgr ++ d_block).

Lemma block_tag_np : forall mask tok sc, is_block_tag tok = true -> l_np (ilstate mask tok sc) = true.
Proof. intros mask tok sc H. unfold is_block_tag in H. unfold init_lstate. cbv zeta. cbn [l_np]. rewrite H. reflexivity. Qed.

Theorem block_tag_prints_no_tag : forall mask ctx n tok sc top t st,
  n_tok n = Some tok -> t_kind tok = KTag -> is_block_tag tok = true ->
  ebody mask ctx n sc top t st =
    match rattrs mask ctx n (t_attrs tok) (sorted_attrs pfx (t_attrs tok)) (ilstate mask tok sc) t st with
    | (inr r, t', st') => ([], r, t', st')
    | (inl ls, t', st') => seq2 (wr top (l_direct ls) t' st') (rchild n ls top)
    end.
Proof.
  intros mask ctx n tok sc top t st Htok Hkind Hb.
  apply np_prints_no_tag; [exact Htok|exact Hkind|apply block_tag_np; exact Hb].
Qed.

(* the usual block tag, without attributes: one empty Write, then the children in the same scope *)
Corollary block_tag_plain : forall mask ctx n tok sc top t st,
  n_tok n = Some tok -> t_kind tok = KTag -> is_block_tag tok = true -> t_attrs tok = [] ->
  ebody mask ctx n sc top t st = seq2 (wr top [] t st) (elist (n_children n) (n_children n) sc top).
Proof.
  intros mask ctx n tok sc top t st Htok Hkind Hb Ha.
  rewrite (block_tag_prints_no_tag mask ctx n tok sc top t st Htok Hkind Hb). rewrite Ha.
  unfold sorted_attrs. cbn [fold_left rev run_attrs].
  unfold init_lstate. rewrite Ha. cbv zeta. cbn [l_direct].
  apply seq2_ext. intros t2 st2. unfold run_child. cbn [l_child l_sc].
  unfold has_dir, has_attr_named. cbn [existsb orb andb]. reflexivity.
Qed.
End Body.

(* ---------- 3. the printed attribute names ---------- *)
(* every printed part is  ' ' name tail  with tail empty or '=' ...; the name is the name of a plain attribute of the
   token, or cmd for an attribute prefix++cmd of the token whose cmd is not a directive name *)
Definition name_ok (tok : token) (p : part) : Prop :=
  part_print p = cSP :: part_name p ++ part_tail p /\
  (part_tail p = [] \/ exists w, part_tail p = cEQ :: w) /\
  ((exists a, In a (t_attrs tok) /\ a_name a = part_name p /\ prefixb pfx (part_name p) = false) \/
   (exists a, In a (t_attrs tok) /\ a_name a = pfx ++ part_name p /\ is_directive (part_name p) = false)).

Lemma part_ok_name_ok : forall tok p, part_ok tok p -> name_ok tok p.
Proof.
  intros tok p Hok. split; [apply part_print_name|]. split; [apply part_tail_cases|].
  destruct p as [a|a cmd v]; cbn [part_ok part_name] in *.
  - left. exists a. destruct Hok as [H1 H2]. auto.
  - right. exists a. destruct Hok as (H1 & H2 & H3). auto.
Qed.

Theorem no_directive_attr_printed : forall tok buf, tag_shape tok buf ->
  exists parts, buf = cLT :: t_name tok ++ flat_map part_print parts /\ Forall (name_ok tok) parts.
Proof.
  intros tok buf [parts [Hok Hbuf]]. exists parts. split; [exact Hbuf|].
  apply Forall_forall. intros p Hp. rewrite Forall_forall in Hok. apply part_ok_name_ok. exact (Hok p Hp).
Qed.

(* a printed name starts with the prefix only when the source attribute is  prefix ++ prefix ++ rest *)
Theorem printed_name_prefixed : forall tok p, part_ok tok p -> prefixb pfx (part_name p) = true ->
  exists a rest, In a (t_attrs tok) /\ a_name a = pfx ++ pfx ++ rest /\ part_name p = pfx ++ rest /\
                 is_directive (pfx ++ rest) = false.
Proof.
  intros tok [a|a cmd v] Hok Hp; cbn [part_ok part_name] in *.
  - destruct Hok as [_ H2]. rewrite H2 in Hp. discriminate Hp.
  - destruct Hok as (H1 & H2 & H3). pose proof (prefixb_split _ _ Hp) as Hc.
    exists a, (skipn (length pfx) cmd). rewrite <- Hc. auto.
Qed.

(* in particular a directive attribute name  prefix++d  is printed only for a source attribute prefix++prefix++d *)
Corollary printed_directive_name : forall tok p d, part_ok tok p -> part_name p = pfx ++ d ->
  exists a, In a (t_attrs tok) /\ a_name a = pfx ++ pfx ++ d.
Proof.
  intros tok p d Hok Hn.
  assert (Hp : prefixb pfx (part_name p) = true) by (rewrite Hn; apply prefixb_app).
  destruct (printed_name_prefixed tok p Hok Hp) as [a [rest (H1 & H2 & H3 & _)]].
  rewrite Hn in H3. apply app_inv_head in H3. subst rest. exists a. auto.
Qed.

(* the special case: no attribute of the token is named  prefix ++ prefix ++ ... *)
Theorem no_prefixed_name_printed : forall tok buf,
  (forall a, In a (t_attrs tok) -> prefixb (pfx ++ pfx) (a_name a) = false) ->
  tag_shape tok buf ->
  exists parts, buf = cLT :: t_name tok ++ flat_map part_print parts /\ Forall (name_ok tok) parts /\
                Forall (fun p => prefixb pfx (part_name p) = false) parts.
Proof.
  intros tok buf Hno [parts [Hok Hbuf]]. exists parts. split; [exact Hbuf|].
  rewrite Forall_forall in Hok. split.
  - apply Forall_forall. intros p Hp. apply part_ok_name_ok. exact (Hok p Hp).
  - apply Forall_forall. intros p Hp. destruct (prefixb pfx (part_name p)) eqn:E; [|reflexivity].
    destruct (printed_name_prefixed tok p (Hok p Hp) E) as [a [rest (H1 & H2 & _)]].
    specialize (Hno a H1). rewrite H2, app_assoc, prefixb_app in Hno. discriminate Hno.
Qed.

(* ---------- 4. hidden comments ---------- *)
(* a hidden comment: ONE Write call with empty data (the model does not skip the call) *)
Theorem hidden_comment_prints_nothing : forall exec mask ctx n tok sc top t st,
  n_tok n = Some tok -> t_kind tok = KComment -> is_hidden_comment is_space (t_value tok) = true ->
  exec_body is_space to_lower is_letter is_udigit methods call_fn mgr exec mask ctx n sc top t st = wr top [] t st.
Proof.
  intros exec mask ctx n tok sc top t st Htok Hkind Hh. unfold exec_body. rewrite Htok, Hkind, Hh. reflexivity.
Qed.

Corollary hidden_comment_out : forall exec mask ctx n tok sc top t st,
  n_tok n = Some tok -> t_kind tok = KComment -> is_hidden_comment is_space (t_value tok) = true ->
  RenderPlain.wok top st ->
  exec_body is_space to_lower is_letter is_udigit methods call_fn mgr exec mask ctx n sc top t st = ([], ROk, t, st).
Proof.
  intros exec mask ctx n tok sc top t st Htok Hkind Hh Hw.
  rewrite (hidden_comment_prints_nothing exec mask ctx n tok sc top t st Htok Hkind Hh). apply wr_ok. exact Hw.
Qed.

(* with a top-level writer whose budget is exhausted the empty Write fails: the only observable trace *)
Corollary hidden_comment_exhausted : forall exec mask ctx n tok sc t st,
  n_tok n = Some tok -> t_kind tok = KComment -> is_hidden_comment is_space (t_value tok) = true ->
  r_budget st = Some O ->
  exec_body is_space to_lower is_letter is_udigit methods call_fn mgr exec mask ctx n sc true t st = ([], RErr RWriter, t, st).
Proof.
  intros exec mask ctx n tok sc t st Htok Hkind Hh Hb.
  rewrite (hidden_comment_prints_nothing exec mask ctx n tok sc true t st Htok Hkind Hh).
  unfold wr, write. rewrite Hb. reflexivity.
Qed.

(* any other comment is written as it is *)
Lemma shown_comment_verbatim : forall exec mask ctx n tok sc top t st,
  n_tok n = Some tok -> t_kind tok = KComment -> is_hidden_comment is_space (t_value tok) = false ->
  exec_body is_space to_lower is_letter is_udigit methods call_fn mgr exec mask ctx n sc top t st = wr top (t_value tok) t st.
Proof.
  intros exec mask ctx n tok sc top t st Htok Hkind Hh. unfold exec_body. rewrite Htok, Hkind, Hh. reflexivity.
Qed.
End NoDir.

Print Assumptions attr_step_frame.
Print Assumptions attr_step_tagbuf_cases.
Print Assumptions run_attrs_frame.
Print Assumptions run_attrs_tag_shape.
Print Assumptions open_tag_written_shape.
Print Assumptions open_tag_written_out.
Print Assumptions no_directive_attr_printed.
Print Assumptions printed_name_prefixed.
Print Assumptions no_prefixed_name_printed.
Print Assumptions np_prints_no_tag.
Print Assumptions block_tag_prints_no_tag.
Print Assumptions block_tag_plain.
Print Assumptions hidden_comment_prints_nothing.
Print Assumptions hidden_comment_out.
